#!/usr/bin/env python3
"""dev helper: trymut.py Cxx file 'old' 'new' [file old new ...] — applies textual replacements to /repo, checks it still builds,
runs ./check Cxx quick, prints VIOLATION lines, reverts (git checkout)."""
import sys, subprocess
prop=sys.argv[1]; rest=sys.argv[2:]
files=set()
try:
    for i in range(0,len(rest),3):
        f,old,new=rest[i:i+3]
        p='/repo/'+f; s=open(p).read()
        assert s.count(old)>=1, f"pattern not found in {f}: {old[:40]}"
        s=s.replace(old,new,1); open(p,'w').write(s); files.add(f)
    b=subprocess.run("cd /repo && go build ./... 2>&1 | head -5",shell=True,capture_output=True,text=True)
    if b.stdout.strip(): print("BUILD FAIL:",b.stdout)
    r=subprocess.run(f"cd /verif && ./check {prop} quick",shell=True,capture_output=True,text=True)
    out=[l for l in r.stdout.splitlines() if l.startswith(('VIOLATION','  rule=','UNDECIDED',prop))]
    print("\n".join(out)); print("exit",r.returncode)
finally:
    subprocess.run(["git","-C","/repo","checkout","--"]+list(files))
