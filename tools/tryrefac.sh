#!/bin/bash
# tryrefac.sh <id e.g. A3> : applies /verif/refactors/<id>/patch.diff to /repo (3-way), runs ALL checks, prints every non-silent line, restores /repo.
id=$1
cd /repo || exit 2
if ! git apply --3way /verif/refactors/$id/patch.diff >/tmp/tryrefac.log 2>&1; then echo "[$id] APPLY FAILED: $(tail -1 /tmp/tryrefac.log)"; git reset -q --hard HEAD; git clean -fdq; exit 3; fi
if ! go build ./... >/tmp/tryrefac.build 2>&1; then echo "[$id] BUILD FAILED"; head -3 /tmp/tryrefac.build; git reset -q --hard HEAD; git clean -fdq; exit 3; fi
out=$(cd /verif && ./check all quick 2>&1); rc=$?
echo "$out" | grep -v "^KNOWN-FINDING" | grep -v "violated=0" | grep -v "^    " | cut -c1-260 | head -14
echo "[$id] exit=$rc"
git reset -q --hard HEAD; git clean -fdq
