#!/usr/bin/env python3
"""Confirms every seeded mutant in a scratch worktree of the pinned commit:
 patch applies, builds, touched packages' existing tests pass with it, demo FAILS with it and PASSES without it.
 Writes /verif/seeded/<id>/meta.json. Usage: confirm_seeds.py [ids...]"""
import json, os, re, subprocess, sys, shutil, glob
PIN='a99183f'
WT='/tmp/wt-confirm'
def sh(cmd, cwd=None, timeout=1500):
    r=subprocess.run(cmd,shell=True,cwd=cwd,capture_output=True,text=True,timeout=timeout)
    return r.returncode, (r.stdout+r.stderr)
def pkgdir(testfile):
    src=open(testfile).read()
    m=re.search(r'^package (\w+)',src,re.M); name=m.group(1)
    base=name[:-5] if name.endswith('_test') else name
    if base=='main': return 'cmd/glyph'
    if base=='tests': return 'tests'
    for d in ('pkg/'+base,):
        if os.path.isdir(os.path.join(WT,d)): return d
    return None
ids=sys.argv[1:] or sorted(os.listdir('/verif/seeded'))
subprocess.run(f"git -C /repo worktree remove --force {WT}",shell=True,capture_output=True)
rc,out=sh(f"git -C /repo worktree add --detach {WT} {PIN}")
assert rc==0,out
DEFAULT_PIN=PIN
try:
    for sid in ids:
        d=f'/verif/seeded/{sid}'
        if not os.path.isfile(d+'/patch.diff'): continue
        # a seed made against a later commit records it in <seed>/base
        PIN=open(d+'/base').read().strip() if os.path.exists(d+'/base') else DEFAULT_PIN
        sh("git checkout -q -- . && git clean -fdq",WT)
        rc,out=sh(f"git checkout -q --detach {PIN}",WT)
        assert rc==0,out
        demos=glob.glob(d+'/*_test.go')
        meta={"id":sid,"property":sid.split('-')[0],"pinned_commit":PIN}
        notes=open(d+'/notes.md').read() if os.path.exists(d+'/notes.md') else ''
        meta["needs_to_manifest"]=' '.join(notes.split())[:600]
        sh("git checkout -q -- . && git clean -fdq",WT)
        rc,out=sh(f"git apply {d}/patch.diff",WT)
        meta["patch_applies"]=(rc==0)
        if rc!=0:
            meta["error"]=out[-300:]; json.dump(meta,open(d+'/meta.json','w'),indent=1); print(sid,"APPLY FAIL"); continue
        rc,out=sh("git diff --stat | tail -1",WT); meta["diffstat"]=out.strip()
        rc,out=sh("git diff --name-only",WT); touched=sorted({os.path.dirname(f) for f in out.split()})
        rc,out=sh("go build ./...",WT); meta["builds_with_patch"]=(rc==0)
        pk=' '.join('./'+t for t in touched)
        rc,out=sh(f"go test -vet=off -count=1 -timeout 20m {pk}",WT); meta["touched_package_tests_pass_with_patch"]=(rc==0); meta["touched_packages"]=touched
        res={}
        for demo in demos:
            pd=pkgdir(demo)
            tests=re.findall(r'^func (Test\w+)',open(demo).read(),re.M)
            pat='^('+'|'.join(tests)+')$'
            if not pd: res[os.path.basename(demo)]={"error":"package dir not found"}; continue
            dst=os.path.join(WT,pd,os.path.basename(demo)); shutil.copy(demo,dst)
            race='-race ' if (os.environ.get('CONFIRM_RACE') or os.path.exists(d+'/needs_race')) else ''
            rc1,out1=sh(f"go test {race}-vet=off -count=1 -timeout 10m -run '{pat}' ./{pd}",WT)
            # remove the patch (keeps the untracked demo); never `git stash`: refs/stash is shared by all worktrees
            sh(f"git apply -R {d}/patch.diff",WT)
            rc2,out2=sh(f"go test {race}-vet=off -count=1 -timeout 10m -run '{pat}' ./{pd}",WT)
            sh(f"git apply {d}/patch.diff",WT)
            os.remove(dst)
            res[os.path.basename(demo)]={"package":pd,"tests":tests,"race_detector":bool(race),"fails_with_patch":rc1!=0,"passes_without_patch":rc2==0,
                "with_patch_tail":out1[-400:],"without_patch_tail":out2[-200:]}
        meta["demo"]=res
        meta["confirmed"]=bool(res) and all(v.get("fails_with_patch") and v.get("passes_without_patch") for v in res.values()) and meta["builds_with_patch"] and meta["touched_package_tests_pass_with_patch"]
        meta["commands"]=["git apply patch.diff","go build ./...",f"go test -vet=off -count=1 {pk}","go test -run <demo tests> (with patch: must fail)","git apply -R patch.diff; go test -run <demo tests> (without patch: must pass)"]
        json.dump(meta,open(d+'/meta.json','w'),indent=1)
        print(sid,"confirmed" if meta["confirmed"] else "NOT CONFIRMED",{k:(v.get('fails_with_patch'),v.get('passes_without_patch')) for k,v in res.items()},flush=True)
finally:
    subprocess.run(f"git -C /repo worktree remove --force {WT}",shell=True,capture_output=True)
