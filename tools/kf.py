#!/usr/bin/env python3
"""kf.py add <property> <rule> <construct> <known|fixed> <commit|-> <what...>"""
import json,sys
p='/verif/known_findings.json'; d=json.load(open(p))
_,cmd,prop,rule,cons,status,commit,*what=sys.argv
what=' '.join(what)
if status=='fixed': what=f"fixed: property={prop} {commit} "+what
e={"property":prop,"rule":rule,"construct":cons,"status":status,"what":what}
if commit!='-': e["commit"]=commit
d['findings']=[f for f in d['findings'] if not (f['property']==prop and f['rule']==rule and f['construct']==cons)]+[e]
json.dump(d,open(p,'w'),indent=1)
