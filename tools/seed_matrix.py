#!/usr/bin/env python3
"""Applies every seeded mutant to /repo (patch.head.diff if present, else patch.diff), runs the seed's own property check
(quick) and records which rules fire. Writes /verif/seeded/detection.json. /repo is restored after each."""
import json, os, subprocess, sys
out={}
for sid in sorted(os.listdir('/verif/seeded')):
    d='/verif/seeded/'+sid
    if not os.path.isdir(d): continue
    patch=d+'/patch.head.diff' if os.path.exists(d+'/patch.head.diff') else d+'/patch.diff'
    prop=sid.split('-')[0]
    subprocess.run("git -C /repo reset -q --hard HEAD && git -C /repo clean -fdq",shell=True)
    r=subprocess.run(f"git -C /repo apply --3way {patch}",shell=True,capture_output=True,text=True)
    st=subprocess.run("git -C /repo diff --name-only --diff-filter=U",shell=True,capture_output=True,text=True).stdout.strip()
    if r.returncode!=0 or st:
        out[sid]={"applies_on_head":False}; subprocess.run("git -C /repo reset -q --hard HEAD",shell=True); print(sid,"no-apply"); continue
    b=subprocess.run("cd /repo && go build ./...",shell=True,capture_output=True,text=True)
    rr=subprocess.run(f"cd /verif && ./check {prop} quick",shell=True,capture_output=True,text=True)
    rules=sorted({l.split()[0].replace('rule=','') for l in rr.stdout.splitlines() if l.startswith('  rule=')})
    out[sid]={"applies_on_head":True,"patch":os.path.basename(patch),"builds":b.returncode==0,"check":f"./check {prop} quick","exit":rr.returncode,"rules_fired":rules,"detected":rr.returncode==1}
    print(sid,out[sid]["exit"],rules,flush=True)
    subprocess.run("git -C /repo reset -q --hard HEAD && git -C /repo clean -fdq",shell=True)
json.dump(out,open('/verif/seeded/detection.json','w'),indent=1)
# restore evidence of the unchanged tree
for p in sorted({s.split('-')[0] for s in out}):
    subprocess.run(f"cd /verif && ./check {p} quick >/dev/null 2>&1",shell=True)
