#!/bin/bash
# import_seed3.sh C08 : copies /tmp/seedr3/C08/{1,2,3} to /verif/seeded/C08-r3-{1,2,3}, records the base commit, removes the worktree
p=$1
base=$(git -C /tmp/wt3-$p rev-parse --short HEAD)
for k in 1 2 3; do
  src=/tmp/seedr3/$p/$k
  [ -f $src/patch.diff ] || { echo "$p-$k: no patch"; continue; }
  dst=/verif/seeded/$p-r3-$k
  mkdir -p $dst
  for f in patch.diff notes.md; do cp $src/$f $dst/ 2>/dev/null; done
  cp $src/*_test.go $dst/ 2>/dev/null
  echo $base > $dst/base
  echo "$dst: $(ls $dst | tr '\n' ' ')"
done
git -C /repo worktree remove --force /tmp/wt3-$p 2>/dev/null; rm -rf /tmp/wt3-$p
