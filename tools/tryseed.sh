#!/bin/bash
# dev helper: tryseed.sh <seed-name e.g. C09-1> [props...]  — applies /verif/seeded/<seed>/patch.diff to /repo (3-way), runs the
# given checks (default: the seed's own property), prints verdict lines, then restores /repo.
seed=$1; shift
props="$@"; [ -z "$props" ] && props=${seed%%-*}
cd /repo || exit 2
if ! git apply --3way $( [ -f /verif/seeded/$seed/patch.head.diff ] && echo /verif/seeded/$seed/patch.head.diff || echo /verif/seeded/$seed/patch.diff ) >/tmp/tryseed.log 2>&1; then echo "APPLY FAILED: $(tail -2 /tmp/tryseed.log)"; git reset -q --hard HEAD; exit 3; fi
if ! go build ./... >/tmp/tryseed.build 2>&1; then echo "BUILD FAILED"; head -5 /tmp/tryseed.build; fi
for p in $props; do
  out=$(cd /verif && ./check $p quick 2>&1); rc=$?
  echo "$out" | grep "rule=" | cut -c1-220
  echo "[$seed vs $p] exit=$rc $(echo "$out" | tail -1)"
done
git reset -q --hard HEAD; git clean -fdq
