#!/bin/bash
# import_seed2.sh C08 : copies /tmp/seed2-C08/{1,2,3} to /verif/seeded/C08-r2-{1,2,3}, records the base commit, removes the worktree
p=$1
base=$(git -C /tmp/wt2-$p rev-parse --short HEAD)
for k in 1 2 3; do
  src=/tmp/seed2-$p/$k
  [ -f $src/patch.diff ] || { echo "$p-$k: no patch"; continue; }
  dst=/verif/seeded/$p-r2-$k
  mkdir -p $dst; cp $src/* $dst/ 2>/dev/null; echo $base > $dst/base
  echo "$dst: $(ls $dst | tr '\n' ' ')"
done
git -C /repo worktree remove --force /tmp/wt2-$p 2>/dev/null; rm -rf /tmp/wt2-$p
