#!/bin/bash
# import_seed5.sh C08 : copies /tmp/seedr6/C08/{1,2} to /verif/seeded/C08-r6-{1,2}, records the base commit, removes the worktree
p=$1
base=$(git -C /tmp/wt6-$p rev-parse --short HEAD)
for k in 1 2; do
  src=/tmp/seedr6/$p/$k
  [ -f $src/patch.diff ] || { echo "$p-$k: no patch"; continue; }
  dst=/verif/seeded/$p-r6-$k
  mkdir -p $dst
  for f in patch.diff notes.md; do cp $src/$f $dst/ 2>/dev/null; done
  cp $src/*_test.go $dst/ 2>/dev/null
  echo $base > $dst/base
  echo "$dst: $(ls $dst | tr '\n' ' ')"
done
git -C /repo worktree remove --force /tmp/wt6-$p 2>/dev/null; rm -rf /tmp/wt6-$p
