#!/usr/bin/env python3
"""matrix2.py [--refactors] [ids...]: measures, in scratch worktrees of /repo's HEAD (never in /repo itself), which rules fire
on every seeded change (own property's check) and - with --refactors - that every behaviour-preserving refactor is silent
under ALL checks. Uses a private copy of the analyser binary and a private evidence directory, so it can run while the
checker is being edited. Writes /verif/seeded/detection.json (resp. /verif/refactors/silence.json)."""
import json, os, subprocess, sys, shutil, concurrent.futures as cf
ENV=dict(os.environ, GOFLAGS='-mod=mod', GOPROXY='off', GOSUMDB='off', GOTOOLCHAIN='local', GOWORK='off',
         PATH='/opt/veriftools/go1.26.8/bin:'+os.environ['PATH'])
refac='--refactors' in sys.argv
ids=[a for a in sys.argv[1:] if not a.startswith('--')]
explicit=bool(ids)
TAG='r' if '--refactors' in sys.argv else 's'
BIN='/tmp/matrix2/glyphverif-'+TAG
os.makedirs('/tmp/matrix2',exist_ok=True)
subprocess.run('cd /verif/checker && go build -o %s .'%BIN,shell=True,env=ENV,check=True)
root='/verif/refactors' if refac else '/verif/seeded'
if not ids: ids=sorted(d for d in os.listdir(root) if os.path.isfile(f'{root}/{d}/patch.diff'))
N=6
def sh(cmd,cwd=None):
    r=subprocess.run(cmd,shell=True,cwd=cwd,env=ENV,capture_output=True,text=True); return r.returncode,r.stdout+r.stderr
def worker(w,chunk):
    wt=f'/tmp/matrix2/wt{TAG}{w}'; ev=f'/tmp/matrix2/ev{TAG}{w}'
    sh(f'git -C /repo worktree remove --force {wt}'); shutil.rmtree(wt,ignore_errors=True)
    rc,out=sh(f'git -C /repo worktree add --detach {wt} HEAD'); assert rc==0,out
    os.makedirs(ev,exist_ok=True)
    res={}
    for sid in chunk:
        d=f'{root}/{sid}'
        patch=d+'/patch.head.diff' if os.path.exists(d+'/patch.head.diff') else d+'/patch.diff'
        sh('git reset -q --hard HEAD && git clean -fdq',wt)
        for attempt in range(3):
            rc,out=sh(f'git apply --3way {patch}',wt)
            rc2,un=sh('git diff --name-only --diff-filter=U',wt)
            if rc==0 and not un.strip(): break
            sh('git reset -q --hard HEAD && git clean -fdq',wt)
            rc,out=sh(f'git apply {patch}',wt); un=''
            if rc==0: break
        if rc!=0 or un.strip():
            res[sid]={'applies_on_head':False}; sh('git reset -q --hard HEAD',wt); print(sid,'no-apply',flush=True); continue
        rcb,_=sh('go build ./...',wt)
        prop='all' if refac else sid.split('-')[0]
        rc,out=sh(f'{BIN} -repo {wt} -prop {prop} -tier quick -evidence {ev} -known /verif/known_findings.json -fixtures /verif/checker/testdata')
        rules=sorted({l.split()[0].replace('rule=','') for l in out.splitlines() if l.startswith('  rule=')})
        und=[l for l in out.splitlines() if l.startswith('UNDECIDED')]
        res[sid]={'applies_on_head':True,'patch':os.path.basename(patch),'builds':rcb==0,'check':f'./check {prop} quick','exit':rc,'rules_fired':rules}
        if refac: res[sid]['silent']=(rc==0); res[sid]['undecided']=und[:3]
        else: res[sid]['detected']=(rc==1)
        print(sid,rc,rules,und[:1],flush=True)
    sh(f'git -C /repo worktree remove --force {wt}'); shutil.rmtree(wt,ignore_errors=True); shutil.rmtree(ev,ignore_errors=True)
    return res
chunks=[ids[i::N] for i in range(N)]
out={}
with cf.ThreadPoolExecutor(N) as ex:
    for r in ex.map(lambda a: worker(*a), enumerate(chunks)): out.update(r)
out=dict(sorted(out.items()))
dst='/verif/refactors/silence.json' if refac else '/verif/seeded/detection.json'
if explicit and os.path.exists(dst):
    old=json.load(open(dst)); old.update(out); out=dict(sorted(old.items()))
json.dump(out,open(dst,'w'),indent=1)
if refac: print('silent',sum(1 for v in out.values() if v.get('silent')),'of',len(out))
else: print('detected',sum(1 for v in out.values() if v.get('detected')),'of',len(out),'| no-apply',sum(1 for v in out.values() if not v.get('applies_on_head')))
