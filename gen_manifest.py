#!/usr/bin/env python3
"""Regenerates MANIFEST.json from the table below. Run after adding a property check."""
import json, subprocess

CLAIMED = {
 "C20": dict(
   technique="static analysis: SSA must-lockset (LCK) over pkg/cache + loop-progress, unlink-pairing and must-pass-through (expiry) rules on the SSA CFG",
   text="Structural necessary conditions decided exhaustively over every access/loop/exit of pkg/cache on each run: items/evictList/currentSize only under LRUCache.mu (writes exclusive, helpers only reachable with the lock), every evict-until-fits loop has an emptiness exit (no operation blocks forever), list/map/size change together, Get returns only through the not-expired edge. Level 'other': the LRU history semantics themselves are runtime-value/history clauses no static argument in reach decides. Also: every Lock/RLock of the cache is released on every path to a return. Also: no method calls, while holding LRUCache.mu, a method that acquires it again (Stats -> Len under RLock deadlocks with a queued writer).",
   note="Does not cover: conformance to the sequential LRU spec, eviction order, byte accounting values, TTL arithmetic, linearizability. Lockset is receiver-insensitive; container/list mutator table is fixed in the checker. Trusted: go/types, go/ssa.",
   ref="DESIGN.md §3 C20"),
 "C11": dict(
   technique="static analysis: SSA must-lockset over the limiter's captured state, must-pass-through/guard-edge path queries on the admitting closure, header-taint of getClientIP, wiring def-use in cmd/glyph, doc-vs-switch table",
   text="Structural necessary conditions of per-client rate limiting decided over every site: bucket table and counters only under the limiter mutex with test+decrement in one critical section; next(ctx) only after the decrement; the budget comparison rejects 0 and admits 1 (comparison evaluated at the boundary); the no-budget edge answers 429 and never reaches the body; table keyed by getClientIP(this request); header-derived identity only under trustProxy; declared limiter always appended; documented window spellings have a case. Also: each route receives the limiter constructed by its own rateLimitMiddleware call. Also: lock-release pairing in pkg/server. Also: the refill keeps the fractional token (time base advanced, not reset, unless the bucket is full) and a full bucket banks no idle time; the bucket handed to the limiter is the declared N (known finding: it is a converted quantity); no trusted-proxy entry is widened with a classful mask; no re-acquired mutex.",
   note="Does not cover the numeric bound N*(1+T/window), refill arithmetic or unit-conversion values (known deviation: N/hour becomes a bucket of ceil(N/60)), nor behaviour in real time. Trusted: go/types, go/ssa; role-based slot resolution (unique local mutex / map of *clientLimit).",
   ref="DESIGN.md §3 C11"),
 "C06": dict(
   technique="static analysis: def-use wiring of server.Route/ast.Route literals, guard-edge cut path queries (credential-accepted edges) on every auth closure, loop-bound evaluation of the middleware fold, must-lockset over failure trackers, header taint",
   text="Structural necessary conditions of fail-closed auth decided at every site: each server.Route built from a declared route carries routeMiddlewares(that route); every ast.Route literal keeps .Auth; both dispatchers fold all Middlewares (index range evaluated) before calling the handler; authMiddleware returns nil only for undeclared auth, enables bearer/apikey checking only with a non-empty configured secret/key set and otherwise denyAll; in every credential closure next is unreachable once credential-accepted edges are cut; lock-out test dominates the credential read and rejected credentials are counted; tracker state only under its mutex. Also: the dispatchers never store into the registered server.Route. Also: lock-release pairing in pkg/server. Also: no append on a shared middleware slice keeps its result elsewhere (a later registration cannot replace an earlier route's auth middleware); the Bearer scheme is never compared byte for byte; no method re-acquires its receiver's mutex while holding it.",
   note="Does not cover JWT semantics, lock-out arithmetic, timing channels. Accept-all placeholders (nil credential set) are reasoned exceptions paired with a call-site rule. Trusted: go/types, go/ssa.",
   ref="DESIGN.md §3 C06"),
 "C16": dict(
   technique="static analysis: SSA must-lockset over the hub/room/connection guard table, ordering (close-after-unlink) and guard-edge path queries, who-may-send enumeration on Connection.send, limit-test boundary evaluation, config def-use",
   text="Structural necessary conditions of hub/room consistency decided at every site: each guarded field only under its mutex; every close(conn.send) only after the connection left Hub.connections and all rooms; every send on conn.send is in the hub loop, under Room.mu, or behind a closed-state guard (holds the Connection mutex every close holds exclusively, crosses the closed-flag==false edge with the lock held continuously, and never blocks while holding it unless the closer releases the select first); close sites reached through wrapper functions are lifted to the wrapper's callers; a connection records membership only on the room's err==nil edge and forgets a room only with the room-side remove; inserts into Hub.connections/Room.connections are preceded in the same critical section by a len-vs-max test whose len==max outcome cannot reach the insert; NewServer's Config reaches the hub; client-controlled data is never type-asserted unchecked in hub goroutines. Also: a room is created only after a lookup under the same exclusive hold; a connection is registered synchronously before its read pump starts; lock-release pairing. Also: Room objects are not unlinked from the manager's table by running code while a join is lookup-then-add in two critical sections; no method re-acquires its receiver's mutex.",
   note="Does not cover delivery guarantees, general deadlock freedom (only the blocking-send-under-guard shape), real interleavings. Lockset is receiver-insensitive. Trusted: go/types, go/ssa, the guard table in c16.go.",
   ref="DESIGN.md §3 C16"),
 "C15": dict(
   technique="static analysis: SSA must-lockset over JIT unit/specialisation/stats state, must-pass-through of invalidation entry points to every bytecode store, compiler-freshness (escape) rule over values and type declarations, tier-switch exhaustiveness",
   text="Structural necessary conditions decided at every site of pkg/jit: unit fields, the units map, specialisation validity and stats only under their mutexes; InvalidateCache/ClearCache/RecordDeoptimization reach an invalidation of every store that holds bytecode for the route; a specialisation is returned only through its IsValid edge; each compilation uses a compiler created in that call and no field/variable/map of the package can hold one; tier switches that select code are total. Also: C03's optimiser rule sets (fact aliasing, gen/kill, exact and order-preserving keys) under C15-R9; an invalidated specialisation is re-validated only with new code; cached bytecode is never written in place; code compiled before an invalidation is published only if the invalidation count is unchanged (epoch); lock-release pairing. Also: C03's fact-map and folder rules R1-R4 under C15-R9; no re-acquired mutex.",
   note="Does not cover equivalence of tier bytecode (C03), linearizability, recompilation thresholds. Lockset receiver-insensitive. Trusted: go/types, go/ssa, guard table in c15.go.",
   ref="DESIGN.md §3 C15"),
 "C09": dict(
   technique="static analysis: SSA must-lockset + ordering/typestate path queries over interpreter.Future, goroutine free-variable (capture) analysis for async blocks in both engines, await-after-done guard-edge rule",
   text="Structural necessary conditions decided at every site: Future outcome fields only under Future.mu; every settling write and close(done) is behind the already-resolved test, resolved is set and the outcome written before done closes, done closes once; no blocking channel operation under Future.mu; Await* and the VM's FutureValue readers touch the outcome only after receiving from done; the interpreter's async goroutine captures only a detached Environment; the VM's async goroutine captures no *VM and only values created in execAsync, its first deferred call closes Done and only it writes Result/Error; All stores values at their future's index; Any's shared state is under its mutex. Also: the functions accepted as detaching (Snapshot) return an environment without parent. Also: lock-release pairing in the Future code and the VM. Also: no method re-acquires its receiver's mutex while holding it.",
   note="Does not cover determinism under all schedules, first-settled/first-success as history properties, VM jump relocation inside embedded async bodies. Trusted: go/types, go/ssa.",
   ref="DESIGN.md §3 C09"),
 "C13": dict(
   technique="static analysis: SSA taint/cleanliness analysis of all SQL text (guard-edge-aware, fmt/strings/Builder summaries, raw-SQL wrapper fixpoint), regexp/syntax language check of the sanitisers, sibling-driver agreement, allow-list cross-check",
   text="The structural clause 'every statement is a fixed template plus validated identifiers' decided for every SQL sink of pkg/database (whole module in thorough): the text argument of each sink and Build's result is built only from constants, sanitiser results, numeric formatting and values a guard proves to be one of finitely many constants; every sanitiser validates with an anchored pattern whose language excludes quote/semicolon/comment characters and returns non-empty text only on the match edge, built from the validated value; sibling drivers validate the same identifier parameters; no raw-SQL method is on the provider allow-list. Also: placeholders are numbered from the bound values wherever an iteration can bind a list; each sanitiser pattern's language is included (NFA x automaton product) in the fragments with balanced parentheses and no top-level comma, so a validated column type cannot end its column definition; a text cut into words and read by position is rejected when it has more words than are read (no part of a stored ORDER BY text is accepted unvalidated).",
   note="Does not cover execution on a real engine, nor adequacy of the column-type grammar beyond its character set and parenthesis/comma structure. Heap is field-insensitive (field loads tainted). Trusted: go/types, go/ssa, regexp/syntax, the sanitiser naming role ([Ss]anitize* returning (T, error)).",
   ref="DESIGN.md §3 C13"),
 "C17": dict(
   technique="static analysis: SSA typestate taint (raw -> resolved -> confined) on every file sink of response-writing functions, guard-edge cut on isSubPath, shape rule on isSubPath, who-may-use rule for generic file servers",
   text="Structural necessary conditions decided at every site: each path opened/read/listed by a response-writing function of pkg/web is a filepath.EvalSymlinks result that passed isSubPath(resolved root, path) on every path to the sink (parameters judged at all call sites; any Join/concat after the check is raw again); the server's root is stored as EvalSymlinks(Abs(root)); isSubPath accepts only child==parent or a separator-terminated prefix and uses no other string predicate; no http.FileServer/http.Dir/http.ServeFile anywhere in non-test code; `@ static` handlers are web.StaticFileServer.",
   note="Does not cover TOCTOU between resolve and open, URL decoding by net/http, hard links/mounts. SendFile's root is only Abs-ed (advisory, availability not confinement). Trusted: go/types, go/ssa.",
   ref="DESIGN.md §3 C17"),
 "C14": dict(
   technique="static analysis: typestate/ordering path queries on *sql.Tx (callback error/success edges, deferred recover closures), single-statement rule for BulkInsert, context-key def-use",
   text="Structural necessary conditions decided for every function that begins a transaction: rollback on the callback's error edge on all paths and no commit there; commit on the success edge; a deferred function that itself calls recover(), rolls back on the recovered edge and re-panics with the recovered value; no commit in a deferred function without its own recover()==nil test; no commit after rollback; each driver's BulkInsert executes at most one statement unless inside a transaction; a *sql.Tx stored in a context is read back, and every executor the ORM invokes on its Database reads that key and calls a *sql.Tx method in the driver ORM.Transaction supports. Also: ORM.Transaction invokes its callback only inside a transaction of its own. Also: a function that opens a SAVEPOINT on a transaction it was given is held to the same typestate (ROLLBACK TO / RELEASE in the roles of Rollback / Commit, deferred recover included).",
   note="Does not cover what the database does on commit/rollback, nor cancelled contexts inside the driver. Trusted: go/types, go/ssa.",
   ref="DESIGN.md §3 C14"),
 "C12": dict(
   technique="static analysis: who-may-call rule for reflection, guard-edge/must-pass-through path queries in CallMethod and canonicalMethodName, allow-list table extraction and who-may-write rule, panic-site audit (interface equality, unchecked assertions) over provider packages, reachable-surface enumeration from method sets",
   text="Structural necessary conditions decided at every site: reflective lookup/call only inside the CallMethod gate; MethodByName only on the allow-list's accepted edge and with its canonical spelling; canonicalMethodName says yes only for keys of allowedMethods; reflect.Call only after an arity comparison on every path and with arguments that passed AssignableTo (typed zero for null); the allow-list has no case-duplicates, contains every provider-table entry and is never written after init; provider packages contain no unguarded interface ==/!= and no unchecked assertion on values from interface parameters; direct (non-reflective) provider calls use allow-listed names. Evidence lists each provider type's reachable method surface. Also: BND over the provider packages with the integer parameters of exported methods as run-time integers (index/slice/make length and capacity proven in range).",
   note="Does not cover what an allow-listed method does with well-typed arguments. Trusted: go/types method sets, go/ssa.",
   ref="DESIGN.md §3 C12"),
 "C04": dict(
   technique="static analysis: must-pass-through / ordering path queries (depth budget pairing, loop-counter advance on every back edge, step-bound typestate on *vm.VM), goroutine recover rule, panic-site audit (interface equality, integer division, unchecked assertions), error-text taint to response writers, serialise-before-commit ordering",
   text="Layered structural necessary conditions decided at every site: the evaluation-depth test dominates dispatch and every exit after the increment decrements; the while-loop counter advances on every way around the loop and its limit test dominates the body; every VM has a positive step bound and runLoop enforces it; both HTTP dispatch entries recover to a 500; every goroutine of interpreter/VM that can run user code recovers; no unguarded interface ==, unchecked assertion or unguarded integer division in the engines; no Go error/panic text reaches a response whose status is not a constant 4xx, 5xx interpreter responses are constant, execution errors end in a status writer, and route results are marshalled before the status is committed. Also: BND bounds rule over both engines (C04-R12) and the deferred-restore rule for the evaluation-depth counter. Also: a VM built as a literal (not through NewVM) sets a positive step bound itself.",
   note="Does not cover index/nil panics in general, stack exhaustion in libraries, wall-clock bounds, limit values. Trusted: go/types, go/ssa.",
   ref="DESIGN.md §3 C04"),
 "C19": dict(
   technique="static analysis: ordering/typestate path queries on the dev-server swap and the library reload manager, guard-edge rules on compile/reload results, must-lockset, must-pass-through in the poller",
   text="Structural necessary conditions decided at every site: in startServer no failing exit and no missing m.server store after the old server's Shutdown (all fallible steps precede the teardown) and the prepared server is started; reload() is never fatal; in ReloadManager.handleChanges a compile error never reaches Reload/SetState and is reported as failure, Reload installs exactly the compile result, state is restored only after a successful Reload, and compile+install form one critical section under rm.mu; server/connection/hash tables only under their mutexes; the poller hashes every present file on every poll. Also: success is reported only after the server accepted the program; every change event re-arms the reload timer; error-kind predicates unwrap; no once-built state from reloadable variables; lock-release pairing. Also: nothing reachable from reload() stops a server or closes a listener and startServer reports success only after handing on what prepareDevServer built; every reload request goes through startServer; an empty source is a failed load; every interpreter a module is loaded into while building a version is created for that build; no re-acquired mutex.",
   note="Does not cover port-release timing, fsnotify/polling and debounce behaviour, request continuity. Trusted: go/types, go/ssa.",
   ref="DESIGN.md §3 C19"),
 "C08": dict(
   technique="static analysis: shared write-set over the request-reachable call graph (CHA), must-lockset over provider stores plus split read-modify-write rule, reference-escape (live record) audit, per-request freshness def-use, who-may-write rule for compiledTypeDefs",
   text="Structural necessary conditions decided at every site: no request-reachable function of the interpreter writes the shared Interpreter/TypeChecker/ModuleResolver/globalEnv/package state without a lock; each compiled request executes on a VM created in its own closure and each interpreted request in an Environment created in ExecuteRoute; every access to the mock/real provider stores is under the owning mutex and no lookup-unlock-relock-write sequence exists; store methods neither return stored maps nor keep caller maps without copying; compiledTypeDefs is assigned only by setCompiledTypeDefs from setupRoutes and the compiled request path keeps no package-level Once/Pool state. Also: request-time values of mutable or unknown type are not published in a shared sync.Map. Also: lock-release pairing in the provider mocks and the interpreter. Also: no append on a shared slice keeps its result elsewhere (whole module); the shared depth counter is restored on every exit including a panic; defaults put into a request's input are evaluated for that request; no method re-acquires its receiver's mutex.",
   note="Does not cover atomicity of multi-step protocols in user programs, scheduling-dependent outcomes, sharing of nested values inside copied records. Known findings: the evaluation-depth budget and TypeChecker.typeScope are shared between concurrent requests. Trusted: go/types, go/ssa, CHA call graph.",
   ref="DESIGN.md §3 C08"),
 "C05": dict(
   technique="static analysis: key-provenance def-use (interprocedural over route helpers), guard-edge path queries on both dispatchers, registration-literal def-use, router who-may-write / comparison-shape rules, switch exhaustiveness",
   text="Structural necessary conditions decided at every site: compiled bytecode is stored and fetched under a key derived from both the route's method and path; each dispatcher invokes a handler only on Router.Match's success edge, runs the matched route, binds its path parameters and answers 404 (running nothing) otherwise; every server.Route built from a declaration carries that declaration's path and converted method, and the conversion has a distinct arm per method; the route table is written only by RegisterRoute (append, never sorted), Match returns only matchRoute hits, scans all candidates and replaces its best only on a strict fewer-parameters comparison; the interpreter receives the decoded URL path. Also: both engines bind the request segment itself (no call between the split path and the bound value) and matchRoute compares segments with segments only. Also: specificity is counted on the pattern's parameter segments; the request path is matched as sent (no trimming/cleaning of the decoded path); decoded path and raw query are never re-joined, and the interpreter does not search a separately given path for '?'; the path reaches the interpreter's binder unprocessed; no variable of the body is named by the request; path parameters are bound last in both engines; of two declarations with one method and path the earlier keeps its bytecode.",
   note="Does not cover Match's specificity order as a function over all tables/requests, nor net/url and ServeMux behaviour. Trusted: go/types, go/ssa.",
   ref="DESIGN.md §3 C05"),
 "C07": dict(
   technique="static analysis: guard-edge cut path queries (validate-before-run in both engines, result check), boundary-stage table comparison between the two engines, parse-error propagation and fail-closed-limit rules, route-literal fidelity, who-may-write rule on the compiled request path",
   text="Structural necessary conditions decided at every site: with the no-contract edges and the validator's success edge cut, neither engine can reach the route body; validation failures are 4xx and stop; the validated value is the one bound as input; every ordinary interpreter result passes CheckType or is a marker response and a mismatch is 5xx; both engines reach the same boundary stages; a required field's value is nil-tested; each typed query conversion has its arm and returns the parse error on the failure edge; validator limits fail closed; the compiled path keeps no cached checker state; every Route literal keeps InputType/ReturnType/QueryParams. Also: the query converters see exactly rawParams[name] and convert every element; body presence is never an ordering test of ContentLength against 0/1; defaults are evaluated for each request. Also: the compiled validator is resolved by role; CheckType descends into every composite type kind computed from pkg/ast; a required field with a default still refuses null; convertValue has arms for optional and union types and success after a failed parse only through another member's conversion; both handlers parse the raw query with an error-reporting parser; the declared Content-Length never sizes the read; a remembered validation table is keyed by what it was computed from.",
   note="Does not cover CheckType/TypesCompatible decisions over all types x documents. Known findings: the compiled (default) engine applies neither declared defaults nor the return-type check. Trusted: go/types, go/ssa.",
   ref="DESIGN.md §3 C07"),
 "C18": dict(
   technique="static analysis: sibling-table agreement over syntax trees and SSA (formatter symbol/keyword maps, keyword and punctuation arms of both lexers, operand-token sets), lexical-class rule for string scanners, who-may-use rule for bufio.Scanner",
   text="Structural necessary conditions decided over every table entry: symbolToKeyword and keywordToSymbol are mutual inverses; each expanded keyword lexes to a token kind its symbol can produce and is not a compact keyword; the shared keyword arms of the two lexers have equal key sets and token kinds; punctuation arms and the '/'-disambiguation token set agree between the lexers; every quote-scanning function also handles the escape character; no unchecked default-buffer bufio.Scanner rewrites files. Also: no identifier character follows an expanded keyword unseparated (decided by folding the formatter's condition and the lexer's identifier predicate over all bytes); blankness is decided on the trimmed line; expanded keywords must be recognised in context (known finding: they are not; 11/44 example files fail the round trip). Also: no function of pkg/formatter stores into a package-level variable (rewriting is a function of the source alone); no source text goes through a rune-level re-encoding.",
   note="Does not cover round-trip equality over all sources, idempotence of the formatter, layout. Trusted: go/ast, go/types, go/ssa.",
   ref="DESIGN.md §3 C18"),
 "C10": dict(
   technique="static analysis: sibling-table agreement over opcode and constant-tag tables (writer / VM / disassembler), bounded-allocation and length-guard dominance rules on untrusted buffers, recursion-guard coverage over the parser's call graph (SCC), loader-limit rules",
   text="Structural necessary conditions decided over every table entry and site: each opcode has a VM arm, the same operand-ness in VM, compiler and decompiler, a name, matching emit sites and jump relocation; constant tags and widths agree between writer and both readers; every allocation sized from the input is behind a bound check; every non-constant index/slice of the bytecode buffers and of the lexers' input is behind a length comparison; Push caps the stack and runLoop bounds pc and steps; after removing depth-guarded functions the parser's call graph has no cycle (two precedence-climbing self-recursions are shape-verified exceptions). Also: the depth guard cannot be bypassed on a success path; header fields holding decoded sizes are untrusted; no narrow-integer arithmetic on an untrusted value before a bounds test; the parser never re-parses after rewinding its cursor; relocation steps over embedded bodies. Also: the decompiler's instruction walk leaves its loop after a read only towards an error return (the listing covers the whole code section).",
   note="Does not cover memory proportionality in general, parser accept/reject correctness, disassembly text. Trusted: go/ast, go/types, go/ssa.",
   ref="DESIGN.md §3 C10"),
 "C02": dict(
   technique="static analysis: sibling-table agreement (opcode tables, dispatch arms of compiler vs interpreter, builtin name tables, request-binding name tables), no-silent-noop path rule over compile methods, engine-selection dominance in setupRoutes, constant-identity / operand-aliasing / body-detection shape rules",
   text="Structural necessary conditions decided over every table entry and site: opcode tables agree across VM, compiler and decompiler; every construct the compiler accepts has an interpreter arm; no compile method succeeds without emitting or delegating; OpCall emission is gated on a resolvable name; names bound by the compiled handler equal those bound by the interpreter and every pre-declared name is bound; compiled registration happens only under useCompiler and injections / compile errors switch the whole module; constant-pool identity is type-aware; VM handlers never append onto operand storage; both handlers detect JSON bodies with the same operations. Also: jump relocation steps over embedded async bodies; no sync.Once body on the compiled path reads a package variable that is reassigned later; a table with deletions never takes a new key from its own size; constant-pool deduplication is kind-strict. Also (INTCMP, both engines): each ordering and + - * arm of both dispatches works on integer payloads; numeric equality, absent key/field handling and the operand kinds of the ordering operators agree between the engines; a repeated header is projected the same way by both handlers; an interpreted route's result comes from a return statement only; a query default the compiled handler cannot evaluate switches the module to the interpreter.",
   note="Does not cover agreement of evaluation results over programs x inputs (operator/coercion/builtin semantics). Known findings: validation statements compile to nothing; the compiler emits calls the VM cannot resolve. Trusted: go/ast, go/types, go/ssa.",
   ref="DESIGN.md §3 C02"),
 "C03": dict(
   technique="static analysis: exhaustiveness of the optimiser's kill-set collector over the statement kinds computed from pkg/ast, per-arm invalidation rules over the syntax tree of OptimizeStatements, whitelist/guard-edge rule for loop-invariant hoisting, panic-site and literal-kind rules in the folder, reset-before-optimise path rule, level plumbing",
   text="Structural conservativeness obligations of a flow-insensitive fact map, decided over every statement kind and arm: the modified-variable collector covers every assigning/nesting statement kind in value and pointer form; each nesting arm of OptimizeStatements invalidates every nested block, the if arm resets facts between and after its branches, the default arm invalidates, and only return statements start dead-code elimination; hoisting is behind a whitelist whose default refuses; integer folds are behind non-zero tests and literal kinds are never promoted; Reset discards optimiser facts and every Compile* entry resets before optimising; level 0 is the identity. Also: fact maps are never aliased (snapshot/restore install fresh maps); the optimiser never stores into a syntax-tree node it was given; every fact recording is preceded by a complete kill of the assigned variable in the same statement; loops forget the body's facts after the body; every compile unit optimises on a fresh fact set; LICM moves a computation, not the program's own declaration (known finding).",
   note="Does not cover semantic preservation of individual rewrites over all values (equality of results across levels). Known finding: LICM hoists the loop body's own declaration (scope change / zero-trip execution); the repair contradicts an existing optimizer unit test. Trusted: go/ast, go/types, go/ssa.",
   ref="DESIGN.md §3 C03"),
 "C01": dict(
   technique="static analysis: dispatch exhaustiveness over the syntactic forms computed from pkg/ast, scope-freshness def-use with loop membership, map-range determinism audit, documentation-vs-parser precedence table, precedence-climbing boundary evaluation, depth-budget pairing path rule",
   text="Structural necessary conditions decided over every form and site: each Expr/Statement/Pattern/Literal kind and each BinOp/UnOp has an evaluation arm (parser and evaluator agree on the operator set; exceptions listed by type with reasons); every block and match arm runs in an environment created for it in that function and, inside loops, per iteration; no order-dependent loop ranges a Go map unsorted in either engine; every documented operator has the documented precedence level in the parser, the climbing loop continues at equal precedence and recurses at precedence+1; the shared depth budget is restored on every exit. Also: run-time integers reaching an index/slice/make in the builtins and index expressions of both engines are proven in range by dominating comparisons on the very values used (BND); the depth counter is restored by a deferred call so a recovered panic cannot leak it. Also: integers are compared and added as integers in every ordering and + - * arm (no route through float64); a user-defined function's frame hangs below the definition scope, never the caller's.",
   note="Does not cover values computed by operators/builtins, coercions, match semantics, error texts. The precedence sub-rule reads docs/LANGUAGE_SPECIFICATION.md (UNDECIDED, not violated, if fewer than 10 rows parse). Trusted: go/ast, go/types, go/ssa.",
   ref="DESIGN.md §3 C01"),
}

# fourth-round rules (DESIGN.md §9.9), appended to the texts above
R4 = {
 "C01": "Also: a variable lookup walks outwards frame by frame and the closest binding wins; every parameter-binding site (direct, generic, with values, pipe, callback) reaches the same int coercion; program text is read as an integer with the same base in both engines.",
 "C02": "Also: every arm of the request-value conversions builds the value kind its case guards; the status decision for a result without explicit status agrees between the handlers; bindings made in helpers and forwarders are seen.",
 "C03": "Also: what the fact-killer is handed is a bare variable name (never printed expression text) and a mention test checks the continuation character.",
 "C04": "Also: an error that comes from evaluation (not from a validator) never leaves as a 4xx; thorough re-runs the rules under GOARCH=386.",
 "C05": "Also: registration calls are not reached from a range over a map; dispatchers hand Match the decoded path with no re-encoding; the first of two identical declarations keeps its code in both engines.",
 "C06": "Also: routes built from another route (aliases) copy its middlewares; tracker tables are keyed by the client address on every path.",
 "C07": "Also: every shape of declared input type is enforced by both engines; CheckType is reached per contract stage (input, return) and engine; defaults are applied to nested types with fresh evaluation per level; type-structure walkers handle every wrapper kind their siblings handle.",
 "C08": "Also: module-wide MEMO key audit (a remembered value's key is the argument it was computed from) and sibling-index audit (containers indexed together use the same index).",
 "C09": "Also: a combinator cancels other futures only after its own outcome is published.",
 "C10": "Also: the step limit dominates every backward jump; LOOP-PROGRESS over parser and both lexers (every way round a loop advances the cursor or leaves); thorough re-runs the rules under GOARCH=386.",
 "C11": "Also: trusted-proxy entries derive only from the operator's text; bucket credit derives only from elapsed time; a bucket is dropped only when full again.",
 "C13": "Also: the table-handler memo is keyed by the sanitised name it was asked for.",
 "C15": "Also: specialisation containers indexed together are indexed by the same value.",
 "C17": "Also: a resolved path is used only on the success edge of its resolution; thorough re-runs the rules under GOOS=windows.",
 "C18": "Also: the two context predicates of the rewriters accept the same line-start classes.",
 "C19": "Also: the debounce callback reaches the reload on every path.",
 "C20": "Also: every write path refreshes the entry's recency.",
}
# fifth-round rules (DESIGN.md §9.10)
R5 = {
 "C04": "Also: a VM created by a running VM takes over its creator's step bound; goroutines of the HTTP layer that invoke a route handler recover; the library server's writers marshal before they commit a status; the bound of rand.*n is established positive on the value passed.",
 "C08": "Also: every walk-up assignment (Environment.Set) and every in-place update of an object fetched from the scope chain lies behind a test against the module-level environment.",
 "C09": "Also: the detached environment of an async block receives copies of objects and arrays (a copier that allocates, switches on maps and recurses).",
 "C10": "Also: a push that does not fit is reported (error, panic, or a recorded overflow the run loop tests).",
 "C12": "Also: null becomes the nil value of an interface parameter only behind a NumMethod() test; the per-provider allow-lists are read on the dispatch path (known finding: they are not).",
 "C16": "Also: the API a handler is handed performs no blocking send on a channel only the hub loop receives from (known finding: the broadcast methods do); both membership views change under one mutex of the connection, the tear-down leaves the rooms under it and the join tests the tear-down mark; a connection received for registration is inserted or finished.",
 "C18": "Also: string escapes, look-ahead sets and punctuation coverage agree between the two lexers; compaction cuts words where the lexer cuts identifiers and rewrites only where expansion writes; no context-free replacement over program text unless the pattern contains a line feed; whole-text trims remove every occurrence.",
 "C20": "Also: no addition to the accounted size returns without a condition on the byte limit having been evaluated.",
}
for _k,_v in R5.items():
    CLAIMED[_k]['text'] += " " + _v
# round-5 seed rules (DESIGN.md §9.11)
R6 = {
 "C01": "Also: no Go append directly onto the slice of a program array; loop signals are inspected by loop executors only; parameter defaults are evaluated in the function frame at every binding site.",
 "C02": "Also: opcode tables kept in package-level arrays or maps are read like map literals.",
 "C03": "Also: a loop condition is optimised before its body; the if arm invalidates what either branch assigns on every path; the key printer appends no suffix to a key it produced itself.",
 "C04": "Also: a run-time value handed to SetMaxSteps is established positive; the snapshot copier is held to the memo-before-elements clause (C04-R14).",
 "C05": "Also: the method handed to Router.Match derives from no header or query value; HTTP routes are registered in one pass.",
 "C06": "Also: the bytecode registered with a declaration is looked up under that declaration's own key.",
 "C11": "Also: the time-base advance goes through no integer division by the rate; C11-R10 writer/reader agreement: every window unit the parser lets through is a spelling the server's dispatch compares against (an unknown unit is a parse error).",
 "C07": "Also: the validated object is the one the defaults were filled into; the query text is percent-decoded after it is cut; type-structure walkers in closures and in cmd/glyph are held to the sibling rule.",
 "C08": "Also: builtins and index assignment write no object in place without a test against the module-level environment.",
 "C09": "Also: the snapshot copier hands a container back uncopied only when it is nil and enters it in its memo before visiting its elements.",
 "C10": "Also: single-result type assertions in pkg/parser are established; run-time step bounds are established positive.",
 "C12": "Also: a constant index into a slice lies behind a test of its length; no write into a map a helper may have answered with nil.",
 "C14": "Also: success is reported only over the err == nil edge of Commit; savepoint names are not constants.",
 "C15": "Also: the specialisation cache is invalidated inside the exclusive hold that bumps the invalidation count; every name-keyed table that holds bytecode is written by the invalidators; C03-R13/R14 under C15-R9.",
 "C16": "Also: nothing that can block executes while Room.mu is held.",
 "C18": "Also: both transformer predicates answer true only at the start of a line; the per-line trim takes the carriage return.",
 "C19": "Also: no mutex is held while a request is handed to the current handler; nothing the running version uses is shut down while the reload can still fail; detected changes are used where they are consumed.",
 "C20": "Also: ticker intervals are positive constants or established positive.",
}
for _k,_v in R6.items():
    CLAIMED[_k]['text'] += " " + _v
for _k,_v in R4.items():
    CLAIMED[_k]['text'] += " " + _v

NA_REASONS = {}
TODO_REASON = "check not built yet (implementation in progress; see DESIGN.md §3 for the planned static rules)"

props = [json.loads(l) for l in open('/verif/properties.jsonl')]
fix_commits = subprocess.run(["git","-C","/repo","log","--format=%H %s","a99183f..HEAD"],capture_output=True,text=True).stdout.strip().splitlines()
checks=[]; na=[]
for p in props:
    pid=p['id']
    if pid in CLAIMED:
        c=CLAIMED[pid]
        checks.append({
          "property_id": pid,
          "quick_cmd": f"./check {pid} quick",
          "thorough_cmd": f"./check {pid} thorough",
          "evidence_file": f"/verif/evidence/{pid}.json",
          "replay_cmd_template": f"cat {{path}}; ./check {pid} quick",
          "engine": "glyphverif",
          "level_claimed": {"category":"other","text":c['text'],"design_ref":c['ref']},
          "level_note": c['note'],
          "technique": c['technique'],
        })
    else:
        na.append({"property_id":pid,"reason":NA_REASONS.get(pid,TODO_REASON)})
m={
 "version":1,
 "setup_cmd":"cd /verif && ./setup.sh",
 "hooks":{
   "guard":"verif",
   "enable":"none needed: static analysis reads /repo's sources; no instrumentation or build tag is used",
   "baseline_off_cmd":"cd /repo && go test -vet=off -count=1 -timeout 25m ./...",
   "source_commits":[l.split()[0] for l in fix_commits],
   "add_only":True
 },
 "engines":[{"name":"glyphverif","path":"/verif/checker","serves_properties":sorted(CLAIMED),
   "kind_free_text":"repository-specific static analyser (go/packages + go/types + go/ssa + call graph CHA/VTA): lockset, must-pass-through/guard-edge, ordering/typestate, taint, exhaustiveness and sibling-table rules with slots filled from GlyphLang's own code"}],
 "checks":checks,
 "not_applicable":na,
 "notes":"All claims are level 'other': structural necessary conditions decided statically and exhaustively over the enumerated sites of the current working tree; nothing in /repo is executed by any check. Exit 2 + 'UNDECIDED' = tool integrity failure (load/type error, rule floor missed, fixture dead). fix: commits in /repo: " + "; ".join(fix_commits)
}
json.dump(m,open('/verif/MANIFEST.json','w'),indent=1)
print("claimed",len(checks),"na",len(na))
