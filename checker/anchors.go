package main

// Rename resolution. The rule slots name unexported functions of /repo. A behaviour-preserving edit may
// rename one. anchors.json (written by `glyphverif -write-anchors`, committed) records, for every
// unexported top-level function and method of the module as confirmed on the reference tree, its
// signature (types only) and the set of functions it calls. When a recorded function is missing from
// the tree under analysis, the unique new function of the same package with the same signature and a
// sufficiently similar callee set is taken to be it: lookups by the old name return it, and its
// qualified name is reported under the old name so that call-site rules and construct keys are
// unaffected. The table only ever *resolves* names; it never produces a verdict.

import (
	"encoding/json"
	"go/types"
	"os"
	"sort"
	"strings"

	"golang.org/x/tools/go/ssa"
)

type anchorFP struct {
	Rel     string   `json:"pkg"`
	Name    string   `json:"name"` // "f" or "T.m"
	Sig     string   `json:"sig"`
	Callees []string `json:"callees"`
}

type structFP struct {
	Rel    string      `json:"pkg"`
	Name   string      `json:"name"`
	Fields [][2]string `json:"fields"` // name, type
}

// fieldAlias maps "pkgpath.Type.currentField" to the reference field name.
var fieldAlias = map[string]string{}

// qnameAlias maps the qualified name of a renamed function to the name the rules know it by.
var qnameAlias = map[string]string{}

func sigString(fn *ssa.Function) string {
	sig := fn.Signature
	var sb strings.Builder
	q := func(p *types.Package) string { return p.Path() }
	if sig.Recv() != nil {
		sb.WriteString("(" + types.TypeString(sig.Recv().Type(), q) + ")")
	}
	sb.WriteString("(")
	for i := 0; i < sig.Params().Len(); i++ {
		if i > 0 {
			sb.WriteString(",")
		}
		sb.WriteString(types.TypeString(sig.Params().At(i).Type(), q))
	}
	if sig.Variadic() {
		sb.WriteString("...")
	}
	sb.WriteString(")(")
	for i := 0; i < sig.Results().Len(); i++ {
		if i > 0 {
			sb.WriteString(",")
		}
		sb.WriteString(types.TypeString(sig.Results().At(i).Type(), q))
	}
	sb.WriteString(")")
	return sb.String()
}

func rawQName(fn *ssa.Function) string {
	if fo, ok := fn.Object().(*types.Func); ok {
		return rawqname(fo)
	}
	return fn.String()
}

func calleeSet(fn *ssa.Function) []string {
	set := map[string]bool{}
	for _, g := range withAnon(fn) {
		eachCall(g, func(call ssa.CallInstruction) {
			if _, ok := call.Common().Value.(*ssa.Builtin); ok {
				return
			}
			if f := calleeOf(call); f != nil {
				set[qname(f)] = true // reference names for callees already resolved
			}
		})
	}
	out := make([]string, 0, len(set))
	for k := range set {
		out = append(out, k)
	}
	sort.Strings(out)
	return out
}

func anchorName(fn *ssa.Function) string {
	if fn.Signature.Recv() != nil {
		if n := namedOf(fn.Signature.Recv().Type()); n != nil {
			return n.Obj().Name() + "." + fn.Name()
		}
	}
	return fn.Name()
}

func unexported(name string) bool {
	last := name[strings.LastIndexByte(name, '.')+1:]
	return last != "" && (last[0] < 'A' || last[0] > 'Z')
}

func (c *Ctx) topLevelFuncs(rel string) []*ssa.Function {
	var out []*ssa.Function
	for _, f := range c.srcFuncs(rel) {
		if f.Parent() == nil && f.Synthetic == "" {
			out = append(out, f)
		}
	}
	return out
}

func writeAnchors(c *Ctx, path string) error {
	var all []anchorFP
	for _, rel := range c.modulePkgs() {
		for _, f := range c.topLevelFuncs(rel) {
			n := anchorName(f)
			if !unexported(n) || strings.HasPrefix(f.Name(), "init") {
				continue
			}
			all = append(all, anchorFP{Rel: rel, Name: n, Sig: sigString(f), Callees: calleeSet(f)})
		}
	}
	sort.Slice(all, func(i, j int) bool {
		if all[i].Rel != all[j].Rel {
			return all[i].Rel < all[j].Rel
		}
		return all[i].Name < all[j].Name
	})
	var structs []structFP
	for _, rel := range c.modulePkgs() {
		sp := c.SSA[modPath+"/"+rel]
		var names []string
		for n, m := range sp.Members {
			if _, ok := m.(*ssa.Type); ok {
				names = append(names, n)
			}
		}
		sort.Strings(names)
		for _, n := range names {
			st, ok := sp.Members[n].(*ssa.Type).Type().Underlying().(*types.Struct)
			if !ok {
				continue
			}
			fp := structFP{Rel: rel, Name: n}
			for i := 0; i < st.NumFields(); i++ {
				fp.Fields = append(fp.Fields, [2]string{st.Field(i).Name(), types.TypeString(st.Field(i).Type(), func(p *types.Package) string { return p.Path() })})
			}
			structs = append(structs, fp)
		}
	}
	b, err := json.MarshalIndent(map[string]interface{}{"reference": "unexported functions and struct fields of the tree the rule slots were confirmed on", "functions": all, "structs": structs}, "", " ")
	if err != nil {
		return err
	}
	return os.WriteFile(path, b, 0o644)
}

// resolveRenames fills c.renamed and qnameAlias from the reference table.
func (c *Ctx) resolveRenames(path string) {
	c.renamed = map[string]*ssa.Function{}
	b, err := os.ReadFile(path)
	if err != nil {
		return
	}
	var doc struct {
		Functions []anchorFP `json:"functions"`
		Structs   []structFP `json:"structs"`
	}
	if json.Unmarshal(b, &doc) != nil {
		return
	}
	// renamed unexported struct fields: a reference field that is gone and exactly one new field of the same type
	for _, sfp := range doc.Structs {
		sp := c.SSA[modPath+"/"+sfp.Rel]
		if sp == nil {
			continue
		}
		tm, ok := sp.Members[sfp.Name].(*ssa.Type)
		if !ok {
			continue
		}
		st, ok := tm.Type().Underlying().(*types.Struct)
		if !ok {
			continue
		}
		ref := map[string]string{}
		for _, f := range sfp.Fields {
			ref[f[0]] = f[1]
		}
		cur := map[string]string{}
		for i := 0; i < st.NumFields(); i++ {
			cur[st.Field(i).Name()] = types.TypeString(st.Field(i).Type(), func(p *types.Package) string { return p.Path() })
		}
		for name, typ := range ref {
			if _, still := cur[name]; still || !unexported(name) {
				continue
			}
			var cands []string
			for cn, ct := range cur {
				if _, known := ref[cn]; !known && ct == typ {
					cands = append(cands, cn)
				}
			}
			// several fields of one type renamed at once: pair them by declaration order
			if len(cands) > 1 {
				var goneSame []string
				for _, f := range sfp.Fields {
					if _, still := cur[f[0]]; !still && f[1] == typ {
						goneSame = append(goneSame, f[0])
					}
				}
				var freshSame []string
				for i := 0; i < st.NumFields(); i++ {
					fn := st.Field(i).Name()
					if _, known := ref[fn]; !known && cur[fn] == typ {
						freshSame = append(freshSame, fn)
					}
				}
				if len(goneSame) == len(freshSame) {
					for i, g := range goneSame {
						if g == name {
							cands = []string{freshSame[i]}
						}
					}
				}
			}
			if len(cands) == 1 {
				fieldAlias[modPath+"/"+sfp.Rel+"."+sfp.Name+"."+cands[0]] = name
				c.RenameNotes = append(c.RenameNotes, "field "+sfp.Rel+"."+sfp.Name+"."+name+" resolved to renamed field "+cands[0])
			}
		}
	}
	known := map[string]bool{}
	byPkg := map[string][]anchorFP{}
	for _, fp := range doc.Functions {
		known[fp.Rel+"."+fp.Name] = true
		byPkg[fp.Rel] = append(byPkg[fp.Rel], fp)
	}
	for round := 0; round < 3; round++ {
		progress := false
		for rel, fps := range byPkg {
			if c.SSA[modPath+"/"+rel] == nil {
				continue
			}
			present := map[string]*ssa.Function{}
			var fresh []*ssa.Function // functions whose name the reference does not know
			for _, f := range c.topLevelFuncs(rel) {
				n := anchorName(f)
				present[n] = f
				if unexported(n) && !known[rel+"."+n] && qnameAlias[rawQName(f)] == "" {
					fresh = append(fresh, f)
				}
			}
			if len(fresh) == 0 {
				continue
			}
			taken := map[*ssa.Function]bool{}
			for _, fp := range fps {
				if present[fp.Name] != nil || c.renamed[rel+"."+fp.Name] != nil {
					continue
				}
				// same receiver type required for methods
				recv := ""
				if i := strings.IndexByte(fp.Name, '.'); i >= 0 {
					recv = fp.Name[:i]
				}
				want := map[string]bool{}
				for _, k := range fp.Callees {
					want[k] = true
				}
				var best *ssa.Function
				bestScore, second := -1.0, -1.0
				for _, f := range fresh {
					if taken[f] || sigString(f) != fp.Sig {
						continue
					}
					fr := ""
					if n := anchorName(f); strings.IndexByte(n, '.') >= 0 {
						fr = n[:strings.IndexByte(n, '.')]
					}
					if fr != recv {
						continue
					}
					got := calleeSet(f)
					inter := 0
					for _, k := range got {
						if want[k] {
							inter++
						}
					}
					union := len(want) + len(got) - inter
					score := 1.0
					if union > 0 {
						score = float64(inter) / float64(union)
					}
					if score > bestScore {
						best, second, bestScore = f, bestScore, score
					} else if score > second {
						second = score
					}
				}
				if best != nil && bestScore >= 0.5 && bestScore-second >= 0.15 {
					taken[best] = true
					c.renamed[rel+"."+fp.Name] = best
					old := modPath + "/" + rel + "." + fp.Name
					qnameAlias[rawQName(best)] = old
					c.RenameNotes = append(c.RenameNotes, "anchor "+rel+"."+fp.Name+" resolved to renamed function "+anchorName(best))
					progress = true
				}
			}
		}
		if !progress {
			break
		}
	}
}
