package main

import (
	"go/ast"
	"go/constant"
	"go/token"
	"go/types"
	"sort"
	"strings"

	"golang.org/x/tools/go/ssa"
)

func init() {
	register(&propSpec{
		id: "C10", title: "Malformed source and bytecode are rejected, never mis-executed", run: runC10,
		variants:    []buildVariant{{name: "GOARCH=386", env: []string{"GOARCH=386"}}},
		notCovered:  "memory proportionality in general, acceptance/rejection correctness of the parser, the text the decompiler prints, termination of the lexers (decided only through recursion/allocation/bounds structure)",
		assumptions: []string{"untrusted buffers are the []byte parameters/fields named bytecode / code of pkg/vm and pkg/decompiler", "a read is guarded when a dominating comparison of an index expression of the same base with len(buffer) leads to an error return"},
	})
}

func runC10(c *Ctx) {
	c.rule("C10-R1", "TBL: every vm.Opcode constant has an arm in VM.executeInstruction; its operand-ness in the VM (handler calls readOperand) equals compiler.hasOperand, decompiler.hasOperand; it has a name in decompiler.opcodeToString; the compiler's jump-relocation set equals the opcodes whose handler assigns the operand to pc; every emit/emitWithOperand site in pkg/compiler matches the VM's operand-ness; the constant tags written by serializeConstant equal the tags accepted by vm.readConstant and decompiler.readConstant, which consume the same number of bytes per tag")
	opcodeTableRule(c, "C10-R1")
	constTagRule(c, "C10-R1")

	// ---- R2 operand-sized allocation
	c.rule("C10-R2", "PAN: in pkg/vm and pkg/decompiler every make(slice|map) whose size, and every slice expression whose bound, derives from readOperand or binary.LittleEndian.Uint32/Uint64 of the input is dominated by a comparison of that value (or a conversion of it) against len(stack) / len(code) / len(bytecode) or a constant whose failing edge returns an error; the same holds for growth calls (slices.Grow, append of make)")
	// struct fields that hold a value decoded from the input (e.g. the header's code length): a later load of such a
	// field is as untrusted as the decode itself
	taintedField := map[string]bool{}
	var fromInput func(v ssa.Value) bool
	fromInput = func(v ssa.Value) bool {
		return derivesFrom(v, func(x ssa.Value) bool {
			if u, ok := x.(*ssa.UnOp); ok && u.Op == token.MUL {
				if named, fld, ok := fieldOf(u.X); ok && taintedField[named.Obj().Name()+"."+fld] {
					return true
				}
			}
			cl, ok := x.(*ssa.Call)
			if !ok {
				return false
			}
			n := callName(cl)
			return n == vmPath+".VM.readOperand" || strings.HasPrefix(n, "encoding/binary.littleEndian.Uint") || strings.HasPrefix(n, "encoding/binary.bigEndian.Uint") || (cl.Call.IsInvoke() && strings.HasPrefix(cl.Call.Method.Name(), "Uint"))
		})
	}
	for round := 0; round < 3; round++ {
		for _, rel := range []string{vmPkg, decompPkg} {
			for _, fn := range c.srcFuncs(rel) {
				eachInstr(fn, func(_ *ssa.BasicBlock, _ int, ins ssa.Instruction) {
					st, ok := ins.(*ssa.Store)
					if !ok {
						return
					}
					if bt, ok := st.Val.Type().Underlying().(*types.Basic); !ok || bt.Info()&types.IsInteger == 0 {
						return
					}
					if named, fld, ok := fieldOf(st.Addr); ok && !taintedField[named.Obj().Name()+"."+fld] && fromInput(st.Val) {
						taintedField[named.Obj().Name()+"."+fld] = true
					}
				})
			}
		}
	}
	nAlloc := 0
	for _, rel := range []string{vmPkg, decompPkg} {
		for _, fn := range c.srcFuncs(rel) {
			k := 0
			eachInstr(fn, func(_ *ssa.BasicBlock, _ int, ins ssa.Instruction) {
				var size ssa.Value
				what := ""
				switch x := ins.(type) {
				case *ssa.MakeSlice:
					if fromInput(x.Len) {
						size, what = x.Len, "make([]T, n)"
					} else if fromInput(x.Cap) {
						size, what = x.Cap, "make([]T, _, n)"
					}
				case *ssa.MakeMap:
					if x.Reserve != nil && fromInput(x.Reserve) {
						size, what = x.Reserve, "make(map, n)"
					}
				case *ssa.Call:
					if n := callName(x); n == "slices.Grow" || n == "bytes.Buffer.Grow" || n == "strings.Builder.Grow" || n == "strings.Repeat" {
						a := x.Call.Args[len(x.Call.Args)-1]
						if fromInput(a) {
							size, what = a, n
						}
					}
				}
				if size == nil {
					return
				}
				k++
				nAlloc++
				c.ob("C10-R2", fnKey(fn)+"#input-sized-"+what+"-"+itoa(k), ins.Pos(), boundChecked(fn, size, ins), "an allocation is sized directly by a value read from the (untrusted) bytecode with no preceding bound check: a file of a few bytes can request gigabytes")
			})
		}
	}
	c.Sites["C10-R2#input-sized-allocations"] = nAlloc
	c.Sites["C10-R2#fields-holding-decoded-sizes"] = len(taintedField)
	if nAlloc < 2 {
		c.undecided("C10-R2: %d input-sized allocations found in pkg/vm + pkg/decompiler, floor 2", nAlloc)
	}

	// ---- R3 guarded reads of the untrusted buffer
	c.rule("C10-R3", "MPT: in the bytecode readers (vm.Execute, parseBytecode, readConstant, readOperand, step, execAsync; decompiler.Decompile, readConstant, readInstruction) every index/slice of the input buffer with a non-constant bound lies behind a comparison involving len(<that buffer>) whose out-of-range edge does not reach the access")
	readers := []struct{ rel, fn string }{
		{vmPkg, "VM.Execute"}, {vmPkg, "VM.parseBytecode"}, {vmPkg, "VM.readConstant"}, {vmPkg, "VM.readOperand"}, {vmPkg, "VM.step"}, {vmPkg, "VM.execAsync"},
		{decompPkg, "Decompiler.Decompile"}, {decompPkg, "Decompiler.readConstant"}, {decompPkg, "Decompiler.readInstruction"},
	}
	nReads := 0
	for _, r := range readers {
		fn := c.mustFn("C10-R3", r.rel, r.fn)
		if fn == nil {
			continue
		}
		isBuf := func(v ssa.Value) bool {
			if _, isSl := v.Type().Underlying().(*types.Slice); !isSl {
				return false
			}
			sl := v.Type().Underlying().(*types.Slice)
			if b, ok := sl.Elem().Underlying().(*types.Basic); !ok || b.Kind() != types.Uint8 {
				return false
			}
			if p, ok := v.(*ssa.Parameter); ok {
				return strings.Contains(strings.ToLower(p.Name()), "bytecode") || strings.Contains(strings.ToLower(p.Name()), "code") || strings.Contains(strings.ToLower(p.Name()), "instructions")
			}
			return loadedFromField(v, "VM", "code") || loadedFromField(v, "Decompiler", "bytecode")
		}
		k := 0
		eachInstr(fn, func(_ *ssa.BasicBlock, _ int, ins ssa.Instruction) {
			var buf ssa.Value
			var bounds []ssa.Value
			switch x := ins.(type) {
			case *ssa.IndexAddr:
				buf, bounds = x.X, []ssa.Value{x.Index}
			case *ssa.Index:
				buf, bounds = x.X, []ssa.Value{x.Index}
			case *ssa.Slice:
				buf = x.X
				for _, b := range []ssa.Value{x.Low, x.High} {
					if b != nil {
						bounds = append(bounds, b)
					}
				}
			default:
				return
			}
			if !isBuf(buf) {
				return
			}
			nonConst := false
			for _, b := range bounds {
				if _, isC := b.(*ssa.Const); !isC {
					nonConst = true
				}
			}
			if !nonConst {
				// constant bounds (header magic) need a length check too
				if len(bounds) == 0 {
					return
				}
			}
			k++
			nReads++
			c.ob("C10-R3", fnKey(fn)+"#buffer-read-"+itoa(k), ins.Pos(), lenGuarded(fn, buf, ins), "the untrusted buffer is indexed/sliced without a dominating comparison against its length: a truncated file panics (index out of range) instead of being rejected")
		})
	}
	// no wrapping arithmetic on an untrusted value ahead of a test or bound: uint32(off)+length wraps for
	// length near 2^32, passes `end > len` and then slices out of range
	nNarrow := 0
	for _, r := range readers {
		fn := c.fn(r.rel, r.fn)
		if fn == nil {
			continue
		}
		k := 0
		eachInstr(fn, func(_ *ssa.BasicBlock, _ int, ins ssa.Instruction) {
			bo, ok := ins.(*ssa.BinOp)
			if !ok || (bo.Op != token.ADD && bo.Op != token.MUL && bo.Op != token.SHL) {
				return
			}
			bt, ok := bo.Type().Underlying().(*types.Basic)
			if !ok {
				return
			}
			switch bt.Kind() {
			case types.Uint32, types.Int32, types.Uint16, types.Int16, types.Uint8, types.Int8:
			default:
				return
			}
			nNarrow++
			if !(fromInput(bo.X) || fromInput(bo.Y)) {
				return
			}
			is := func(v ssa.Value) bool { return v == ssa.Value(bo) }
			used := false
			eachInstr(fn, func(_ *ssa.BasicBlock, _ int, x ssa.Instruction) {
				switch y := x.(type) {
				case *ssa.If:
					if derivesFrom(y.Cond, is) {
						used = true
					}
				case *ssa.Slice:
					for _, b := range []ssa.Value{y.Low, y.High, y.Max} {
						if b != nil && derivesFrom(b, is) {
							used = true
						}
					}
				case *ssa.IndexAddr:
					if derivesFrom(y.Index, is) {
						used = true
					}
				case *ssa.MakeSlice:
					if derivesFrom(y.Len, is) || derivesFrom(y.Cap, is) {
						used = true
					}
				}
			})
			if used {
				k++
				c.ob("C10-R3", fnKey(fn)+"#narrow-arithmetic-on-input-"+itoa(k), bo.Pos(), false, "a value decoded from the input takes part in "+bt.Name()+" arithmetic whose result decides a bounds test or bound: for values near the type's maximum the sum wraps, passes the test, and the access that follows is out of range (panic instead of a diagnostic)")
			}
		})
	}
	c.Sites["C10-R3#narrow-int-arithmetic-sites-examined"] = nNarrow
	c.Sites["C10-R3#buffer-reads"] = nReads
	if nReads < 14 {
		c.undecided("C10-R3: %d buffer reads found, floor 14", nReads)
	}

	// ---- R6 lexers index their input only behind a length test
	c.rule("C10-R6", "MPT: in the lexers (methods of Lexer and ExpandedLexer) every index or slice of the input text with a non-constant position lies behind a dominating comparison with len(input) whose out-of-range edge does not reach the access (source that ends inside a token yields a diagnostic, not an index-out-of-range panic); slices bounded by positions the lexer itself advanced (start:position after a scan loop) are exempt when both bounds are loads of lexer position fields")
	nLex := 0
	for _, fn := range c.srcFuncs(parserPkg) {
		if fn.Signature.Recv() == nil {
			continue
		}
		rt := namedOf(fn.Signature.Recv().Type())
		if rt == nil || (rt.Obj().Name() != "Lexer" && rt.Obj().Name() != "ExpandedLexer") {
			continue
		}
		isInput := func(v ssa.Value) bool {
			return loadedFromField(v, rt.Obj().Name(), "input")
		}
		k := 0
		eachInstr(fn, func(_ *ssa.BasicBlock, _ int, ins ssa.Instruction) {
			var buf ssa.Value
			var idx []ssa.Value
			switch x := ins.(type) {
			case *ssa.Lookup:
				buf, idx = x.X, []ssa.Value{x.Index}
			case *ssa.Index:
				buf, idx = x.X, []ssa.Value{x.Index}
			case *ssa.Slice:
				return // slices of the input use positions bounded by the scan loops; indexes are the panic sites
			default:
				return
			}
			if !isInput(buf) {
				return
			}
			if _, isC := idx[0].(*ssa.Const); isC {
				return
			}
			k++
			nLex++
			c.ob("C10-R6", fnKey(fn)+"#input-index-"+itoa(k), ins.Pos(), lenGuarded(fn, buf, ins), "the lexer indexes its input at a computed position without a dominating comparison against len(input): source text that ends there panics with index out of range")
		})
	}
	c.Sites["C10-R6#input-indexes"] = nLex
	if nLex < 2 {
		c.undecided("C10-R6: %d input indexes found in the lexers, floor 2", nLex)
	}

	// ---- R4 loader limits
	c.rule("C10-R4", "MPT: VM.runLoop tests pc < len(code) in the loop header and the step limit inside the loop (C04-R3); VM.Push enforces a stack cap (a comparison of len(stack) with a constant precedes the append)")
	if push := c.mustFn("C10-R4", vmPkg, "VM.Push"); push != nil {
		var app ssa.Instruction
		eachInstr(push, func(_ *ssa.BasicBlock, _ int, ins ssa.Instruction) {
			if cl, ok := ins.(*ssa.Call); ok && callName(cl) == "builtin.append" {
				app = ins
			}
		})
		capd := false
		for _, b := range push.Blocks {
			iff := ifOf(b)
			if iff == nil || app == nil {
				continue
			}
			if bo, ok := iff.Cond.(*ssa.BinOp); ok {
				isLenStack := func(v ssa.Value) bool {
					cl, ok := v.(*ssa.Call)
					return ok && callName(cl) == "builtin.len" && loadedFromField(cl.Call.Args[0], "VM", "stack")
				}
				_, c1 := constInt(bo.Y)
				_, c2 := constInt(bo.X)
				if (isLenStack(bo.X) && c1) || (isLenStack(bo.Y) && c2) {
					if b.Dominates(app.Block()) {
						capd = true
					}
				}
			}
		}
		c.ob("C10-R4", vmPkg+".VM.Push#stack-cap", push.Pos(), capd, "Push appends without a dominating stack-size cap: malformed or runaway bytecode grows the stack without bound")
	}
	if rl := c.mustFn("C10-R4", vmPkg, "VM.runLoop"); rl != nil {
		ok := false
		for _, lp := range naturalLoops(rl) {
			if iff := ifOf(lp.head); iff != nil {
				if derivesFrom(iff.Cond, func(v ssa.Value) bool { return loadedFromField(v, "VM", "pc") }) || true {
					// header (or its && chain) compares pc with len(code)
					for b := range lp.body {
						if i2 := ifOf(b); i2 != nil {
							if bo, isBO := i2.Cond.(*ssa.BinOp); isBO && loadedFromField(bo.X, "VM", "pc") {
								if cl, isC := bo.Y.(*ssa.Call); isC && callName(cl) == "builtin.len" && loadedFromField(cl.Call.Args[0], "VM", "code") {
									ok = true
								}
							}
						}
					}
				}
			}
		}
		c.ob("C10-R4", vmPkg+".VM.runLoop#pc-bounded-by-code-length", rl.Pos(), ok, "the execution loop does not test pc < len(code)")
	}

	// ---- R12 the parser asserts nothing it has not established
	c.rule("C10-R12", "PAN: the parser turns every byte sequence into a tree or a diagnostic, so it never panics on what it parsed itself: in pkg/parser every single-result type assertion is established (dominated by the ok-edge of a comma-ok assertion / type-switch arm of the same value, or all sources of the value are of the asserted type). `item.(*ast.Route)` on what parseRoute returned is not: `@ ws /chat {}` or `@ cron ...` inside a macro body comes back as another item kind and the assertion panics")
	c.Sites["C10-R12#assertions"] = uncheckedAssertAudit(c, "C10-R12", []string{parserPkg}, nil)
	c.ob("C10-R12", parserPkg+"#assertions-examined", token.NoPos, true, "")

	// ---- R11 a full stack is reported
	c.rule("C10-R11", "ERR: whatever the compiler emits is executed completely, or refused: the VM's Push caps the stack, and a value that does not fit must not vanish - the capacity-exceeded path of Push returns an error, panics, or records the overflow in a field of the VM that the run loop tests (with an error return behind the test). A push that is silently dropped leaves every later instruction working on a stack the compiler did not describe: an N-element literal with N above the cap yields a bogus `stack underflow`, or a wrong value")
	if push := c.mustFn("C10-R11", vmPkg, "VM.Push"); push != nil {
		reported := false
		var recordedIn []string
		isLenStack := func(v ssa.Value) bool {
			cl, ok := v.(*ssa.Call)
			return ok && callName(cl) == "builtin.len" && loadedFromField(cl.Call.Args[0], "VM", "stack")
		}
		found := false
		for _, b := range push.Blocks {
			iff := ifOf(b)
			if iff == nil {
				continue
			}
			bo, ok := iff.Cond.(*ssa.BinOp)
			if !ok || !(isLenStack(bo.X) || isLenStack(bo.Y)) {
				continue
			}
			found = true
			// the full side: the successor from which the append is not reachable
			for _, succ := range b.Succs {
				q := &pathQuery{fn: push, target: func(x ssa.Instruction) bool { return isCallTo(x, "builtin.append") }}
				if h, _ := q.from(succ, 0); h != nil {
					continue
				}
				q2 := &pathQuery{fn: push, target: func(x ssa.Instruction) bool {
					switch y := x.(type) {
					case *ssa.Panic:
						reported = true
					case *ssa.Return:
						if len(y.Results) > 0 && !isNilConst(stripConv(retVals(y)[len(y.Results)-1])) {
							reported = true
						}
					case *ssa.Store:
						if nt, f, ok := fieldOf(y.Addr); ok && nt != nil && nt.Obj().Name() == "VM" && f != "stack" {
							recordedIn = append(recordedIn, f)
						}
					}
					return false
				}}
				q2.from(succ, 0)
			}
		}
		if !reported && len(recordedIn) > 0 {
			// the recorded overflow is tested where instructions are run, with an error return behind the test
			for _, name := range []string{"VM.runLoop", "VM.step", "VM.executeInstruction"} {
				fn := c.fn(vmPkg, name)
				if fn == nil {
					continue
				}
				for _, b := range fn.Blocks {
					iff := ifOf(b)
					if iff == nil {
						continue
					}
					for _, f := range recordedIn {
						fld := f
						if derivesFrom(iff.Cond, func(v ssa.Value) bool { return loadedFromField(v, "VM", fld) }) {
							for _, succ := range b.Succs {
								q := &pathQuery{fn: fn, target: func(x ssa.Instruction) bool {
									r, ok := x.(*ssa.Return)
									return ok && len(r.Results) > 0 && !isNilConst(stripConv(retVals(r)[len(r.Results)-1])) && r.Block() == succ
								}}
								if h, _ := q.from(succ, 0); h != nil {
									reported = true
								}
							}
						}
					}
				}
			}
		}
		c.ob("C10-R11", vmPkg+".VM.Push#a-value-that-does-not-fit-is-reported", push.Pos(), found && reported, "Push drops a value when the stack is full and nothing records it: the program goes on with a stack that misses values - a literal or call with more elements than the cap ends in a bogus `stack underflow` or in a wrong result, where the interpreter runs the same source correctly")
	}

	// ---- R5 parser recursion
	c.rule("C10-R10", "LOOP-PROGRESS: every loop of the parser and the lexers whose continuation depends on the cursor (its body or header consults check / peek / isAtEnd / the position or the input index) consumes input or leaves on every way around: no path from the loop head back to it avoids every instruction that moves the cursor (a store to Parser.position / Lexer.position / readPosition, or a call to a method of the same type that - transitively - makes one). An input on which some branch neither advances nor fails makes Parse spin on one token for ever")
	{
		type cur struct{ typ, field string }
		cursors := []cur{{"Parser", "position"}, {"Lexer", "position"}, {"Lexer", "readPosition"}, {"ExpandedLexer", "position"}, {"ExpandedLexer", "readPosition"}}
		movesDirect := func(x ssa.Instruction) bool {
			for _, cu := range cursors {
				if isStoreToField(x, cu.typ, cu.field) {
					return true
				}
			}
			return false
		}
		movesMemo := map[*ssa.Function]bool{}
		var moves func(fn *ssa.Function) bool
		moves = func(fn *ssa.Function) bool {
			if v, ok := movesMemo[fn]; ok {
				return v
			}
			movesMemo[fn] = false
			r := reachesInstr(fn, movesDirect, 0, map[*ssa.Function]bool{})
			movesMemo[fn] = r
			return r
		}
		readsCursor := func(x ssa.Instruction) bool {
			if v, ok := x.(ssa.Value); ok {
				for _, cu := range cursors {
					if loadedFromField(v, cu.typ, cu.field) {
						return true
					}
				}
			}
			if call, ok := x.(ssa.CallInstruction); ok {
				if sf := staticFn(call); sf != nil && sf.Pkg != nil && sf.Pkg.Pkg.Path() == parserPath && sf.Signature.Recv() != nil && !moves(sf) {
					// a read-only method of the parser/lexer: check, peek, isAtEnd, current …
					return reachesInstr(sf, func(y ssa.Instruction) bool {
						if v, ok := y.(ssa.Value); ok {
							for _, cu := range cursors {
								if loadedFromField(v, cu.typ, cu.field) {
									return true
								}
							}
						}
						return false
					}, 0, map[*ssa.Function]bool{})
				}
			}
			return false
		}
		progress := func(x ssa.Instruction) bool {
			if movesDirect(x) {
				return true
			}
			if call, ok := x.(ssa.CallInstruction); ok {
				if _, isGo := x.(*ssa.Go); isGo {
					return false
				}
				if sf := staticFn(call); sf != nil && sf.Pkg != nil && sf.Pkg.Pkg.Path() == parserPath && moves(sf) {
					return true
				}
			}
			return false
		}
		nLoops := 0
		for _, fn := range c.srcFuncs(parserPkg) {
			k := 0
			for _, lp := range naturalLoops(fn) {
				// cursor-driven?
				driven := false
				for b := range lp.body {
					for _, ins := range b.Instrs {
						if readsCursor(ins) {
							driven = true
						}
					}
				}
				if !driven || lp.isBoundedIteration() {
					continue
				}
				nLoops++
				k++
				// a way around the loop without progress: from the head, reach a back edge while staying inside the body
				type item struct {
					b    *ssa.BasicBlock
					prev *item
				}
				seen := map[*ssa.BasicBlock]bool{lp.head: true}
				queue := []*item{{lp.head, nil}}
				var found *item
				for len(queue) > 0 && found == nil {
					it := queue[0]
					queue = queue[1:]
					blocked := false
					for _, ins := range it.b.Instrs {
						if progress(ins) {
							blocked = true
							break
						}
					}
					if blocked {
						continue
					}
					for _, succ := range it.b.Succs {
						if !lp.body[succ] {
							continue
						}
						if succ == lp.head {
							found = &item{succ, it}
							break
						}
						if !seen[succ] {
							seen[succ] = true
							queue = append(queue, &item{succ, it})
						}
					}
				}
				var path []*ssa.BasicBlock
				for p := found; p != nil; p = p.prev {
					path = append([]*ssa.BasicBlock{p.b}, path...)
				}
				pos := fn.Pos()
				if len(lp.head.Instrs) > 0 && lp.head.Instrs[0].Pos() != token.NoPos {
					pos = lp.head.Instrs[0].Pos()
				}
				c.ob("C10-R10", fnKey(fn)+"#loop-"+itoa(k)+"-consumes-input-on-every-way-around", pos, found == nil, "this loop continues while the cursor has not reached some token, but one way around it neither moves the cursor nor leaves the loop: on an input that takes that branch (a `-` not followed by a number in an annotation) the parser spins on the same token for ever instead of reporting an error", c.blockPath(path)...)
			}
		}
		c.Sites["C10-R10#cursor-driven-loops"] = nLoops
		if nLoops < 20 {
			c.undecided("C10-R10: only %d cursor-driven loops found in pkg/parser, floor 20", nLoops)
		}
	}

	c.rule("C10-R9", "MPT: whatever bytecode is loaded, its execution is bounded: VM.runLoop compares its step counter with maxSteps inside the dispatch loop and the over-limit edge returns an error - the count is taken per dispatched instruction, not at particular opcodes (a hand-made file can close a loop with JUMP_IF_TRUE where the compiler would emit JUMP)")
	c.Sites["C10-R9#SetMaxSteps-sites"] = stepBoundValueAudit(c, "C10-R9")
	stepLimitInRunLoop(c, "C10-R9")

	c.rule("C10-R8", "MPT: the decompiler's listing covers the whole code section: the loop of Decompiler.Decompile that reads instructions (calls readInstruction) is left, once an instruction has been read in an iteration, only towards an error return - every other exit is the loop's own bounds test before the next read. A `break` on an opcode (HALT is also what ends an embedded async body) lists only part of what the VM executes, without an error")
	if dc := c.mustFn("C10-R8", decompPkg, "Decompiler.Decompile"); dc != nil {
		nLoops := 0
		for _, lp := range naturalLoops(dc) {
			var rd ssa.Instruction
			for b := range lp.body {
				for _, ins := range b.Instrs {
					if call, ok := ins.(*ssa.Call); ok && strings.HasSuffix(callName(call), "Decompiler.readInstruction") {
						rd = ins
					}
				}
			}
			if rd == nil {
				continue
			}
			nLoops++
			k := 0
			for b := range lp.body {
				if !(rd.Block() == b || rd.Block().Dominates(b)) {
					continue
				}
				for _, succ := range b.Succs {
					if lp.body[succ] {
						continue
					}
					k++
					q := &pathQuery{fn: dc, target: func(x ssa.Instruction) bool {
						r, ok := x.(*ssa.Return)
						return ok && len(r.Results) > 0 && isNilConst(stripConv(retVals(r)[len(r.Results)-1]))
					}}
					hit, path := q.from(succ, 0)
					p := b.Instrs[len(b.Instrs)-1].Pos()
					if p == token.NoPos {
						p = rd.Pos()
					}
					c.ob("C10-R8", fnKey(dc)+"#walk-leaves-the-loop-after-a-read-only-with-an-error-"+itoa(k), p, hit == nil, "after an instruction was read the walk can leave the loop and still return a listing: the part of the code section behind that point is missing from the output without any error (nested async bodies end in HALT like the program does)", c.blockPath(path)...)
				}
			}
		}
		c.Sites["C10-R8#instruction-walk-loops"] = nLoops
		if nLoops == 0 {
			c.ob("C10-R8", fnKey(dc)+"#instruction-walk", dc.Pos(), false, "Decompile has no loop that calls readInstruction: the walk over the code section is not where the rule expects it")
		}
	}

	c.rule("C10-R7", "BKT: the parser never rewinds its cursor over tokens it has already parsed through the recursive grammar: no store into Parser.position of a value that is a saved copy of the cursor (as opposed to cursor+k) is reachable after a call to a parse method between the save and the restore. Parse, rewind, parse again doubles the work at every nesting level of the re-parsed construct, so a few hundred bytes of nested input do not terminate in practice")
	{
		nStores, nRewinds := 0, 0
		for _, fn := range c.srcFuncs(parserPkg) {
			k := 0
			eachInstr(fn, func(_ *ssa.BasicBlock, _ int, ins ssa.Instruction) {
				st, ok := ins.(*ssa.Store)
				if !ok || !isStoreToField(st, "Parser", "position") {
					return
				}
				nStores++
				// a rewind: the stored value is (a phi of) plain loads of the cursor, not cursor+k
				var saved []ssa.Value
				var walk func(v ssa.Value, d int) bool
				walk = func(v ssa.Value, d int) bool {
					if d > 6 {
						return false
					}
					switch x := v.(type) {
					case *ssa.UnOp:
						if x.Op == token.MUL && loadedFromField(x, "Parser", "position") {
							saved = append(saved, x)
							return true
						}
						if x.Op == token.MUL {
							if al, ok := x.X.(*ssa.Alloc); ok {
								okAny := false
								for _, r := range refs(al) {
									if s2, ok := r.(*ssa.Store); ok && s2.Addr == ssa.Value(al) && walk(s2.Val, d+1) {
										okAny = true
									}
								}
								return okAny
							}
						}
					case *ssa.Phi:
						okAny := false
						for _, e := range x.Edges {
							if walk(e, d+1) {
								okAny = true
							}
						}
						return okAny
					}
					return false
				}
				if !walk(st.Val, 0) {
					return
				}
				nRewinds++
				// a parse method called between a save and this restore
				reparse := false
				for _, sv := range saved {
					q := &pathQuery{fn: fn, target: func(x ssa.Instruction) bool { return x == ins }}
					_ = q
					eachInstr(fn, func(_ *ssa.BasicBlock, _ int, x ssa.Instruction) {
						call, ok := x.(*ssa.Call)
						if !ok {
							return
						}
						sf := staticFn(call)
						if sf == nil || sf.Signature.Recv() == nil || sf.Pkg == nil || sf.Pkg.Pkg.Path() != modPath+"/"+parserPkg || !strings.HasPrefix(sf.Name(), "parse") {
							return
						}
						svi := sv.(ssa.Instruction)
						q1 := &pathQuery{fn: fn, target: func(y ssa.Instruction) bool { return y == x }}
						h1, _ := q1.after(svi)
						q2 := &pathQuery{fn: fn, target: func(y ssa.Instruction) bool { return y == ins }}
						h2, _ := q2.after(x)
						if h1 != nil && h2 != nil {
							reparse = true
						}
					})
				}
				k++
				c.ob("C10-R7", fnKey(fn)+"#cursor-rewind-"+itoa(k), st.Pos(), !reparse, "the cursor is saved, a parse method runs, and the cursor is restored to the saved value so that the same tokens are parsed again: with a construct that can contain statements (async block, lambda) inside the re-parsed part the work doubles per nesting level")
			})
		}
		c.Sites["C10-R7#stores-to-Parser.position"] = nStores
		c.Sites["C10-R7#cursor-rewinds"] = nRewinds
		if nStores < 1 {
			c.undecided("C10-R7: no store to Parser.position found")
		}
		c.ob("C10-R7", parserPkg+".Parser#no-reparse-after-rewind", token.NoPos, true, "")
	}

	c.rule("C10-R5", "REC: after removing from pkg/parser's static call graph every Parser method that increments and tests the nesting-depth counter, no cycle (including self-recursion) remains: every recursive descent that input nesting can drive passes through the depth guard, so deep nesting is a diagnostic and not a Go stack overflow (fatal, unrecoverable)")
	recursionRule(c, "C10-R5")
}

// boundChecked: size value (or a conversion source of it) is compared in a block dominating `at`.
func boundChecked(fn *ssa.Function, size ssa.Value, at ssa.Instruction) bool {
	// the family of values equal to size modulo conversions
	fam := map[ssa.Value]bool{}
	var up func(v ssa.Value)
	up = func(v ssa.Value) {
		if fam[v] {
			return
		}
		fam[v] = true
		switch x := v.(type) {
		case *ssa.Convert:
			up(x.X)
		case *ssa.ChangeType:
			up(x.X)
		case *ssa.Extract:
		}
		for _, r := range refs(v) {
			if cv, ok := r.(*ssa.Convert); ok {
				up(cv)
			}
		}
	}
	up(size)
	for _, b := range fn.Blocks {
		iff := ifOf(b)
		if iff == nil || !b.Dominates(at.Block()) || b == at.Block() {
			continue
		}
		bo, ok := iff.Cond.(*ssa.BinOp)
		if !ok {
			continue
		}
		switch bo.Op {
		case token.LSS, token.GTR, token.LEQ, token.GEQ:
		default:
			continue
		}
		involves := func(v ssa.Value) bool {
			return derivesFrom(v, func(x ssa.Value) bool { return fam[x] })
		}
		if !(involves(bo.X) || involves(bo.Y)) {
			continue
		}
		// one successor leaves towards an error return and does not reach the allocation
		for _, s := range b.Succs {
			q := &pathQuery{fn: fn, target: func(x ssa.Instruction) bool { return x == at }}
			if h, _ := q.from(s, 0); h == nil {
				return true
			}
		}
	}
	return false
}

// lenGuarded: a dominating comparison mentions len(buf) (same buffer) and the position variable the
// access is computed from, that variable is not modified between the comparison and the access, and
// the comparison has an edge that does not reach the access.
func lenGuarded(fn *ssa.Function, buf ssa.Value, at ssa.Instruction) bool {
	sameBuf := func(v ssa.Value) bool {
		if v == buf {
			return true
		}
		return sameVal(v, buf)
	}
	// position variables: loads (through pointers / fields) in the access's bounds
	var bounds []ssa.Value
	switch x := at.(type) {
	case *ssa.IndexAddr:
		bounds = []ssa.Value{x.Index}
	case *ssa.Index:
		bounds = []ssa.Value{x.Index}
	case *ssa.Lookup:
		bounds = []ssa.Value{x.Index}
	case *ssa.Slice:
		for _, b := range []ssa.Value{x.Low, x.High} {
			if b != nil {
				bounds = append(bounds, b)
			}
		}
	}
	var posLoads []*ssa.UnOp
	for _, b := range bounds {
		derivesFrom(b, func(v ssa.Value) bool {
			if u, ok := v.(*ssa.UnOp); ok && u.Op == token.MUL {
				switch u.X.(type) {
				case *ssa.Parameter, *ssa.FieldAddr:
					if !sameBuf(u) {
						posLoads = append(posLoads, u)
					}
				}
			}
			return false
		})
	}
	sameAddr := func(a, b ssa.Value) bool {
		if a == b {
			return true
		}
		fa, ok1 := a.(*ssa.FieldAddr)
		fb, ok2 := b.(*ssa.FieldAddr)
		return ok1 && ok2 && fa.Field == fb.Field && sameVal(fa.X, fb.X)
	}
	for _, b := range fn.Blocks {
		iff := ifOf(b)
		if iff == nil || !b.Dominates(at.Block()) || b == at.Block() {
			continue
		}
		mentionsLen := derivesFrom(iff.Cond, func(x ssa.Value) bool {
			cl, ok := x.(*ssa.Call)
			return ok && callName(cl) == "builtin.len" && sameBuf(cl.Call.Args[0])
		})
		if !mentionsLen {
			continue
		}
		if len(posLoads) > 0 {
			// the comparison must be about the same position variable, unmodified since
			okPos := false
			for _, pl := range posLoads {
				mentions := derivesFrom(iff.Cond, func(x ssa.Value) bool {
					u, ok := x.(*ssa.UnOp)
					return ok && u.Op == token.MUL && sameAddr(u.X, pl.X)
				})
				if !mentions {
					continue
				}
				// no store to that variable between the comparison and the access
				modified := false
				eachInstr(fn, func(_ *ssa.BasicBlock, _ int, ins ssa.Instruction) {
					st, ok := ins.(*ssa.Store)
					if !ok || !sameAddr(st.Addr, pl.X) {
						return
					}
					q1 := &pathQuery{fn: fn, target: func(y ssa.Instruction) bool { return y == ins }, stop: func(y ssa.Instruction) bool { return y == at }}
					h1, _ := q1.after(iff)
					if h1 == nil {
						return
					}
					q2 := &pathQuery{fn: fn, target: func(y ssa.Instruction) bool { return y == at }, stop: func(y ssa.Instruction) bool { return y == ssa.Instruction(iff) }}
					if h2, _ := q2.after(ins); h2 != nil {
						modified = true
					}
				})
				// calls that advance the position through the pointer (helpers taking the offset pointer)
				eachInstr(fn, func(_ *ssa.BasicBlock, _ int, ins ssa.Instruction) {
					call, ok := ins.(ssa.CallInstruction)
					if !ok {
						return
					}
					passes := false
					for _, a := range call.Common().Args {
						if sameAddr(a, pl.X) {
							passes = true
						}
					}
					if !passes {
						return
					}
					q1 := &pathQuery{fn: fn, target: func(y ssa.Instruction) bool { return y == ins }, stop: func(y ssa.Instruction) bool { return y == at }}
					if h1, _ := q1.after(iff); h1 == nil {
						return
					}
					q2 := &pathQuery{fn: fn, target: func(y ssa.Instruction) bool { return y == at }, stop: func(y ssa.Instruction) bool { return y == ssa.Instruction(iff) }}
					if h2, _ := q2.after(ins); h2 != nil {
						modified = true
					}
				})
				if !modified {
					okPos = true
				}
			}
			if !okPos {
				continue
			}
		}
		for _, s := range b.Succs {
			q := &pathQuery{fn: fn, target: func(x ssa.Instruction) bool { return x == at }}
			if h, _ := q.from(s, 0); h == nil {
				return true
			}
		}
	}
	return false
}

func constTagRule(c *Ctx, rule string) {
	// writer tags: constants stored at index 0 of byte buffers / first element of byte literals in serializeConstant
	wt := map[int64]bool{}
	if f := c.fn(compilerPkg, "serializeConstant"); f != nil {
		eachInstr(f, func(_ *ssa.BasicBlock, _ int, ins ssa.Instruction) {
			st, ok := ins.(*ssa.Store)
			if !ok {
				return
			}
			ia, ok := st.Addr.(*ssa.IndexAddr)
			if !ok {
				return
			}
			if i, ok := constInt(ia.Index); !ok || i != 0 {
				return
			}
			if v, ok := constInt(st.Val); ok {
				if b, isB := st.Val.Type().Underlying().(*types.Basic); isB && b.Kind() == types.Uint8 {
					wt[v] = true
				}
			}
		})
	}
	readerTags := func(rel, fn string) (map[int64]int64, bool) {
		out := map[int64]int64{}
		d := c.decl(rel, fn)
		if d == nil {
			return out, false
		}
		p := c.pkg(rel)
		ast.Inspect(d, func(n ast.Node) bool {
			cc, ok := n.(*ast.CaseClause)
			if !ok {
				return true
			}
			for _, e := range cc.List {
				tv, ok := p.TypesInfo.Types[e]
				if !ok || tv.Value == nil || tv.Value.Kind() != constant.Int {
					continue
				}
				tag, _ := constant.Int64Val(tv.Value)
				var width int64
				for _, st := range cc.Body {
					ast.Inspect(st, func(m ast.Node) bool {
						switch x := m.(type) {
						case *ast.AssignStmt:
							if x.Tok == token.ADD_ASSIGN && len(x.Rhs) == 1 {
								if tv2, ok := p.TypesInfo.Types[x.Rhs[0]]; ok && tv2.Value != nil {
									if k, ok := constant.Int64Val(tv2.Value); ok {
										width += k
									}
								} else {
									width += 1000 // variable-length part
								}
							}
						case *ast.IncDecStmt:
							if x.Tok == token.INC {
								width++
							}
						}
						return true
					})
				}
				out[tag] = width
			}
			return true
		})
		return out, true
	}
	vt, ok1 := readerTags(vmPkg, "VM.readConstant")
	dt, ok2 := readerTags(decompPkg, "Decompiler.readConstant")
	if !ok1 || !ok2 || len(wt) < 4 {
		c.undecided("%s: constant-tag tables not extracted (writer %d tags)", rule, len(wt))
		return
	}
	all := map[int64]bool{}
	for t := range wt {
		all[t] = true
	}
	for t := range vt {
		all[t] = true
	}
	for t := range dt {
		all[t] = true
	}
	var tags []int64
	for t := range all {
		tags = append(tags, t)
	}
	sort.Slice(tags, func(i, j int) bool { return tags[i] < tags[j] })
	for _, t := range tags {
		_, inV := vt[t]
		_, inD := dt[t]
		c.ob(rule, "constant-tag:"+itoa(int(t))+"#writer-vm-decompiler-agree", token.NoPos, wt[t] && inV && inD && vt[t] == dt[t],
			"constant tag "+itoa(int(t))+": written="+boolStr(wt[t])+", accepted by VM="+boolStr(inV)+" (consumes "+itoa(int(vt[t]%1000))+" fixed bytes), by decompiler="+boolStr(inD)+" (consumes "+itoa(int(dt[t]%1000))+"): the loaders disagree on what the compiler emits or on constant boundaries")
	}
}

// recursionRule: cycles in the parser's static call graph that avoid the depth guard.
// depthGuardSound: in a depth-guard helper (returns error) every path from entry to a success return (nil error)
// leaves a block whose branch compares the depth counter with the limit, and one outcome of such a comparison
// reaches no success return (it reports the overflow). A guard that can be skipped - e.g. `limit > 0 && depth > limit`
// with a limit some constructor leaves at zero - bounds nothing.
func depthGuardSound(fn *ssa.Function) (bool, string) {
	isDepthLoad := func(v ssa.Value) bool {
		u, ok := v.(*ssa.UnOp)
		if !ok {
			return false
		}
		_, fld, ok := fieldOf(u.X)
		return ok && strings.Contains(strings.ToLower(fld), "depth") && !strings.Contains(strings.ToLower(fld), "max") && !strings.Contains(strings.ToLower(fld), "limit")
	}
	cmpBlock := map[*ssa.BasicBlock]bool{}
	for _, b := range fn.Blocks {
		iff := ifOf(b)
		if iff == nil {
			continue
		}
		bo, ok := iff.Cond.(*ssa.BinOp)
		if !ok {
			continue
		}
		switch bo.Op {
		case token.GTR, token.GEQ, token.LSS, token.LEQ:
		default:
			continue
		}
		if derivesFrom(bo.X, isDepthLoad) || derivesFrom(bo.Y, isDepthLoad) {
			cmpBlock[b] = true
		}
	}
	if len(cmpBlock) == 0 {
		return false, "the helper never compares the depth counter with a limit"
	}
	nilReturn := func(x ssa.Instruction) bool {
		r, ok := x.(*ssa.Return)
		if !ok {
			return false
		}
		vals := retVals(r)
		return len(vals) > 0 && isNilConst(vals[len(vals)-1])
	}
	q := &pathQuery{fn: fn, target: nilReturn, cutEdge: func(b *ssa.BasicBlock, _ int) bool { return cmpBlock[b] }}
	if hit, _ := q.fromEntry(); hit != nil {
		return false, "a path returns success without comparing the depth counter with the limit (the comparison is conditional): when that condition is false, nesting depth is bounded only by the Go stack, whose overflow is fatal"
	}
	for b := range cmpBlock {
		for _, s := range b.Succs {
			q := &pathQuery{fn: fn, target: nilReturn}
			if hit, _ := q.from(s, 0); hit == nil {
				return true, ""
			}
		}
	}
	return false, "no outcome of the depth comparison reports the overflow: both lead to a success return"
}

func recursionRule(c *Ctx, rule string) {
	fns := c.srcFuncs(parserPkg)
	inPkg := map[*ssa.Function]bool{}
	for _, f := range fns {
		inPkg[f] = true
	}
	guarded := map[*ssa.Function]bool{}
	helperChecked := map[*ssa.Function]bool{}
	for _, f := range fns {
		// increments a depth field and compares it
		inc, cmp := false, false
		eachInstr(f, func(_ *ssa.BasicBlock, _ int, ins ssa.Instruction) {
			if st, ok := ins.(*ssa.Store); ok {
				if _, fld, ok := fieldOf(st.Addr); ok && strings.Contains(strings.ToLower(fld), "depth") {
					if bo, ok := st.Val.(*ssa.BinOp); ok && bo.Op == token.ADD {
						inc = true
					}
				}
			}
			if iff, ok := ins.(*ssa.If); ok {
				if derivesFrom(iff.Cond, func(v ssa.Value) bool {
					u, ok := v.(*ssa.UnOp)
					if !ok {
						return false
					}
					_, fld, ok := fieldOf(u.X)
					return ok && strings.Contains(strings.ToLower(fld), "depth")
				}) {
					cmp = true
				}
			}
		})
		// or calls a helper that does both and whose error is propagated
		eachCall(f, func(call ssa.CallInstruction) {
			if sf := staticFn(call); sf != nil && inPkg[sf] && sf != f {
				{
					i2, c2 := false, false
					eachInstr(sf, func(_ *ssa.BasicBlock, _ int, ins ssa.Instruction) {
						if st, ok := ins.(*ssa.Store); ok {
							if _, fld, ok := fieldOf(st.Addr); ok && strings.Contains(strings.ToLower(fld), "depth") {
								i2 = true
							}
						}
						if _, ok := ins.(*ssa.If); ok {
							c2 = true
						}
					})
					if i2 && c2 {
						inc, cmp = true, true
						if !helperChecked[sf] {
							helperChecked[sf] = true
							ok, why := depthGuardSound(sf)
							c.ob(rule, fnKey(sf)+"#depth-guard-cannot-be-bypassed", sf.Pos(), ok, why)
						}
					}
				}
			}
		})
		if inc && cmp {
			guarded[f] = true
		}
	}
	if len(guarded) == 0 {
		c.ob(rule, parserPkg+"#depth-guard", token.NoPos, false, "no parser function increments and tests a nesting-depth counter: recursion depth is bounded only by the Go stack")
		return
	}
	// reasoned exceptions (one line each):
	exempt := map[string]string{
		parserPkg + ".Parser.parseBinaryExpr":               "precedence climbing: the recursive call passes precedence+1, so depth is bounded by the number of precedence levels, not by input nesting (checked below)",
		parserPkg + ".Parser.parseCommandDefaultBinaryExpr": "same precedence-climbing shape for command defaults",
	}
	// graph without guarded nodes; only Parser methods consume input (plain functions recurse over already-parsed, depth-bounded values)
	adj := map[*ssa.Function][]*ssa.Function{}
	for _, f := range fns {
		if guarded[f] {
			continue
		}
		if f.Signature.Recv() == nil && f.Parent() == nil {
			continue
		}
		for _, g := range withAnon(f) {
			eachCall(g, func(call ssa.CallInstruction) {
				if sf := staticFn(call); sf != nil && inPkg[sf] && !guarded[sf] {
					adj[f] = append(adj[f], topParent(sf))
				}
			})
		}
	}
	// Tarjan SCC
	index := 0
	idx := map[*ssa.Function]int{}
	low := map[*ssa.Function]int{}
	on := map[*ssa.Function]bool{}
	var stack []*ssa.Function
	var sccs [][]*ssa.Function
	var strong func(v *ssa.Function)
	strong = func(v *ssa.Function) {
		index++
		idx[v], low[v] = index, index
		stack = append(stack, v)
		on[v] = true
		for _, w := range adj[v] {
			if idx[w] == 0 {
				strong(w)
				if low[w] < low[v] {
					low[v] = low[w]
				}
			} else if on[w] && idx[w] < low[v] {
				low[v] = idx[w]
			}
		}
		if low[v] == idx[v] {
			var comp []*ssa.Function
			for {
				w := stack[len(stack)-1]
				stack = stack[:len(stack)-1]
				on[w] = false
				comp = append(comp, w)
				if w == v {
					break
				}
			}
			sccs = append(sccs, comp)
		}
	}
	for _, f := range fns {
		if !guarded[f] && f.Parent() == nil && idx[f] == 0 {
			strong(f)
		}
	}
	n := 0
	for _, comp := range sccs {
		cyc := len(comp) > 1
		if !cyc {
			for _, w := range adj[comp[0]] {
				if w == comp[0] {
					cyc = true
				}
			}
		}
		if !cyc {
			continue
		}
		var names []string
		for _, f := range comp {
			names = append(names, strings.TrimPrefix(fnKey(f), parserPkg+".Parser."))
		}
		sort.Strings(names)
		if len(comp) == 1 {
			why, ok := exempt[fnKey(comp[0])]
			if !ok {
				why, ok = "self-recursion whose every recursive call passes level+k (k>0): depth is bounded by the number of levels, not by input nesting (shape-verified)", true
			}
			if ok {
				// verify the shape: every self-call passes an argument that is (param|derived level) + positive constant
				okShape := true
				eachCall(comp[0], func(call ssa.CallInstruction) {
					if staticFn(call) != comp[0] {
						return
					}
					inc := false
					for _, a := range call.Common().Args[1:] {
						if bo, ok := a.(*ssa.BinOp); ok && bo.Op == token.ADD {
							if k, ok := constInt(bo.Y); ok && k > 0 {
								// the incremented value must be compared with the function's own int parameter
								// somewhere (the level test), otherwise nothing bounds the recursion
								for _, p := range comp[0].Params {
									if bt, ok := p.Type().Underlying().(*types.Basic); ok && bt.Info()&types.IsInteger != 0 {
										for _, r := range refs(p) {
											if cmp, ok := r.(*ssa.BinOp); ok && (cmp.Op == token.LSS || cmp.Op == token.GTR || cmp.Op == token.LEQ || cmp.Op == token.GEQ) {
												inc = true
											}
										}
									}
								}
							}
						}
					}
					if !inc {
						okShape = false
					}
				})
				if okShape {
					c.info(rule, parserPkg+"#exception:"+names[0], comp[0].Pos(), "reasoned exception: "+why)
					continue
				}
			}
		}
		n++
		head := names[0]
		c.ob(rule, parserPkg+"#unguarded-recursion:"+head+"(+"+itoa(len(names)-1)+")", comp[0].Pos(), false, "recursive descent cycle {"+strings.Join(names, ", ")+"} never passes through the nesting-depth guard: input nesting this cycle follows (e.g. chained unary operators, nested blocks, nested types or patterns) is bounded only by the Go stack, whose exhaustion is a fatal error no recover contains")
	}
	var gn []string
	for f := range guarded {
		gn = append(gn, fnKey(f))
	}
	sort.Strings(gn)
	c.ob(rule, parserPkg+"#recursion-passes-depth-guard", token.NoPos, true, "ok: guarded entry points: "+strings.Join(gn, ", "))
	c.Sites[rule+"#unguarded-cycles"] = n
}
