package main

// runFixtures analyses the tiny good/bad fixture packages under testdata with the
// same engines; a rule that no longer fires on its bad fixture (or fires on the good one)
// makes every check UNDECIDED ("rule is dead"). Filled in fixtures_run.go.
func runFixtures(root string) error { return runFixturesImpl(root) }
