package main

import (
	"fmt"
	"go/token"
	"go/types"
	"sort"
	"strings"

	"golang.org/x/tools/go/ssa"
)

// ===== LCK: lockset analysis =====
//
// For every access to a guarded field, the mutex class named in the guard table must be
// held (write mode for writes) at the accessing instruction. Must-lockset, forward,
// per function, with helper summaries (acquires / releases / requires-at-entry) that are
// propagated along static call edges to a fixpoint. Receiver-insensitive.

type guard struct {
	typ      string // "pkg/cache.LRUCache"
	field    string
	class    string // "pkg/cache.LRUCache.mu" or "local:<fnKey>.<var>"
	ptrConst bool   // the field is a pointer/chan that never changes after construction: only uses through it count
	atomicOK bool   // access through sync/atomic functions is exempt
	readOK   bool   // reads need no lock (only writes are checked)
}

type lckConfig struct {
	rule     string
	pkgs     []string
	guards   []guard
	mutators map[string]bool   // qualified callee names that mutate their receiver (arg 0)
	readers  map[string]bool   // qualified callee names that only read their receiver
	exempt   map[string]string // fnKey -> reason: function is exempt (constructor-time, single-threaded)
	// rootsHold: fnKey -> classes held at entry by contract (e.g. hub loop owns the state)
	rootsHold map[string]map[string]int
}

const (
	modeNone  = 0
	modeRead  = 1
	modeWrite = 2
)

type lockState map[string]int

func (s lockState) clone() lockState {
	o := lockState{}
	for k, v := range s {
		o[k] = v
	}
	return o
}

func meet(a, b lockState) lockState {
	o := lockState{}
	for k, v := range a {
		if w, ok := b[k]; ok {
			if w < v {
				v = w
			}
			if v > 0 {
				o[k] = v
			}
		}
	}
	return o
}

func sameState(a, b lockState) bool {
	if len(a) != len(b) {
		return false
	}
	for k, v := range a {
		if b[k] != v {
			return false
		}
	}
	return true
}

type access struct {
	fn      *ssa.Function
	ins     ssa.Instruction
	g       *guard
	write   bool
	held    int
	logOnly bool
}

type fnSummary struct {
	acquires map[string]int  // class -> mode held at every return (not released by defer)
	releases map[string]bool // class released without local acquire
	requires map[string]int  // class -> mode needed at entry
	reqWhy   map[string]*access
}

type lckEngine struct {
	c     *Ctx
	cfg   *lckConfig
	gmap  map[string]*guard // "typ.field"
	funcs []*ssa.Function
	sum   map[*ssa.Function]*fnSummary
	// callers: static call sites per callee
	callers map[*ssa.Function][]ssa.CallInstruction
	// state at each instruction, recomputed per function on demand
	closureEntry map[*ssa.Function]lockState
	goClosure    map[*ssa.Function]bool
	localHelper  map[*ssa.Function]bool
}

var syncLockOps = map[string]int{
	"sync.Mutex.Lock": +modeWrite, "sync.RWMutex.Lock": +modeWrite, "sync.RWMutex.RLock": +modeRead,
	"sync.Mutex.Unlock": -1, "sync.RWMutex.Unlock": -1, "sync.RWMutex.RUnlock": -1,
}

// lockClassOf names the mutex a Lock/Unlock receiver denotes.
func lockClassOf(v ssa.Value, fn *ssa.Function) string {
	switch x := v.(type) {
	case *ssa.FieldAddr:
		if n, f, ok := fieldOf(x); ok && n != nil {
			return short(n.Obj().Pkg().Path()) + "." + n.Obj().Name() + "." + f
		}
	case *ssa.UnOp: // pointer-typed mutex field: *(&x.mu)
		if x.Op == token.MUL {
			return lockClassOf(x.X, fn)
		}
	case *ssa.FreeVar:
		// find the binding in the parent to name it by the outermost function
		return "local:" + fnKey(topParent(fn)) + "." + x.Name()
	case *ssa.Alloc:
		return "local:" + fnKey(topParent(fn)) + "." + x.Comment
	case *ssa.Global:
		return "global:" + short(x.Pkg.Pkg.Path()) + "." + x.Name()
	case *ssa.Parameter:
		return "param:" + fnKey(fn) + "." + x.Name()
	}
	return ""
}

// classOf is lockClassOf, but a mutex received as a parameter is named after the mutex every
// static caller passes (when they all agree), so helpers like recordAuthFailure(…, &mu, …)
// lock the same class as their callers.
func (e *lckEngine) classOf(v ssa.Value, fn *ssa.Function, depth int) string {
	if p, ok := v.(*ssa.Parameter); ok && depth < 4 {
		idx := -1
		for i, q := range fn.Params {
			if q == p {
				idx = i
			}
		}
		agreed := ""
		for _, cs := range e.callers[fn] {
			args := cs.Common().Args
			if idx < 0 || idx >= len(args) {
				return lockClassOf(v, fn)
			}
			cl := e.classOf(args[idx], cs.Parent(), depth+1)
			if agreed == "" {
				agreed = cl
			} else if agreed != cl {
				return lockClassOf(v, fn)
			}
		}
		if agreed != "" {
			return agreed
		}
	}
	return lockClassOf(v, fn)
}

func newLck(c *Ctx, cfg *lckConfig) *lckEngine {
	e := &lckEngine{c: c, cfg: cfg, gmap: map[string]*guard{}, sum: map[*ssa.Function]*fnSummary{},
		callers: map[*ssa.Function][]ssa.CallInstruction{}, closureEntry: map[*ssa.Function]lockState{}, goClosure: map[*ssa.Function]bool{}, localHelper: map[*ssa.Function]bool{}}
	for i := range cfg.guards {
		g := &cfg.guards[i]
		e.gmap[g.typ+"."+g.field] = g
	}
	for _, p := range cfg.pkgs {
		e.funcs = append(e.funcs, c.srcFuncs(p)...)
	}
	for _, f := range e.funcs {
		e.sum[f] = &fnSummary{acquires: map[string]int{}, releases: map[string]bool{}, requires: map[string]int{}, reqWhy: map[string]*access{}}
	}
	for _, f := range e.funcs {
		eachCall(f, func(call ssa.CallInstruction) {
			if cal := e.callee(call); cal != nil {
				if _, ok := e.sum[cal]; ok {
					e.callers[cal] = append(e.callers[cal], call)
				}
			}
			// a closure handed to a synchronous higher-order function of the standard library
			// (maps.DeleteFunc, slices.SortFunc, sort.Slice, strings.Map …) runs during that call
			if _, isGo := call.(*ssa.Go); !isGo && syncHOF(callName(call)) {
				for _, a := range call.Common().Args {
					if mc, ok := a.(*ssa.MakeClosure); ok {
						if cf, ok := mc.Fn.(*ssa.Function); ok {
							if _, ok := e.sum[cf]; ok {
								e.callers[cf] = append(e.callers[cf], call)
							}
						}
					}
				}
			}
		})
	}
	// closures whose every use is a resolved call are helpers, not roots
	for _, f := range e.funcs {
		eachInstr(f, func(_ *ssa.BasicBlock, _ int, ins ssa.Instruction) {
			mc, ok := ins.(*ssa.MakeClosure)
			if !ok {
				return
			}
			cf := mc.Fn.(*ssa.Function)
			if closureOnlyCalled(mc) && len(e.callers[cf]) > 0 {
				e.localHelper[cf] = true
			}
		})
	}
	return e
}

// callee resolves static callees and calls through a local variable bound once to a closure
// (`helper := func(){…}; …; helper()` including calls from sibling closures via free variables).
func (e *lckEngine) callee(call ssa.CallInstruction) *ssa.Function {
	if f := staticFn(call); f != nil {
		return f
	}
	if call.Common().IsInvoke() {
		return nil
	}
	return resolveFuncValue(call.Common().Value, call.Parent(), 0)
}

func resolveFuncValue(v ssa.Value, fn *ssa.Function, depth int) *ssa.Function {
	if depth > 5 {
		return nil
	}
	switch x := v.(type) {
	case *ssa.MakeClosure:
		return x.Fn.(*ssa.Function)
	case *ssa.Function:
		return x
	case *ssa.UnOp:
		if x.Op == token.MUL {
			return resolveFuncValue(x.X, fn, depth+1)
		}
	case *ssa.Alloc:
		var found *ssa.Function
		n := 0
		for _, r := range refs(x) {
			if st, ok := r.(*ssa.Store); ok && st.Addr == ssa.Value(x) {
				n++
				found = resolveFuncValue(st.Val, fn, depth+1)
			}
		}
		if n == 1 {
			return found
		}
	case *ssa.FreeVar:
		par := fn.Parent()
		if par == nil {
			return nil
		}
		idx := -1
		for i, fv := range fn.FreeVars {
			if fv == x {
				idx = i
			}
		}
		var res *ssa.Function
		eachInstr(par, func(_ *ssa.BasicBlock, _ int, ins ssa.Instruction) {
			if mc, ok := ins.(*ssa.MakeClosure); ok && mc.Fn == ssa.Value(fn) && idx >= 0 && idx < len(mc.Bindings) {
				res = resolveFuncValue(mc.Bindings[idx], par, depth+1)
			}
		})
		return res
	}
	return nil
}

// closureOnlyCalled: the closure value is only stored into one local variable that is itself only
// loaded-and-called or captured by closures (no escape as argument / return / field / go).
func closureOnlyCalled(mc *ssa.MakeClosure) bool {
	var okVal func(v ssa.Value, depth int) bool
	okVal = func(v ssa.Value, depth int) bool {
		if depth > 5 {
			return false
		}
		for _, r := range refs(v) {
			switch u := r.(type) {
			case *ssa.DebugRef:
			case *ssa.Store:
				if u.Val != v {
					continue
				}
				al, ok := u.Addr.(*ssa.Alloc)
				if !ok || !okVal(al, depth+1) {
					return false
				}
			case *ssa.UnOp:
				if u.Op != token.MUL || !okVal(u, depth+1) {
					return false
				}
			case *ssa.MakeClosure:
				// captured by another closure: check the corresponding free variable's uses
				cf := u.Fn.(*ssa.Function)
				for i, b := range u.Bindings {
					if b == v && i < len(cf.FreeVars) && !okVal(cf.FreeVars[i], depth+1) {
						return false
					}
				}
			case *ssa.Call:
				if u.Call.Value != v {
					// an argument of a synchronous standard-library higher-order function: called during that call
					isArg := false
					for _, a := range u.Call.Args {
						if a == v {
							isArg = true
						}
					}
					if !(isArg && syncHOF(callName(u))) {
						return false
					}
				}
			case *ssa.Defer:
				if u.Call.Value != v {
					return false
				}
			default:
				return false
			}
		}
		return true
	}
	return okVal(mc, 0)
}

// transfer applies instruction ins to state s; reports guarded accesses via visit (may be nil).
func (e *lckEngine) transfer(fn *ssa.Function, s lockState, ins ssa.Instruction, deferred map[string]bool, sm *fnSummary) {
	call, ok := ins.(ssa.CallInstruction)
	if !ok {
		return
	}
	name := callName(call)
	if d, ok := syncLockOps[strings.TrimPrefix(name, "")]; ok && len(call.Common().Args) > 0 {
		cls := e.classOf(call.Common().Args[0], fn, 0)
		if cls == "" {
			return
		}
		switch ins.(type) {
		case *ssa.Defer:
			if d < 0 {
				deferred[cls] = true
			}
			return
		case *ssa.Go:
			return
		}
		if d > 0 {
			s[cls] = d
		} else {
			if s[cls] == 0 && sm != nil {
				sm.releases[cls] = true
			}
			delete(s, cls)
		}
		return
	}
	if _, isGo := ins.(*ssa.Go); isGo {
		return
	}
	if _, isDefer := ins.(*ssa.Defer); isDefer {
		return
	}
	if cal := e.callee(call); cal != nil {
		if cs, ok := e.sum[cal]; ok {
			for cls := range cs.releases {
				delete(s, cls)
			}
			for cls, m := range cs.acquires {
				s[cls] = m
			}
		}
	}
}

// analyse computes the lock state before every instruction of fn.
func (e *lckEngine) analyse(fn *ssa.Function) (map[ssa.Instruction]lockState, map[string]bool) {
	sm := e.sum[fn]
	deferred := map[string]bool{}
	entry := lockState{}
	if h, ok := e.cfg.rootsHold[fnKey(fn)]; ok {
		for k, v := range h {
			entry[k] = v
		}
	}
	if ce, ok := e.closureEntry[fn]; ok && !e.goClosure[fn] && !e.localHelper[fn] {
		for k, v := range ce {
			entry[k] = v
		}
	}
	in := map[*ssa.BasicBlock]lockState{}
	out := map[*ssa.BasicBlock]lockState{}
	in[fn.Blocks[0]] = entry
	work := []*ssa.BasicBlock{fn.Blocks[0]}
	inWork := map[*ssa.BasicBlock]bool{fn.Blocks[0]: true}
	for len(work) > 0 {
		b := work[0]
		work = work[1:]
		inWork[b] = false
		s := in[b].clone()
		for _, ins := range b.Instrs {
			e.transfer(fn, s, ins, deferred, sm)
		}
		if o, ok := out[b]; ok && sameState(o, s) {
			continue
		}
		out[b] = s
		for _, succ := range b.Succs {
			var ns lockState
			first := true
			for _, p := range succ.Preds {
				po, ok := out[p]
				if !ok {
					continue
				}
				if first {
					ns = po.clone()
					first = false
				} else {
					ns = meet(ns, po)
				}
			}
			if succ == fn.Blocks[0] {
				ns = meet(ns, entry)
			}
			if old, ok := in[succ]; !ok || !sameState(old, ns) {
				in[succ] = ns
				if !inWork[succ] {
					work = append(work, succ)
					inWork[succ] = true
				}
			}
		}
	}
	at := map[ssa.Instruction]lockState{}
	for _, b := range fn.Blocks {
		s, ok := in[b]
		if !ok {
			continue // unreachable
		}
		s = s.clone()
		for _, ins := range b.Instrs {
			at[ins] = s.clone()
			e.transfer(fn, s, ins, deferred, nil)
		}
	}
	return at, deferred
}

// guardFor returns the guard entry for a field address value.
func (e *lckEngine) guardFor(v ssa.Value) *guard {
	n, f, ok := fieldOf(v)
	if !ok || n == nil || n.Obj().Pkg() == nil {
		return nil
	}
	return e.gmap[short(n.Obj().Pkg().Path())+"."+n.Obj().Name()+"."+f]
}

func isFreshAlloc(v ssa.Value) bool {
	for {
		switch x := v.(type) {
		case *ssa.Alloc:
			return true
		case *ssa.FieldAddr:
			v = x.X
		case *ssa.ChangeType:
			v = x.X
		default:
			return false
		}
	}
}

var purePass = map[string]bool{
	"time.Time.Sub": true, "time.Duration.Round": true, "time.Duration.String": true, "time.Duration.Seconds": true, "time.Time.String": true,
}

var logSinks = map[string]bool{
	"log.Printf": true, "log.Println": true, "log.Print": true, "fmt.Printf": true, "fmt.Println": true, "fmt.Print": true,
	"log.Logger.Printf": true, "log.Logger.Println": true,
}

// onlyLogged: every transitive use of v ends in an argument of a logging call.
func onlyLogged(v ssa.Value, depth int) bool {
	if depth > 6 {
		return false
	}
	rs := refs(v)
	if len(rs) == 0 {
		return false
	}
	for _, r := range rs {
		switch x := r.(type) {
		case *ssa.DebugRef:
			continue
		case *ssa.MakeInterface:
			if !onlyLogged(x, depth+1) {
				return false
			}
		case *ssa.Store:
			// store into a varargs array element
			ia, ok := x.Addr.(*ssa.IndexAddr)
			if !ok || x.Val != v {
				return false
			}
			al, ok := ia.X.(*ssa.Alloc)
			if !ok {
				return false
			}
			okAll := false
			for _, ar := range refs(al) {
				if sl, ok := ar.(*ssa.Slice); ok {
					for _, sr := range refs(sl) {
						if call, ok := sr.(ssa.CallInstruction); ok && logSinks[callName(call)] {
							okAll = true
						} else if _, isDbg := sr.(*ssa.DebugRef); !isDbg {
							return false
						}
					}
				}
			}
			if !okAll {
				return false
			}
		case ssa.CallInstruction:
			if !logSinks[callName(x)] {
				// len(v) / pure time arithmetic whose result is only logged
				if callName(x) == "builtin.len" || purePass[callName(x)] {
					if val, ok := x.(ssa.Value); ok && onlyLogged(val, depth+1) {
						continue
					}
				}
				return false
			}
		default:
			return false
		}
	}
	return true
}

// accesses enumerates guarded accesses of fn.
func (e *lckEngine) accesses(fn *ssa.Function) []*access {
	var out []*access
	add := func(ins ssa.Instruction, g *guard, write bool, logOnly bool) {
		out = append(out, &access{fn: fn, ins: ins, g: g, write: write, logOnly: logOnly})
	}
	// guarded local variables (captured by closures): typ "local:<outer fnKey>", field = variable name.
	// Accesses in the outermost function itself are construction-time and exempt.
	if fn.Parent() != nil {
		top := "local:" + fnKey(topParent(fn))
		seenVar := map[ssa.Value]bool{}
		eachInstr(fn, func(_ *ssa.BasicBlock, _ int, ins ssa.Instruction) {
			for _, op := range ins.Operands(nil) {
				var name string
				switch x := (*op).(type) {
				case *ssa.FreeVar:
					name = x.Name()
				default:
					continue
				}
				g := e.gmap[top+"."+name]
				if g == nil || seenVar[*op] {
					continue
				}
				seenVar[*op] = true
				for _, r := range refs(*op) {
					switch u := r.(type) {
					case *ssa.Store:
						if u.Addr == *op {
							add(u, g, true, false)
						}
					case *ssa.UnOp:
						if u.Op == token.MUL {
							e.usesOfLoaded(fn, u, g, add, 0)
						}
					}
				}
			}
		})
	}
	eachInstr(fn, func(_ *ssa.BasicBlock, _ int, ins ssa.Instruction) {
		var fa ssa.Value
		switch x := ins.(type) {
		case *ssa.FieldAddr:
			fa = x
		case *ssa.UnOp:
			// whole-struct load `*p`: reads every guarded field of the struct (a Field on the loaded
			// copy is not a shared access; the load is)
			if x.Op != token.MUL {
				return
			}
			pt, ok := x.X.Type().Underlying().(*types.Pointer)
			if !ok {
				return
			}
			if _, isStruct := pt.Elem().Underlying().(*types.Struct); !isStruct || isFreshAlloc(x.X) {
				return
			}
			if n := namedOf(pt.Elem()); n != nil && n.Obj().Pkg() != nil {
				pre := short(n.Obj().Pkg().Path()) + "." + n.Obj().Name()
				for i := range e.cfg.guards {
					g := &e.cfg.guards[i]
					if g.typ == pre && !g.ptrConst && !g.readOK {
						add(x, g, false, false)
					}
				}
			}
			return
		default:
			return
		}
		g := e.guardFor(fa)
		if g == nil {
			return
		}
		if isFreshAlloc(fa.(*ssa.FieldAddr).X) {
			return
		}
		for _, r := range refs(fa) {
			switch u := r.(type) {
			case *ssa.Store:
				if u.Addr == fa {
					add(u, g, true, false)
				}
			case *ssa.UnOp:
				if u.Op != token.MUL {
					continue
				}
				// load of the field
				if !g.ptrConst && !g.readOK {
					add(u, g, false, onlyLogged(u, 0))
				}
				e.usesOfLoaded(fn, u, g, add, 0)
			case ssa.CallInstruction:
				nm := callName(u)
				if strings.HasPrefix(nm, "sync/atomic.") {
					if g.atomicOK {
						continue
					}
					w := !strings.Contains(nm, ".Load")
					add(u, g, w, false)
					continue
				}
				// &x.f passed as receiver to a method (value-typed field with pointer methods)
				if len(u.Common().Args) > 0 && u.Common().Args[0] == fa {
					if e.cfg.mutators[nm] {
						add(u, g, true, false)
					} else if e.cfg.readers[nm] {
						if !g.readOK {
							add(u, g, false, false)
						}
					} else if strings.HasPrefix(nm, "sync.") {
						// the mutex itself / WaitGroup etc.
					} else {
						add(u, g, true, false) // unknown method on guarded storage: conservatively a write
					}
				}
			case *ssa.FieldAddr, *ssa.IndexAddr:
				// nested: &x.f.g or &x.f[i] (array)
				for _, rr := range refs(u.(ssa.Value)) {
					if st, ok := rr.(*ssa.Store); ok && st.Addr == u.(ssa.Value) {
						add(st, g, true, false)
					} else if ld, ok := rr.(*ssa.UnOp); ok && ld.Op == token.MUL && !g.readOK && !g.ptrConst {
						add(ld, g, false, onlyLogged(ld, 0))
					} else if ci, ok := rr.(ssa.CallInstruction); ok && strings.HasPrefix(callName(ci), "sync/atomic.") {
						if !g.atomicOK {
							add(ci, g, !strings.Contains(callName(ci), ".Load"), false)
						}
					}
				}
			}
		}
	})
	return out
}

// usesOfLoaded classifies uses of a value loaded from a guarded field (map/slice/pointer-to-container).
func (e *lckEngine) usesOfLoaded(fn *ssa.Function, v ssa.Value, g *guard, add func(ssa.Instruction, *guard, bool, bool), depth int) {
	if depth > 3 {
		return
	}
	for _, r := range refs(v) {
		switch u := r.(type) {
		case *ssa.MapUpdate:
			if u.Map == v {
				add(u, g, true, false)
			}
		case *ssa.Lookup:
			if u.X == v && !g.readOK {
				add(u, g, false, false)
			}
		case *ssa.Range:
			if !g.readOK {
				add(u, g, false, false)
				// Next instructions of the iterator
				for _, rr := range refs(u) {
					if nx, ok := rr.(*ssa.Next); ok {
						add(nx, g, false, false)
					}
				}
			}
		case *ssa.Index:
			if u.X == v && !g.readOK {
				add(u, g, false, false)
			}
		case *ssa.IndexAddr:
			if u.X != v {
				continue
			}
			for _, rr := range refs(u) {
				if st, ok := rr.(*ssa.Store); ok && st.Addr == ssa.Value(u) {
					add(st, g, true, false)
				} else if ld, ok := rr.(*ssa.UnOp); ok && ld.Op == token.MUL && !g.readOK {
					add(ld, g, false, false)
				}
			}
		case *ssa.Slice:
			if u.X == v && !g.readOK {
				add(u, g, false, false)
			}
		case *ssa.Phi:
			e.usesOfLoaded(fn, u, g, add, depth+1)
		case ssa.CallInstruction:
			nm := callName(u)
			args := u.Common().Args
			switch nm {
			case "builtin.delete":
				if len(args) > 0 && args[0] == v {
					add(u, g, true, false)
				}
			case "builtin.len", "builtin.cap":
				if !g.readOK {
					lo := false
					if val, ok := u.(ssa.Value); ok {
						lo = onlyLogged(val, 0)
					}
					add(u, g, false, lo)
				}
			case "builtin.close":
				add(u, g, true, false)
			case "builtin.append", "builtin.copy":
				if !g.readOK {
					add(u, g, false, false)
				}
			default:
				if len(args) > 0 && args[0] == v && !u.Common().IsInvoke() {
					if e.cfg.mutators[nm] {
						add(u, g, true, false)
					} else if e.cfg.readers[nm] && !g.readOK {
						add(u, g, false, false)
					}
				}
			}
		}
	}
}

// run executes the analysis and emits one obligation per (function, field, r/w).
func (e *lckEngine) run() {
	c := e.c
	// closure entry states: state at the MakeClosure site in the parent (go-closures start empty)
	// computed lazily in rounds together with summaries.
	type fa struct {
		at       map[ssa.Instruction]lockState
		deferred map[string]bool
	}
	var res map[*ssa.Function]*fa
	for round := 0; round < 6; round++ {
		res = map[*ssa.Function]*fa{}
		changed := false
		for _, f := range e.funcs {
			at, def := e.analyse(f)
			res[f] = &fa{at, def}
			sm := e.sum[f]
			// acquires: held at every return and not deferred-released
			var acq lockState
			first := true
			eachInstr(f, func(_ *ssa.BasicBlock, _ int, ins ssa.Instruction) {
				if !isReturn(ins) {
					return
				}
				s := at[ins]
				if s == nil {
					return
				}
				if first {
					acq = s.clone()
					first = false
				} else {
					acq = meet(acq, s)
				}
			})
			newAcq := map[string]int{}
			for k, v := range acq {
				if !def[k] {
					if _, entryHeld := e.cfg.rootsHold[fnKey(f)][k]; !entryHeld {
						if ce := e.closureEntry[f]; ce == nil || ce[k] == 0 {
							newAcq[k] = v
						}
					}
				}
			}
			if fmt.Sprint(newAcq) != fmt.Sprint(sm.acquires) {
				sm.acquires = newAcq
				changed = true
			}
			// closure entries
			eachInstr(f, func(_ *ssa.BasicBlock, _ int, ins ssa.Instruction) {
				mc, ok := ins.(*ssa.MakeClosure)
				if !ok {
					return
				}
				cf := mc.Fn.(*ssa.Function)
				isGo := false
				for _, r := range refs(mc) {
					if _, ok := r.(*ssa.Go); ok {
						isGo = true
					}
				}
				st := at[ins]
				if st == nil {
					st = lockState{}
				}
				if isGo {
					if !e.goClosure[cf] {
						e.goClosure[cf] = true
						changed = true
					}
					return
				}
				if old, ok := e.closureEntry[cf]; !ok || !sameState(old, st) {
					e.closureEntry[cf] = st.clone()
					changed = true
				}
			})
		}
		if !changed {
			break
		}
	}
	// collect accesses and local verdicts
	type key struct{ fn, field, kind string }
	type agg struct {
		ok      bool
		pos     token.Pos
		detail  string
		path    []string
		n       int
		logOnly bool
	}
	aggs := map[key]*agg{}
	var keys []key
	record := func(a *access, ok bool, detail string, path []string) {
		kind := "read"
		if a.write {
			kind = "write"
		}
		k := key{fnKey(a.fn), a.g.typ + "." + a.g.field, kind}
		ag := aggs[k]
		if ag == nil {
			ag = &agg{ok: true, pos: a.ins.Pos()}
			aggs[k] = ag
			keys = append(keys, k)
		}
		ag.n++
		if !ok && ag.ok {
			ag.ok = false
			ag.pos = a.ins.Pos()
			ag.detail = detail
			ag.path = path
		}
	}
	// requires fixpoint
	allAcc := map[*ssa.Function][]*access{}
	for _, f := range e.funcs {
		if _, ex := e.cfg.exempt[fnKey(f)]; ex {
			continue
		}
		accs := e.accesses(f)
		for _, a := range accs {
			st := res[f].at[a.ins]
			need := modeRead
			if a.write {
				need = modeWrite
			}
			a.held = st[a.g.class]
			allAcc[f] = append(allAcc[f], a)
			if a.held < need {
				sm := e.sum[f]
				if sm.requires[a.g.class] < need {
					sm.requires[a.g.class] = need
					sm.reqWhy[a.g.class] = a
				}
			}
		}
	}
	// propagate requires upward through static callers that do not hold the class
	for round := 0; round < 10; round++ {
		changed := false
		for _, f := range e.funcs {
			sm := e.sum[f]
			for cls, need := range sm.requires {
				for _, cs := range e.callers[f] {
					caller := cs.Parent()
					if _, isGo := cs.(*ssa.Go); isGo {
						continue
					}
					held := res[caller].at[cs.(ssa.Instruction)][cls]
					if _, isDefer := cs.(*ssa.Defer); isDefer {
						// deferred helper runs at exit: lock is held only if a deferred unlock was registered later (LIFO)… conservatively use state at defer site
					}
					if held < need {
						csm := e.sum[caller]
						if csm.requires[cls] < need {
							csm.requires[cls] = need
							if csm.reqWhy[cls] == nil {
								csm.reqWhy[cls] = sm.reqWhy[cls]
							}
							changed = true
						}
					}
				}
			}
		}
		if !changed {
			break
		}
	}
	// a function's unmet requirement is a violation iff some root (no static caller holding it) reaches it unlocked:
	// isRoot: exported, or no static callers, or spawned by `go`, or address taken.
	isRoot := func(f *ssa.Function) (bool, string) {
		if f.Parent() != nil {
			if e.goClosure[f] {
				return true, "goroutine closure"
			}
			if e.localHelper[f] {
				return false, ""
			}
			return true, "closure"
		}
		if fo, ok := f.Object().(*types.Func); ok && fo.Exported() {
			return true, "exported"
		}
		if len(e.callers[f]) == 0 {
			return true, "no static caller"
		}
		for _, cs := range e.callers[f] {
			if _, isGo := cs.(*ssa.Go); isGo {
				return true, "started with go"
			}
		}
		// function value taken?
		for _, g := range e.funcs {
			found := false
			eachInstr(g, func(_ *ssa.BasicBlock, _ int, ins ssa.Instruction) {
				for _, op := range ins.Operands(nil) {
					if *op == ssa.Value(f) {
						if ci, ok := ins.(ssa.CallInstruction); ok && ci.Common().Value == ssa.Value(f) {
							continue
						}
						found = true
					}
				}
			})
			if found {
				return true, "used as a value"
			}
		}
		return false, ""
	}
	// unlockedRootPath: find a chain f <- caller <- ... <- root where no one holds cls>=need
	var unlockedRoot func(f *ssa.Function, cls string, need int, seen map[*ssa.Function]bool) []string
	unlockedRoot = func(f *ssa.Function, cls string, need int, seen map[*ssa.Function]bool) []string {
		if seen[f] {
			return nil
		}
		seen[f] = true
		if r, why := isRoot(f); r {
			return []string{fmt.Sprintf("%s (%s) entered without %s", fnKey(f), why, cls)}
		}
		for _, cs := range e.callers[f] {
			caller := cs.Parent()
			if res[caller] == nil {
				continue
			}
			if res[caller].at[cs.(ssa.Instruction)][cls] >= need {
				continue
			}
			if p := unlockedRoot(caller, cls, need, seen); p != nil {
				return append(p, fmt.Sprintf("calls %s at %s without %s", fnKey(f), c.pos(cs.Pos()), cls))
			}
		}
		return nil
	}
	for _, f := range e.funcs {
		for _, a := range allAcc[f] {
			need := modeRead
			kind := "read"
			if a.write {
				need = modeWrite
				kind = "write"
			}
			if a.held >= need {
				record(a, true, "", nil)
				continue
			}
			if a.logOnly {
				c.info(e.cfg.rule, fnKey(f)+"#"+a.g.typ+"."+a.g.field+"#logread", a.ins.Pos(), "read used only as a logging argument; not decision-relevant, not reported")
				continue
			}
			p := unlockedRoot(f, a.g.class, need, map[*ssa.Function]bool{})
			if p == nil {
				record(a, true, "", nil) // every caller chain holds the lock (helper summary)
				continue
			}
			heldTxt := "not held"
			if a.held == modeRead {
				heldTxt = "held in read mode only"
			}
			record(a, false, fmt.Sprintf("%s of %s.%s with %s %s", kind, a.g.typ, a.g.field, a.g.class, heldTxt), p)
		}
	}
	sort.Slice(keys, func(i, j int) bool {
		if keys[i].fn != keys[j].fn {
			return keys[i].fn < keys[j].fn
		}
		if keys[i].field != keys[j].field {
			return keys[i].field < keys[j].field
		}
		return keys[i].kind < keys[j].kind
	})
	for _, k := range keys {
		ag := aggs[k]
		d := ag.detail
		if ag.ok {
			d = fmt.Sprintf("ok: %d %s access(es) with lock held", ag.n, k.kind)
		}
		c.ob(e.cfg.rule, k.fn+"#"+k.field+"#"+k.kind, ag.pos, ag.ok, d, ag.path...)
	}
}

var listMutators = map[string]bool{
	"container/list.List.PushFront": true, "container/list.List.PushBack": true, "container/list.List.Remove": true,
	"container/list.List.MoveToFront": true, "container/list.List.MoveToBack": true, "container/list.List.Init": true,
	"container/list.List.InsertBefore": true, "container/list.List.InsertAfter": true, "container/list.List.MoveBefore": true,
	"container/list.List.MoveAfter": true, "container/list.List.PushBackList": true, "container/list.List.PushFrontList": true,
}
var listReaders = map[string]bool{
	"container/list.List.Len": true, "container/list.List.Front": true, "container/list.List.Back": true,
}

// syncHOF: standard-library functions that call their function argument before returning (and never retain it).
func syncHOF(name string) bool {
	for _, p := range []string{"maps.", "slices.", "sort.Slice", "sort.SliceStable", "sort.Search", "strings.Map", "strings.FieldsFunc", "strings.IndexFunc", "strings.LastIndexFunc", "strings.TrimFunc", "strings.TrimLeftFunc", "strings.TrimRightFunc", "strings.ContainsFunc", "bytes.Map", "bytes.FieldsFunc", "bytes.IndexFunc", "bytes.TrimFunc"} {
		if strings.HasPrefix(name, p) {
			return true
		}
	}
	return false
}
