package main

import (
	"fmt"
	"go/ast"
	"go/constant"
	"go/token"
	"go/types"
	"os"
	"sort"
	"strconv"
	"strings"
	"unicode"

	"golang.org/x/tools/go/ssa"
)

func init() {
	register(&propSpec{
		id: "C18", title: "Source rewriting tools preserve the program", run: runC18,
		notCovered:  "round-trip equality of expand/compact over all sources, idempotence of CanonicalizeSource, layout decisions of the formatter — laws over all inputs; only the tables and lexical classes the tools and the two lexers must share are decided",
		assumptions: []string{"token kinds assigned by a lexer arm are the constants assigned to tok.Type inside that case clause"},
	})
}

const parserPkg = "pkg/parser"
const parserPath = modPath + "/pkg/parser"
const fmtPkg = "pkg/formatter"

// stringMapLiteral extracts a package-level map[string]string literal.
func stringMapLiteral(c *Ctx, rel, name string) (map[string]string, token.Pos) {
	p := c.pkg(rel)
	for _, f := range p.Syntax {
		for _, d := range f.Decls {
			gd, ok := d.(*ast.GenDecl)
			if !ok {
				continue
			}
			for _, sp := range gd.Specs {
				vs, ok := sp.(*ast.ValueSpec)
				if !ok {
					continue
				}
				for i, n := range vs.Names {
					if n.Name != name || i >= len(vs.Values) {
						continue
					}
					cl, ok := vs.Values[i].(*ast.CompositeLit)
					if !ok {
						return nil, n.Pos()
					}
					out := map[string]string{}
					for _, el := range cl.Elts {
						kv, ok := el.(*ast.KeyValueExpr)
						if !ok {
							continue
						}
						k, ok1 := kv.Key.(*ast.BasicLit)
						v, ok2 := kv.Value.(*ast.BasicLit)
						if ok1 && ok2 {
							ks, _ := strconv.Unquote(k.Value)
							vs2, _ := strconv.Unquote(v.Value)
							if _, dup := out[ks]; dup {
								out[ks+"\x00dup"] = vs2
							}
							out[ks] = vs2
						}
					}
					return out, n.Pos()
				}
			}
		}
	}
	return nil, token.NoPos
}

// caseTokenTable: for every `switch <tag>` in decl whose case values are constants (strings or runes),
// map case value -> set of TokenType constant names assigned in the clause.
func caseTokenTable(c *Ctx, rel string, decl *ast.FuncDecl, wantString bool) map[string]map[string]bool {
	p := c.pkg(rel)
	out := map[string]map[string]bool{}
	if decl == nil {
		return out
	}
	// table form: the function looks the text up in a package-level map[string|byte|rune]TokenType literal
	ast.Inspect(decl, func(n ast.Node) bool {
		ix, ok := n.(*ast.IndexExpr)
		if !ok {
			return true
		}
		id, ok := ix.X.(*ast.Ident)
		if !ok {
			return true
		}
		v, ok := p.TypesInfo.Uses[id].(*types.Var)
		if !ok || v.Parent() != p.Types.Scope() {
			return true
		}
		mt, ok := v.Type().Underlying().(*types.Map)
		if !ok || !typeIs(mt.Elem(), parserPath, "TokenType") {
			return true
		}
		for _, f := range p.Syntax {
			for _, d := range f.Decls {
				gd, ok := d.(*ast.GenDecl)
				if !ok {
					continue
				}
				for _, sp := range gd.Specs {
					vs, ok := sp.(*ast.ValueSpec)
					if !ok {
						continue
					}
					for i, nm := range vs.Names {
						if p.TypesInfo.Defs[nm] != types.Object(v) || i >= len(vs.Values) {
							continue
						}
						cl, ok := vs.Values[i].(*ast.CompositeLit)
						if !ok {
							continue
						}
						for _, el := range cl.Elts {
							kv, ok := el.(*ast.KeyValueExpr)
							if !ok {
								continue
							}
							tv, ok := p.TypesInfo.Types[kv.Key]
							if !ok || tv.Value == nil {
								continue
							}
							key := ""
							if wantString && tv.Value.Kind() == constant.String {
								key = constant.StringVal(tv.Value)
							} else if !wantString && tv.Value.Kind() == constant.Int {
								if x, ok := constant.Int64Val(tv.Value); ok && x > 0 && x < 128 {
									key = string(rune(x))
								}
							}
							vid, ok := kv.Value.(*ast.Ident)
							if key == "" || !ok {
								continue
							}
							if cst, ok := p.TypesInfo.Uses[vid].(*types.Const); ok && typeIs(cst.Type(), parserPath, "TokenType") {
								if out[key] == nil {
									out[key] = map[string]bool{}
								}
								out[key][cst.Name()] = true
							}
						}
					}
				}
			}
		}
		return true
	})
	ast.Inspect(decl, func(n ast.Node) bool {
		sw, ok := n.(*ast.SwitchStmt)
		if !ok || sw.Tag == nil {
			return true
		}
		for _, st := range sw.Body.List {
			cc := st.(*ast.CaseClause)
			var keys []string
			for _, e := range cc.List {
				tv, ok := p.TypesInfo.Types[e]
				if !ok || tv.Value == nil {
					continue
				}
				if wantString && tv.Value.Kind() == constant.String {
					keys = append(keys, constant.StringVal(tv.Value))
				}
				if !wantString && tv.Value.Kind() == constant.Int {
					if v, ok := constant.Int64Val(tv.Value); ok && v > 0 && v < 128 {
						keys = append(keys, string(rune(v)))
					}
				}
			}
			if len(keys) == 0 {
				continue
			}
			toks := map[string]bool{}
			for _, body := range cc.Body {
				ast.Inspect(body, func(m ast.Node) bool {
					as, ok := m.(*ast.AssignStmt)
					if !ok {
						return true
					}
					for i, lhs := range as.Lhs {
						se, ok := lhs.(*ast.SelectorExpr)
						if !ok || se.Sel.Name != "Type" || i >= len(as.Rhs) {
							continue
						}
						if id, ok := as.Rhs[i].(*ast.Ident); ok {
							if cst, ok := p.TypesInfo.Uses[id].(*types.Const); ok && typeIs(cst.Type(), parserPath, "TokenType") {
								toks[cst.Name()] = true
							}
						}
					}
					return true
				})
			}
			for _, k := range keys {
				if out[k] == nil {
					out[k] = map[string]bool{}
				}
				for t := range toks {
					out[k][t] = true
				}
			}
		}
		// nested switches (e.g. on the look-ahead character) refine the token chosen for the outer character: their
		// assignments were collected with the outer clause above and their labels are not first characters
		return false
	})
	return out
}

func setStr(m map[string]bool) string {
	var ks []string
	for k := range m {
		ks = append(ks, k)
	}
	sort.Strings(ks)
	return strings.Join(ks, ",")
}

func runC18(c *Ctx) {
	c18Chars(c)
	c18Context(c)
	s2k, p1 := stringMapLiteral(c, fmtPkg, "symbolToKeyword")
	k2s, _ := stringMapLiteral(c, fmtPkg, "keywordToSymbol")
	if len(s2k) < 8 || len(k2s) < 8 {
		c.ob("C18-R1", fmtPkg+"#symbol-keyword-tables", p1, false, "symbolToKeyword / keywordToSymbol map literals not found (or fewer than 8 entries): the expand/compact mechanism is not where the rule expects it")
		return
	}
	xid := caseTokenTable(c, parserPkg, c.decl(parserPkg, "ExpandedLexer.readIdentifier"), true)
	cid := caseTokenTable(c, parserPkg, c.decl(parserPkg, "Lexer.readIdentifier"), true)
	csym := caseTokenTable(c, parserPkg, c.decl(parserPkg, "Lexer.nextToken"), false)
	xsym := caseTokenTable(c, parserPkg, c.decl(parserPkg, "ExpandedLexer.nextToken"), false)
	if len(xid) < 20 || len(cid) < 15 || len(csym) < 15 {
		c.undecided("C18: lexer tables extracted with %d/%d/%d entries (floors 20/15/15)", len(xid), len(cid), len(csym))
		return
	}

	c.rule("C18-R1", "TBL: symbolToKeyword and keywordToSymbol are mutual inverses without duplicate keys; for every pair (symbol s, keyword k) the expanded lexer's arm for k assigns a token kind that the compact lexer's arm for s can produce; no expanded keyword is also a keyword of the compact lexer")
	var syms []string
	for s := range s2k {
		syms = append(syms, s)
	}
	sort.Strings(syms)
	for _, s := range syms {
		if strings.HasSuffix(s, "\x00dup") {
			c.ob("C18-R1", fmtPkg+".symbolToKeyword#duplicate-key:"+strings.TrimSuffix(s, "\x00dup"), p1, false, "duplicate key in symbolToKeyword")
			continue
		}
		k := s2k[s]
		c.ob("C18-R1", fmtPkg+"#pair:"+s+"<->"+k+":inverse", p1, k2s[k] == s, "symbolToKeyword["+s+"]="+k+" but keywordToSymbol["+k+"]="+k2s[k]+": expand followed by compact does not give the symbol back")
		xt := xid[k]
		ct := csym[s]
		inter := false
		for t := range xt {
			if ct[t] {
				inter = true
			}
		}
		c.ob("C18-R1", fmtPkg+"#pair:"+s+"<->"+k+":same-token", p1, inter, "the expanded lexer turns keyword '"+k+"' into {"+setStr(xt)+"} but the compact lexer turns '"+s+"' into {"+setStr(ct)+"}: the expanded text does not parse to the same tree")
		c.ob("C18-R1", fmtPkg+"#pair:"+s+"<->"+k+":not-a-compact-keyword", p1, cid[k] == nil, "'"+k+"' is also a keyword of the compact lexer")
	}
	var kws []string
	for k := range k2s {
		kws = append(kws, k)
	}
	sort.Strings(kws)
	for _, k := range kws {
		if strings.HasSuffix(k, "\x00dup") {
			c.ob("C18-R1", fmtPkg+".keywordToSymbol#duplicate-key:"+strings.TrimSuffix(k, "\x00dup"), p1, false, "duplicate key in keywordToSymbol")
			continue
		}
		c.ob("C18-R1", fmtPkg+"#keyword:"+k+":inverse", p1, s2k[k2s[k]] == k, "keywordToSymbol["+k+"]="+k2s[k]+" but symbolToKeyword["+k2s[k]+"]="+s2k[k2s[k]])
	}

	c.rule("C18-R11", "CHR/SIB: compaction looks words up in the keyword table, so it has to cut the text into the same words the lexer cuts it into: in the formatter's transform, the condition under which the scan of a word begins holds for every byte for which the lexer's isIdentifierStart holds (folded for each byte 0..127). A word begun later than the identifier begins (after a leading `_`) is a different word: `_use` is looked up as `use` and written back as `_%`")
	if tr := c.mustFn("C18-R11", fmtPkg, "transform"); tr != nil {
		isStart := c.fn(parserPkg, "isIdentifierStart")
		var src *ssa.Parameter
		for _, p := range tr.Params {
			if bt, ok := p.Type().Underlying().(*types.Basic); ok && bt.Kind() == types.String {
				src = p
				break
			}
		}
		// the word: a slice of the source text that is looked up in a map
		var wordBlock *ssa.BasicBlock
		eachInstr(tr, func(b *ssa.BasicBlock, _ int, ins ssa.Instruction) {
			sl, ok := ins.(*ssa.Slice)
			if !ok || src == nil || sl.X != ssa.Value(src) || wordBlock != nil {
				return
			}
			for _, r := range refs(sl) {
				if lk, ok := r.(*ssa.Lookup); ok && lk.Index == ssa.Value(sl) {
					if _, isMap := lk.X.Type().Underlying().(*types.Map); isMap {
						wordBlock = b
					}
				}
			}
		})
		isChar := func(v ssa.Value) bool {
			switch x := v.(type) {
			case *ssa.Lookup:
				return src != nil && x.X == ssa.Value(src)
			case *ssa.Index:
				return src != nil && x.X == ssa.Value(src)
			}
			return false
		}
		var entry *ssa.BasicBlock
		var wordLoop *loop
		if wordBlock != nil {
			// the scanning loop of the word: a loop that does not contain the word's block but leaves into it
			for _, lp := range naturalLoops(tr) {
				if lp.body[wordBlock] {
					continue
				}
				leaves := false
				for _, p := range wordBlock.Preds {
					if lp.body[p] {
						leaves = true
					}
				}
				if !leaves {
					continue
				}
				for b := lp.head.Idom(); b != nil; b = b.Idom() {
					if iff := ifOf(b); iff != nil && !lp.body[b] && derivesFrom(iff.Cond, isChar) {
						entry, wordLoop = b, lp
						break
					}
				}
			}
		}
		if entry == nil || isStart == nil {
			c.undecided("C18-R11: the word scan of transform (or the lexer's isIdentifierStart) was not found")
		} else {
			var missing []byte
			gaveUp := false
			for ch := 0; ch < 128; ch++ {
				want, ok := evalCharPredicate(isStart, byte(ch))
				if !ok {
					gaveUp = true
					break
				}
				if !want {
					continue
				}
				// follow the (possibly short-circuit) condition with the character fixed: does control enter the word scan?
				e := &chrEval{c: byte(ch), isChar: isChar}
				entered := e.walk(entry, func(x ssa.Instruction) bool { return wordLoop.body[x.Block()] }, func(b *ssa.BasicBlock) bool { return !entry.Dominates(b) })
				if e.unknown {
					gaveUp = true
					break
				}
				if !entered {
					missing = append(missing, byte(ch))
				}
			}
			if gaveUp {
				c.info("C18-R11", fnKey(tr)+"#words-begin-where-identifiers-begin", ifOf(entry).Pos(), "the condition that begins a word is not of a form this rule folds")
			} else {
				c.ob("C18-R11", fnKey(tr)+"#words-begin-where-identifiers-begin", ifOf(entry).Pos(), len(missing) == 0, "compaction does not begin a word at "+fmt.Sprintf("%q", string(missing))+", where the lexer begins an identifier: the rest of the identifier is looked up as a word of its own (`_use`, `_let`, `_return` inside a block come back as `_%`, `_$`, `_>` and no longer parse)")
			}
		}
	}

	c.rule("C18-R10", "SIB: the text of a string literal is the same whichever lexer reads it: the escape switch of ExpandedLexer.readString has an arm for exactly the escape characters Lexer.readString has (\\n \\t \\r \\\" \\' \\\\ \\0 \\a \\b \\f \\v \\x \\u), and the two treat an unknown escape alike (both refuse it, or both keep the character) - expansion leaves string literals untouched, so a literal \"caf\\u00e9\" or \"\\x41\" must not read as cafu00e9 / x41 from the expanded file")
	{
		type escTab struct {
			keys    map[string]bool
			refuses bool // the default arm returns (an ILLEGAL token)
			pos     token.Pos
			found   bool
		}
		esc := func(name string) escTab {
			t := escTab{keys: map[string]bool{}}
			d := c.decl(parserPkg, name)
			if d == nil {
				return t
			}
			p := c.pkg(parserPkg)
			ast.Inspect(d, func(n ast.Node) bool {
				sw, ok := n.(*ast.SwitchStmt)
				if !ok || sw.Tag == nil || t.found {
					return true
				}
				keys := map[string]bool{}
				refuses, hasDefault := false, false
				for _, st := range sw.Body.List {
					cc := st.(*ast.CaseClause)
					if cc.List == nil {
						hasDefault = true
						for _, b := range cc.Body {
							if _, isRet := b.(*ast.ReturnStmt); isRet {
								refuses = true
							}
						}
					}
					for _, e := range cc.List {
						if tv, ok := p.TypesInfo.Types[e]; ok && tv.Value != nil && tv.Value.Kind() == constant.Int {
							if v, ok := constant.Int64Val(tv.Value); ok && v > 0 && v < 128 {
								keys[string(rune(v))] = true
							}
						}
					}
				}
				if keys["n"] && keys["t"] && keys["\\"] {
					t.keys, t.refuses, t.pos, t.found = keys, refuses && hasDefault, sw.Pos(), true
				}
				return true
			})
			return t
		}
		ct, xt := esc("Lexer.readString"), esc("ExpandedLexer.readString")
		if !ct.found || !xt.found {
			c.undecided("C18-R10: escape switch not found in %s", map[bool]string{true: "ExpandedLexer.readString", false: "Lexer.readString"}[ct.found])
		} else {
			all := map[string]bool{}
			for k := range ct.keys {
				all[k] = true
			}
			for k := range xt.keys {
				all[k] = true
			}
			var ks []string
			for k := range all {
				ks = append(ks, k)
			}
			sort.Strings(ks)
			for _, k := range ks {
				c.ob("C18-R10", parserPkg+".readString#escape:"+strconv.Quote(k)+":in-both-lexers", xt.pos, ct.keys[k] && xt.keys[k], "the escape \\"+k+" is decoded by one lexer only (compact: "+boolStr(ct.keys[k])+", expanded: "+boolStr(xt.keys[k])+"): a string literal containing it reads differently from the expanded file than from the compact one")
			}
			c.ob("C18-R10", parserPkg+".readString#unknown-escape-handled-alike", xt.pos, ct.refuses == xt.refuses, "one lexer refuses an unknown escape sequence and the other keeps the character: the expanded form of a program parses where the compact one does not (or the other way round)")
		}
	}

	c.rule("C18-R2", "TBL: apart from the expanded keywords, the keyword arms of ExpandedLexer.readIdentifier and Lexer.readIdentifier have the same key set and assign the same token kinds")
	all := map[string]bool{}
	for k := range xid {
		all[k] = true
	}
	for k := range cid {
		all[k] = true
	}
	var ks []string
	for k := range all {
		ks = append(ks, k)
	}
	sort.Strings(ks)
	for _, k := range ks {
		if _, isExp := k2s[k]; isExp {
			continue
		}
		c.ob("C18-R2", parserPkg+"#keyword:"+k, token.NoPos, setStr(xid[k]) == setStr(cid[k]) && len(xid[k]) > 0,
			"keyword '"+k+"' lexes as {"+setStr(cid[k])+"} in compact source but as {"+setStr(xid[k])+"} in expanded source (missing arm = identifier): the expanded text of a program using it does not parse to the same tree")
	}

	c.rule("C18-R3", "TBL: for every punctuation character handled by both lexers' nextToken the token kinds agree; the set of token kinds after which '/' is a division (lastTokenWasValue) is the same in both lexers; every string-scanning function of the formatter and the lexers that tests for a quote character also tests for the escape character")
	var chars []string
	for ch := range csym {
		if _, ok := xsym[ch]; ok {
			chars = append(chars, ch)
		}
	}
	sort.Strings(chars)
	for _, ch := range chars {
		c.ob("C18-R3", parserPkg+"#char:"+strconv.Quote(ch), token.NoPos, setStr(csym[ch]) == setStr(xsym[ch]), "character "+strconv.Quote(ch)+" lexes as {"+setStr(csym[ch])+"} in compact but {"+setStr(xsym[ch])+"} in expanded source")
	}
	if len(chars) < 8 {
		c.undecided("C18-R3: only %d punctuation characters shared by both lexers", len(chars))
	}
	// multi-character tokens: the look-ahead characters each punctuation arm tests for
	{
		peeks := func(name string) map[string]map[string]bool {
			out := map[string]map[string]bool{}
			d := c.decl(parserPkg, name)
			if d == nil {
				return out
			}
			p := c.pkg(parserPkg)
			ast.Inspect(d, func(n ast.Node) bool {
				sw, ok := n.(*ast.SwitchStmt)
				if !ok || sw.Tag == nil {
					return true
				}
				for _, st := range sw.Body.List {
					cc := st.(*ast.CaseClause)
					var keys []string
					for _, e := range cc.List {
						if tv, ok := p.TypesInfo.Types[e]; ok && tv.Value != nil && tv.Value.Kind() == constant.Int {
							if v, ok := constant.Int64Val(tv.Value); ok && v > 0 && v < 128 {
								keys = append(keys, string(rune(v)))
							}
						}
					}
					if len(keys) == 0 {
						continue
					}
					la := map[string]bool{}
					for _, b := range cc.Body {
						ast.Inspect(b, func(m ast.Node) bool {
							// switch form: switch l.peekChar() { case 'x': ... }
							if sw2, ok := m.(*ast.SwitchStmt); ok && sw2.Tag != nil {
								if call, ok := sw2.Tag.(*ast.CallExpr); ok {
									if se, ok := call.Fun.(*ast.SelectorExpr); ok && se.Sel.Name == "peekChar" {
										for _, st2 := range sw2.Body.List {
											for _, e := range st2.(*ast.CaseClause).List {
												if tv, ok := p.TypesInfo.Types[e]; ok && tv.Value != nil && tv.Value.Kind() == constant.Int {
													if v, ok := constant.Int64Val(tv.Value); ok && v > 0 && v < 128 {
														la[string(rune(v))] = true
													}
												}
											}
										}
									}
								}
								return true
							}
							be, ok := m.(*ast.BinaryExpr)
							if !ok || (be.Op != token.EQL && be.Op != token.NEQ) {
								return true
							}
							for _, pr := range [][2]ast.Expr{{be.X, be.Y}, {be.Y, be.X}} {
								call, ok := pr[0].(*ast.CallExpr)
								if !ok {
									continue
								}
								se, ok := call.Fun.(*ast.SelectorExpr)
								if !ok || se.Sel.Name != "peekChar" {
									continue
								}
								if tv, ok := p.TypesInfo.Types[pr[1]]; ok && tv.Value != nil && tv.Value.Kind() == constant.Int {
									if v, ok := constant.Int64Val(tv.Value); ok && v > 0 && v < 128 {
										la[string(rune(v))] = true
									}
								}
							}
							return true
						})
					}
					for _, k := range keys {
						if out[k] == nil {
							out[k] = map[string]bool{}
						}
						for x := range la {
							out[k][x] = true
						}
					}
				}
				return false
			})
			return out
		}
		cp, xp := peeks("Lexer.nextToken"), peeks("ExpandedLexer.nextToken")
		for _, ch := range chars {
			c.ob("C18-R3", parserPkg+"#char:"+strconv.Quote(ch)+":same-look-ahead", token.NoPos, setStr(cp[ch]) == setStr(xp[ch]), "after "+strconv.Quote(ch)+" the compact lexer looks ahead for {"+setStr(cp[ch])+"} but the expanded lexer for {"+setStr(xp[ch])+"}: one of them fuses two characters into a token the other reads as two (`--name` is MINUS MINUS IDENT in compact source and one identifier `--name` in expanded source: a flag parameter becomes a positional one)")
		}
	}
	// expansion rewrites a symbol only where it starts a line; wherever else the compact lexer accepts the character
	// (`%` as modulo, `@minLen(2)` on a field, `if c { $ y = 1 }` on one line) it stays in the expanded text, so the
	// expanded lexer needs a token for every character the compact lexer has one for
	{
		var only []string
		for ch := range csym {
			if _, ok := xsym[ch]; !ok {
				only = append(only, ch)
			}
		}
		sort.Strings(only)
		for _, ch := range only {
			c.ob("C18-R3", parserPkg+"#char:"+strconv.Quote(ch)+":has-a-token-in-the-expanded-lexer", token.NoPos, false, "the compact lexer turns "+strconv.Quote(ch)+" into {"+setStr(csym[ch])+"} but the expanded lexer has no arm for it: expansion leaves the character wherever it does not start a line, and the expanded file fails with `invalid character`")
		}
		c.ob("C18-R3", parserPkg+"#every-compact-punctuation-has-an-expanded-token", token.NoPos, true, "")
	}
	valueSet := func(recv string) map[string]bool {
		out := map[string]bool{}
		for _, fn := range c.srcFuncs(parserPkg) {
			if fn.Signature.Recv() == nil || !typeIs(fn.Signature.Recv().Type(), parserPath, recv) {
				continue
			}
			eachInstr(fn, func(_ *ssa.BasicBlock, _ int, ins ssa.Instruction) {
				st, ok := ins.(*ssa.Store)
				if !ok || !isStoreToField(st, recv, "lastTokenWasValue") {
					return
				}
				var collect func(v ssa.Value, d int)
				seen := map[ssa.Value]bool{}
				collect = func(v ssa.Value, d int) {
					if v == nil || seen[v] || d > 30 {
						return
					}
					seen[v] = true
					switch x := v.(type) {
					case *ssa.BinOp:
						if x.Op == token.EQL {
							for _, o := range []ssa.Value{x.X, x.Y} {
								if cst, ok := o.(*ssa.Const); ok && typeIs(cst.Type(), parserPath, "TokenType") {
									out[tokenConstName(c, cst)] = true
								}
							}
						}
						collect(x.X, d+1)
						collect(x.Y, d+1)
					case *ssa.Phi:
						// short-circuit || chains: conditions live in the predecessor blocks' Ifs
						for i, e := range x.Edges {
							collect(e, d+1)
							if iff := ifOf(x.Block().Preds[i]); iff != nil {
								collect(iff.Cond, d+1)
							}
						}
						for _, pb := range x.Block().Preds {
							for _, pp := range pb.Preds {
								if iff := ifOf(pp); iff != nil {
									collect(iff.Cond, d+1)
								}
							}
						}
					case *ssa.Call:
						if sf := x.Call.StaticCallee(); sf != nil && sf.Pkg == fn.Pkg {
							eachInstr(sf, func(_ *ssa.BasicBlock, _ int, y ssa.Instruction) {
								if r, ok := y.(*ssa.Return); ok {
									for _, rv := range retVals(r) {
										collect(rv, d+1)
									}
								}
								if iff, ok := y.(*ssa.If); ok {
									collect(iff.Cond, d+1)
								}
							})
						}
					case *ssa.UnOp:
						collect(x.X, d+1)
					}
				}
				collect(st.Val, 0)
				// also every If in the blocks that lead to the store's phi (|| chain)
				if phi, ok := st.Val.(*ssa.Phi); ok {
					work := append([]*ssa.BasicBlock{}, phi.Block().Preds...)
					seenB := map[*ssa.BasicBlock]bool{}
					for len(work) > 0 && len(seenB) < 40 {
						b := work[0]
						work = work[1:]
						if seenB[b] {
							continue
						}
						seenB[b] = true
						if iff := ifOf(b); iff != nil {
							if bo, ok := iff.Cond.(*ssa.BinOp); ok && bo.Op == token.EQL {
								isTok := false
								for _, o := range []ssa.Value{bo.X, bo.Y} {
									if cst, ok := o.(*ssa.Const); ok && typeIs(cst.Type(), parserPath, "TokenType") {
										out[tokenConstName(c, cst)] = true
										isTok = true
									}
								}
								if isTok {
									work = append(work, b.Preds...)
								}
							}
						}
					}
				}
			})
		}
		return out
	}
	cv, xv := valueSet("Lexer"), valueSet("ExpandedLexer")
	c.ob("C18-R3", parserPkg+"#value-token-set", token.NoPos, setStr(cv) == setStr(xv) && len(cv) >= 4, "the compact lexer treats {"+setStr(cv)+"} as operand-ending tokens before '/', the expanded lexer {"+setStr(xv)+"}: after a token in the difference, `/x` is a division in one and a path in the other")
	// quote => escape
	for _, rel := range []string{fmtPkg, parserPkg} {
		for _, fn := range c.srcFuncs(rel) {
			cmpd := map[int64]bool{}
			inLoop := false
			eachInstr(fn, func(_ *ssa.BasicBlock, _ int, ins ssa.Instruction) {
				bo, ok := ins.(*ssa.BinOp)
				if !ok || (bo.Op != token.EQL && bo.Op != token.NEQ) {
					return
				}
				for _, o := range []ssa.Value{bo.X, bo.Y} {
					if k, ok := constInt(o); ok {
						cmpd[k] = true
					}
				}
			})
			inLoop = len(naturalLoops(fn)) > 0
			if !inLoop || !(cmpd['"'] || cmpd['\'']) {
				continue
			}
			// only scanners that consume string bodies: they compare against a quote inside a loop and advance
			name := strings.ToLower(fn.Name())
			if !(strings.Contains(name, "string") || strings.Contains(name, "transform") || strings.Contains(name, "canonical") || strings.Contains(name, "insideblock") || strings.Contains(name, "bracket")) {
				continue
			}
			c.ob("C18-R3", fnKey(fn)+"#quote-scanner-handles-escape", fn.Pos(), cmpd['\\'], "this function scans for string delimiters but never tests for the escape character: an escaped quote ends the literal for it, so the tools disagree with the lexers about where strings end")
		}
	}

	c.rule("C18-R4", "WCS: every bufio.Scanner used in pkg/formatter either has its buffer raised (Scanner.Buffer) or its Err() result consulted: otherwise a line longer than the default 64 KiB token limit silently truncates the file being rewritten")
	for _, fn := range c.srcFuncs(fmtPkg) {
		var scan, errc, buf bool
		eachCall(fn, func(call ssa.CallInstruction) {
			switch callName(call) {
			case "bufio.Scanner.Scan":
				scan = true
			case "bufio.Scanner.Err":
				errc = true
			case "bufio.Scanner.Buffer":
				buf = true
			}
		})
		if scan {
			c.ob("C18-R4", fnKey(fn)+"#scanner-checked", fn.Pos(), errc || buf, "a bufio.Scanner is used without Err() or Buffer(): input past the first over-long line is dropped silently")
		}
	}
	c.ob("C18-R4", fmtPkg+"#scanners-audited", token.NoPos, true, "")
}

func tokenConstName(c *Ctx, cst *ssa.Const) string {
	p := c.Pkgs[parserPath]
	if p != nil && cst.Value != nil {
		sc := p.Types.Scope()
		for _, n := range sc.Names() {
			if k, ok := sc.Lookup(n).(*types.Const); ok && typeIs(k.Type(), parserPath, "TokenType") && constant.Compare(k.Val(), token.EQL, cst.Value) {
				return n
			}
		}
	}
	return cst.String()
}

// c18Chars: R5 - the expander separates a keyword from whatever could otherwise lex as part of it.
func c18Chars(c *Ctx) {
	c.rule("C18-R5", "CHR: when `glyph expand` replaces a symbol by its keyword it writes a space before every following character that the expanded lexer accepts inside an identifier (decided for each byte 0..127 by folding the formatter's condition and the lexer's isIdentifierChar): otherwise `$_tmp` becomes `let_tmp`, one identifier, and the expanded text no longer parses to the same tree. CanonicalizeSource decides that a line is blank on its trimmed text (a whitespace-only line is written out empty, so it must count as blank, or formatting twice differs from formatting once)")
	tr := c.mustFn("C18-R5", fmtPkg, "transform")
	idc := c.fn(parserPkg, "isIdentifierChar")
	if tr != nil {
		// the keyword write: WriteString of a value looked up in the mappings parameter
		var start *ssa.BasicBlock
		eachInstr(tr, func(b *ssa.BasicBlock, _ int, ins ssa.Instruction) {
			call, ok := ins.(*ssa.Call)
			if !ok || callName(call) != "strings.Builder.WriteString" || start != nil {
				return
			}
			if derivesFrom(call.Call.Args[1], func(v ssa.Value) bool {
				lk, ok := v.(*ssa.Lookup)
				if !ok {
					return false
				}
				if _, isMap := lk.X.Type().Underlying().(*types.Map); !isMap {
					return false
				}
				// expand mode looks up the one-character string made from the current byte (compact mode looks up a word)
				return derivesFrom(lk.Index, func(k ssa.Value) bool {
					cv, ok := k.(*ssa.Convert)
					if !ok {
						return false
					}
					ft, ok := cv.X.Type().Underlying().(*types.Basic)
					tt, ok2 := cv.Type().Underlying().(*types.Basic)
					return ok && ok2 && tt.Kind() == types.String && (ft.Kind() == types.Uint8 || ft.Kind() == types.Int32)
				})
			}) {
				// expand mode: the looked-up key is a one-character string built from the current byte
				start = b
			}
		})
		if start == nil {
			c.undecided("C18-R5: the keyword write was not found in transform")
		} else {
			isNext := func(v ssa.Value) bool {
				// source[i+1]: an index into a string / byte slice whose index is an addition
				var seq, idx ssa.Value
				switch x := v.(type) {
				case *ssa.Lookup:
					seq, idx = x.X, x.Index
				case *ssa.Index:
					seq, idx = x.X, x.Index
				default:
					return false
				}
				if bt, ok := seq.Type().Underlying().(*types.Basic); ok && bt.Kind() == types.String {
					_, isAdd := idx.(*ssa.BinOp)
					return isAdd
				}
				return false
			}
			isSpaceWrite := func(ins ssa.Instruction) bool {
				call, ok := ins.(*ssa.Call)
				if !ok || callName(call) != "strings.Builder.WriteByte" {
					return false
				}
				k, ok := constInt(call.Call.Args[1])
				return ok && k == ' '
			}
			var missing []byte
			gaveUp := false
			for ch := 0; ch < 128; ch++ {
				ident := unicode.IsLetter(rune(ch)) || unicode.IsDigit(rune(ch)) || ch == '_'
				if idc != nil {
					if r, ok := evalCharPredicate(idc, byte(ch)); ok {
						ident = r
					}
				}
				if !ident {
					continue
				}
				e := &chrEval{c: byte(ch), isChar: isNext}
				if os.Getenv("GV_DEBUG_CHR") != "" && ch == 'a' {
					println("start block", start.Index)
					debugChr = true
				}
				sp := e.walk(start, isSpaceWrite, func(b *ssa.BasicBlock) bool {
					// back at the scanning loop: the keyword has been handled
					for _, s := range b.Succs {
						if s.Dominates(start) && s != start {
							return true
						}
					}
					return false
				})
				if e.unknown {
					gaveUp = true
					break
				}
				if !sp {
					missing = append(missing, byte(ch))
				}
			}
			if gaveUp {
				c.info("C18-R5", fnKey(tr)+"#keyword-separated-from-identifier-characters", tr.Pos(), "the condition for writing a space after an expanded keyword is not of a form this rule folds")
			} else {
				c.ob("C18-R5", fnKey(tr)+"#keyword-separated-from-identifier-characters", tr.Pos(), len(missing) == 0, "after an expanded keyword no space is written before "+fmt.Sprintf("%q", string(missing))+", which the lexer accepts inside an identifier: the keyword and the following name fuse into one identifier (`$_tmp = 1` expands to `let_tmp = 1`)")
			}
		}
	}
	// blankness on the trimmed text
	if cs := c.fn(fmtPkg, "CanonicalizeSource"); cs != nil {
		n := 0
		eachInstr(cs, func(_ *ssa.BasicBlock, _ int, ins ssa.Instruction) {
			bo, ok := ins.(*ssa.BinOp)
			if !ok || (bo.Op != token.EQL && bo.Op != token.NEQ) {
				return
			}
			var other ssa.Value
			if s, ok := constString(bo.Y); ok && s == "" {
				other = bo.X
			} else if s, ok := constString(bo.X); ok && s == "" {
				other = bo.Y
			} else {
				return
			}
			// only comparisons of an input line matter: the raw element of the split source, or its trimmed form
			trimmed := false
			if call, ok := other.(*ssa.Call); ok && strings.HasPrefix(callName(call), "strings.Trim") {
				trimmed = true
			} else {
				raw := false
				if u, ok := other.(*ssa.UnOp); ok {
					if ia, ok := u.X.(*ssa.IndexAddr); ok {
						base := ia.X
						for i := 0; i < 4; i++ {
							if sl, ok := base.(*ssa.Slice); ok {
								base = sl.X
								continue
							}
							break
						}
						if call, ok := base.(*ssa.Call); ok && strings.HasPrefix(callName(call), "strings.Split") {
							raw = true
						}
					}
				}
				if !raw {
					return
				}
			}
			n++
			c.ob("C18-R5", fnKey(cs)+"#blank-line-decided-on-trimmed-text-"+itoa(n), bo.Pos(), trimmed, "a line is compared with the empty string before being trimmed: a line of spaces or tabs is not counted as blank but is written out empty, so the blank-line rules (no leading blank, at most one in a row) are applied by the second run of the formatter and fmt(fmt(x)) != fmt(x)")
		})
	}
}

// c18Context: R6 - words that are identifiers of the compact language are keywords of the expanded language only in context.
func c18Context(c *Ctx) {
	// ---- R7 the rewriters keep no state between sources
	c.rule("C18-R7", "WCS: no function of pkg/formatter other than package initialisation (init, a sync.Once body) stores into a package-level variable: expanding, compacting or formatting a source is a function of that source alone - `glyph expand <dir>`, `compact <dir>` and watch mode rewrite many files in one process, and a cursor, depth or table left over from the previous file changes how the next one is rewritten")
	{
		nFns, nStores := 0, 0
		for _, fn := range c.srcFuncs(fmtPkg) {
			tp := topParent(fn)
			if nm := tp.Name(); nm == "init" || strings.HasPrefix(nm, "init#") {
				continue
			}
			nFns++
			onceBody := false
			if fn.Parent() != nil {
				for _, r := range *fn.Referrers() {
					_ = r
				}
			}
			k := 0
			eachInstr(fn, func(_ *ssa.BasicBlock, _ int, ins ssa.Instruction) {
				var addr ssa.Value
				switch x := ins.(type) {
				case *ssa.Store:
					addr = x.Addr
				case *ssa.MapUpdate:
					if u, ok := x.Map.(*ssa.UnOp); ok {
						addr = u.X
					}
				}
				if addr == nil {
					return
				}
				base := addr
				for {
					switch y := base.(type) {
					case *ssa.FieldAddr:
						base = y.X
						continue
					case *ssa.IndexAddr:
						base = y.X
						continue
					}
					break
				}
				g, ok := base.(*ssa.Global)
				if !ok || g.Pkg != fn.Pkg {
					return
				}
				if onceBody || isOnceBody(fn) {
					return
				}
				nStores++
				k++
				c.ob("C18-R7", fnKey(fn)+"#writes-package-variable-"+g.Name()+"-"+itoa(k), ins.Pos(), false, "the rewriter stores into the package-level variable "+g.Name()+" while processing a source: what it leaves there is seen by the next source rewritten in this process (directory and watch mode), so the result for a file depends on which file came before it")
			})
		}
		c.Sites["C18-R7#formatter-functions"] = nFns
		c.ob("C18-R7", fmtPkg+"#rewriters-are-stateless", token.NoPos, nFns >= 8, "fewer than 8 functions found in pkg/formatter")
	}

	// ---- R8 the rewriters move bytes, they do not re-encode text
	c.rule("C18-R8", "WCS: no function of pkg/formatter passes source text through a rune-level re-encoding (strings.Map / bytes.Map, ToValidUTF8, ToUpper/ToLower/Title, a string->[]rune->string round trip, or a `for _, r := range text` loop that writes r back with WriteRune/string(r)): the lexer works on bytes and accepts bytes that are not valid UTF-8 inside strings and comments, and re-encoding turns each of them into U+FFFD (and a strings.Map that drops a rune drops it inside string literals too) - the STRING tokens change although `fmt` promises layout only")
	{
		n := 0
		for _, fn := range c.srcFuncs(fmtPkg) {
			k := 0
			eachInstr(fn, func(_ *ssa.BasicBlock, _ int, ins ssa.Instruction) {
				bad := ""
				switch x := ins.(type) {
				case *ssa.Call:
					switch nm := callName(x); nm {
					case "strings.Map", "bytes.Map", "strings.ToValidUTF8", "bytes.ToValidUTF8", "strings.ToUpper", "strings.ToLower", "strings.Title", "strings.ToTitle", "bytes.ToUpper", "bytes.ToLower", "bytes.Runes":
						// case folding of a single extracted word for a table lookup is not a rewrite of the source:
						// only flag when the result can reach a return value / a Builder write
						if flowsToOutput(x) {
							bad = short(nm)
						}
					}
					// a context-free replacement over the whole text also replaces inside string literals and comments:
					// only a pattern that cannot occur inside a token - one that contains a line feed - is layout
					if nm := callName(x); nm == "strings.ReplaceAll" || nm == "strings.Replace" || nm == "bytes.ReplaceAll" || nm == "bytes.Replace" {
						if pat, ok := constString(x.Call.Args[1]); ok && !strings.Contains(pat, "\n") && flowsToOutput(x) && wholeText(x.Call.Args[0]) {
							bad = "a replacement of " + strconv.Quote(pat) + " wherever it occurs (string literals and comments included)"
						}
					}
				case *ssa.Convert:
					// string -> []rune
					if sl, ok := x.Type().Underlying().(*types.Slice); ok {
						if bt, ok := sl.Elem().Underlying().(*types.Basic); ok && bt.Kind() == types.Int32 && isStringType(x.X.Type()) {
							bad = "[]rune(text)"
						}
					}
				case *ssa.Range:
					if isStringType(x.X.Type()) {
						// the decoded runes are written back
						for _, r := range refs(x) {
							if nx, ok := r.(*ssa.Next); ok && nx.IsString {
								for _, e := range extractOf(nx, 2) {
									if flowsToOutput(e) {
										bad = "range over the text with the decoded runes written back"
									}
								}
							}
						}
					}
				}
				n++
				if bad != "" {
					k++
					c.ob("C18-R8", fnKey(fn)+"#text-is-not-re-encoded-"+itoa(k), ins.Pos(), false, "source text goes through "+bad+": bytes that are not valid UTF-8 (a Latin-1 file: \"caf\\xe9\") come out as U+FFFD and a dropped rune is dropped inside string literals too, so the rewritten file no longer has the same tokens")
				}
			})
		}
		c.Sites["C18-R8#instructions-examined"] = n
		c.ob("C18-R8", fmtPkg+"#rewriters-do-not-re-encode", token.NoPos, n > 100, "pkg/formatter has fewer than 100 instructions: not loaded")
	}

	c.rule("C18-R12", "IDEM: `fmt` is idempotent for every byte string only if each of its whole-text steps is: removing one fixed prefix or suffix (strings.TrimPrefix / TrimSuffix / CutPrefix with a constant) is not - the text may begin with the prefix twice, and the second one survives the first pass and is removed by the second (`glyph fmt` followed by `glyph fmt --check` reports the file as unformatted). A whole-text trim in pkg/formatter removes every occurrence (TrimLeft / TrimRight / TrimLeftFunc, or a loop)")
	{
		n := 0
		for _, fn := range c.srcFuncs(fmtPkg) {
			loops := naturalLoops(fn)
			k := 0
			eachInstr(fn, func(b *ssa.BasicBlock, _ int, ins ssa.Instruction) {
				cl, ok := ins.(*ssa.Call)
				if !ok {
					return
				}
				switch callName(cl) {
				case "strings.TrimPrefix", "strings.TrimSuffix", "strings.CutPrefix", "strings.CutSuffix":
				default:
					return
				}
				if _, isK := constString(cl.Call.Args[1]); !isK || !wholeText(cl.Call.Args[0]) {
					return
				}
				n++
				inLoop := false
				for _, lp := range loops {
					if lp.body[b] {
						inLoop = true
					}
				}
				k++
				pat, _ := constString(cl.Call.Args[1])
				c.ob("C18-R12", fnKey(fn)+"#whole-text-trim-is-idempotent-"+itoa(k), cl.Pos(), inLoop, short(callName(cl))+" removes "+strconv.Quote(pat)+" from the program text once: a text that carries it twice keeps one after the first pass and loses it in the second - formatting is not idempotent (two byte order marks; a mark that only reaches the start of the text once the leading blank lines are gone is the same defect one step later)")
			})
		}
		c.Sites["C18-R12#whole-text-trims"] = n
		c.ob("C18-R12", fmtPkg+"#whole-text-trims-examined", token.NoPos, true, "")
		// the per-line trim of the canonicaliser takes a carriage return off the end of a line: CRLF normalisation
		// consumes one CR per line feed, so `\r\r\n` (or a bare CR at the end of the file) leaves a CR right before the
		// line feed the formatter writes - a new CRLF that the next run rewrites
		if cs := c.fn(fmtPkg, "CanonicalizeSource"); cs != nil {
			k := 0
			eachInstr(cs, func(_ *ssa.BasicBlock, _ int, ins ssa.Instruction) {
				cl, ok := ins.(*ssa.Call)
				if !ok || len(cl.Call.Args) < 2 {
					return
				}
				switch callName(cl) {
				case "strings.Trim", "strings.TrimRight":
				default:
					return
				}
				// a line: an element of the split text
				isLine := derivesFrom(cl.Call.Args[0], func(v ssa.Value) bool {
					c2, ok := v.(*ssa.Call)
					return ok && (callName(c2) == "strings.Split" || callName(c2) == "strings.SplitAfter")
				})
				cut, isK := constString(cl.Call.Args[1])
				if !isLine || !isK {
					return
				}
				k++
				c.ob("C18-R12", fnKey(cs)+"#line-trim-takes-the-carriage-return-"+itoa(k), cl.Pos(), strings.Contains(cut, "\r"), "the per-line trim removes "+strconv.Quote(cut)+" but not a carriage return: a CR left at the end of a line (CR-CR-LF endings, a bare CR at the end of the file) sits before the line feed the formatter writes, the output contains a CRLF again, and the next run changes it - fmt is not idempotent")
			})
		}
	}

	// ---- R9 what expansion rewrites at the start of a line, compaction rewrites back at the start of a line
	c.rule("C18-R9", "SIB: expansion replaces a symbol wherever nothing but white space precedes it on its line, at any nesting depth; so the two context predicates of the formatter (the one for symbols and the one for keywords) answer true whenever the text before the token on its line is empty - no further condition (nesting depth, previous token) narrows the line-start case in either direction. Otherwise a symbol expanded inside a block (`:key = value`, a `!a` list element on its own line) is not compacted back and expand -> compact no longer parses")
	{
		n := 0
		for _, fn := range c.srcFuncs(fmtPkg) {
			if fn.Signature.Results().Len() != 1 {
				continue
			}
			if bt, ok := fn.Signature.Results().At(0).Type().Underlying().(*types.Basic); !ok || bt.Kind() != types.Bool {
				continue
			}
			// the line-start tests: comparisons of a trimmed text with ""
			var cmps []ssa.Value
			eachInstr(fn, func(_ *ssa.BasicBlock, _ int, ins ssa.Instruction) {
				// a helper of the package that is the line-start test itself: every return of it is such a comparison
				if cl, ok := ins.(*ssa.Call); ok {
					if sf := staticFn(cl); sf != nil && sf.Pkg == fn.Pkg && sf != fn && lineStartPredicate(sf) {
						cmps = append(cmps, cl)
					}
					return
				}
				bo, ok := ins.(*ssa.BinOp)
				if !ok || bo.Op != token.EQL {
					return
				}
				for _, pr := range [][2]ssa.Value{{bo.X, bo.Y}, {bo.Y, bo.X}} {
					if sv, ok := constString(pr[1]); ok && sv == "" && derivesFrom(pr[0], func(v ssa.Value) bool {
						cl, ok := v.(*ssa.Call)
						if !ok {
							return false
						}
						if callName(cl) == "strings.TrimSpace" {
							return true
						}
						// a helper of the package that computes the text before the token on its line
						if sf := staticFn(cl); sf != nil && sf.Pkg == fn.Pkg {
							return reachesInstr(sf, func(x ssa.Instruction) bool { return isCallTo(x, "strings.TrimSpace") }, 0, map[*ssa.Function]bool{})
						}
						return false
					}) {
						cmps = append(cmps, bo)
					}
				}
			})
			if len(cmps) == 0 {
				continue
			}
			k := 0
			for _, cmp := range cmps {
				// every return the comparison's value (or its true edge) reaches must be true when the comparison is
				var trueGiven func(v ssa.Value, at *ssa.BasicBlock, d int) bool
				trueGiven = func(v ssa.Value, at *ssa.BasicBlock, d int) bool {
					if d > 6 {
						return false
					}
					if v == cmp || isConstBool(v, true) {
						return true
					}
					// a further test of the text that follows the token does not narrow what expansion produced:
					// expansion itself decides what follows a keyword it writes (white space or `{`)
					if followingTextOnly(fn, v) {
						return true
					}
					if ph, ok := v.(*ssa.Phi); ok {
						for idx, e := range ph.Edges {
							pred := ph.Block().Preds[idx]
							// an edge that can only be taken when the comparison is false does not matter
							if iff := ifOf(pred); iff != nil && iff.Cond == cmp && pred.Succs[1] == ph.Block() && pred.Succs[0] != ph.Block() {
								continue // the false edge of the branch on the comparison itself
							}
							if !reachableWhenTrue(fn, cmp, pred) {
								continue
							}
							if !trueGiven(e, pred, d+1) {
								return false
							}
						}
						return true
					}
					return false
				}
				kk := 0
				eachInstr(fn, func(_ *ssa.BasicBlock, _ int, ins ssa.Instruction) {
					r, ok := ins.(*ssa.Return)
					if !ok || !cmp.(ssa.Instruction).Block().Dominates(r.Block()) {
						return
					}
					kk++
					k := kk
					// and the converse, for the predicate of compaction (the one that is asked about words): expansion writes
					// a keyword only at the start of a line, so a word anywhere else was written by the programmer
					if isKeywordPredicate(fn) {
						var falseGiven func(v ssa.Value, at *ssa.BasicBlock, d int) bool
						falseGiven = func(v ssa.Value, at *ssa.BasicBlock, d int) bool {
							if d > 6 {
								return false
							}
							if v == cmp || isConstBool(v, false) {
								return true
							}
							if ph, ok := v.(*ssa.Phi); ok {
								for idx, e := range ph.Edges {
									pred := ph.Block().Preds[idx]
									if !reachableOnSide(fn, cmp, pred, 1) {
										continue
									}
									if !falseGiven(e, pred, d+1) {
										return false
									}
								}
								return true
							}
							return false
						}
						if reachableOnSide(fn, cmp, r.Block(), 1) {
							c.ob("C18-R9", fnKey(fn)+"#only-at-line-start-"+itoa(k), r.Pos(), falseGiven(retVals(r)[0], r.Block(), 0), "a context predicate of the transformer can answer true for a token that does not start its line: expansion and compaction rewrite at the start of a line only, so a keyword written elsewhere (`if ok { $ u.name = 1 }` expanded after the brace) is never rewritten back, and a word rewritten elsewhere (`{validate: true}`, `input.use`) was the program's own identifier - the round trip no longer parses")
						}
					}
				})
				eachInstr(fn, func(_ *ssa.BasicBlock, _ int, ins ssa.Instruction) {
					r, ok := ins.(*ssa.Return)
					if !ok || !reachableWhenTrue(fn, cmp, r.Block()) {
						return
					}
					// only returns that lie behind the comparison (dominated by its block)
					if !cmp.(ssa.Instruction).Block().Dominates(r.Block()) {
						return
					}
					n++
					k++
					c.ob("C18-R9", fnKey(fn)+"#line-start-is-enough-"+itoa(k), r.Pos(), trueGiven(retVals(r)[0], r.Block(), 0), "with nothing but white space before the token on its line this predicate can still answer false (a further condition such as the nesting depth is and-ed to the line-start test): a symbol that expansion replaced at the start of a line inside a block is not replaced back by compaction, and the round trip no longer parses")
				})
			}
		}
		c.Sites["C18-R9#line-start-returns"] = n
		c.floor("C18-R9", 2)
	}

	c.rule("C18-R6", "CTX: every expanded keyword (a value of symbolToKeyword) that the compact lexer lexes as a plain identifier is turned into its symbol token by ExpandedLexer.readIdentifier only under a test of the lexer's context (previous token / statement start), not for every occurrence of the word: `input.type`, `/cron/status`, an object key `type:` or a variable named `queue` are identifiers in the compact source, so an expanded text that contains them must still lex them as identifiers, or expand() of a valid program does not parse back to the same tree")
	s2k, _ := stringMapLiteral(c, fmtPkg, "symbolToKeyword")
	if len(s2k) == 0 {
		return
	}
	expandedKW := map[string]bool{}
	for _, k := range s2k {
		expandedKW[k] = true
	}
	compactKW := caseTokenTable(c, parserPkg, c.decl(parserPkg, "Lexer.readIdentifier"), true)
	ri := c.mustFn("C18-R6", parserPkg, "ExpandedLexer.readIdentifier")
	if ri == nil {
		return
	}
	// blocks that are entered on the true edge of `literal == "<kw>"` for a keyword the compact lexer does not know
	var free []string
	seen := map[string]bool{}
	for _, b := range ri.Blocks {
		iff := ifOf(b)
		if iff == nil {
			continue
		}
		bo, ok := iff.Cond.(*ssa.BinOp)
		if !ok || bo.Op != token.EQL {
			continue
		}
		kw, ok := constString(bo.Y)
		if !ok {
			kw, ok = constString(bo.X)
		}
		if !ok || !expandedKW[kw] || len(compactKW[kw]) > 0 || seen[kw] {
			continue
		}
		seen[kw] = true
		// is the keyword arm entered under any condition that looks at lexer context?
		contextual := false
		for x := b; x != nil; x = x.Idom() {
			p := x.Idom()
			if p == nil {
				break
			}
			pi := ifOf(p)
			if pi == nil {
				continue
			}
			if pb, ok := pi.Cond.(*ssa.BinOp); ok {
				if _, isStr := constString(pb.X); isStr {
					continue
				}
				if _, isStr := constString(pb.Y); isStr {
					continue
				}
			}
			// a condition on the current character / position is scanning, not context
			if derivesFrom(pi.Cond, func(v ssa.Value) bool {
				_, f, ok := fieldOf(v)
				return ok && (f == "ch" || f == "position" || f == "readPosition" || f == "input")
			}) && !derivesFrom(pi.Cond, func(v ssa.Value) bool {
				_, f, ok := fieldOf(v)
				return ok && f != "ch" && f != "position" && f != "readPosition" && f != "input" && f != "line" && f != "column"
			}) {
				continue
			}
			contextual = true
		}
		if !contextual {
			free = append(free, kw)
		}
	}
	sort.Strings(free)
	c.Sites["C18-R6#expanded-keywords-unknown-to-compact-lexer"] = len(seen)
	if len(seen) < 5 {
		c.undecided("C18-R6: only %d expanded keywords found in ExpandedLexer.readIdentifier", len(seen))
		return
	}
	c.ob("C18-R6", fnKey(ri)+"#keywords-recognised-in-context", ri.Pos(), len(free) == 0, "the expanded lexer turns the words {"+strings.Join(free, ", ")+"} into symbol tokens wherever they occur, but in the compact language they are ordinary identifiers (field names, path segments, variables): expanding a program that uses one of them as a name gives text that does not parse, or parses to another tree, and compact() rewrites an object key `type:` into `::`")
}

// isOnceBody: fn is a closure passed to sync.Once.Do.
func isOnceBody(fn *ssa.Function) bool {
	if fn.Parent() == nil {
		return false
	}
	found := false
	eachInstr(fn.Parent(), func(_ *ssa.BasicBlock, _ int, ins ssa.Instruction) {
		call, ok := ins.(ssa.CallInstruction)
		if !ok || callName(call) != "sync.Once.Do" {
			return
		}
		if mc, ok := call.Common().Args[1].(*ssa.MakeClosure); ok && mc.Fn == ssa.Value(fn) {
			found = true
		}
		if f, ok := call.Common().Args[1].(*ssa.Function); ok && f == fn {
			found = true
		}
	})
	return found
}

// flowsToOutput: v (transitively through string operations, phis, conversions and calls that take it as an
// argument) reaches a return value, a strings.Builder / bytes.Buffer write, an append or a store.
func flowsToOutput(v ssa.Value) bool {
	seen := map[ssa.Value]bool{}
	var walk func(x ssa.Value, d int) bool
	walk = func(x ssa.Value, d int) bool {
		if x == nil || seen[x] || d > 12 {
			return false
		}
		seen[x] = true
		for _, r := range refs(x) {
			switch y := r.(type) {
			case *ssa.Return, *ssa.Store, *ssa.MapUpdate, *ssa.Send:
				return true
			case *ssa.Call:
				nm := callName(y)
				if strings.Contains(nm, "Builder.Write") || strings.Contains(nm, "Buffer.Write") || nm == "builtin.append" {
					return true
				}
				// lookups and comparisons consume the value without emitting it
				if nm == "builtin.len" || strings.HasPrefix(nm, "strings.Has") || strings.HasPrefix(nm, "strings.Contains") || strings.HasPrefix(nm, "strings.Index") || strings.HasPrefix(nm, "strings.Equal") {
					continue
				}
				if walk(y, d+1) {
					return true
				}
			case *ssa.Lookup, *ssa.If:
				continue
			case *ssa.BinOp:
				if y.Op == token.ADD && walk(y, d+1) {
					return true
				}
			case ssa.Value:
				if walk(y, d+1) {
					return true
				}
			}
		}
		return false
	}
	return walk(v, 0)
}

// reachableWhenTrue: block b can be entered on an execution in which comparison cmp was true (b is reachable from the
// true successor of the branch on cmp, or cmp is not branched on before b).
func reachableWhenTrue(fn *ssa.Function, cmp ssa.Value, b *ssa.BasicBlock) bool {
	var branch *ssa.BasicBlock
	for _, blk := range fn.Blocks {
		if iff := ifOf(blk); iff != nil && iff.Cond == cmp {
			branch = blk
		}
	}
	if branch == nil {
		return true
	}
	if b == branch {
		return true
	}
	seen := map[*ssa.BasicBlock]bool{}
	stack := []*ssa.BasicBlock{branch.Succs[0]}
	for len(stack) > 0 {
		x := stack[len(stack)-1]
		stack = stack[:len(stack)-1]
		if seen[x] {
			continue
		}
		seen[x] = true
		if x == b {
			return true
		}
		stack = append(stack, x.Succs...)
	}
	return false
}

// lineStartPredicate: sf returns, on every path, the comparison of a trimmed text with "" (the "nothing but white
// space before the token on its line" test, extracted into a helper).
func lineStartPredicate(sf *ssa.Function) bool {
	if sf.Signature.Results().Len() != 1 {
		return false
	}
	if bt, ok := sf.Signature.Results().At(0).Type().Underlying().(*types.Basic); !ok || bt.Kind() != types.Bool {
		return false
	}
	n := 0
	ok := true
	eachInstr(sf, func(_ *ssa.BasicBlock, _ int, ins ssa.Instruction) {
		r, isR := ins.(*ssa.Return)
		if !isR {
			return
		}
		n++
		bo, isB := r.Results[0].(*ssa.BinOp)
		if !isB || bo.Op != token.EQL {
			ok = false
			return
		}
		good := false
		for _, pr := range [][2]ssa.Value{{bo.X, bo.Y}, {bo.Y, bo.X}} {
			if sv, isS := constString(pr[1]); isS && sv == "" && derivesFrom(pr[0], func(v ssa.Value) bool {
				cl, isC := v.(*ssa.Call)
				return isC && callName(cl) == "strings.TrimSpace"
			}) {
				good = true
			}
		}
		if !good {
			ok = false
		}
	})
	return ok && n > 0
}

// wholeText: v is the text a formatter function was given (its string parameter), possibly after earlier whole-text
// calls (TrimPrefix, ReplaceAll) - as opposed to one line or one token cut out of it.
func wholeText(v ssa.Value) bool {
	for d := 0; d < 8; d++ {
		switch x := v.(type) {
		case *ssa.Parameter:
			if !isStringType(x.Type()) {
				return false
			}
			// the parameter is program text if the function cuts it into lines or hands it to a lexer / the transformer
			isText := false
			eachCall(x.Parent(), func(cl ssa.CallInstruction) {
				nm := callName(cl)
				args := cl.Common().Args
				fromParam := func(a ssa.Value) bool {
					return derivesFrom(a, func(z ssa.Value) bool { return z == ssa.Value(x) })
				}
				switch {
				case (nm == "strings.Split" || nm == "strings.SplitAfter") && len(args) == 2:
					if sep, ok := constString(args[1]); ok && sep == "\n" && fromParam(args[0]) {
						isText = true
					}
				case strings.HasSuffix(nm, ".NewLexer") || strings.HasSuffix(nm, ".NewExpandedLexer") || strings.HasSuffix(nm, "/pkg/formatter.transform"):
					if len(args) > 0 && fromParam(args[0]) {
						isText = true
					}
				}
			})
			return isText
		case *ssa.Call:
			nm := callName(x)
			if strings.HasPrefix(nm, "strings.") && len(x.Call.Args) > 0 && isStringType(x.Call.Args[0].Type()) && isStringType(x.Type()) {
				v = x.Call.Args[0]
				continue
			}
			return false
		case *ssa.Phi:
			for _, e := range x.Edges {
				if !wholeText(e) {
					return false
				}
			}
			return len(x.Edges) > 0
		default:
			return false
		}
	}
	return false
}

// reachableOnSide: like reachableWhenTrue, for the given successor index of the branch on cmp (0 true, 1 false).
func reachableOnSide(fn *ssa.Function, cmp ssa.Value, b *ssa.BasicBlock, side int) bool {
	var branch *ssa.BasicBlock
	for _, blk := range fn.Blocks {
		if iff := ifOf(blk); iff != nil && iff.Cond == cmp {
			branch = blk
		}
	}
	if branch == nil || b == branch {
		return true
	}
	seen := map[*ssa.BasicBlock]bool{}
	stack := []*ssa.BasicBlock{branch.Succs[side]}
	for len(stack) > 0 {
		x := stack[len(stack)-1]
		stack = stack[:len(stack)-1]
		if seen[x] {
			continue
		}
		seen[x] = true
		if x == b {
			return true
		}
		stack = append(stack, x.Succs...)
	}
	return false
}

// isKeywordPredicate: the context predicate that compaction asks about a word - the bool function of the formatter
// that is called with the word read in the compact branch of transform (its argument is a slice of the source text).
func isKeywordPredicate(fn *ssa.Function) bool {
	if fn.Pkg == nil {
		return false
	}
	tr := fn.Pkg.Func("transform")
	if tr == nil {
		return false
	}
	r := false
	eachCall(tr, func(cl ssa.CallInstruction) {
		if staticFn(cl) == fn {
			// either predicate of the transformer: since compaction rewrites only at the start of a line, expansion
			// must not write a keyword anywhere else (after a `{` on the same line, say) - nothing would rewrite it back
			r = true
		}
	})
	return r
}

// followingTextOnly: v is decided from the text after the token alone - (the negation of) a call whose arguments are
// slices source[pos+k:] of the function's text parameter that start behind the position parameter.
func followingTextOnly(fn *ssa.Function, v ssa.Value) bool {
	if u, ok := v.(*ssa.UnOp); ok && u.Op == token.NOT {
		v = u.X
	}
	cl, ok := v.(*ssa.Call)
	if !ok || len(cl.Call.Args) == 0 {
		return false
	}
	for _, a := range cl.Call.Args {
		sl, ok := a.(*ssa.Slice)
		if !ok || sl.High != nil || sl.Low == nil {
			return false
		}
		if p, isP := sl.X.(*ssa.Parameter); !isP || p.Parent() != fn || !isStringType(p.Type()) {
			return false
		}
		bo, ok := sl.Low.(*ssa.BinOp)
		if !ok || bo.Op != token.ADD {
			return false
		}
		fromPos := false
		for _, op := range []ssa.Value{bo.X, bo.Y} {
			if p, isP := op.(*ssa.Parameter); isP && p.Parent() == fn {
				if bt, ok := p.Type().Underlying().(*types.Basic); ok && bt.Info()&types.IsInteger != 0 {
					fromPos = true
				}
			}
		}
		if !fromPos {
			return false
		}
	}
	return true
}
