// glyphverif: repository-specific static analyser deciding structural necessary
// conditions of the GlyphLang properties C01..C20 (see /verif/DESIGN.md).
package main

import (
	"flag"
	"fmt"
	"os"
	"runtime/debug"
	"sort"
	"strconv"
	"strings"
	"time"
)

var specs = map[string]*propSpec{}

func register(s *propSpec) { specs[s.id] = s }

func main() {
	repo := flag.String("repo", "/repo", "repository root")
	prop := flag.String("prop", "all", "property id or all")
	tier := flag.String("tier", "quick", "quick|thorough")
	evDir := flag.String("evidence", "/verif/evidence", "evidence directory")
	knownPath := flag.String("known", "/verif/known_findings.json", "known findings file")
	fixtures := flag.String("fixtures", "/verif/checker/testdata", "fixture module root")
	anchors := flag.String("anchors", "/verif/anchors.json", "reference table of unexported function fingerprints (rename resolution)")
	writeAnch := flag.Bool("write-anchors", false, "write the reference table from the current tree and exit")
	flag.Parse()
	seed, _ := strconv.ParseInt(os.Getenv("VERIF_SEED"), 10, 64)

	var ids []string
	if *prop == "all" {
		for id := range specs {
			ids = append(ids, id)
		}
		sort.Strings(ids)
	} else {
		if specs[*prop] == nil {
			fmt.Printf("UNDECIDED property=%s no such property registered\n", *prop)
			os.Exit(2)
		}
		ids = []string{*prop}
	}
	t0 := time.Now()
	known, err := loadKnown(*knownPath)
	if err != nil {
		fmt.Printf("UNDECIDED cannot read known findings: %v\n", err)
		os.Exit(2)
	}
	base, err := load(*repo, nil)
	if err != nil {
		for _, id := range ids {
			fmt.Printf("UNDECIDED property=%s cannot load/type-check %s: %v\n", id, *repo, err)
		}
		os.Exit(2)
	}
	if *writeAnch {
		if err := writeAnchors(base, *anchors); err != nil {
			fmt.Println("cannot write anchors:", err)
			os.Exit(2)
		}
		fmt.Println("wrote", *anchors)
		return
	}
	base.resolveRenames(*anchors)
	for _, n := range base.RenameNotes {
		fmt.Println("NOTE", n)
	}
	fixErr := runFixtures(*fixtures)
	worst := 0
	for _, id := range ids {
		tp := time.Now()
		if len(ids) == 1 {
			tp = t0
		}
		c := *base
		c.Prop, c.Tier = id, *tier
		c.Obs, c.Undec, c.Notes = nil, nil, nil
		c.Sites, c.Funcs, c.Rules = map[string]int{}, map[string]bool{}, map[string]string{}
		if fixErr != nil {
			c.undecided("fixtures: %v", fixErr)
		}
		func() {
			defer func() {
				if r := recover(); r != nil {
					if u, ok := r.(undecidedErr); ok {
						c.undecided("%s", u.msg)
						return
					}
					c.undecided("analyser panic: %v\n%s", r, debug.Stack())
				}
			}()
			specs[id].run(&c)
		}()
		cmd := fmt.Sprintf("cd /verif && ./check %s %s", id, *tier)
		e := finish(&c, specs[id], known, *evDir, tp, seed, cmd)
		if e > worst {
			worst = e
		}
	}
	_ = strings.TrimSpace
	os.Exit(worst)
}
