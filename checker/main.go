// glyphverif: repository-specific static analyser deciding structural necessary
// conditions of the GlyphLang properties C01..C20 (see /verif/DESIGN.md).
package main

import (
	"flag"
	"fmt"
	"os"
	"runtime/debug"
	"sort"
	"strconv"
	"strings"
	"time"
)

var specs = map[string]*propSpec{}

func register(s *propSpec) { specs[s.id] = s }

func main() {
	repo := flag.String("repo", "/repo", "repository root")
	prop := flag.String("prop", "all", "property id or all")
	tier := flag.String("tier", "quick", "quick|thorough")
	evDir := flag.String("evidence", "/verif/evidence", "evidence directory")
	knownPath := flag.String("known", "/verif/known_findings.json", "known findings file")
	fixtures := flag.String("fixtures", "/verif/checker/testdata", "fixture module root")
	anchors := flag.String("anchors", "/verif/anchors.json", "reference table of unexported function fingerprints (rename resolution)")
	writeAnch := flag.Bool("write-anchors", false, "write the reference table from the current tree and exit")
	flag.Parse()
	seed, _ := strconv.ParseInt(os.Getenv("VERIF_SEED"), 10, 64)

	var ids []string
	if *prop == "all" {
		for id := range specs {
			ids = append(ids, id)
		}
		sort.Strings(ids)
	} else {
		if specs[*prop] == nil {
			fmt.Printf("UNDECIDED property=%s no such property registered\n", *prop)
			os.Exit(2)
		}
		ids = []string{*prop}
	}
	t0 := time.Now()
	known, err := loadKnown(*knownPath)
	if err != nil {
		fmt.Printf("UNDECIDED cannot read known findings: %v\n", err)
		os.Exit(2)
	}
	base, err := load(*repo, nil)
	if err != nil {
		for _, id := range ids {
			fmt.Printf("UNDECIDED property=%s cannot load/type-check %s: %v\n", id, *repo, err)
		}
		os.Exit(2)
	}
	if *writeAnch {
		if err := writeAnchors(base, *anchors); err != nil {
			fmt.Println("cannot write anchors:", err)
			os.Exit(2)
		}
		fmt.Println("wrote", *anchors)
		return
	}
	base.resolveRenames(*anchors)
	for _, n := range base.RenameNotes {
		fmt.Println("NOTE", n)
	}
	fixErr := runFixtures(*fixtures)
	variantCache := map[string]*Ctx{}
	worst := 0
	for _, id := range ids {
		tp := time.Now()
		if len(ids) == 1 {
			tp = t0
		}
		c := *base
		c.Prop, c.Tier = id, *tier
		c.Obs, c.Undec, c.Notes = nil, nil, nil
		c.Sites, c.Funcs, c.Rules = map[string]int{}, map[string]bool{}, map[string]string{}
		if fixErr != nil {
			c.undecided("fixtures: %v", fixErr)
		}
		func() {
			defer func() {
				if r := recover(); r != nil {
					if u, ok := r.(undecidedErr); ok {
						c.undecided("%s", u.msg)
						return
					}
					c.undecided("analyser panic: %v\n%s", r, debug.Stack())
				}
			}()
			specs[id].run(&c)
		}()
		// thorough: the same rules once more on the program as other build configurations see it (integer width,
		// path separators, build-tagged files); their obligations are kept apart by a prefix
		if *tier == "thorough" && fixErr == nil {
			for _, v := range specs[id].variants {
				vb, ok := variantCache[v.name]
				if !ok {
					loaded, verr := load(*repo, v.env)
					if verr != nil {
						c.undecided("variant %s: cannot load/type-check: %v", v.name, verr)
						variantCache[v.name] = nil
						continue
					}
					loaded.resolveRenames(*anchors)
					variantCache[v.name] = loaded
					vb = loaded
				}
				if vb == nil {
					continue
				}
				vc := *vb
				vc.Prop, vc.Tier = id, *tier
				vc.Obs, vc.Undec, vc.Notes = nil, nil, nil
				vc.Sites, vc.Funcs, vc.Rules = map[string]int{}, map[string]bool{}, map[string]string{}
				func() {
					defer func() {
						if r := recover(); r != nil {
							if u, ok := r.(undecidedErr); ok {
								c.undecided("variant %s: %s", v.name, u.msg)
								return
							}
							c.undecided("variant %s: analyser panic: %v", v.name, r)
						}
					}()
					specs[id].run(&vc)
				}()
				for _, o := range vc.Obs {
					o.Construct = "[" + v.name + "] " + o.Construct
					c.Obs = append(c.Obs, o)
				}
				for _, u := range vc.Undec {
					c.undecided("variant %s: %s", v.name, u)
				}
				for k, n := range vc.Sites {
					c.Sites["["+v.name+"] "+k] = n
				}
				c.Notes = append(c.Notes, "variant "+v.name+" ("+strings.Join(v.env, " ")+") analysed: "+strconv.Itoa(len(vc.Obs))+" obligations")
			}
		}
		cmd := fmt.Sprintf("cd /verif && ./check %s %s", id, *tier)
		e := finish(&c, specs[id], known, *evDir, tp, seed, cmd)
		if e > worst {
			worst = e
		}
	}
	_ = strings.TrimSpace
	os.Exit(worst)
}
