package main

// RGX language inclusion: decides L(pattern) ⊆ L(D) for a small deterministic automaton D over runes, by
// exploring the product of the compiled pattern's NFA (regexp/syntax.Prog) with D. Nothing is matched against
// sample strings: every reachable (pc, D-state) pair is visited once, the rune alphabet is partitioned by the
// boundaries of the program's rune ranges and of D's interesting runes.

import (
	"fmt"
	"regexp/syntax"
	"sort"
)

// runeDFA: total deterministic automaton. State -1 is the rejecting sink.
type runeDFA struct {
	start    int
	accept   func(s int) bool
	step     func(s int, r rune) int // -1 = dead
	specials []rune                  // runes at which step may change behaviour (class boundaries are r and r+1)
	describe func(s int) string
}

// regexIncludedIn returns (true, "") when every string matched by the pattern (which must be anchored ^…$; an
// unanchored end is treated as "followed by anything") is accepted by d; otherwise a witness string.
func regexIncludedIn(lit string, d *runeDFA) (bool, string) {
	re, err := syntax.Parse(lit, syntax.Perl)
	if err != nil {
		return false, "pattern does not parse"
	}
	prog, err := syntax.Compile(re.Simplify())
	if err != nil {
		return false, "pattern does not compile"
	}
	// alphabet partition
	cut := map[rune]bool{0: true}
	add := func(r rune) {
		if r >= 0 && r <= 0x10FFFF {
			cut[r] = true
		}
	}
	for _, in := range prog.Inst {
		switch in.Op {
		case syntax.InstRune, syntax.InstRune1:
			if len(in.Rune) == 1 {
				add(in.Rune[0])
				add(in.Rune[0] + 1)
				if syntax.Flags(in.Arg)&syntax.FoldCase != 0 {
					for r := unicodeSimpleFold(in.Rune[0]); r != in.Rune[0]; r = unicodeSimpleFold(r) {
						add(r)
						add(r + 1)
					}
				}
			}
			for i := 0; i+1 < len(in.Rune); i += 2 {
				add(in.Rune[i])
				add(in.Rune[i+1] + 1)
			}
		case syntax.InstRuneAnyNotNL:
			add('\n')
			add('\n' + 1)
		}
	}
	for _, r := range d.specials {
		add(r)
		add(r + 1)
	}
	var reps []rune
	for r := range cut {
		reps = append(reps, r)
	}
	sort.Slice(reps, func(i, j int) bool { return reps[i] < reps[j] })

	type st struct {
		pc      uint32
		ds      int
		atStart bool
		ended   bool
	}
	type node struct {
		prev *node
		r    rune
		has  bool
	}
	seen := map[st]bool{}
	type item struct {
		s st
		n *node
	}
	witness := func(n *node) string {
		var rs []rune
		for ; n != nil; n = n.prev {
			if n.has {
				rs = append(rs, n.r)
			}
		}
		for i, j := 0, len(rs)-1; i < j; i, j = i+1, j-1 {
			rs[i], rs[j] = rs[j], rs[i]
		}
		return fmt.Sprintf("%q", string(rs))
	}
	work := []item{{st{uint32(prog.Start), d.start, true, false}, nil}}
	for len(work) > 0 {
		it := work[len(work)-1]
		work = work[:len(work)-1]
		if seen[it.s] {
			continue
		}
		seen[it.s] = true
		in := &prog.Inst[it.s.pc]
		push := func(pc uint32, ds int, atStart, ended bool, n *node) {
			work = append(work, item{st{pc, ds, atStart, ended}, n})
		}
		switch in.Op {
		case syntax.InstFail:
		case syntax.InstMatch:
			if it.s.ds < 0 || !d.accept(it.s.ds) {
				return false, "admits " + witness(it.n) + " (" + d.describe(it.s.ds) + ")"
			}
			if !it.s.ended {
				// unanchored end: any continuation is part of an accepted text
				return false, "is not anchored at the end: " + witness(it.n) + " followed by anything is accepted"
			}
		case syntax.InstAlt, syntax.InstAltMatch:
			push(in.Out, it.s.ds, it.s.atStart, it.s.ended, it.n)
			push(in.Arg, it.s.ds, it.s.atStart, it.s.ended, it.n)
		case syntax.InstCapture, syntax.InstNop:
			push(in.Out, it.s.ds, it.s.atStart, it.s.ended, it.n)
		case syntax.InstEmptyWidth:
			op := syntax.EmptyOp(in.Arg)
			if op&^(syntax.EmptyBeginText|syntax.EmptyEndText|syntax.EmptyBeginLine|syntax.EmptyEndLine) != 0 {
				return false, "uses a word-boundary assertion the inclusion check does not model"
			}
			if op&(syntax.EmptyBeginLine|syntax.EmptyEndLine) != 0 {
				return false, "uses multi-line anchors: a match of one line accepts text with other lines around it"
			}
			if op&syntax.EmptyBeginText != 0 && !it.s.atStart {
				break
			}
			ended := it.s.ended
			if op&syntax.EmptyEndText != 0 {
				ended = true
			}
			push(in.Out, it.s.ds, it.s.atStart, ended, it.n)
		case syntax.InstRune, syntax.InstRune1, syntax.InstRuneAny, syntax.InstRuneAnyNotNL:
			if it.s.ended {
				break
			}
			for _, r := range reps {
				if !in.MatchRune(r) {
					continue
				}
				ds := it.s.ds
				if ds >= 0 {
					ds = d.step(ds, r)
				}
				push(in.Out, ds, false, false, &node{it.n, r, true})
			}
		}
	}
	return true, ""
}

func unicodeSimpleFold(r rune) rune {
	// ASCII-only folding is enough for the boundaries (non-ASCII runes are dead in every automaton used here)
	switch {
	case r >= 'a' && r <= 'z':
		return r - 32
	case r >= 'A' && r <= 'Z':
		return r + 32
	}
	return r
}

// ddlFragmentDFA: the text is spliced between the commas of `CREATE TABLE t (name TEXT, name TEXT)`. It must not
// contain a comma outside parentheses (that would start another column or a table constraint) and its
// parentheses must balance without the depth ever going negative (a `)` at depth 0 ends the column list).
// A regular pattern cannot count, so any depth above maxDepth is treated as unbalanced.
func ddlFragmentDFA() *runeDFA {
	const maxDepth = 4
	return &runeDFA{
		start:  0,
		accept: func(s int) bool { return s == 0 },
		step: func(s int, r rune) int {
			switch r {
			case '(':
				if s+1 > maxDepth {
					return -1
				}
				return s + 1
			case ')':
				if s == 0 {
					return -1
				}
				return s - 1
			case ',':
				if s == 0 {
					return -1
				}
			}
			return s
		},
		specials: []rune{'(', ')', ','},
		describe: func(s int) string {
			if s < 0 {
				return "a comma at depth 0, a ')' without its '(' or nesting deeper than 4: the fragment ends the column definition and continues with SQL of its own"
			}
			return fmt.Sprintf("ends with %d unclosed '('", s)
		},
	}
}
