package main

import (
	"go/ast"
	"go/token"
	"go/types"

	"golang.org/x/tools/go/ssa"
)

func init() {
	register(&propSpec{
		id: "C09", title: "Async blocks are race-free, deterministic and settle once", run: runC09,
		notCovered:  "determinism of results under all schedules, the first-settled / first-success contracts of Race/Any as history properties, mis-execution of embedded async bodies that contain jumps on the VM (jump relocation; out of static reach)",
		assumptions: []string{"Future fields state/value/err/resolved are guarded by Future.mu; done/cancel channels are created once in NewFuture", "a goroutine closure shares exactly its free variables"},
	})
}

const interpPkg = "pkg/interpreter"
const interpPath = modPath + "/pkg/interpreter"
const vmPkg = "pkg/vm"
const vmPath = modPath + "/pkg/vm"

// recvOn: instruction receives from a channel loaded from field typ.field (plain receive or a select state).
// For selects it returns the select and the state's index.
func recvOnField(ins ssa.Instruction, typ, field string) (isRecv bool, sel *ssa.Select, idx int) {
	switch x := ins.(type) {
	case *ssa.UnOp:
		if x.Op == token.ARROW && chanFromField(x.X, typ, field) {
			return true, nil, 0
		}
	case *ssa.Select:
		for i, st := range x.States {
			if st.Dir == types.RecvOnly && chanFromField(st.Chan, typ, field) {
				return true, x, i
			}
		}
	}
	return false, nil, 0
}

func chanFromField(v ssa.Value, typ, field string) bool {
	v = stripConv(v)
	if loadedFromField(v, typ, field) {
		return true
	}
	// accessor call returning the channel (Done()/Cancelled())
	if cl, ok := v.(*ssa.Call); ok {
		if sf := cl.Call.StaticCallee(); sf != nil && len(sf.Blocks) == 1 {
			for _, ins := range sf.Blocks[0].Instrs {
				if r, ok := ins.(*ssa.Return); ok && len(r.Results) == 1 && loadedFromField(stripConv(r.Results[0]), typ, field) {
					return true
				}
			}
		}
	}
	return false
}

func runC09(c *Ctx) {
	c.rule("C09-R6", "PAIR: every Lock/RLock in pkg/interpreter (Future, combinators) and pkg/vm is released on every path to a return: an awaiter can never block on a mutex a settled future still holds; REACQ: no method calls, while it holds its receiver's mutex, a method of the same receiver that acquires that mutex again (sync mutexes are not re-entrant; a second RLock blocks once a writer waits)")
	c.Sites["C09-R6#acquire-sites"] = lockReleaseAudit(c, "C09-R6", []string{interpPkg, vmPkg})
	c.floor("C09-R6", 8)
	// ---- R1 settle once
	c.rule("C09-R1", "LCK+ORD on interpreter.Future: state/value/err/resolved only under Future.mu (writes exclusive); every settling write and every close(done) is unreachable once the `resolved == false` edge is cut (dominated by the already-settled test); resolved=true is stored before close(done); at most one close(done) per path; in Await* every read of state/value/err follows the receive from done (select case index of done); close(cancel) only under the select-default idiom")
	g := func(f string) guard {
		return guard{typ: interpPkg + ".Future", field: f, class: interpPkg + ".Future.mu"}
	}
	e := newLck(c, &lckConfig{rule: "C09-R1", pkgs: []string{interpPkg}, guards: []guard{g("state"), g("value"), g("err"), g("resolved")}})
	e.run()
	c.floor("C09-R1", 15)
	isCloseOf := func(ins ssa.Instruction, field string) bool {
		cl, ok := ins.(*ssa.Call)
		return ok && callName(cl) == "builtin.close" && chanFromField(cl.Call.Args[0], "Future", field)
	}
	// settle helpers: unexported methods of Future that settle without testing `resolved` themselves and are only
	// called from inside the package (completeLocked-style tails of Resolve/Reject/Cancel). Their obligation is lifted
	// to the call sites: a call of a settle helper is a settling write and a close(done) of the caller.
	settleHelper := map[*ssa.Function]bool{}
	scan := func(fn *ssa.Function) (settles []ssa.Instruction, resolvedLoads []ssa.Value) {
		eachInstr(fn, func(_ *ssa.BasicBlock, _ int, ins ssa.Instruction) {
			if st, ok := ins.(*ssa.Store); ok {
				for _, f := range []string{"state", "value", "err", "resolved"} {
					if isStoreToField(st, "Future", f) && !isFreshAlloc(st.Addr) {
						settles = append(settles, ins)
					}
				}
			}
			if isCloseOf(ins, "done") {
				settles = append(settles, ins)
			}
			if cl, ok := ins.(*ssa.Call); ok {
				if sf := staticFn(cl); sf != nil && settleHelper[sf] {
					settles = append(settles, ins)
				}
			}
			if u, ok := ins.(*ssa.UnOp); ok && loadedFromField(u, "Future", "resolved") {
				resolvedLoads = append(resolvedLoads, u)
			}
		})
		return
	}
	for changed := true; changed; {
		changed = false
		for _, fn := range c.srcFuncs(interpPkg) {
			if settleHelper[fn] || fn.Signature.Recv() == nil || !typeIs(fn.Signature.Recv().Type(), modPath+"/"+interpPkg, "Future") || ast.IsExported(fn.Name()) {
				continue
			}
			st, rl := scan(fn)
			if len(st) == 0 || len(rl) > 0 {
				continue
			}
			callers := 0
			for _, g := range c.srcFuncs(interpPkg) {
				eachCall(g, func(cl ssa.CallInstruction) {
					if staticFn(cl) == fn {
						callers++
					}
				})
			}
			if callers > 0 {
				settleHelper[fn] = true
				changed = true
			}
		}
	}
	isCloseOfDone := func(ins ssa.Instruction) bool {
		if isCloseOf(ins, "done") {
			return true
		}
		if cl, ok := ins.(*ssa.Call); ok {
			if sf := staticFn(cl); sf != nil && settleHelper[sf] {
				closes := false
				eachInstr(sf, func(_ *ssa.BasicBlock, _ int, x ssa.Instruction) {
					if isCloseOf(x, "done") {
						closes = true
					}
				})
				return closes
			}
		}
		return false
	}
	for _, fn := range c.srcFuncs(interpPkg) {
		settles, resolvedLoads := scan(fn)
		if len(settles) == 0 {
			continue
		}
		cut := func(b *ssa.BasicBlock, si int) bool {
			for _, l := range resolvedLoads {
				if known, val := boolOnEdge(b, si, l); known && !val {
					return true
				}
			}
			return false
		}
		q := &pathQuery{fn: fn, cutEdge: cut, target: func(x ssa.Instruction) bool {
			for _, s := range settles {
				if s == x {
					return true
				}
			}
			return false
		}}
		hit, path := q.fromEntry()
		p := fn.Pos()
		if hit != nil {
			p = hit.Pos()
		}
		if settleHelper[fn] {
			c.info("C09-R1", fnKey(fn)+"#settle-helper", fn.Pos(), "settles without testing resolved itself; every call site is held to the obligation instead")
			hit = nil
		}
		c.ob("C09-R1", fnKey(fn)+"#settle-only-if-not-resolved", p, hit == nil, "a settling write / close(done) is reachable without having observed resolved==false: a second Resolve/Reject/Cancel overwrites the outcome or closes done twice (panic)", c.blockPath(path)...)
		// resolved=true before close(done); single close
		for _, s := range settles {
			if !isCloseOfDone(s) {
				continue
			}
			if isCloseOf(s, "done") { // a helper that closes done is held to this in its own body
				q2 := &pathQuery{fn: fn, target: func(x ssa.Instruction) bool { return x == s }, stop: func(x ssa.Instruction) bool {
					st, ok := x.(*ssa.Store)
					return ok && isStoreToField(st, "Future", "resolved") && isConstBool(st.Val, true)
				}}
				h2, p2 := q2.fromEntry()
				c.ob("C09-R1", fnKey(fn)+"#resolved-set-before-close-done", s.Pos(), h2 == nil, "done is closed on a path that has not marked the future resolved", c.blockPath(p2)...)
			}
			q3 := &pathQuery{fn: fn, target: func(x ssa.Instruction) bool { return isCloseOfDone(x) }}
			h3, p3 := q3.after(s)
			c.ob("C09-R1", fnKey(fn)+"#single-close-done", s.Pos(), h3 == nil, "a second close(done) is reachable after the first", c.blockPath(p3)...)
			// the outcome fields are written before done is closed: no store to value/err/state after close
			q4 := &pathQuery{fn: fn, target: func(x ssa.Instruction) bool {
				st, ok := x.(*ssa.Store)
				return ok && (isStoreToField(st, "Future", "value") || isStoreToField(st, "Future", "err") || isStoreToField(st, "Future", "state"))
			}}
			h4, p4 := q4.after(s)
			c.ob("C09-R1", fnKey(fn)+"#outcome-written-before-close-done", s.Pos(), h4 == nil, "the outcome is written after done was closed: an awaiter can observe a half-settled future", c.blockPath(p4)...)
		}
		// close(cancel) only under select-default on cancel
		eachInstr(fn, func(_ *ssa.BasicBlock, _ int, ins ssa.Instruction) {
			if !isCloseOf(ins, "cancel") {
				return
			}
			guarded := false
			eachInstr(fn, func(_ *ssa.BasicBlock, _ int, x ssa.Instruction) {
				if ok, sel, _ := recvOnField(x, "Future", "cancel"); ok && sel != nil && !sel.Blocking && dominatesInstr(sel, ins) {
					guarded = true
				}
			})
			c.ob("C09-R1", fnKey(fn)+"#close-cancel-guarded", ins.Pos(), guarded, "close(cancel) is not guarded by a non-blocking receive on cancel: a second cancellation closes a closed channel")
		})
	}
	// no blocking channel operation while Future.mu is held (Resolve/Reject need the write lock to settle)
	for _, fn := range c.srcFuncs(interpPkg) {
		var at map[ssa.Instruction]lockState
		n := 0
		eachInstr(fn, func(_ *ssa.BasicBlock, _ int, ins ssa.Instruction) {
			blocking := false
			switch x := ins.(type) {
			case *ssa.UnOp:
				blocking = x.Op == token.ARROW
			case *ssa.Select:
				blocking = x.Blocking
			case *ssa.Send:
				blocking = true
			}
			if !blocking {
				return
			}
			if at == nil {
				at, _ = e.analyse(fn)
			}
			if at[ins][interpPkg+".Future.mu"] > 0 {
				n++
				c.ob("C09-R1", fnKey(fn)+"#no-blocking-under-future-mu-"+itoa(n), ins.Pos(), false, "a blocking channel operation executes while Future.mu is held: the settling side needs the write lock, so awaiter and settler deadlock")
			}
		})
	}
	c.ob("C09-R1", interpPkg+"#no-blocking-under-future-mu", token.NoPos, true, "")

	// Await*: reads after receive from done
	for _, name := range []string{"Future.Await", "Future.AwaitWithTimeout", "Future.AwaitWithContext"} {
		fn := c.mustFn("C09-R1", interpPkg, name)
		if fn == nil {
			continue
		}
		awaitReadsAfterDone(c, "C09-R1", fn, "Future", "done", []string{"state", "value", "err"}, "")
	}

	// ---- R2 what the interpreter's async block shares
	c.rule("C09-R2", "GOR: a goroutine started by the interpreter that evaluates user statements may capture an *Environment only if Environment synchronises its own map (a mutex field guarding vars) or the captured environment is detached from live scopes (built by a snapshot/copy, not NewChildEnvironment(live env))")
	envHasMutex := false
	if tn, ok := c.pkg(interpPkg).Types.Scope().Lookup("Environment").(*types.TypeName); ok {
		if st, ok := tn.Type().Underlying().(*types.Struct); ok {
			for i := 0; i < st.NumFields(); i++ {
				if isSyncMutex(st.Field(i).Type()) {
					envHasMutex = true
				}
			}
		}
	}
	nGo := 0
	for _, fn := range c.srcFuncs(interpPkg) {
		eachInstr(fn, func(_ *ssa.BasicBlock, _ int, ins ssa.Instruction) {
			g, ok := ins.(*ssa.Go)
			if !ok {
				return
			}
			mc, ok := g.Call.Value.(*ssa.MakeClosure)
			if !ok {
				return
			}
			cf := mc.Fn.(*ssa.Function)
			for i, b := range mc.Bindings {
				if !typeIs(b.Type(), interpPath, "Environment") {
					continue
				}
				nGo++
				// where does the captured env come from?
				detached := derivesFrom(b, func(v ssa.Value) bool {
					cl, ok := v.(*ssa.Call)
					if !ok {
						return false
					}
					n := callName(cl)
					return n == interpPath+".NewEnvironment" || n == interpPath+".Environment.Snapshot" || n == interpPath+".Environment.Clone" || n == interpPath+".Environment.Copy"
				}) && !derivesFrom(b, func(v ssa.Value) bool {
					cl, ok := v.(*ssa.Call)
					return ok && callName(cl) == interpPath+".NewChildEnvironment"
				})
				_ = i
				c.ob("C09-R2", fnKey(fn)+"#go-captures-environment:"+cf.FreeVars[i].Name(), g.Pos(), envHasMutex || detached,
					"the async goroutine shares a live Environment (child of the parent's scope) and Environment's map is unsynchronised: a parent that keeps declaring/assigning variables races with the block's lookups (concurrent map read/write is a fatal runtime error)")
			}
		})
	}
	// the functions accepted above as "detaching" really detach: what they return has no parent scope
	if !envHasMutex {
		for _, name := range []string{"Environment.Snapshot", "Environment.Clone", "Environment.Copy"} {
			fn := c.fn(interpPkg, name)
			if fn == nil {
				continue
			}
			detached, why := true, ""
			eachInstr(fn, func(_ *ssa.BasicBlock, _ int, ins ssa.Instruction) {
				r, ok := ins.(*ssa.Return)
				if !ok {
					return
				}
				rv := retVals(r)[0]
				if derivesFrom(rv, func(v ssa.Value) bool {
					cl, ok := v.(*ssa.Call)
					return ok && callName(cl) == interpPath+".NewChildEnvironment"
				}) {
					detached, why = false, "it returns a NewChildEnvironment(...) of a live scope"
				}
			})
			eachInstr(fn, func(_ *ssa.BasicBlock, _ int, ins ssa.Instruction) {
				st, ok := ins.(*ssa.Store)
				if !ok || !isStoreToField(st, "Environment", "parent") {
					return
				}
				if !isNilConst(st.Val) {
					detached, why = false, "it links the copy to a parent scope"
				}
			})
			// ... and the values it hands over are the block's own: objects and arrays are Go maps and slices that
			// assignment writes in place, so a binding copied by reference is still shared
			checkedCopier := map[*ssa.Function]bool{}
			nBind := 0
			eachInstr(fn, func(_ *ssa.BasicBlock, _ int, ins ssa.Instruction) {
				mu, ok := ins.(*ssa.MapUpdate)
				if !ok || !derivesFrom(mu.Map, func(v ssa.Value) bool { return loadedFromField(v, "Environment", "vars") }) {
					return
				}
				derivesFrom(mu.Value, func(v ssa.Value) bool {
					if cl, ok := v.(*ssa.Call); ok && isCopier(staticFn(cl)) {
						if !checkedCopier[staticFn(cl)] {
							checkedCopier[staticFn(cl)] = true
							checkCopier(c, "C09-R2", staticFn(cl))
						}
					}
					return false
				})
				nBind++
				copied := derivesFrom(mu.Value, func(v ssa.Value) bool {
					cl, ok := v.(*ssa.Call)
					return ok && isCopier(staticFn(cl))
				})
				c.ob("C09-R2", fnKey(fn)+"#hands-over-copies-of-objects-and-arrays-"+itoa(nBind), mu.Pos(), copied, "the detached environment receives the parent's bindings as they are: an object or array bound in the parent is the same Go map / slice in the block, and `$ o.f = v`, `o[i] = v`, set() and remove() write it in place - parent and block writing different fields of one object is an unsynchronised concurrent map write, which ends the process (the compiled engine copies: its values are immutable)")
			})
			c.ob("C09-R2", fnKey(fn)+"#returns-an-environment-without-parent", fn.Pos(), detached, "this function is what detaches an async block from its parent's live scopes, but "+why+": lookups and assignments in the block walk into a map the parent goroutine keeps writing (unsynchronised map access is fatal; the block's writes become visible to the parent)")
		}
	}
	if envHasMutex {
		le := newLck(c, &lckConfig{rule: "C09-R2", pkgs: []string{interpPkg}, guards: []guard{{typ: interpPkg + ".Environment", field: "vars", class: interpPkg + ".Environment.mu"}}})
		le.run()
	}
	if nGo == 0 {
		c.info("C09-R2", interpPkg+"#no-go-with-environment", token.NoPos, "no goroutine captures an *Environment")
	}

	// ---- R3 what the VM's async block shares
	c.rule("C09-R3", "GOR: the goroutine started by vm.execAsync captures no *VM and no value loaded from a VM field; every captured variable holds a value created in execAsync (make / composite literal / copy); FutureValue.Result/Error are written only inside that goroutine, whose first deferred call closes Done (so it runs last), and are read only after a receive on Done or under Done==nil")
	if ea := c.mustFn("C09-R3", vmPkg, "VM.execAsync"); ea != nil {
		var goCl *ssa.Function
		eachInstr(ea, func(_ *ssa.BasicBlock, _ int, ins ssa.Instruction) {
			g, ok := ins.(*ssa.Go)
			if !ok {
				return
			}
			mc, ok := g.Call.Value.(*ssa.MakeClosure)
			if !ok {
				c.ob("C09-R3", vmPkg+".VM.execAsync#go-closure", g.Pos(), false, "async body is not started as a closure")
				return
			}
			goCl = mc.Fn.(*ssa.Function)
			for i, b := range mc.Bindings {
				name := goCl.FreeVars[i].Name()
				ok := true
				why := ""
				if typeIs(b.Type(), vmPath, "VM") {
					ok, why = false, "captures the parent *VM"
				} else if al, isAlloc := b.(*ssa.Alloc); isAlloc {
					for _, r := range refs(al) {
						st, isSt := r.(*ssa.Store)
						if !isSt || st.Addr != ssa.Value(al) {
							continue
						}
						if bt, isB := st.Val.Type().Underlying().(*types.Basic); isB && bt.Kind() != types.UnsafePointer {
							continue // a number, string or bool is copied, not shared (the parent's step bound)
						}
						switch v := st.Val.(type) {
						case *ssa.MakeMap, *ssa.MakeSlice, *ssa.MakeChan, *ssa.Alloc, *ssa.Const, *ssa.MakeClosure:
						case *ssa.Call:
							if callName(v) != "builtin.append" {
								// result of a call: fine unless it is a VM accessor
								if derivesFrom(v, func(x ssa.Value) bool { n, _, ok := fieldOf(x); return ok && n != nil && n.Obj().Name() == "VM" }) {
									ok, why = false, "holds a value obtained from the parent VM's state"
								}
							}
						default:
							if derivesFrom(v, func(x ssa.Value) bool { n, _, ok := fieldOf(x); return ok && n != nil && n.Obj().Name() == "VM" }) {
								ok, why = false, "holds a reference loaded from a field of the parent VM (shared map/slice)"
							}
						}
					}
				} else if derivesFrom(b, func(x ssa.Value) bool { n, _, ok := fieldOf(x); return ok && n != nil && n.Obj().Name() == "VM" }) {
					ok, why = false, "is loaded from a field of the parent VM"
				}
				c.ob("C09-R3", vmPkg+".VM.execAsync#capture:"+name, g.Pos(), ok, "the async goroutine's captured variable "+name+" "+why+": parent and block race on it")
			}
		})
		if goCl != nil {
			c.touched(goCl)
			// first defer closes Done
			var firstDefer *ssa.Defer
			eachInstr(goCl, func(_ *ssa.BasicBlock, _ int, ins ssa.Instruction) {
				if d, ok := ins.(*ssa.Defer); ok && firstDefer == nil {
					firstDefer = d
				}
			})
			okD := firstDefer != nil && callName(firstDefer) == "builtin.close" && chanFromField(firstDefer.Call.Args[0], "FutureValue", "Done")
			c.ob("C09-R3", vmPkg+".VM.execAsync$go#close-done-deferred-first", goCl.Pos(), okD, "close(future.Done) is not the first deferred call of the async goroutine: Done can be closed before Result/Error are final, or never on panic")
		}
		// writers of Result/Error
		for _, fn := range c.srcFuncs(vmPkg) {
			eachInstr(fn, func(_ *ssa.BasicBlock, _ int, ins ssa.Instruction) {
				st, ok := ins.(*ssa.Store)
				if !ok || !(isStoreToField(st, "FutureValue", "Result") || isStoreToField(st, "FutureValue", "Error")) || isFreshAlloc(st.Addr) {
					return
				}
				inGo := goCl != nil && (fn == goCl || fn.Parent() == goCl)
				c.ob("C09-R3", fnKey(fn)+"#writes-future-outcome", st.Pos(), inGo, "FutureValue.Result/Error written outside the async goroutine that owns the future")
			})
		}
		for _, name := range []string{"FutureValue.Await", "FutureValue.MarshalJSON"} {
			if fn := c.fn(vmPkg, name); fn != nil {
				awaitReadsAfterDone(c, "C09-R3", fn, "FutureValue", "Done", []string{"Result", "Error"}, "Done")
			}
		}
	}

	// ---- R5 combinators: structural pieces
	c.rule("C09-R5", "structural: All stores each awaited value at the index of the future it came from (same loop index) and rejects on the first error edge; Any's shared error slice and counter are accessed only under its local mutex and it rejects only when the counter equals len(futures)")
	if all := c.fn(interpPkg, "All"); all != nil {
		for _, cl := range innerClosures(all) {
			eachInstr(cl, func(_ *ssa.BasicBlock, _ int, ins ssa.Instruction) {
				st, ok := ins.(*ssa.Store)
				if !ok {
					return
				}
				ia, ok := st.Addr.(*ssa.IndexAddr)
				if !ok {
					return
				}
				if _, isSlice := ia.X.Type().Underlying().(*types.Slice); !isSlice {
					return
				}
				// value stored derives from Await on futures[idx'] with the same index
				var awaitIdx ssa.Value
				derivesFrom(st.Val, func(v ssa.Value) bool {
					if call, ok := v.(*ssa.Call); ok && callName(call) == interpPath+".Future.Await" {
						derivesFrom(call.Call.Args[0], func(x ssa.Value) bool {
							if ia2, ok := x.(*ssa.IndexAddr); ok {
								awaitIdx = ia2.Index
								return true
							}
							return false
						})
						return true
					}
					return false
				})
				if awaitIdx == nil {
					return
				}
				c.ob("C09-R5", interpPkg+".All#value-stored-at-its-future-index", st.Pos(), awaitIdx == ia.Index, "All stores a future's value at a different index than the future's position: results are not order-preserving")
			})
		}
	}
	// Race/Any: one goroutine per future (awaits are concurrent), otherwise "first settled / first success" cannot hold
	for _, name := range []string{"Race", "Any"} {
		f := c.fn(interpPkg, name)
		if f == nil {
			continue
		}
		inLoop := func(fn *ssa.Function, ins ssa.Instruction) bool {
			for _, lp := range naturalLoops(fn) {
				if lp.body[ins.Block()] {
					return true
				}
			}
			return false
		}
		n := 0
		for _, cl := range innerClosures(f) {
			eachInstr(cl, func(_ *ssa.BasicBlock, _ int, ins ssa.Instruction) {
				if !isCallTo(ins, interpPath+".Future.Await") {
					return
				}
				n++
				// the closure is started by `go` inside a loop of the parent, and the await is not itself in a loop
				spawnedPerFuture := false
				eachInstr(cl.Parent(), func(_ *ssa.BasicBlock, _ int, x ssa.Instruction) {
					if g, ok := x.(*ssa.Go); ok {
						if mc, ok := g.Call.Value.(*ssa.MakeClosure); ok && mc.Fn == ssa.Value(cl) && inLoop(cl.Parent(), g) {
							spawnedPerFuture = true
						}
					}
				})
				c.ob("C09-R5", interpPkg+"."+name+"#await-per-future-goroutine-"+itoa(n), ins.Pos(), spawnedPerFuture && !inLoop(cl, ins),
					name+" awaits its futures sequentially (not one goroutine per future): a slow or never-settling earlier future delays or blocks the result, so the first-settled / first-success contract cannot hold")
			})
		}
		if n == 0 {
			c.ob("C09-R5", interpPkg+"."+name+"#awaits-futures", f.Pos(), false, name+" never awaits its futures in a goroutine")
		}
		// the outcome is published before the losers are cancelled: cancelling wakes the losers' own goroutines,
		// and a woken loser that settles the result first makes the combinator report "future cancelled" although
		// exactly one future completed - every Cancel in the combinator's goroutines comes after the result was
		// settled in that goroutine, or after a receive from the result's Done channel
		k := 0
		for _, cl := range innerClosures(f) {
			eachInstr(cl, func(_ *ssa.BasicBlock, _ int, ins ssa.Instruction) {
				if !isCallTo(ins, interpPath+".Future.Cancel") {
					return
				}
				k++
				settled := func(x ssa.Instruction) bool {
					if isCallTo(x, interpPath+".Future.Resolve", interpPath+".Future.Reject") {
						return true
					}
					if u, ok := x.(*ssa.UnOp); ok && u.Op == token.ARROW {
						if cl2, ok := u.X.(*ssa.Call); ok && callName(cl2) == interpPath+".Future.Done" {
							return true
						}
					}
					return false
				}
				q := &pathQuery{fn: cl, target: func(x ssa.Instruction) bool { return x == ins }, stop: settled}
				hit, path := q.fromEntry()
				c.ob("C09-R5", interpPkg+"."+name+"#losers-cancelled-only-after-the-outcome-is-published-"+itoa(k), ins.Pos(), hit == nil, name+" cancels the other futures before it has settled its own result: Cancel rejects the losers and wakes their goroutines, one of which can reach result.Reject(\"future cancelled\") before the winner's value is published", c.blockPath(path)...)
			})
		}
	}
	if anyF := c.fn(interpPkg, "Any"); anyF != nil {
		mu := localVarNamed(anyF, isSyncMutex)
		if mu != "" {
			cls := "local:" + interpPkg + ".Any." + mu
			le := newLck(c, &lckConfig{rule: "C09-R5", pkgs: []string{interpPkg}, guards: []guard{
				{typ: "local:" + interpPkg + ".Any", field: "errors", class: cls},
				{typ: "local:" + interpPkg + ".Any", field: "errorCount", class: cls},
			}})
			le.run()
		}
	}
}

// awaitReadsAfterDone: in fn, every load of typ.<fields> is unreachable from entry once the edges
// "received from done" (plain receive passes; select index == done's state) and, if nilField != "",
// "<nilField> == nil" are cut.
func awaitReadsAfterDone(c *Ctx, rule string, fn *ssa.Function, typ, doneField string, fields []string, nilField string) {
	var plainRecv []ssa.Instruction
	type selState struct {
		sel *ssa.Select
		idx int
	}
	var sels []selState
	eachInstr(fn, func(_ *ssa.BasicBlock, _ int, ins ssa.Instruction) {
		if ok, sel, idx := recvOnField(ins, typ, doneField); ok {
			if sel == nil {
				plainRecv = append(plainRecv, ins)
			} else {
				sels = append(sels, selState{sel, idx})
			}
		}
	})
	cut := func(b *ssa.BasicBlock, si int) bool {
		for _, f := range eqOnEdge(b, si) {
			for _, s := range sels {
				for _, ex := range extractOf(s.sel, 0) {
					for _, pr := range [][2]ssa.Value{{f.x, f.y}, {f.y, f.x}} {
						if pr[0] == ex {
							if k, ok := constInt(pr[1]); ok && int(k) == s.idx {
								return true
							}
						}
					}
				}
			}
			if nilField != "" {
				for _, pr := range [][2]ssa.Value{{f.x, f.y}, {f.y, f.x}} {
					if isNilConst(pr[1]) && loadedFromField(pr[0], typ, nilField) {
						return true
					}
				}
			}
		}
		return false
	}
	n := 0
	for _, f := range fields {
		eachInstr(fn, func(_ *ssa.BasicBlock, _ int, ins ssa.Instruction) {
			u, ok := ins.(*ssa.UnOp)
			if !ok || !loadedFromField(u, typ, f) {
				return
			}
			n++
			q := &pathQuery{fn: fn, cutEdge: cut, target: func(x ssa.Instruction) bool { return x == ins },
				stop: func(x ssa.Instruction) bool {
					for _, r := range plainRecv {
						if r == x {
							return true
						}
					}
					return false
				}}
			hit, path := q.fromEntry()
			c.ob(rule, fnKey(fn)+"#read-"+f+"-after-done-"+itoa(n), u.Pos(), hit == nil, "the outcome field ."+f+" is read on a path that has not received from "+doneField+": the awaiter can see an unsettled or half-written result", c.blockPath(path)...)
		})
	}
	if len(plainRecv)+len(sels) == 0 {
		c.ob(rule, fnKey(fn)+"#waits-on-"+doneField, fn.Pos(), false, "no receive from "+doneField+" in an awaiting function")
	}
}

// the copier and the helpers it is split into (copyObject / copyArray that call it back)
func copierGroup(f *ssa.Function) []*ssa.Function {
	if f == nil || len(f.Blocks) == 0 {
		return nil
	}
	group := []*ssa.Function{f}
	eachCall(f, func(cl ssa.CallInstruction) {
		g := staticFn(cl)
		if g == nil || g == f || g.Pkg != f.Pkg || len(g.Blocks) == 0 {
			return
		}
		back := false
		eachCall(g, func(c2 ssa.CallInstruction) {
			if staticFn(c2) == f {
				back = true
			}
		})
		if back {
			group = append(group, g)
		}
	})
	return group
}
func isCopier(f *ssa.Function) bool {
	group := copierGroup(f)
	if group == nil {
		return false
	}
	inGroup := map[*ssa.Function]bool{}
	for _, g := range group {
		inGroup[g] = true
	}
	mk, rec, sw := false, false, false
	for _, h := range group {
		for _, g := range withAnon(h) {
			eachInstr(g, func(_ *ssa.BasicBlock, _ int, ins ssa.Instruction) {
				switch x := ins.(type) {
				case *ssa.MakeMap, *ssa.MakeSlice:
					mk = true
				case *ssa.TypeAssert:
					if _, isMap := x.AssertedType.Underlying().(*types.Map); isMap {
						sw = true
					}
				case *ssa.Call:
					if sf := staticFn(x); sf != nil && inGroup[sf] {
						rec = true
					}
				}
			})
		}
	}
	return mk && rec && sw
}

// the copier itself: every container is copied (only a nil one is handed back as it is), and a container
// is entered in the memo before its elements are visited (a value can contain itself)
// checkCopier holds the snapshot copier (and the helpers it is split into) to the nil-only passthrough and
// memo-before-elements clauses, under the given rule id.
func checkCopier(c *Ctx, rule string, top *ssa.Function) {
	inGroup := map[*ssa.Function]bool{}
	for _, g := range copierGroup(top) {
		inGroup[g] = true
	}
	for g := range inGroup {
		checkCopierFn(c, rule, g, inGroup)
	}
}
func checkCopierFn(c *Ctx, rule string, f *ssa.Function, inGroup map[*ssa.Function]bool) {
	isContainerType := func(t types.Type) bool {
		switch u := t.Underlying().(type) {
		case *types.Map:
			kb, ok := u.Key().Underlying().(*types.Basic)
			return ok && kb.Kind() == types.String && dynIface(u.Elem())
		case *types.Slice:
			return dynIface(u.Elem())
		}
		return false
	}
	var memo *ssa.Parameter
	for _, p := range f.Params {
		if _, isMap := p.Type().Underlying().(*types.Map); isMap && !isContainerType(p.Type()) {
			memo = p
		}
	}
	kk := 0
	// the containers this function handles: what it asserts a value to, and container-typed parameters
	var containers []ssa.Value
	var at []token.Pos
	eachInstr(f, func(_ *ssa.BasicBlock, _ int, ins ssa.Instruction) {
		ta, ok := ins.(*ssa.TypeAssert)
		if !ok || !ta.CommaOk || !isContainerType(ta.AssertedType) {
			return
		}
		for _, v := range extractOf(ta, 0) {
			containers = append(containers, v)
			at = append(at, ta.Pos())
		}
	})
	for _, p := range f.Params {
		if isContainerType(p.Type()) {
			containers = append(containers, p)
			at = append(at, p.Pos())
		}
	}
	for ci, v := range containers {
		taPos := at[ci]
		{
			kk++
			// (i) returned as it is only when nil
			eachInstr(f, func(_ *ssa.BasicBlock, _ int, x ssa.Instruction) {
				r, ok := x.(*ssa.Return)
				if !ok || len(r.Results) == 0 {
					return
				}
				if mi, ok := r.Results[0].(*ssa.MakeInterface); ok {
					if mi.X != v {
						return
					}
				} else if r.Results[0] != v {
					return
				}
				q := &pathQuery{fn: f, target: func(y ssa.Instruction) bool { return y == x }, cutEdge: func(b *ssa.BasicBlock, si int) bool {
					iff := ifOf(b)
					if iff == nil {
						return false
					}
					bo, ok := iff.Cond.(*ssa.BinOp)
					if !ok || !((bo.X == v && isNilConst(bo.Y)) || (bo.Y == v && isNilConst(bo.X))) {
						return false
					}
					return (bo.Op == token.EQL && si == 0) || (bo.Op == token.NEQ && si == 1)
				}}
				hit, path := q.fromEntry()
				c.ob(rule, fnKey(f)+"#container-"+itoa(kk)+"-handed-back-uncopied-only-when-nil", r.Pos(), hit == nil, "the copier hands a container back as it is on a path that has not established that it is nil (an empty one, say): the usual `$ acc = {}` accumulator is then one Go map in parent and block, and the first writes on both sides are a concurrent map write", c.blockPath(path)...)
			})
			// (ii) memo before the elements
			if memo == nil {
				c.ob(rule, fnKey(f)+"#container-"+itoa(kk)+"-entered-in-the-memo-before-its-elements", taPos, false, "the copier keeps no record of the containers it has entered: a value that contains itself (`$ node.parent = node`, `a[0] = a`) is copied for ever - a stack overflow that no recover() stops, as soon as such a value is in scope of an async block")
				continue
			}
			var rec []ssa.Instruction
			eachInstr(f, func(_ *ssa.BasicBlock, _ int, x ssa.Instruction) {
				if cl, ok := x.(*ssa.Call); ok && staticFn(cl) != nil && inGroup[staticFn(cl)] && len(cl.Call.Args) > 0 {
					// a call on an element of this container (not the hand-over of the container itself to a helper)
					if cl.Call.Args[0] != v && derivesFrom(cl.Call.Args[0], func(z ssa.Value) bool { return z == v }) {
						if mi, ok := cl.Call.Args[0].(*ssa.MakeInterface); ok && mi.X == v {
							return
						}
						rec = append(rec, x)
					}
				}
			})
			for ri, rc := range rec {
				q := &pathQuery{fn: f, target: func(y ssa.Instruction) bool { return y == rc }, stop: func(y ssa.Instruction) bool {
					mu, ok := y.(*ssa.MapUpdate)
					return ok && mu.Map == ssa.Value(memo)
				}}
				hit, path := q.fromEntry()
				c.ob(rule, fnKey(f)+"#container-"+itoa(kk)+"-entered-in-the-memo-before-its-elements-"+itoa(ri+1), rc.Pos(), hit == nil, "the copier visits the elements of a container before (or without) recording the container in its memo: a value that contains itself is copied for ever - a stack overflow that no recover() stops", c.blockPath(path)...)
			}
		}
	}
}
