package main

import (
	"fmt"
	"go/constant"
	"go/token"
	"go/types"
	"strings"

	"golang.org/x/tools/go/ssa"
)

// ---------- call helpers ----------

// calleeOf returns the statically resolved callee of a call instruction (function, method,
// or — for interface invokes — the abstract method), as a *types.Func, or nil.
func calleeOf(call ssa.CallInstruction) *types.Func {
	cc := call.Common()
	if cc.IsInvoke() {
		return cc.Method
	}
	if f := cc.StaticCallee(); f != nil {
		if fo, ok := f.Object().(*types.Func); ok {
			return fo
		}
		// instantiation / wrapper: fall back to origin
		if f.Origin() != nil {
			if fo, ok := f.Origin().Object().(*types.Func); ok {
				return fo
			}
		}
	}
	return nil
}

// qname renders a *types.Func as "pkgpath.Func" or "pkgpath.Type.Method" (pointer-ness dropped).
func qname(f *types.Func) string {
	q := rawqname(f)
	if a, ok := qnameAlias[q]; ok {
		return a
	}
	return q
}

// rawqname is qname without rename resolution (see anchors.go).
func rawqname(f *types.Func) string {
	if f == nil {
		return ""
	}
	sig, _ := f.Type().(*types.Signature)
	pp := ""
	if f.Pkg() != nil {
		pp = f.Pkg().Path()
	}
	if sig != nil && sig.Recv() != nil {
		t := sig.Recv().Type()
		if p, ok := t.(*types.Pointer); ok {
			t = p.Elem()
		}
		if n, ok := t.(*types.Named); ok {
			if n.Obj().Pkg() != nil {
				pp = n.Obj().Pkg().Path()
			}
			return pp + "." + n.Obj().Name() + "." + f.Name()
		}
		return pp + ".?." + f.Name()
	}
	return pp + "." + f.Name()
}

// callName is qname(calleeOf(call)), with "builtin.<name>" for builtins and "" for dynamic calls.
func callName(call ssa.CallInstruction) string {
	if b, ok := call.Common().Value.(*ssa.Builtin); ok {
		return "builtin." + b.Name()
	}
	return qname(calleeOf(call))
}

func short(q string) string { return strings.TrimPrefix(q, modPath+"/") }

// staticFn returns the SSA function called (nil for dynamic/interface).
func staticFn(call ssa.CallInstruction) *ssa.Function {
	if f := call.Common().StaticCallee(); f != nil {
		return f
	}
	if call.Common().IsInvoke() {
		return nil
	}
	return closureValueFn(call.Common().Value, 0)
}

// closureValueFn resolves a called function value that is a local closure: a MakeClosure, or a load of a local
// variable / captured variable (through any number of enclosing closures) that is assigned exactly once, a closure.
func closureValueFn(v ssa.Value, depth int) *ssa.Function {
	if depth > 6 {
		return nil
	}
	switch x := v.(type) {
	case *ssa.Function:
		return x
	case *ssa.MakeClosure:
		f, _ := x.Fn.(*ssa.Function)
		return f
	case *ssa.UnOp:
		if x.Op != token.MUL {
			return nil
		}
		var cell *ssa.Alloc
		switch a := x.X.(type) {
		case *ssa.Alloc:
			cell = a
		case *ssa.FreeVar:
			cell = capturedCellDeep(a)
		}
		if cell == nil {
			return nil
		}
		var only ssa.Value
		n := 0
		var scan func(f *ssa.Function)
		bad := false
		scan = func(f *ssa.Function) {
			eachInstr(f, func(_ *ssa.BasicBlock, _ int, ins ssa.Instruction) {
				if st, ok := ins.(*ssa.Store); ok && cellOf(st.Addr) == cell {
					only = st.Val
					n++
				}
			})
			for _, a := range f.AnonFuncs {
				scan(a)
			}
		}
		if cell.Parent() == nil {
			return nil
		}
		scan(cell.Parent())
		if bad || n != 1 {
			return nil
		}
		return closureValueFn(only, depth+1)
	}
	return nil
}

// cellOf: the Alloc an address value denotes, directly or as a variable captured by reference.
func cellOf(addr ssa.Value) *ssa.Alloc {
	switch a := addr.(type) {
	case *ssa.Alloc:
		return a
	case *ssa.FreeVar:
		return capturedCellDeep(a)
	}
	return nil
}

// capturedCellDeep follows a free variable through every enclosing closure to the Alloc it refers to.
func capturedCellDeep(fv *ssa.FreeVar) *ssa.Alloc {
	for depth := 0; depth < 8; depth++ {
		fn := fv.Parent()
		if fn == nil || fn.Parent() == nil {
			return nil
		}
		idx := -1
		for i, v := range fn.FreeVars {
			if v == fv {
				idx = i
			}
		}
		if idx < 0 {
			return nil
		}
		var b ssa.Value
		eachInstr(fn.Parent(), func(_ *ssa.BasicBlock, _ int, ins ssa.Instruction) {
			if mc, ok := ins.(*ssa.MakeClosure); ok && mc.Fn == ssa.Value(fn) && idx < len(mc.Bindings) {
				b = mc.Bindings[idx]
			}
		})
		switch x := b.(type) {
		case *ssa.Alloc:
			return x
		case *ssa.FreeVar:
			fv = x
		default:
			return nil
		}
	}
	return nil
}

// eachInstr visits every instruction of fn (not of nested closures).
func eachInstr(fn *ssa.Function, f func(b *ssa.BasicBlock, i int, ins ssa.Instruction)) {
	for _, b := range fn.Blocks {
		for i, ins := range b.Instrs {
			f(b, i, ins)
		}
	}
}

// eachCall visits every call/go/defer instruction.
func eachCall(fn *ssa.Function, f func(call ssa.CallInstruction)) {
	eachInstr(fn, func(_ *ssa.BasicBlock, _ int, ins ssa.Instruction) {
		if c, ok := ins.(ssa.CallInstruction); ok {
			f(c)
		}
	})
}

// withAnon returns fn and all nested anonymous functions.
func withAnon(fn *ssa.Function) []*ssa.Function {
	out := []*ssa.Function{fn}
	for _, a := range fn.AnonFuncs {
		out = append(out, withAnon(a)...)
	}
	return out
}

func topParent(fn *ssa.Function) *ssa.Function {
	for fn.Parent() != nil {
		fn = fn.Parent()
	}
	return fn
}

// fnKey is a line-independent name for a function: "pkg/rel.Recv.Name" plus "$k" closure ordinals.
func fnKey(fn *ssa.Function) string {
	if fn == nil {
		return "<nil>"
	}
	if fn.Parent() != nil {
		for i, a := range fn.Parent().AnonFuncs {
			if a == fn {
				return fmt.Sprintf("%s$%d", fnKey(fn.Parent()), i+1)
			}
		}
	}
	if fo, ok := fn.Object().(*types.Func); ok {
		return short(qname(fo))
	}
	return short(fn.String())
}

// ---------- value helpers ----------

func constString(v ssa.Value) (string, bool) {
	if c, ok := v.(*ssa.Const); ok && c.Value != nil && c.Value.Kind() == constant.String {
		return constant.StringVal(c.Value), true
	}
	return "", false
}

func constInt(v ssa.Value) (int64, bool) {
	if c, ok := v.(*ssa.Const); ok && c.Value != nil && c.Value.Kind() == constant.Int {
		i, ok := constant.Int64Val(c.Value)
		return i, ok
	}
	return 0, false
}

func isNilConst(v ssa.Value) bool {
	c, ok := v.(*ssa.Const)
	return ok && c.Value == nil
}

// stripConv removes ChangeType/Convert/MakeInterface/ChangeInterface wrappers.
func stripConv(v ssa.Value) ssa.Value {
	for {
		switch x := v.(type) {
		case *ssa.ChangeType:
			v = x.X
		case *ssa.Convert:
			v = x.X
		case *ssa.MakeInterface:
			v = x.X
		case *ssa.ChangeInterface:
			v = x.X
		default:
			return v
		}
	}
}

// namedOf returns the named type behind t (through pointers), or nil.
func namedOf(t types.Type) *types.Named {
	for {
		switch x := t.(type) {
		case *types.Pointer:
			t = x.Elem()
		case *types.Named:
			return x
		case *types.Alias:
			t = types.Unalias(x)
		default:
			return nil
		}
	}
}

func typeIs(t types.Type, pkgPath, name string) bool {
	n := namedOf(t)
	return n != nil && n.Obj().Name() == name && n.Obj().Pkg() != nil && n.Obj().Pkg().Path() == pkgPath
}

// fieldOf returns (struct named type, field name) for a FieldAddr/Field instruction.
func fieldOf(v ssa.Value) (*types.Named, string, bool) {
	switch x := v.(type) {
	case *ssa.FieldAddr:
		pt, ok := x.X.Type().Underlying().(*types.Pointer)
		if !ok {
			return nil, "", false
		}
		st, ok := pt.Elem().Underlying().(*types.Struct)
		if !ok {
			return nil, "", false
		}
		return namedOf(pt.Elem()), refFieldName(namedOf(pt.Elem()), st.Field(x.Field).Name()), true
	case *ssa.Field:
		st, ok := x.X.Type().Underlying().(*types.Struct)
		if !ok {
			return nil, "", false
		}
		return namedOf(x.X.Type()), refFieldName(namedOf(x.X.Type()), st.Field(x.Field).Name()), true
	}
	return nil, "", false
}

// refFieldName maps the current name of an unexported struct field to the name the rules know it by
// (anchors.go: a renamed field of a module struct, resolved by type).
func refFieldName(n *types.Named, name string) string {
	if n == nil || n.Obj().Pkg() == nil {
		return name
	}
	if a, ok := fieldAlias[n.Obj().Pkg().Path()+"."+n.Obj().Name()+"."+name]; ok {
		return a
	}
	return name
}

// ---------- CFG path queries on SSA ----------

type pathQuery struct {
	fn *ssa.Function
	// cutEdge: edge from block b to its succIdx-th successor is deleted.
	cutEdge func(b *ssa.BasicBlock, succIdx int) bool
	// stop: paths end at (and do not include what follows) this instruction.
	stop func(ins ssa.Instruction) bool
	// target: the instruction searched for.
	target func(ins ssa.Instruction) bool
}

// from searches forward starting at instruction index `idx` of block `b` (inclusive).
// It returns the first target found and the block path leading to it.
func (q *pathQuery) from(b *ssa.BasicBlock, idx int) (ssa.Instruction, []*ssa.BasicBlock) {
	type item struct {
		b    *ssa.BasicBlock
		idx  int
		prev *item
	}
	seen := map[*ssa.BasicBlock]bool{}
	queue := []*item{{b, idx, nil}}
	for len(queue) > 0 {
		it := queue[0]
		queue = queue[1:]
		stopped := false
		for i := it.idx; i < len(it.b.Instrs); i++ {
			ins := it.b.Instrs[i]
			if q.target != nil && q.target(ins) {
				var path []*ssa.BasicBlock
				for p := it; p != nil; p = p.prev {
					path = append([]*ssa.BasicBlock{p.b}, path...)
				}
				return ins, path
			}
			if q.stop != nil && q.stop(ins) {
				stopped = true
				break
			}
		}
		if stopped {
			continue
		}
		for si, s := range it.b.Succs {
			if q.cutEdge != nil && q.cutEdge(it.b, si) {
				continue
			}
			if seen[s] {
				continue
			}
			seen[s] = true
			queue = append(queue, &item{s, 0, it})
		}
	}
	return nil, nil
}

func (q *pathQuery) fromEntry() (ssa.Instruction, []*ssa.BasicBlock) {
	if len(q.fn.Blocks) == 0 {
		return nil, nil
	}
	return q.from(q.fn.Blocks[0], 0)
}

// after searches starting just after instruction ins.
func (q *pathQuery) after(ins ssa.Instruction) (ssa.Instruction, []*ssa.BasicBlock) {
	b := ins.Block()
	for i, x := range b.Instrs {
		if x == ins {
			return q.from(b, i+1)
		}
	}
	return nil, nil
}

func (c *Ctx) blockPath(path []*ssa.BasicBlock) []string {
	var out []string
	for _, b := range path {
		p := token.NoPos
		for _, ins := range b.Instrs {
			if ins.Pos().IsValid() {
				p = ins.Pos()
				break
			}
		}
		cm := b.Comment
		out = append(out, fmt.Sprintf("block %d (%s) %s", b.Index, cm, c.pos(p)))
	}
	return out
}

func isExit(ins ssa.Instruction) bool {
	switch ins.(type) {
	case *ssa.Return, *ssa.Panic:
		return true
	}
	return false
}

func isReturn(ins ssa.Instruction) bool { _, ok := ins.(*ssa.Return); return ok }

// ---------- guard edges ----------

// condEdge describes what an If condition establishes on one of its edges.
// For cond `a == b`: on the true edge (succIdx 0) eq(a,b) holds; for `a != b` on the false edge.
// Negations (UnOp !) are followed.
type eqFact struct {
	x, y ssa.Value
}

// eqOnEdge returns the equality facts established when leaving block b via succIdx (b must end in If).
func eqOnEdge(b *ssa.BasicBlock, succIdx int) []eqFact {
	iff, ok := b.Instrs[len(b.Instrs)-1].(*ssa.If)
	if !ok {
		return nil
	}
	return eqFacts(iff.Cond, succIdx == 0)
}

func eqFacts(cond ssa.Value, truth bool) []eqFact {
	switch x := cond.(type) {
	case *ssa.UnOp:
		if x.Op == token.NOT {
			return eqFacts(x.X, !truth)
		}
	case *ssa.BinOp:
		if (x.Op == token.EQL && truth) || (x.Op == token.NEQ && !truth) {
			return []eqFact{{x.X, x.Y}}
		}
	}
	return nil
}

// neFacts: inequality facts established on the edge.
func neFacts(cond ssa.Value, truth bool) []eqFact {
	switch x := cond.(type) {
	case *ssa.UnOp:
		if x.Op == token.NOT {
			return neFacts(x.X, !truth)
		}
	case *ssa.BinOp:
		if (x.Op == token.NEQ && truth) || (x.Op == token.EQL && !truth) {
			return []eqFact{{x.X, x.Y}}
		}
	}
	return nil
}

// boolOnEdge reports whether value v (a boolean SSA value) is known true/false when leaving b via succIdx.
// Returns (known, value).
func boolOnEdge(b *ssa.BasicBlock, succIdx int, v ssa.Value) (bool, bool) {
	iff, ok := b.Instrs[len(b.Instrs)-1].(*ssa.If)
	if !ok {
		return false, false
	}
	truth := succIdx == 0
	cond := iff.Cond
	for {
		if cond == v {
			return true, truth
		}
		if u, ok := cond.(*ssa.UnOp); ok && u.Op == token.NOT {
			cond = u.X
			truth = !truth
			continue
		}
		return false, false
	}
}

// valEq: a and b denote the same value: identical SSA values, or two loads of the same captured /
// local variable (free variable or Alloc cell; the repository's closures never reassign those
// between a test and its use).
func valEq(a, b ssa.Value) bool {
	if a == b {
		return true
	}
	ua, ok1 := a.(*ssa.UnOp)
	ub, ok2 := b.(*ssa.UnOp)
	if ok1 && ok2 && ua.Op == token.MUL && ub.Op == token.MUL && ua.X == ub.X {
		switch ua.X.(type) {
		case *ssa.FreeVar, *ssa.Alloc:
			return true
		}
	}
	return false
}

// sameVal: valEq, or two extractions of the same field of the same struct value / the same element.
func sameVal(a, b ssa.Value) bool {
	if valEq(a, b) {
		return true
	}
	fa, ok1 := a.(*ssa.Field)
	fb, ok2 := b.(*ssa.Field)
	if ok1 && ok2 && fa.Field == fb.Field && sameVal(fa.X, fb.X) {
		return true
	}
	ua, ok1 := a.(*ssa.UnOp)
	ub, ok2 := b.(*ssa.UnOp)
	if ok1 && ok2 && ua.Op == token.MUL && ub.Op == token.MUL {
		ga, ok1 := ua.X.(*ssa.FieldAddr)
		gb, ok2 := ub.X.(*ssa.FieldAddr)
		if ok1 && ok2 && ga.Field == gb.Field && sameVal(ga.X, gb.X) {
			return true
		}
	}
	return false
}

// nilOnEdge: does leaving b via succIdx establish `v == nil`?
func nilOnEdge(b *ssa.BasicBlock, succIdx int, v ssa.Value) bool {
	for _, f := range eqOnEdge(b, succIdx) {
		if (valEq(f.x, v) && isNilConst(f.y)) || (valEq(f.y, v) && isNilConst(f.x)) {
			return true
		}
	}
	return false
}

func nonNilOnEdge(b *ssa.BasicBlock, succIdx int, v ssa.Value) bool {
	iff, ok := b.Instrs[len(b.Instrs)-1].(*ssa.If)
	if !ok {
		return false
	}
	for _, f := range neFacts(iff.Cond, succIdx == 0) {
		if (f.x == v && isNilConst(f.y)) || (f.y == v && isNilConst(f.x)) {
			return true
		}
	}
	return false
}

// extractOf returns the Extract instructions (by index) of a tuple-valued instruction.
func extractOf(tuple ssa.Value, idx int) []ssa.Value {
	var out []ssa.Value
	if tuple.Referrers() == nil {
		return nil
	}
	for _, r := range *tuple.Referrers() {
		if e, ok := r.(*ssa.Extract); ok && e.Index == idx {
			out = append(out, e)
		}
	}
	return out
}

// dominatesInstr: does instruction a dominate instruction b (same function)?
func dominatesInstr(a, b ssa.Instruction) bool {
	ba, bb := a.Block(), b.Block()
	if ba == bb {
		for _, x := range ba.Instrs {
			if x == a {
				return true
			}
			if x == b {
				return false
			}
		}
		return false
	}
	return ba.Dominates(bb)
}

// refs returns the referrers of v (empty if none).
func refs(v ssa.Value) []ssa.Instruction {
	if r := v.Referrers(); r != nil {
		return *r
	}
	return nil
}
