package main

import (
	"go/token"
	"go/types"
	"strings"

	"golang.org/x/tools/go/ssa"
)

// ===== PAN: panic-site audit =====

// dynIface: interface types whose dynamic values can be uncomparable GlyphLang data:
// the empty interface and vm.Value. (error and other method-bearing interfaces hold pointers here.)
func dynIface(t types.Type) bool {
	it, ok := t.Underlying().(*types.Interface)
	if !ok {
		return false
	}
	if it.NumMethods() == 0 {
		return true
	}
	return typeIs(t, vmPath, "Value")
}

// comparableOperand: v is statically known to have a comparable dynamic type.
func comparableOperand(v ssa.Value) bool {
	switch x := v.(type) {
	case *ssa.Const:
		return true // nil or constant
	case *ssa.MakeInterface:
		if _, isI := x.X.Type().Underlying().(*types.Interface); isI {
			return false
		}
		return types.Comparable(x.X.Type())
	case *ssa.Phi:
		for _, e := range x.Edges {
			if !comparableOperand(e) {
				return false
			}
		}
		return true
	case *ssa.Call:
		n := callName(x)
		return strings.HasPrefix(n, "fmt.Sprint")
	}
	return false
}

// comparabilityGuarded: block of the comparison is unreachable once the true edges of
// reflect.Type.Comparable() on (the type of) one of the operands are cut, or the true edge of a
// module predicate whose body consists of such a test.
func comparabilityGuarded(eq *ssa.BinOp) bool {
	fn := eq.Parent()
	isCompCall := func(v ssa.Value) (ssa.Value, bool) {
		cl, ok := v.(*ssa.Call)
		if !ok {
			return nil, false
		}
		if callName(cl) == "reflect.Type.Comparable" || (cl.Call.IsInvoke() && cl.Call.Method.Name() == "Comparable" && typeIs(cl.Call.Value.Type(), "reflect", "Type")) {
			return cl.Call.Value, true
		}
		// predicate helper: static callee in the module whose body calls reflect.Type.Comparable
		if sf := cl.Call.StaticCallee(); sf != nil && sf.Pkg != nil && strings.HasPrefix(sf.Pkg.Pkg.Path(), modPath) && len(cl.Call.Args) == 1 {
			has := false
			eachCall(sf, func(c2 ssa.CallInstruction) {
				if c2.Common().IsInvoke() && c2.Common().Method.Name() == "Comparable" {
					has = true
				}
			})
			if has && sf.Signature.Results().Len() == 1 && sf.Signature.Results().At(0).Type().String() == "bool" {
				return cl.Call.Args[0], true
			}
		}
		return nil, false
	}
	ofOperand := func(recv ssa.Value) bool {
		return derivesFrom(recv, func(x ssa.Value) bool { return x == eq.X || x == eq.Y })
	}
	any := false
	cut := func(b *ssa.BasicBlock, si int) bool {
		iff := ifOf(b)
		if iff == nil {
			return false
		}
		cond, truth := iff.Cond, si == 0
		for {
			if u, ok := cond.(*ssa.UnOp); ok && u.Op == token.NOT {
				cond, truth = u.X, !truth
				continue
			}
			break
		}
		if recv, ok := isCompCall(cond); ok && truth && ofOperand(recv) {
			any = true
			return true
		}
		// an operand known to be the nil interface: == involving a nil interface never inspects dynamic types
		if nilOnEdge(b, si, eq.X) || nilOnEdge(b, si, eq.Y) {
			return true
		}
		return false
	}
	q := &pathQuery{fn: fn, cutEdge: cut, target: func(ins ssa.Instruction) bool { return ins == ssa.Instruction(eq) }}
	hit, _ := q.fromEntry()
	return any && hit == nil
}

// ifaceEqAudit reports every ==/!= between two dynamic interface values that is not provably safe.
func ifaceEqAudit(c *Ctx, rule string, rels []string, exempt map[string]string) int {
	n := 0
	for _, rel := range rels {
		for _, fn := range c.srcFuncs(rel) {
			k := 0
			eachInstr(fn, func(_ *ssa.BasicBlock, _ int, ins ssa.Instruction) {
				bo, ok := ins.(*ssa.BinOp)
				if !ok || (bo.Op != token.EQL && bo.Op != token.NEQ) {
					return
				}
				if !dynIface(bo.X.Type()) || !dynIface(bo.Y.Type()) {
					return
				}
				if isNilConst(bo.X) || isNilConst(bo.Y) {
					return
				}
				k++
				n++
				key := fnKey(fn) + "#iface-eq-" + itoa(k)
				if why, ok := exempt[key]; ok {
					c.info(rule, key, bo.Pos(), "reasoned exception: "+why)
					return
				}
				safe := comparableOperand(bo.X) || comparableOperand(bo.Y) || comparabilityGuarded(bo)
				c.ob(rule, key, bo.Pos(), safe, "== / != between two interface values whose dynamic types can be uncomparable (GlyphLang arrays are []interface{}, objects are map[string]interface{}): Go panics with 'comparing uncomparable type' when both sides hold such a value")
			})
		}
	}
	return n
}

// uncheckedAssertAudit reports single-result type assertions on dynamic interface values that are not
// dominated by a successful comma-ok assertion / type-switch of the same value to the same type.
func uncheckedAssertAudit(c *Ctx, rule string, rels []string, only func(fn *ssa.Function, ta *ssa.TypeAssert) bool) int {
	n := 0
	for _, rel := range rels {
		for _, fn := range c.srcFuncs(rel) {
			k := 0
			eachInstr(fn, func(_ *ssa.BasicBlock, _ int, ins ssa.Instruction) {
				ta, ok := ins.(*ssa.TypeAssert)
				if !ok || ta.CommaOk {
					return
				}
				if _, toIface := ta.AssertedType.Underlying().(*types.Interface); toIface {
					return
				}
				if only != nil && !only(fn, ta) {
					return
				}
				k++
				n++
				c.ob(rule, fnKey(fn)+"#unchecked-assert-"+itoa(k)+":"+types.TypeString(ta.AssertedType, func(p *types.Package) string { return p.Name() }), ta.Pos(),
					assertEstablished(ta), "single-result type assertion on a dynamic value without an established type: a value of another type panics")
			})
		}
	}
	return n
}

// assertEstablished: x.(T) is safe if x's sources are all MakeInterface of T, or if the assertion is
// dominated by the ok-edge of a comma-ok assertion of the same value to T (type-switch arms compile to that).
func assertEstablished(ta *ssa.TypeAssert) bool {
	if assertGuarded(ta) {
		return true
	}
	if atomicValueUniform(ta) {
		return true
	}
	fn := ta.Parent()
	var oks []ssa.Value
	eachInstr(fn, func(_ *ssa.BasicBlock, _ int, ins ssa.Instruction) {
		o, ok := ins.(*ssa.TypeAssert)
		if ok && o.CommaOk && o.X == ta.X && types.Identical(o.AssertedType, ta.AssertedType) {
			oks = append(oks, extractOf(o, 1)...)
		}
	})
	if len(oks) == 0 {
		return false
	}
	q := &pathQuery{fn: fn, target: func(x ssa.Instruction) bool { return x == ssa.Instruction(ta) }, cutEdge: func(b *ssa.BasicBlock, si int) bool {
		for _, o := range oks {
			if known, val := boolOnEdge(b, si, o); known && val {
				return true
			}
		}
		return false
	}}
	hit, _ := q.fromEntry()
	return hit == nil
}

// atomicValueUniform: x is `f.Load()` of a sync/atomic.Value held in a struct field, and every Store/Swap/
// CompareAndSwap on that field anywhere in the package stores a value of exactly the asserted type (the idiom
// atomic.Value is made for: the assertion recovers the one type that is ever stored).
func atomicValueUniform(ta *ssa.TypeAssert) bool {
	ld, ok := ta.X.(*ssa.Call)
	if !ok || callName(ld) != "sync/atomic.Value.Load" || len(ld.Call.Args) == 0 {
		return false
	}
	fa, ok := ld.Call.Args[0].(*ssa.FieldAddr)
	if !ok {
		return false
	}
	nt, fld, ok := fieldOf(fa)
	if !ok || nt == nil || ta.Parent().Pkg == nil {
		return false
	}
	stores, uniform := 0, true
	var visit func(fn *ssa.Function)
	visit = func(fn *ssa.Function) {
		eachInstr(fn, func(_ *ssa.BasicBlock, _ int, ins ssa.Instruction) {
			call, ok := ins.(ssa.CallInstruction)
			if !ok {
				return
			}
			var vals []ssa.Value
			switch callName(call) {
			case "sync/atomic.Value.Store", "sync/atomic.Value.Swap":
				vals = call.Common().Args[1:2]
			case "sync/atomic.Value.CompareAndSwap":
				vals = call.Common().Args[2:3]
			default:
				return
			}
			rfa, ok := call.Common().Args[0].(*ssa.FieldAddr)
			if !ok {
				return
			}
			if n2, f2, ok := fieldOf(rfa); !ok || n2 == nil || n2.Obj() != nt.Obj() || f2 != fld {
				return
			}
			stores++
			for _, v := range vals {
				mi, ok := v.(*ssa.MakeInterface)
				if !ok || !types.Identical(mi.X.Type(), ta.AssertedType) {
					uniform = false
				}
			}
		})
		for _, an := range fn.AnonFuncs {
			visit(an)
		}
	}
	for _, m := range ta.Parent().Pkg.Members {
		switch x := m.(type) {
		case *ssa.Function:
			visit(x)
		case *ssa.Type:
			for _, t := range []types.Type{x.Type(), types.NewPointer(x.Type())} {
				ms := ta.Parent().Prog.MethodSets.MethodSet(t)
				for i := 0; i < ms.Len(); i++ {
					if f := ta.Parent().Prog.MethodValue(ms.At(i)); f != nil && f.Pkg == ta.Parent().Pkg {
						visit(f)
					}
				}
			}
		}
	}
	return stores > 0 && uniform
}
