package main

// CHR: evaluation of a pure character predicate over the finite domain of one byte. The formatter and
// the lexers decide by small boolean expressions over "the next character" (unicode.IsLetter(rune(c)),
// c == '_', ...). Agreement of two such decisions is decided by folding the SSA of each for every byte
// value 0..127 - constant folding over a finite domain, no program code is run. Anything outside the
// recognised expression forms makes the evaluation give up (the rule then reports info, not a verdict).

import (
	"go/constant"
	"go/token"
	"go/types"
	"unicode"

	"golang.org/x/tools/go/ssa"
)

var debugChr = false

type chrVal struct {
	i    int64
	b    bool
	kind int // 0 unknown, 1 int, 2 bool
}

type chrEval struct {
	c       byte
	isChar  func(v ssa.Value) bool // v denotes the character under test
	came    map[*ssa.BasicBlock]*ssa.BasicBlock
	unknown bool
}

func (e *chrEval) eval(v ssa.Value, d int) chrVal {
	if d > 25 {
		e.unknown = true
		return chrVal{}
	}
	if e.isChar(v) {
		return chrVal{i: int64(e.c), kind: 1}
	}
	switch x := v.(type) {
	case *ssa.Const:
		if x.Value == nil {
			return chrVal{}
		}
		switch x.Value.Kind() {
		case constant.Bool:
			return chrVal{b: constant.BoolVal(x.Value), kind: 2}
		case constant.Int:
			if n, ok := constant.Int64Val(x.Value); ok {
				return chrVal{i: n, kind: 1}
			}
		}
	case *ssa.Convert:
		return e.eval(x.X, d+1)
	case *ssa.ChangeType:
		return e.eval(x.X, d+1)
	case *ssa.UnOp:
		if x.Op == token.NOT {
			r := e.eval(x.X, d+1)
			if r.kind == 2 {
				return chrVal{b: !r.b, kind: 2}
			}
		}
	case *ssa.BinOp:
		l, r := e.eval(x.X, d+1), e.eval(x.Y, d+1)
		if l.kind == 1 && r.kind == 1 {
			switch x.Op {
			case token.EQL:
				return chrVal{b: l.i == r.i, kind: 2}
			case token.NEQ:
				return chrVal{b: l.i != r.i, kind: 2}
			case token.LSS:
				return chrVal{b: l.i < r.i, kind: 2}
			case token.LEQ:
				return chrVal{b: l.i <= r.i, kind: 2}
			case token.GTR:
				return chrVal{b: l.i > r.i, kind: 2}
			case token.GEQ:
				return chrVal{b: l.i >= r.i, kind: 2}
			}
		}
	case *ssa.Call:
		if f := calleeOf(x); f != nil && f.Pkg() != nil && f.Pkg().Path() == "unicode" && len(x.Call.Args) == 1 {
			a := e.eval(x.Call.Args[0], d+1)
			if a.kind == 1 {
				r := rune(a.i)
				switch f.Name() {
				case "IsSpace":
					return chrVal{b: unicode.IsSpace(r), kind: 2}
				case "IsLetter":
					return chrVal{b: unicode.IsLetter(r), kind: 2}
				case "IsDigit":
					return chrVal{b: unicode.IsDigit(r), kind: 2}
				case "IsUpper":
					return chrVal{b: unicode.IsUpper(r), kind: 2}
				case "IsLower":
					return chrVal{b: unicode.IsLower(r), kind: 2}
				case "IsPunct":
					return chrVal{b: unicode.IsPunct(r), kind: 2}
				}
			}
		}
		// a one-argument predicate of the module over the character
		if sf := x.Call.StaticCallee(); sf != nil && len(sf.Params) == 1 && len(x.Call.Args) == 1 && len(sf.Blocks) > 0 {
			a := e.eval(x.Call.Args[0], d+1)
			if a.kind == 1 && a.i >= 0 && a.i < 256 {
				if r, ok := evalCharPredicate(sf, byte(a.i)); ok {
					return chrVal{b: r, kind: 2}
				}
			}
		}
	case *ssa.Phi:
		if from := e.came[x.Block()]; from != nil {
			for i, p := range x.Block().Preds {
				if p == from {
					return e.eval(x.Edges[i], d+1)
				}
			}
		}
	}
	return chrVal{}
}

// walk follows control flow from block b with the character fixed, until `hit` matches an instruction (true) or
// `stopAt` matches a block / the budget ends (false). Branches whose condition cannot be evaluated and does not
// involve the character (bounds tests like i+1 < n) are taken on their true side.
func (e *chrEval) walk(b *ssa.BasicBlock, hit func(ssa.Instruction) bool, stopAt func(*ssa.BasicBlock) bool) bool {
	e.came = map[*ssa.BasicBlock]*ssa.BasicBlock{}
	for steps := 0; steps < 40 && b != nil; steps++ {
		if debugChr {
			println("  walk block", b.Index)
		}
		for _, ins := range b.Instrs {
			if hit(ins) {
				return true
			}
		}
		if steps > 0 && stopAt(b) {
			return false
		}
		var next *ssa.BasicBlock
		switch t := b.Instrs[len(b.Instrs)-1].(type) {
		case *ssa.If:
			r := e.eval(t.Cond, 0)
			if debugChr {
				println("   cond", t.Cond.String(), "kind", r.kind, "b", r.b, "char", e.c)
			}
			switch {
			case r.kind == 2 && r.b:
				next = b.Succs[0]
			case r.kind == 2:
				next = b.Succs[1]
			default:
				if derivesFrom(t.Cond, e.isChar) {
					e.unknown = true
					return false
				}
				next = b.Succs[0]
			}
		case *ssa.Jump:
			next = b.Succs[0]
		default:
			return false
		}
		e.came[next] = b
		b = next
	}
	return false
}

// evalCharPredicate folds fn(ch byte|rune) bool for one character.
func evalCharPredicate(fn *ssa.Function, c byte) (bool, bool) {
	if len(fn.Params) != 1 || fn.Signature.Results().Len() != 1 {
		return false, false
	}
	if bt, ok := fn.Signature.Results().At(0).Type().Underlying().(*types.Basic); !ok || bt.Kind() != types.Bool {
		return false, false
	}
	e := &chrEval{c: c, isChar: func(v ssa.Value) bool { return v == ssa.Value(fn.Params[0]) }}
	e.came = map[*ssa.BasicBlock]*ssa.BasicBlock{}
	b := fn.Blocks[0]
	for steps := 0; steps < 40; steps++ {
		switch t := b.Instrs[len(b.Instrs)-1].(type) {
		case *ssa.Return:
			r := e.eval(retVals(t)[0], 0)
			return r.b, r.kind == 2
		case *ssa.If:
			r := e.eval(t.Cond, 0)
			if r.kind != 2 {
				return false, false
			}
			nx := b.Succs[1]
			if r.b {
				nx = b.Succs[0]
			}
			e.came[nx] = b
			b = nx
		case *ssa.Jump:
			e.came[b.Succs[0]] = b
			b = b.Succs[0]
		default:
			return false, false
		}
	}
	return false, false
}
