package main

import (
	"go/ast"
	"go/token"
	"go/types"
	"os"
	"path/filepath"
	"regexp"
	"sort"
	"strconv"
	"strings"

	"golang.org/x/tools/go/ssa"
)

func init() {
	register(&propSpec{
		id: "C11", title: "Rate limits bound admitted traffic per client", run: runC11,
		notCovered:  "the numeric admission bound N*(1+T/window), refill arithmetic, unit conversion values (e.g. N/hour becoming a bucket of ceil(N/60)), fairness between clients under real time",
		assumptions: []string{"the limiter is server.RateLimitMiddleware's inner closure; its per-client record is the function-local type clientLimit with an int field compared against 0 before admission"},
	})
}

const serverPkg = "pkg/server"
const serverPath = modPath + "/pkg/server"

// tokenTest finds, in fn, the If whose condition compares a load of field `field` of type `typ` with a constant,
// and says which successor index is the "no budget" edge and whether the boundary is exact
// (rejects 0 tokens, admits 1 token).
func tokenTest(fn *ssa.Function, typName, field string) (iff *ssa.If, rejectIdx int, boundaryOK bool) {
	for _, b := range fn.Blocks {
		i := ifOf(b)
		if i == nil {
			continue
		}
		bo, ok := i.Cond.(*ssa.BinOp)
		if !ok {
			continue
		}
		x, y, op := bo.X, bo.Y, bo.Op
		if _, isC := x.(*ssa.Const); isC {
			x, y = y, x
			op = map[token.Token]token.Token{token.LSS: token.GTR, token.GTR: token.LSS, token.LEQ: token.GEQ, token.GEQ: token.LEQ, token.EQL: token.EQL, token.NEQ: token.NEQ}[op]
		}
		k, isC := constInt(y)
		if !isC || !loadedFromField(x, typName, field) {
			continue
		}
		holds := func(t int64) bool {
			switch op {
			case token.LSS:
				return t < k
			case token.LEQ:
				return t <= k
			case token.GTR:
				return t > k
			case token.GEQ:
				return t >= k
			case token.EQL:
				return t == k
			case token.NEQ:
				return t != k
			}
			return false
		}
		// the reject edge is the one taken for tokens == -5 … pick by evaluating at a clearly empty bucket
		rej := 1
		if holds(-1000) {
			rej = 0
		}
		rejects := func(t int64) bool { return holds(t) == (rej == 0) }
		return i, rej, rejects(0) && !rejects(1)
	}
	return nil, 0, false
}

func runC11(c *Ctx) {
	c.rule("C11-R7", "PAIR: every Lock/RLock in pkg/server (limiter, auth trackers) is released on every path to a return: a request can never leave the limiter's mutex held and so block every later request; REACQ: no method calls, while it holds its receiver's mutex, a method of the same receiver that acquires that mutex again (sync mutexes are not re-entrant; a second RLock blocks once a writer waits)")
	c.Sites["C11-R7#acquire-sites"] = lockReleaseAudit(c, "C11-R7", []string{serverPkg})
	c.floor("C11-R7", 6)
	rl := c.mustFn("C11-R1", serverPkg, "RateLimitMiddleware")
	if rl == nil {
		return
	}
	// ---- R1 lockset
	c.rule("C11-R1", "LCK: the per-client table `limits` and clientLimit.{tokens,lastRefill,requestCount} are read and written only with the limiter's mutex held (writes exclusive) in every closure of RateLimitMiddleware; and no Unlock lies between the budget test and the decrement (test+decrement are one critical section)")
	muName := localVarNamed(rl, isSyncMutex)
	tblName := localVarNamed(rl, mapWithElem(serverPath, "clientLimit"))
	if muName == "" || tblName == "" {
		c.ob("C11-R1", serverPkg+".RateLimitMiddleware#anchor-missing", rl.Pos(), false, "RateLimitMiddleware has no (unique) local mutex / per-client table of *clientLimit: limiter state is not where the rule expects it")
		return
	}
	cls := "local:" + serverPkg + ".RateLimitMiddleware." + muName
	e := newLck(c, &lckConfig{rule: "C11-R1", pkgs: []string{serverPkg},
		guards: []guard{
			{typ: "local:" + serverPkg + ".RateLimitMiddleware", field: tblName, class: cls},
			{typ: serverPkg + ".clientLimit", field: "tokens", class: cls},
			{typ: serverPkg + ".clientLimit", field: "lastRefill", class: cls},
			{typ: serverPkg + ".clientLimit", field: "requestCount", class: cls},
		}})
	e.run()
	c.floor("C11-R1", 6)

	// the admitting closure: the nested closure that calls `next`
	var adm *ssa.Function
	for _, cl := range innerClosures(rl) {
		eachInstr(cl, func(_ *ssa.BasicBlock, _ int, ins ssa.Instruction) {
			if isHandlerValueCall(ins, serverPath, "RouteHandler") {
				adm = cl
			}
		})
	}
	if adm == nil {
		c.ob("C11-R2", serverPkg+".RateLimitMiddleware#anchor-missing", rl.Pos(), false, "no closure of RateLimitMiddleware calls the next handler: limiter mechanism not found")
		return
	}
	c.touched(adm)
	isNext := func(ins ssa.Instruction) bool { return isHandlerValueCall(ins, serverPath, "RouteHandler") }
	isDecr := func(ins ssa.Instruction) bool {
		st, ok := ins.(*ssa.Store)
		if !ok || !isStoreToField(ins, "clientLimit", "tokens") {
			return false
		}
		bo, ok := st.Val.(*ssa.BinOp)
		return ok && bo.Op == token.SUB && loadedFromField(bo.X, "clientLimit", "tokens")
	}
	isUnlock := func(ins ssa.Instruction) bool {
		return isCallTo(ins, "sync.Mutex.Unlock", "sync.RWMutex.Unlock")
	}
	iff, rejIdx, boundary := tokenTest(adm, "clientLimit", "tokens")
	c.rule("C11-R2", "MPT: in the admitting closure, (a) next(ctx) is reachable from entry only through the instruction that decrements clientLimit.tokens; (b) a budget test `tokens <op> const` exists, rejects tokens==0 and admits tokens==1 (decided by evaluating the comparison at 0 and 1); (c) from the no-budget edge every path to return passes through SendError(ctx, 429, …) and never reaches next")
	{
		q := &pathQuery{fn: adm, target: isNext, stop: isDecr}
		hit, path := q.fromEntry()
		c.ob("C11-R2", fnKey(adm)+"#next-after-decrement", adm.Pos(), hit == nil, "next(ctx) is reachable without decrementing the client's tokens: the request is admitted for free", c.blockPath(path)...)
	}
	if iff == nil {
		c.ob("C11-R2", fnKey(adm)+"#budget-test", adm.Pos(), false, "no comparison of clientLimit.tokens with a constant guards admission")
		return
	}
	c.ob("C11-R2", fnKey(adm)+"#budget-test-boundary", iff.Pos(), boundary, "the budget test does not reject at tokens==0 / admit at tokens==1: a bucket of N admits N+1 (or N-1) requests")
	{
		rejBlock := iff.Block().Succs[rejIdx]
		q := &pathQuery{fn: adm, target: isReturn, stop: func(ins ssa.Instruction) bool {
			call, ok := ins.(ssa.CallInstruction)
			if !ok || callName(call) != serverPath+".SendError" {
				return false
			}
			code, ok := constInt(call.Common().Args[1])
			return ok && code == 429
		}}
		hit, path := q.from(rejBlock, 0)
		c.ob("C11-R2", fnKey(adm)+"#reject-edge-429", iff.Pos(), hit == nil, "from the no-budget edge a return is reachable without SendError(ctx, 429, …)", c.blockPath(path)...)
		q2 := &pathQuery{fn: adm, target: isNext}
		hit2, path2 := q2.from(rejBlock, 0)
		c.ob("C11-R2", fnKey(adm)+"#reject-edge-no-next", iff.Pos(), hit2 == nil, "from the no-budget edge the next handler is reachable: rejected requests run the body", c.blockPath(path2)...)
	}
	// one critical section: from the budget test, no Unlock that is followed by the decrement
	{
		ok := true
		var where ssa.Instruction
		for _, b := range adm.Blocks {
			for _, ins := range b.Instrs {
				if !isUnlock(ins) {
					continue
				}
				// reachable from the test (admit edge) before the decrement?
				// start at the load of tokens that feeds the budget comparison (the test may be stored in a
				// variable and branched on later, after an Unlock)
				var start ssa.Instruction = iff
				if bo, ok := iff.Cond.(*ssa.BinOp); ok {
					for _, opd := range []ssa.Value{bo.X, bo.Y} {
						if u, ok := opd.(*ssa.UnOp); ok && loadedFromField(u, "clientLimit", "tokens") {
							start = u
						}
					}
				}
				q := &pathQuery{fn: adm, stop: isDecr, target: func(x ssa.Instruction) bool { return x == ins }}
				if h, _ := q.after(start); h == nil {
					continue
				}
				q2 := &pathQuery{fn: adm, target: isDecr}
				if h, _ := q2.after(ins); h != nil {
					ok = false
					where = ins
				}
			}
		}
		p := iff.Pos()
		if where != nil {
			p = where.Pos()
		}
		c.ob("C11-R1", fnKey(adm)+"#test-and-decrement-one-critical-section", p, ok, "the mutex is released between the budget test and the decrement: two concurrent requests can both pass the test on the last token")
	}

	// ---- R8 refill carries its remainder
	c.rule("C11-R8", "ORD/def-use: tokens are whole numbers, so the refill truncates; the part of a token that accrued beyond the whole ones survives only in the time base. In the admitting closure, every store to clientLimit.lastRefill that is reachable from the refill (tokens = tokens + k) and does not advance the previous lastRefill (its value does not derive from the loaded field) lies behind an edge establishing tokens >= BurstSize (the bucket is full, nothing is lost): otherwise every refilling request discards up to one token and a client within the declared rate is rejected")

	{
		// the refill may live in the admitting closure or in a helper it calls (a method of the bucket): evaluate the
		// rule where the tokens are added, resolving that function's parameters at its call site in the closure
		rf := adm
		var site *ssa.Call
		hasAdd := func(f *ssa.Function) bool {
			found := false
			eachInstr(f, func(_ *ssa.BasicBlock, _ int, ins ssa.Instruction) {
				st, ok := ins.(*ssa.Store)
				if !ok || !isStoreToField(ins, "clientLimit", "tokens") {
					return
				}
				if bo, ok := st.Val.(*ssa.BinOp); ok && bo.Op == token.ADD && (loadedFromField(bo.X, "clientLimit", "tokens") || loadedFromField(bo.Y, "clientLimit", "tokens")) {
					found = true
				}
			})
			return found
		}
		if !hasAdd(adm) {
			eachInstr(adm, func(_ *ssa.BasicBlock, _ int, ins ssa.Instruction) {
				if call, ok := ins.(*ssa.Call); ok {
					if sf := staticFn(call); sf != nil && sf.Pkg == adm.Pkg && hasAdd(sf) && site == nil {
						rf, site = sf, call
					}
				}
			})
		}
		// originAt: v in rf, or - when v is a parameter of the helper - the argument passed at the call site
		origin := func(v ssa.Value, pred func(ssa.Value) bool) bool {
			return derivesFrom(v, func(z ssa.Value) bool {
				if pred(z) {
					return true
				}
				if p, ok := z.(*ssa.Parameter); ok && site != nil {
					for i, fp := range rf.Params {
						if fp == p && i < len(site.Call.Args) {
							return derivesFrom(site.Call.Args[i], pred)
						}
					}
				}
				return false
			})
		}
		var adds []ssa.Instruction
		eachInstr(rf, func(_ *ssa.BasicBlock, _ int, ins ssa.Instruction) {
			st, ok := ins.(*ssa.Store)
			if !ok || !isStoreToField(ins, "clientLimit", "tokens") {
				return
			}
			if bo, ok := st.Val.(*ssa.BinOp); ok && bo.Op == token.ADD && (loadedFromField(bo.X, "clientLimit", "tokens") || loadedFromField(bo.Y, "clientLimit", "tokens")) {
				adds = append(adds, ins)
			}
		})
		intTokens := true
		if len(adds) > 0 {
			if bt, ok := adds[0].(*ssa.Store).Val.Type().Underlying().(*types.Basic); ok && bt.Info()&types.IsFloat != 0 {
				intTokens = false
			}
		}
		fullEdge := func(b *ssa.BasicBlock, si int) bool {
			iff := ifOf(b)
			if iff == nil {
				return false
			}
			bo, ok := iff.Cond.(*ssa.BinOp)
			if !ok {
				return false
			}
			x, y, op := bo.X, bo.Y, bo.Op
			isTok := func(v ssa.Value) bool {
				return derivesFrom(v, func(z ssa.Value) bool { return loadedFromField(z, "clientLimit", "tokens") })
			}
			isBurst := func(v ssa.Value) bool {
				return origin(v, func(z ssa.Value) bool { return loadedFromField(z, "RateLimiterConfig", "BurstSize") })
			}
			if isBurst(x) && isTok(y) {
				x, y = y, x
				switch op {
				case token.LSS:
					op = token.GTR
				case token.LEQ:
					op = token.GEQ
				case token.GTR:
					op = token.LSS
				case token.GEQ:
					op = token.LEQ
				}
			}
			if !isTok(x) || !isBurst(y) {
				return false
			}
			truth := si == 0
			switch op {
			case token.GEQ, token.GTR, token.EQL:
				return truth
			case token.LSS, token.LEQ, token.NEQ:
				return !truth
			}
			return false
		}
		n := 0
		for _, add := range adds {
			for _, b := range rf.Blocks {
				for _, ins := range b.Instrs {
					st, ok := ins.(*ssa.Store)
					if !ok || !isStoreToField(ins, "clientLimit", "lastRefill") {
						continue
					}
					if derivesFrom(st.Val, func(z ssa.Value) bool { return loadedFromField(z, "clientLimit", "lastRefill") }) {
						// advances the old time base - by the time the added tokens stand for, computed without an integer
						// division on the way: above 60 per minute `tokens*60/rate` seconds is 0, the tokens are added and the
						// time base stays, so the same elapsed time is credited again at every request
						var intDiv ssa.Instruction
						derivesFrom(st.Val, func(z ssa.Value) bool {
							bo, ok := z.(*ssa.BinOp)
							if !ok || bo.Op != token.QUO {
								return false
							}
							if bt, ok := bo.Type().Underlying().(*types.Basic); ok && bt.Info()&types.IsInteger != 0 {
								if _, isK := constInt(bo.Y); !isK {
									intDiv = bo
								}
							}
							return false
						})
						n++
						c.ob("C11-R8", fnKey(adm)+"#time-base-advance-is-not-truncated-"+itoa(n), st.Pos(), intDiv == nil, "the time base is advanced by an amount that goes through an integer division by a run-time quantity (the rate): for rates above the unit of the division the advance truncates to zero, tokens are added while the time base stays, and every later request is credited the same elapsed time again - a client that waits one token interval is then admitted without bound")
						continue
					}
					q := &pathQuery{fn: rf, cutEdge: fullEdge, target: func(x ssa.Instruction) bool { return x == ins }}
					hit, path := q.after(add)
					if hit == nil {
						// not reachable from the refill other than through a bucket-full edge (or not at all: creation of a new entry)
						q0 := &pathQuery{fn: rf, target: func(x ssa.Instruction) bool { return x == ins }}
						if h0, _ := q0.after(add); h0 == nil {
							continue
						}
					}
					n++
					c.ob("C11-R8", fnKey(adm)+"#refill-keeps-the-remainder-"+itoa(n), st.Pos(), hit == nil || !intTokens, "after adding whole tokens the time base is reset instead of advanced, on a path where the bucket is not known to be full: the fraction of a token accrued since the last refill is discarded at every refilling request", c.blockPath(path)...)
				}
			}
		}
		// a full bucket does not bank idle time: for an entry that already exists some store brings the time base
		// up to the current time (its value derives from time.Now, not from the previous lastRefill)
		if len(adds) > 0 {
			resets := false
			eachInstr(rf, func(_ *ssa.BasicBlock, _ int, ins ssa.Instruction) {
				st, ok := ins.(*ssa.Store)
				if !ok || !isStoreToField(ins, "clientLimit", "lastRefill") {
					return
				}
				if fa, ok := st.Addr.(*ssa.FieldAddr); ok && isFreshAlloc(fa.X) {
					return // a new client's entry
				}
				if derivesFrom(st.Val, func(z ssa.Value) bool { return loadedFromField(z, "clientLimit", "lastRefill") }) {
					return
				}
				if origin(st.Val, func(z ssa.Value) bool { cl, ok := z.(*ssa.Call); return ok && callName(cl) == "time.Now" }) {
					resets = true
				}
			})
			c.ob("C11-R8", fnKey(adm)+"#full-bucket-does-not-bank-idle-time", adds[0].Pos(), resets, "the time base of an existing client is only ever advanced by the time of the tokens added, never brought up to now: while the bucket is full nothing is added, so idle time accumulates as credit - after a pause the bucket refills as fast as it is spent and a burst far above N x (1 + T/window) is admitted")
		}
		// tokens are credited for elapsed time only: every `tokens = tokens + k` in the limiter takes k from a time
		// difference (a refund after the body has run re-opens the budget the admission already spent)
		{
			k := 0
			for _, f := range withAnon(rl) {
				eachInstr(f, func(_ *ssa.BasicBlock, _ int, ins ssa.Instruction) {
					st, ok := ins.(*ssa.Store)
					if !ok || !isStoreToField(ins, "clientLimit", "tokens") {
						return
					}
					bo, ok := st.Val.(*ssa.BinOp)
					if !ok || bo.Op != token.ADD {
						return
					}
					var inc ssa.Value
					if loadedFromField(bo.X, "clientLimit", "tokens") {
						inc = bo.Y
					} else if loadedFromField(bo.Y, "clientLimit", "tokens") {
						inc = bo.X
					} else {
						return
					}
					k++
					fromTime := derivesFrom(inc, func(z ssa.Value) bool {
						cl, ok := z.(*ssa.Call)
						if !ok {
							return false
						}
						nm := callName(cl)
						return nm == "time.Time.Sub" || nm == "time.Since" || strings.HasPrefix(nm, "time.Duration.")
					})
					if !fromTime && f != rf {
						// the refill helper takes the elapsed time apart itself; elsewhere the increment must show it
					}
					if f == rf && site != nil {
						fromTime = fromTime || origin(inc, func(z ssa.Value) bool {
							cl, ok := z.(*ssa.Call)
							return ok && (callName(cl) == "time.Time.Sub" || callName(cl) == "time.Since")
						})
					}
					c.ob("C11-R8", fnKey(f)+"#tokens-credited-for-elapsed-time-only-"+itoa(k), st.Pos(), fromTime, "tokens are added to a client's bucket by something other than the refill for elapsed time (a refund when the body failed, a bonus): the admission test already spent that budget, so a client whose requests end in 5xx - or who hangs up - is never limited and the body runs every time")
				})
			}
		}
		// a bucket is dropped from the table only when it would be full again: every delete on the per-client table in
		// a request path lies behind `now - lastRefill > K` for a constant K of at least one minute (the refill window)
		{
			k := 0
			for _, f := range withAnon(rl) {
				eachInstr(f, func(_ *ssa.BasicBlock, _ int, ins ssa.Instruction) {
					call, ok := ins.(*ssa.Call)
					if !ok || callName(call) != "builtin.delete" {
						return
					}
					if mt, ok := call.Call.Args[0].Type().Underlying().(*types.Map); !ok || !mapWithElem(serverPath, "clientLimit")(mt) {
						return
					}
					k++
					guarded := false
					for _, b := range f.Blocks {
						iff := ifOf(b)
						if iff == nil || !b.Dominates(ins.Block()) {
							continue
						}
						bo, ok := iff.Cond.(*ssa.BinOp)
						if !ok || (bo.Op != token.GTR && bo.Op != token.GEQ) {
							continue
						}
						kv, isK := constInt(bo.Y)
						if !isK || kv < int64(60*1e9) {
							continue
						}
						if !derivesFrom(bo.X, func(z ssa.Value) bool { cl, ok := z.(*ssa.Call); return ok && callName(cl) == "time.Time.Sub" }) {
							continue
						}
						if b.Succs[0].Dominates(ins.Block()) || b.Succs[0] == ins.Block() {
							guarded = true
						}
					}
					// deletes of keys collected under such a test (collect-then-delete) are judged at the collection
					if !guarded {
						if derivesFrom(call.Call.Args[1], func(z ssa.Value) bool { _, isNext := z.(*ssa.Next); return isNext }) {
							// key comes from ranging a slice of stale keys: find the append that collected it
							guarded = staleKeysCollectedUnderIdleTest(f)
						}
					}
					c.ob("C11-R8", fnKey(f)+"#bucket-dropped-only-when-full-again-"+itoa(k), call.Pos(), guarded, "an entry of the per-client table is deleted without a test that the client has been idle for at least the refill window (now - lastRefill > a constant >= 1 minute): a client that has just spent its budget gets a fresh full bucket with its next request (a flood from many addresses makes the eviction tighten its cutoff)")
				})
			}
		}
		if len(adds) == 0 {
			c.ob("C11-R8", fnKey(adm)+"#refill-found", adm.Pos(), false, "no statement of the admitting closure adds tokens to the client's bucket: nothing is ever refilled")
		} else {
			c.ob("C11-R8", fnKey(adm)+"#refill-found", adds[0].Pos(), true, "")
		}
	}

	// ---- R6 per-client keying
	c.rule("C11-R6", "TNT: every lookup/update of the per-client table in the admitting closure is keyed by a value that derives from getClientIP(request of this call, config.TrustProxy) — buckets are per client, never shared")
	{
		isIP := func(v ssa.Value) bool {
			cl, ok := v.(*ssa.Call)
			if !ok || callName(cl) != serverPath+".getClientIP" {
				return false
			}
			return derivesFrom(cl.Call.Args[0], func(x ssa.Value) bool { return len(adm.Params) > 0 && x == ssa.Value(adm.Params[0]) })
		}
		n := 0
		eachInstr(adm, func(_ *ssa.BasicBlock, _ int, ins ssa.Instruction) {
			var m, k ssa.Value
			switch x := ins.(type) {
			case *ssa.Lookup:
				m, k = x.X, x.Index
			case *ssa.MapUpdate:
				m, k = x.Map, x.Key
			default:
				return
			}
			u, ok := m.(*ssa.UnOp)
			if !ok {
				return
			}
			fv, ok := u.X.(*ssa.FreeVar)
			if !ok || fv.Name() != tblName {
				return
			}
			n++
			c.ob("C11-R6", fnKey(adm)+"#limits-key-"+itoa(n), ins.Pos(), derivesFrom(k, isIP) && onlyFrom(k, isIP), "the per-client table is accessed with a key that is not, on every path, getClientIP of this request (another value or a constant can take its place): clients share (or escape) a bucket")
		})
		c.floor("C11-R6", 1)
	}

	// ---- R3 client identity
	c.rule("C11-R3", "TNT/GRD: in getClientIP every returned value that derives from a request header is returned only under trustProxy==true (block unreachable once the true edge of the trustProxy test is cut); the RateLimiterConfig literal built for declared routes (cmd/glyph) does not set TrustProxy; no trusted-proxy entry is widened with a classful default mask")
	checkClientIP(c, "C11-R3")
	checkNoTrustProxyLiteral(c, "C11-R3", "cmd/glyph", "RateLimiterConfig")
	// a trusted-proxy entry trusts what the operator wrote, nothing wider: a bare address is never turned into
	// a network with a classful default mask (10.0.0.1 would trust all of 10.0.0.0/8)
	{
		n := 0
		for _, fn := range c.srcFuncs(serverPkg) {
			k := 0
			eachCall(fn, func(call ssa.CallInstruction) {
				n++
				if nm := callName(call); nm == "net.IP.DefaultMask" {
					k++
					c.ob("C11-R3", fnKey(fn)+"#trust-entry-not-widened-"+itoa(k), call.Pos(), false, "a configured address is widened with net.IP.DefaultMask (the classful mask: /8 for 10.x, /16 for 172.x, /24 for 192.168.x): trusting the proxy 10.0.0.1 then honours X-Forwarded-For from every host in 10.0.0.0/8, and a neighbour forges a fresh client identity per request and is never limited")
				}
			})
		}
		c.Sites["C11-R3#calls-scanned-for-mask-widening"] = n
		// … nor is a network made up from a bare address in any other way: a net.IPNet is only ever what
		// net.ParseCIDR returned for a string the operator wrote (not one the code extended with "/32"), and no
		// net.IPNet literal is built
		for _, fn := range c.srcFuncs(serverPkg) {
			k := 0
			eachInstr(fn, func(_ *ssa.BasicBlock, _ int, ins ssa.Instruction) {
				bad := ""
				switch x := ins.(type) {
				case *ssa.Alloc:
					if typeIs(derefType(x.Type()), "net", "IPNet") && x.Comment == "complit" {
						bad = "a net.IPNet literal is built from a bare address"
					}
				case *ssa.Call:
					if callName(x) == "net.ParseCIDR" && derivesFrom(x.Call.Args[0], func(v ssa.Value) bool {
						bo, ok := v.(*ssa.BinOp)
						if !ok || bo.Op != token.ADD {
							return false
						}
						_, cx := constString(bo.X)
						_, cy := constString(bo.Y)
						return cx || cy
					}) {
						bad = "a prefix length is appended to a configured address before net.ParseCIDR"
					}
				}
				if bad != "" {
					k++
					c.ob("C11-R3", fnKey(fn)+"#trust-entry-is-what-the-operator-wrote-"+itoa(k), ins.Pos(), false, bad+": the width the code picks is right for one address family at most (\"/32\" is one IPv4 host but 2^96 IPv6 hosts; the classful default is /8 for 10.x) - every peer inside that network then has its X-Forwarded-For believed, forges a new identity per request and is never limited")
				}
			})
		}
	}

	// ---- R4 wiring
	c.rule("C11-R4", "MPT: cmd/glyph.rateLimitMiddleware returns nil only under limit==nil or limit.Requests==0; routeMiddlewares appends the limiter whenever it is non-nil")
	if f := c.mustFn("C11-R4", "cmd/glyph", "rateLimitMiddleware"); f != nil {
		checkNilReturnOnlyUnder(c, "C11-R4", f, func(b *ssa.BasicBlock, si int) bool {
			for _, fct := range eqOnEdge(b, si) {
				for _, pr := range [][2]ssa.Value{{fct.x, fct.y}, {fct.y, fct.x}} {
					if p, ok := pr[0].(*ssa.Parameter); ok && isNilConst(pr[1]) && p == f.Params[0] {
						return true
					}
					if n, ok := constInt(pr[1]); ok && n == 0 && loadedFromField(pr[0], "RateLimit", "Requests") {
						return true
					}
				}
			}
			return false
		})
	}
	checkAppendsWhenNonNil(c, "C11-R4", "rateLimitMiddleware")
	// every route gets a limiter of its own: a non-nil result is the limiter constructed by this very call
	if f := c.fn("cmd/glyph", "rateLimitMiddleware"); f != nil {
		k := 0
		eachInstr(f, func(_ *ssa.BasicBlock, _ int, ins ssa.Instruction) {
			r, ok := ins.(*ssa.Return)
			if !ok {
				return
			}
			rv := retVals(r)[0]
			if isNilConst(stripConv(rv)) {
				return
			}
			k++
			var own func(v ssa.Value, d int) bool
			own = func(v ssa.Value, d int) bool {
				if d > 8 {
					return false
				}
				switch x := stripConv(v).(type) {
				case *ssa.Call:
					return callName(x) == serverPath+".RateLimitMiddleware"
				case *ssa.Phi:
					for _, e := range x.Edges {
						if !isNilConst(stripConv(e)) && !own(e, d+1) {
							return false
						}
					}
					return true
				case *ssa.UnOp:
					if al, ok := x.X.(*ssa.Alloc); ok && x.Op == token.MUL {
						n := 0
						for _, rr := range refs(al) {
							if st, ok := rr.(*ssa.Store); ok && st.Addr == ssa.Value(al) {
								n++
								if !isNilConst(stripConv(st.Val)) && !own(st.Val, d+1) {
									return false
								}
							}
						}
						return n > 0
					}
				}
				return false
			}
			c.ob("C11-R4", fnKey(f)+"#returns-the-limiter-built-by-this-call-"+itoa(k), r.Pos(), own(rv, 0), "the limiter handed to a route is not the one constructed by this call (it comes from a table or variable shared between calls): routes with the same declared limit then share one bucket map, and a client that spent its budget on one route is rejected on another it never used")
		})
		if k == 0 {
			c.ob("C11-R4", fnKey(f)+"#returns-a-limiter", f.Pos(), false, "rateLimitMiddleware never returns a limiter")
		}
	}

	// ---- R9 the bucket is N
	c.rule("C11-R9", "def-use: the BurstSize of the RateLimiterConfig built for a declared `ratelimit(N/window)` is N itself - the declared Requests, reaching the field through conversions only (no arithmetic): the property's bound N x (1 + T/window) is that of a bucket of N, whatever the window unit")
	if f := c.fn("cmd/glyph", "rateLimitMiddleware"); f != nil {
		var direct func(v ssa.Value, d int) bool
		direct = func(v ssa.Value, d int) bool {
			if d > 10 {
				return false
			}
			switch x := v.(type) {
			case *ssa.Convert:
				return direct(x.X, d+1)
			case *ssa.ChangeType:
				return direct(x.X, d+1)
			case *ssa.UnOp:
				return loadedFromField(x, "RateLimit", "Requests")
			case *ssa.Phi:
				some := false
				for _, e := range x.Edges {
					if _, isC := e.(*ssa.Const); isC {
						continue
					}
					if !direct(e, d+1) {
						return false
					}
					some = true
				}
				return some
			}
			return false
		}
		n := 0
		eachInstr(f, func(_ *ssa.BasicBlock, _ int, ins ssa.Instruction) {
			st, ok := ins.(*ssa.Store)
			if !ok || !isStoreToField(ins, "RateLimiterConfig", "BurstSize") {
				return
			}
			n++
			c.ob("C11-R9", fnKey(f)+"#bucket-is-the-declared-N", st.Pos(), direct(st.Val, 0), "the bucket size handed to the limiter is a converted quantity (N*60 for /sec, ceil(N/60) for /hour, ceil(N/1440) for /day), not the declared N: ratelimit(2/sec) admits a burst of 120, ratelimit(100/hour) rejects the 3rd request of a client that used 2% of its budget")
		})
		if n == 0 {
			c.ob("C11-R9", fnKey(f)+"#bucket-is-the-declared-N", f.Pos(), false, "rateLimitMiddleware sets no BurstSize: the limiter's bucket is not derived from the declaration")
		}
	}

	// ---- R5 window spellings
	c.rule("C11-R5", "EXH: every window spelling used in the documentation's `ratelimit(N/<w>)` examples is either a case of rateLimitMiddleware's window switch or one of the per-minute spellings (min, minute, m) handled by the default")
	docSpell := map[string]bool{}
	re := regexp.MustCompile(`ratelimit\(\s*\d+\s*/\s*([A-Za-z]+)\s*\)`)
	files, _ := filepath.Glob(filepath.Join(c.Repo, "docs", "*.md"))
	for _, f := range files {
		b, err := os.ReadFile(f)
		if err != nil {
			continue
		}
		for _, m := range re.FindAllStringSubmatch(string(b), -1) {
			docSpell[strings.ToLower(m[1])] = true
		}
	}
	cases := map[string]bool{}
	if d := c.decl("cmd/glyph", "rateLimitMiddleware"); d != nil {
		ast.Inspect(d, func(n ast.Node) bool {
			if cc, ok := n.(*ast.CaseClause); ok {
				for _, ex := range cc.List {
					if bl, ok := ex.(*ast.BasicLit); ok && bl.Kind == token.STRING {
						cases[strings.Trim(bl.Value, "\"`")] = true
					}
				}
			}
			return true
		})
	}
	var sp []string
	for s := range docSpell {
		sp = append(sp, s)
	}
	sort.Strings(sp)
	minute := map[string]bool{"min": true, "minute": true, "m": true, "minutes": true}
	for _, s := range sp {
		c.ob("C11-R5", "cmd/glyph.rateLimitMiddleware#window:"+s, token.NoPos, cases[s] || minute[s], "documented window unit '"+s+"' has no case in the window switch: the declared rate silently becomes per-minute")
	}
	if len(sp) < 2 {
		c.undecided("C11-R5: fewer than 2 window spellings found in docs/*.md")
	}
	checkWindowVocabulary(c)
}

// checkClientIP: header-derived returns only under trustProxy.
func checkClientIP(c *Ctx, rule string) {
	f := c.mustFn(rule, serverPkg, "getClientIP")
	if f == nil {
		return
	}
	var trust *ssa.Parameter
	for _, p := range f.Params {
		if b, ok := p.Type().Underlying().(interface{ Kind() int }); ok {
			_ = b
		}
		if p.Type().String() == "bool" {
			trust = p
		}
	}
	if trust == nil {
		c.ob(rule, serverPkg+".getClientIP#trust-param", f.Pos(), false, "getClientIP has no boolean trust parameter: forwarding headers cannot be disabled")
		return
	}
	fromHeader := func(v ssa.Value) bool {
		call, ok := v.(*ssa.Call)
		return ok && strings.HasPrefix(callName(call), "net/http.Header.")
	}
	n := 0
	for _, b := range f.Blocks {
		for _, ins := range b.Instrs {
			ret, ok := ins.(*ssa.Return)
			if !ok {
				continue
			}
			tainted := false
			for _, rv := range retVals(ret) {
				if derivesFrom(rv, fromHeader) {
					tainted = true
				}
			}
			if !tainted {
				continue
			}
			n++
			q := &pathQuery{fn: f, cutEdge: func(bb *ssa.BasicBlock, si int) bool {
				known, val := boolOnEdge(bb, si, trust)
				return known && val
			}, target: func(x ssa.Instruction) bool { return x == ins }}
			hit, path := q.fromEntry()
			c.ob(rule, serverPkg+".getClientIP#header-return-"+itoa(n), ret.Pos(), hit == nil, "a header-derived client identity is returned on a path where trustProxy is not established true: identity can be forged via X-Forwarded-For/X-Real-IP", c.blockPath(path)...)
		}
	}
	if n == 0 {
		c.info(rule, serverPkg+".getClientIP#no-header-returns", f.Pos(), "no return derives from request headers")
	}
	// the socket-peer identity: every non-header return is r.RemoteAddr itself or the host part produced by
	// net.SplitHostPort / netip.ParseAddrPort (IPv6-safe); ad-hoc splitting on ':' merges all IPv6 clients
	isRemoteAddr := func(v ssa.Value) bool {
		u, ok := v.(*ssa.UnOp)
		if !ok || u.Op != token.MUL {
			return false
		}
		_, fld, ok := fieldOf(u.X)
		return ok && fld == "RemoteAddr"
	}
	m := 0
	eachInstr(f, func(_ *ssa.BasicBlock, _ int, ins ssa.Instruction) {
		ret, ok := ins.(*ssa.Return)
		if !ok {
			return
		}
		rv := retVals(ret)[0]
		if derivesFrom(rv, fromHeader) || !derivesFrom(rv, isRemoteAddr) {
			return
		}
		m++
		okLeaf := true
		seen := map[ssa.Value]bool{}
		var walk func(v ssa.Value)
		walk = func(v ssa.Value) {
			if seen[v] {
				return
			}
			seen[v] = true
			switch x := v.(type) {
			case *ssa.Phi:
				for _, e := range x.Edges {
					walk(e)
				}
			case *ssa.Extract:
				call, ok := x.Tuple.(*ssa.Call)
				if !ok || x.Index != 0 || !(callName(call) == "net.SplitHostPort" || callName(call) == "net/netip.ParseAddrPort") || !derivesFrom(call.Call.Args[0], isRemoteAddr) {
					okLeaf = false
				}
			case *ssa.UnOp:
				if isRemoteAddr(x) {
					return
				}
				if al, ok := x.X.(*ssa.Alloc); ok {
					for _, r := range refs(al) {
						if st, ok := r.(*ssa.Store); ok && st.Addr == ssa.Value(al) {
							walk(st.Val)
						}
					}
					return
				}
				okLeaf = false
			case *ssa.Call:
				// netip.AddrPort.Addr().String() style
				if strings.HasPrefix(callName(x), "net/netip.") {
					for _, a := range x.Call.Args {
						walk(a)
					}
					return
				}
				okLeaf = false
			default:
				okLeaf = false
			}
		}
		walk(rv)
		c.ob(rule, serverPkg+".getClientIP#peer-host-extraction-"+itoa(m), ret.Pos(), okLeaf, "the socket-peer identity is derived from RemoteAddr by something other than net.SplitHostPort/netip (ad-hoc ':' splitting truncates IPv6 addresses so unrelated clients share one bucket / lock-out tracker)")
	})
	if m == 0 {
		c.ob(rule, serverPkg+".getClientIP#peer-host-extraction", f.Pos(), false, "no return of getClientIP derives from the request's RemoteAddr")
	}
	// nobody rewrites Request.RemoteAddr (getClientIP trusts it as the socket peer)
	w := 0
	for p := range c.SSA {
		rel := strings.TrimPrefix(p, modPath+"/")
		if strings.HasPrefix(rel, "examples") {
			continue
		}
		for _, fn := range c.srcFuncs(rel) {
			eachInstr(fn, func(_ *ssa.BasicBlock, _ int, ins ssa.Instruction) {
				st, ok := ins.(*ssa.Store)
				if !ok {
					return
				}
				nt, fld, ok := fieldOf(st.Addr)
				if !ok || nt == nil || fld != "RemoteAddr" || nt.Obj().Pkg() == nil || nt.Obj().Pkg().Path() != "net/http" || isFreshAlloc(st.Addr) {
					return
				}
				w++
				c.ob(rule, fnKey(fn)+"#writes-Request.RemoteAddr-"+itoa(w), st.Pos(), false, "http.Request.RemoteAddr is overwritten (e.g. from forwarding headers) before the limiter/auth middleware reads it: client identity becomes forgeable although proxies are not trusted")
			})
		}
	}
	c.ob(rule, "module#no-writer-of-Request.RemoteAddr", token.NoPos, w == 0, "see the individual writers")
}

func itoa(n int) string { return strconv.Itoa(n) }

// checkNoTrustProxyLiteral: composite literals of server.<typeName> in package rel must not set TrustProxy.
func checkNoTrustProxyLiteral(c *Ctx, rule, rel, typeName string) {
	p := c.pkg(rel)
	n := 0
	for _, file := range p.Syntax {
		if isTestFile(c.Fset, file.Pos()) {
			continue
		}
		ast.Inspect(file, func(nd ast.Node) bool {
			cl, ok := nd.(*ast.CompositeLit)
			if !ok {
				return true
			}
			t := p.TypesInfo.TypeOf(cl)
			if t == nil || !typeIs(t, serverPath, typeName) {
				return true
			}
			n++
			set := false
			for _, el := range cl.Elts {
				if kv, ok := el.(*ast.KeyValueExpr); ok {
					if id, ok := kv.Key.(*ast.Ident); ok && id.Name == "TrustProxy" {
						if v, ok := kv.Value.(*ast.Ident); !ok || v.Name != "false" {
							set = true
						}
					}
				} else {
					set = true // positional literal: cannot tell, treat as set
				}
			}
			c.ob(rule, rel+"#"+typeName+"-literal-"+itoa(n), cl.Pos(), !set, "the "+typeName+" built for declared routes sets TrustProxy: client identity becomes forgeable through forwarding headers by default")
			return true
		})
	}
}

// checkNilReturnOnlyUnder: every `return nil` of fn is unreachable once the allowed edges are cut.
func checkNilReturnOnlyUnder(c *Ctx, rule string, fn *ssa.Function, allowed func(b *ssa.BasicBlock, si int) bool, detail ...string) {
	msg := "returns no middleware on a path other than the documented 'nothing declared' conditions: the directive is silently inert"
	if len(detail) > 0 {
		msg = detail[0]
	}
	n := 0
	for _, b := range fn.Blocks {
		for _, ins := range b.Instrs {
			ret, ok := ins.(*ssa.Return)
			if !ok || len(ret.Results) == 0 {
				continue
			}
			if !isNilConst(stripConv(retVals(ret)[0])) {
				continue
			}
			n++
			q := &pathQuery{fn: fn, cutEdge: allowed, target: func(x ssa.Instruction) bool { return x == ins }}
			hit, path := q.fromEntry()
			c.ob(rule, fnKey(fn)+"#return-nil-"+itoa(n), ret.Pos(), hit == nil, msg, c.blockPath(path)...)
		}
	}
}

// checkAppendsWhenNonNil: in cmd/glyph.routeMiddlewares, the result of calling `callee` is appended on its non-nil edge.
func checkAppendsWhenNonNil(c *Ctx, rule, callee string) {
	f := c.mustFn(rule, "cmd/glyph", "routeMiddlewares")
	if f == nil {
		return
	}
	var call *ssa.Call
	eachInstr(f, func(_ *ssa.BasicBlock, _ int, ins ssa.Instruction) {
		if cl, ok := ins.(*ssa.Call); ok && callName(cl) == modPath+"/cmd/glyph."+callee {
			call = cl
		}
	})
	if call == nil {
		c.ob(rule, "cmd/glyph.routeMiddlewares#calls-"+callee, f.Pos(), false, "routeMiddlewares does not call "+callee+": the declared directive builds no middleware")
		return
	}
	// argument must come from the route parameter
	fromRoute := derivesFrom(call.Call.Args[0], func(v ssa.Value) bool { return v == ssa.Value(f.Params[0]) })
	c.ob(rule, "cmd/glyph.routeMiddlewares#"+callee+"-arg-from-route", call.Pos(), fromRoute, callee+" is not given the directive of the route being registered")
	// from the call, cutting the ==nil edge, every path to return passes an append that includes the value
	isAppendOf := func(ins ssa.Instruction) bool {
		cl, ok := ins.(*ssa.Call)
		if !ok || callName(cl) != "builtin.append" || len(cl.Call.Args) < 2 {
			return false
		}
		return derivesFrom(cl.Call.Args[1], func(v ssa.Value) bool {
			// the varargs slice: its backing array has a store of our call value
			if sl, ok := v.(*ssa.Slice); ok {
				if al, ok := sl.X.(*ssa.Alloc); ok {
					for _, r := range refs(al) {
						if ia, ok := r.(*ssa.IndexAddr); ok {
							for _, rr := range refs(ia) {
								if st, ok := rr.(*ssa.Store); ok && st.Val == ssa.Value(call) {
									return true
								}
							}
						}
					}
				}
			}
			return false
		})
	}
	q := &pathQuery{fn: f, cutEdge: func(b *ssa.BasicBlock, si int) bool { return nilOnEdge(b, si, call) }, stop: isAppendOf, target: isReturn}
	hit, path := q.after(call)
	c.ob(rule, "cmd/glyph.routeMiddlewares#"+callee+"-appended", call.Pos(), hit == nil, "a non-nil middleware from "+callee+" can reach the return without being appended to the chain", c.blockPath(path)...)
	// the returned slice derives from the append results
	retOK := true
	eachInstr(f, func(_ *ssa.BasicBlock, _ int, ins ssa.Instruction) {
		if r, ok := ins.(*ssa.Return); ok {
			if !derivesFrom(retVals(r)[0], func(v ssa.Value) bool { cl, ok := v.(*ssa.Call); return ok && isAppendOf(cl) }) {
				retOK = false
			}
		}
	})
	c.ob(rule, "cmd/glyph.routeMiddlewares#returns-chain-with-"+callee, f.Pos(), retOK, "the slice returned by routeMiddlewares does not derive from the append of "+callee+"'s middleware")
}

// staleKeysCollectedUnderIdleTest: f appends keys to a slice only under `now.Sub(x.lastRefill) > K` with a constant K of
// at least one minute (the collect-then-delete idiom of the limiter's eviction).
func staleKeysCollectedUnderIdleTest(f *ssa.Function) bool {
	found, okAll := false, true
	eachInstr(f, func(_ *ssa.BasicBlock, _ int, ins ssa.Instruction) {
		call, ok := ins.(*ssa.Call)
		if !ok || callName(call) != "builtin.append" {
			return
		}
		sl, ok := call.Type().Underlying().(*types.Slice)
		if !ok || !isStringType(sl.Elem()) {
			return
		}
		found = true
		g := false
		for _, b := range f.Blocks {
			iff := ifOf(b)
			if iff == nil || !b.Dominates(ins.Block()) {
				continue
			}
			bo, ok := iff.Cond.(*ssa.BinOp)
			if !ok || (bo.Op != token.GTR && bo.Op != token.GEQ) {
				continue
			}
			kv, isK := constInt(bo.Y)
			if !isK || kv < int64(60*1e9) {
				continue
			}
			if derivesFrom(bo.X, func(z ssa.Value) bool { cl, ok := z.(*ssa.Call); return ok && callName(cl) == "time.Time.Sub" }) && (b.Succs[0].Dominates(ins.Block()) || b.Succs[0] == ins.Block()) {
				g = true
			}
		}
		if !g {
			okAll = false
		}
	})
	return found && okAll
}
