package main

import (
	"go/ast"
	"go/constant"
	"go/token"
	"go/types"
	"sort"
	"strings"

	"golang.org/x/tools/go/ssa"
)

const compilerPkg = "pkg/compiler"
const decompPkg = "pkg/decompiler"

// opcodeNames returns the constants of vm.Opcode, name -> value.
func opcodeNames(c *Ctx) map[string]int64 {
	out := map[string]int64{}
	p := c.Pkgs[vmPath]
	if p == nil {
		return out
	}
	sc := p.Types.Scope()
	for _, n := range sc.Names() {
		if k, ok := sc.Lookup(n).(*types.Const); ok && typeIs(k.Type(), vmPath, "Opcode") {
			if v, ok := constant.Int64Val(k.Val()); ok {
				out[n] = v
			}
		}
	}
	return out
}

// opcodeKeysOfMapLiteral: opcode constant names used as keys of the (first) map literal in decl
// (keys spelled vm.OpX or byte(vm.OpX)).
// optableBoolOnly restricts the package-level tables opcodeKeysOfMapLiteral follows to yes/no tables.
var optableBoolOnly = false

func opcodeKeysOfMapLiteral(c *Ctx, rel string, decl *ast.FuncDecl, valueString bool) map[string]bool {
	out := map[string]bool{}
	if decl == nil {
		return out
	}
	p := c.pkg(rel)
	ast.Inspect(decl, func(n ast.Node) bool {
		cl, ok := n.(*ast.CompositeLit)
		if !ok {
			return true
		}
		if _, isMap := p.TypesInfo.TypeOf(cl).Underlying().(*types.Map); !isMap {
			return true
		}
		for _, el := range cl.Elts {
			kv, ok := el.(*ast.KeyValueExpr)
			if !ok {
				continue
			}
			ast.Inspect(kv.Key, func(m ast.Node) bool {
				if id, ok := m.(*ast.Ident); ok {
					if k, ok := p.TypesInfo.Uses[id].(*types.Const); ok && typeIs(k.Type(), vmPath, "Opcode") {
						out[k.Name()] = true
					}
				}
				return true
			})
		}
		return true
	})
	// the same table kept in a package-level variable (a map or an array indexed by opcode) that the function consults
	ast.Inspect(decl, func(n ast.Node) bool {
		ix, ok := n.(*ast.IndexExpr)
		if !ok {
			return true
		}
		id, ok := ix.X.(*ast.Ident)
		if !ok {
			return true
		}
		v, ok := p.TypesInfo.Uses[id].(*types.Var)
		if !ok || v.Parent() != p.Types.Scope() {
			return true
		}
		if optableBoolOnly {
			// a yes/no table only (the jump set): a table of operand widths consulted by the same walk is another table
			var elem types.Type
			switch u := v.Type().Underlying().(type) {
			case *types.Map:
				elem = u.Elem()
			case *types.Array:
				elem = u.Elem()
			case *types.Slice:
				elem = u.Elem()
			}
			if bt, ok := elem.Underlying().(*types.Basic); elem == nil || !ok || bt.Kind() != types.Bool {
				return true
			}
		}
		for _, f := range p.Syntax {
			for _, d := range f.Decls {
				gd, ok := d.(*ast.GenDecl)
				if !ok {
					continue
				}
				for _, sp := range gd.Specs {
					vs, ok := sp.(*ast.ValueSpec)
					if !ok {
						continue
					}
					for i, nm := range vs.Names {
						if p.TypesInfo.Defs[nm] != types.Object(v) || i >= len(vs.Values) {
							continue
						}
						cl, ok := vs.Values[i].(*ast.CompositeLit)
						if !ok {
							continue
						}
						for _, el := range cl.Elts {
							kv, ok := el.(*ast.KeyValueExpr)
							if !ok {
								continue
							}
							// an entry with a zero / false value says "no"
							if tv, ok := p.TypesInfo.Types[kv.Value]; ok && tv.Value != nil {
								if tv.Value.Kind() == constant.Int {
									if z, ok := constant.Int64Val(tv.Value); ok && z == 0 {
										continue
									}
								}
								if tv.Value.Kind() == constant.Bool && !constant.BoolVal(tv.Value) {
									continue
								}
							}
							ast.Inspect(kv.Key, func(m ast.Node) bool {
								if kid, ok := m.(*ast.Ident); ok {
									if k, ok := p.TypesInfo.Uses[kid].(*types.Const); ok && typeIs(k.Type(), vmPath, "Opcode") {
										out[k.Name()] = true
									}
								}
								return true
							})
						}
					}
				}
			}
		}
		return true
	})
	// the same table written as a switch: opcodes listed in case clauses that do not just `return false` / `return ""`
	taglessClause := map[*ast.CaseClause]bool{} // `switch { case op == OpX: ... }` is an if-chain, not a table
	ast.Inspect(decl, func(n ast.Node) bool {
		if sw, ok := n.(*ast.SwitchStmt); ok && sw.Tag == nil {
			for _, st := range sw.Body.List {
				if cc, ok := st.(*ast.CaseClause); ok {
					taglessClause[cc] = true
				}
			}
		}
		return true
	})
	ast.Inspect(decl, func(n ast.Node) bool {
		cc, ok := n.(*ast.CaseClause)
		if !ok || cc.List == nil || taglessClause[cc] {
			return true
		}
		neg := false
		for _, st := range cc.Body {
			if r, ok := st.(*ast.ReturnStmt); ok && len(r.Results) == 1 {
				if id, ok := r.Results[0].(*ast.Ident); ok && id.Name == "false" {
					neg = true
				}
			}
		}
		if neg {
			return true
		}
		for _, e := range cc.List {
			ast.Inspect(e, func(m ast.Node) bool {
				if id, ok := m.(*ast.Ident); ok {
					if k, ok := p.TypesInfo.Uses[id].(*types.Const); ok && typeIs(k.Type(), vmPath, "Opcode") {
						out[k.Name()] = true
					}
				}
				return true
			})
		}
		return true
	})
	return out
}

// vmArms: opcode name -> SSA handler function (nil for inline arms) from VM.executeInstruction.
func vmArms(c *Ctx) (map[string]*ssa.Function, map[string]bool) {
	handlers := map[string]*ssa.Function{}
	has := map[string]bool{}
	d := c.decl(vmPkg, "VM.executeInstruction")
	if d == nil {
		return handlers, has
	}
	p := c.pkg(vmPkg)
	ast.Inspect(d, func(n ast.Node) bool {
		cc, ok := n.(*ast.CaseClause)
		if !ok {
			return true
		}
		var names []string
		for _, e := range cc.List {
			ast.Inspect(e, func(m ast.Node) bool {
				if id, ok := m.(*ast.Ident); ok {
					if k, ok := p.TypesInfo.Uses[id].(*types.Const); ok && typeIs(k.Type(), vmPath, "Opcode") {
						names = append(names, k.Name())
					}
				}
				return true
			})
		}
		var h *ssa.Function
		for _, st := range cc.Body {
			ast.Inspect(st, func(m ast.Node) bool {
				call, ok := m.(*ast.CallExpr)
				if !ok {
					return true
				}
				if se, ok := call.Fun.(*ast.SelectorExpr); ok {
					if fo, ok := p.TypesInfo.Uses[se.Sel].(*types.Func); ok && strings.HasPrefix(fo.Name(), "exec") {
						h = c.Prog.FuncValue(fo)
					}
				}
				return true
			})
		}
		for _, nm := range names {
			has[nm] = true
			handlers[nm] = h
		}
		return true
	})
	return handlers, has
}

// handlerBody: an opcode handler together with the helpers it delegates to - methods of the VM it calls statically
// that are not themselves part of the dispatch (nothing from which executeInstruction can be reached: a nested run of
// an embedded body is another instruction stream).
func handlerBody(fn *ssa.Function) []*ssa.Function {
	if fn == nil {
		return nil
	}
	var reachesDispatch func(f *ssa.Function, seen map[*ssa.Function]bool) bool
	reachesDispatch = func(f *ssa.Function, seen map[*ssa.Function]bool) bool {
		if seen[f] || len(seen) > 400 {
			return false
		}
		seen[f] = true
		if f.Name() == "executeInstruction" {
			return true
		}
		r := false
		for _, g := range withAnon(f) {
			eachCall(g, func(call ssa.CallInstruction) {
				if sf := staticFn(call); sf != nil && sf.Pkg == fn.Pkg && !r {
					r = reachesDispatch(sf, seen)
				}
			})
		}
		return r
	}
	out := []*ssa.Function{fn}
	seen := map[*ssa.Function]bool{fn: true}
	for i := 0; i < len(out) && i < 16; i++ {
		eachCall(out[i], func(call ssa.CallInstruction) {
			sf := staticFn(call)
			if sf == nil || seen[sf] || sf.Pkg != fn.Pkg || sf.Signature.Recv() == nil || !typeIs(sf.Signature.Recv().Type(), vmPath, "VM") {
				return
			}
			if sf.Name() == "readOperand" || reachesDispatch(sf, map[*ssa.Function]bool{}) {
				return
			}
			seen[sf] = true
			out = append(out, sf)
		})
	}
	return out
}

func callsReadOperand(fn *ssa.Function) bool {
	r := false
	for _, f := range handlerBody(fn) {
		eachCall(f, func(call ssa.CallInstruction) {
			if callName(call) == vmPath+".VM.readOperand" {
				r = true
			}
		})
	}
	return r
}

// operandAssignedToPC: handler stores a value derived from readOperand into VM.pc (a jump).
func operandAssignedToPC(fn *ssa.Function) bool {
	if fn == nil {
		return false
	}
	r := false
	for _, f := range handlerBody(fn) {
		eachInstr(f, func(_ *ssa.BasicBlock, _ int, ins ssa.Instruction) {
			operandStoreToPC(ins, &r)
		})
	}
	return r
}

func operandStoreToPC(ins ssa.Instruction, r *bool) {
	{
		st, ok := ins.(*ssa.Store)
		if !ok || !isStoreToField(st, "VM", "pc") {
			return
		}
		fromOperand := derivesFrom(st.Val, func(v ssa.Value) bool {
			cl, ok := v.(*ssa.Call)
			return ok && callName(cl) == vmPath+".VM.readOperand"
		})
		relative := derivesFrom(st.Val, func(v ssa.Value) bool { return loadedFromField(v, "VM", "pc") })
		if fromOperand && !relative {
			*r = true // absolute target: must be relocated by the compiler; pc += n (skip) is position independent
		}
	}
}

// opcodeTableRule checks agreement of all opcode tables. Used by C02-R1 and C10-R1.
func opcodeTableRule(c *Ctx, rule string) {
	ops := opcodeNames(c)
	if len(ops) < 30 {
		c.undecided("%s: only %d vm.Opcode constants found", rule, len(ops))
		return
	}
	handlers, has := vmArms(c)
	compHas := opcodeKeysOfMapLiteral(c, compilerPkg, c.decl(compilerPkg, "hasOperand"), false)
	decHas := opcodeKeysOfMapLiteral(c, decompPkg, c.decl(decompPkg, "hasOperand"), false)
	decNames := opcodeKeysOfMapLiteral(c, decompPkg, c.decl(decompPkg, "opcodeToString"), true)
	optableBoolOnly = true
	jumpSet := opcodeKeysOfMapLiteral(c, compilerPkg, c.decl(compilerPkg, "Compiler.adjustJumpTargets"), false)
	optableBoolOnly = false
	if len(jumpSet) == 0 {
		// the table may live in a predicate the walk calls (`isJumpOpcode(op)`): a package function other than the
		// operand table, taking the opcode and returning bool
		if adj := c.fn(compilerPkg, "Compiler.adjustJumpTargets"); adj != nil {
			hasOp := c.fn(compilerPkg, "hasOperand")
			eachCall(adj, func(call ssa.CallInstruction) {
				sf := staticFn(call)
				if sf == nil || sf == hasOp || sf.Pkg == nil || sf.Pkg.Pkg.Path() != modPath+"/"+compilerPkg || sf.Signature.Results().Len() != 1 {
					return
				}
				if bt, ok := sf.Signature.Results().At(0).Type().Underlying().(*types.Basic); !ok || bt.Kind() != types.Bool {
					return
				}
				for k := range opcodeKeysOfMapLiteral(c, compilerPkg, c.declByName(compilerPkg, anchorName(sf)), false) {
					jumpSet[k] = true
				}
			})
		}
	}
	if len(compHas) < 5 || len(decHas) < 5 || len(decNames) < 30 {
		c.undecided("%s: operand/name tables extracted with %d/%d/%d entries", rule, len(compHas), len(decHas), len(decNames))
		return
	}
	var names []string
	for n := range ops {
		names = append(names, n)
	}
	sort.Strings(names)
	// distinct values
	byVal := map[int64]string{}
	for _, n := range names {
		if prev, dup := byVal[ops[n]]; dup {
			c.ob(rule, vmPkg+".Opcode#distinct-values:"+n, token.NoPos, false, n+" and "+prev+" share the byte value")
		}
		byVal[ops[n]] = n
	}
	for _, n := range names {
		c.ob(rule, vmPkg+".VM.executeInstruction#arm:"+n, token.NoPos, has[n], "opcode "+n+" has no arm in VM.executeInstruction: compiled programs using it fail with 'unknown opcode'")
		vmOp := callsReadOperand(handlers[n])
		c.ob(rule, compilerPkg+".hasOperand#agrees-with-vm:"+n, token.NoPos, compHas[n] == vmOp, opAgree(n, "the compiler's operand table", compHas[n], vmOp))
		c.ob(rule, decompPkg+".hasOperand#agrees-with-vm:"+n, token.NoPos, decHas[n] == vmOp, opAgree(n, "the decompiler's operand table", decHas[n], vmOp)+": every later instruction boundary of a program using it is shifted in the disassembly")
		c.ob(rule, decompPkg+".opcodeToString#names:"+n, token.NoPos, decNames[n], "opcode "+n+" has no name in the decompiler (printed as UNKNOWN)")
		isJump := operandAssignedToPC(handlers[n])
		c.ob(rule, compilerPkg+".Compiler.adjustJumpTargets#jump-set:"+n, token.NoPos, jumpSet[n] == isJump, "opcode "+n+": jump relocation table says jump="+boolStr(jumpSet[n])+" but the VM handler assigns its operand to pc="+boolStr(isJump))
	}
	// embedded programs: an opcode whose handler runs a sub-range of the code as a program of its own (executeRaw, pc 0)
	// carries jump targets that are relative to that body; the relocation walk must step over the body
	if adj := c.fn(compilerPkg, "Compiler.adjustJumpTargets"); adj != nil {
		nEmb := 0
		for _, n := range names {
			h := handlers[n]
			if h == nil {
				continue
			}
			embeds := false
			for _, g := range withAnon(h) {
				if reachesInstr(g, func(x ssa.Instruction) bool { return isCallTo(x, vmPath+".VM.executeRaw") }, 2, map[*ssa.Function]bool{}) {
					embeds = true
				}
			}
			if !embeds {
				continue
			}
			nEmb++
			skips := false
			for _, b := range adj.Blocks {
				iff := ifOf(b)
				if iff == nil {
					continue
				}
				bo, ok := iff.Cond.(*ssa.BinOp)
				if !ok || bo.Op != token.EQL {
					continue
				}
				isOp := func(v ssa.Value) bool {
					k, ok := constInt(stripConv(v))
					return ok && k == ops[n]
				}
				if !isOp(bo.X) && !isOp(bo.Y) {
					continue
				}
				region := b.Succs[0]
				for _, rb := range adj.Blocks {
					if rb != region && !region.Dominates(rb) {
						continue
					}
					for _, ins := range rb.Instrs {
						if call, ok := ins.(*ssa.Call); ok && strings.HasPrefix(callName(call), "encoding/binary.littleEndian.Uint32") {
							skips = true
						}
					}
				}
			}
			c.ob(rule, compilerPkg+".Compiler.adjustJumpTargets#steps-over-embedded-body:"+n, adj.Pos(), skips, "the VM runs the body that follows "+n+" as a program of its own from pc 0 (executeRaw), so the jump targets inside it are body-relative; the relocation walk has no arm for "+n+" that decodes the body length and steps over it, so those targets get the header size added and every loop/if inside the body jumps out of it")
		}
		c.Sites[rule+"#embedded-program-opcodes"] = nEmb
	}
	// emit sites
	k := 0
	for _, fn := range c.srcFuncs(compilerPkg) {
		eachCall(fn, func(call ssa.CallInstruction) {
			n := callName(call)
			withOp := n == compilerPath+".Compiler.emitWithOperand"
			if !withOp && n != compilerPath+".Compiler.emit" {
				return
			}
			cst, ok := call.Common().Args[1].(*ssa.Const)
			if !ok || cst.Value == nil {
				return
			}
			v, _ := constant.Int64Val(cst.Value)
			name := byVal[v]
			if name == "" {
				return
			}
			k++
			vmOp := callsReadOperand(handlers[name])
			if withOp != vmOp {
				c.ob(rule, fnKey(fn)+"#emit-operandness:"+name+"-"+itoa(k), call.Pos(), false, "the compiler emits "+name+" "+map[bool]string{true: "with", false: "without"}[withOp]+" an operand but the VM handler "+map[bool]string{true: "reads", false: "does not read"}[vmOp]+" one: instruction boundaries diverge")
			}
		})
	}
	c.ob(rule, compilerPkg+"#emit-sites-agree-with-vm", token.NoPos, k >= 20, "fewer than 20 emit sites found")
	c.Sites[rule+"#emit-sites"] = k
}

func boolStr(b bool) string {
	if b {
		return "yes"
	}
	return "no"
}

func opAgree(n, table string, tbl, vm bool) string {
	return "opcode " + n + ": " + table + " says operand=" + boolStr(tbl) + " but the VM handler reads operand=" + boolStr(vm)
}
