package main

import (
	"go/token"
	"go/types"
	"strings"

	"golang.org/x/tools/go/ssa"
)

func init() {
	register(&propSpec{
		id: "C17", title: "Static file serving never escapes its root", run: runC17,
		variants:    []buildVariant{{name: "GOOS=windows", env: []string{"GOOS=windows"}}},
		notCovered:  "time-of-check/time-of-use races between resolving and opening, URL decoding performed by net/http, file-system semantics (hard links, mounts)",
		assumptions: []string{"filepath.EvalSymlinks returns the real location; isSubPath(root, p) on two resolved paths decides containment", "a path value is confined only if it is an EvalSymlinks result that passed isSubPath against a resolved root on every path to the sink"},
	})
}

const webPkg = "pkg/web"
const webPath = modPath + "/pkg/web"

var fileSinks = map[string]int{"os.Open": 0, "os.OpenFile": 0, "os.ReadFile": 0, "os.ReadDir": 0, "io/ioutil.ReadFile": 0, "io/ioutil.ReadDir": 0, "net/http.ServeFile": 2}

type confiner struct {
	c       *Ctx
	callers map[*ssa.Function][]*ssa.Call
	needRes bool // require the root argument of isSubPath to be symlink-resolved
	rootAdv []string
}

func (k *confiner) isResolved(v ssa.Value) bool {
	return derivesFromOnly(v, func(x ssa.Value) (leaf bool, ok bool) {
		switch y := x.(type) {
		case *ssa.Extract:
			if call, isC := y.Tuple.(*ssa.Call); isC && callName(call) == "path/filepath.EvalSymlinks" && y.Index == 0 {
				return true, true
			}
			return true, false
		case *ssa.UnOp:
			if y.Op == token.MUL {
				if nt, f, ok := fieldOf(y.X); ok && nt != nil && nt.Obj().Name() == "StaticFileServer" && f == "absRoot" {
					return true, true // the constructor rule checks what is stored there
				}
			}
		}
		return false, false
	})
}

// derivesFromOnly walks phis and local loads; every leaf must satisfy the predicate.
func derivesFromOnly(v ssa.Value, leafOK func(ssa.Value) (leaf bool, ok bool)) bool {
	seen := map[ssa.Value]bool{}
	res := true
	var walk func(v ssa.Value)
	walk = func(v ssa.Value) {
		if seen[v] || !res {
			return
		}
		seen[v] = true
		if leaf, ok := leafOK(v); leaf {
			if !ok {
				res = false
			}
			return
		}
		switch y := v.(type) {
		case *ssa.Phi:
			for _, e := range y.Edges {
				walk(e)
			}
		case *ssa.UnOp:
			if al, ok := y.X.(*ssa.Alloc); ok && y.Op == token.MUL {
				for _, r := range refs(al) {
					if st, ok := r.(*ssa.Store); ok && st.Addr == ssa.Value(al) {
						walk(st.Val)
					}
				}
				return
			}
			res = false
		default:
			res = false
		}
	}
	walk(v)
	return res
}

// confined: v, used at block `at`, is an EvalSymlinks result that passed isSubPath(root, v) on every path.
func (k *confiner) confined(v ssa.Value, at *ssa.BasicBlock, depth int) (bool, string) {
	if depth > 6 {
		return false, "depth"
	}
	switch y := v.(type) {
	case *ssa.Phi:
		for i, e := range y.Edges {
			if ok, why := k.confined(e, y.Block().Preds[i], depth+1); !ok {
				return false, why
			}
		}
		return true, ""
	case *ssa.Parameter:
		fn := y.Parent()
		idx := -1
		for i, p := range fn.Params {
			if p == y {
				idx = i
			}
		}
		sites := k.callers[fn]
		if len(sites) == 0 || idx < 0 {
			return false, "parameter " + y.Name() + " of " + fnKey(fn) + " (no call site in the package establishes confinement)"
		}
		for _, cs := range sites {
			if ok, why := k.confined(cs.Call.Args[idx], cs.Block(), depth+1); !ok {
				return false, "argument at " + k.c.pos(cs.Pos()) + ": " + why
			}
		}
		return true, ""
	case *ssa.Extract:
		call, ok := y.Tuple.(*ssa.Call)
		if ok {
			if sf := staticFn(call); sf != nil && sf.Pkg != nil && sf.Pkg.Pkg.Path() == webPath {
				return k.helperResultConfined(sf, y.Index, depth)
			}
		}
		if !ok || callName(call) != "path/filepath.EvalSymlinks" || y.Index != 0 {
			return false, "not a symlink-resolved path (" + y.Name() + ")"
		}
		fn := at.Parent()
		any := false
		cut := func(b *ssa.BasicBlock, si int) bool {
			iff := ifOf(b)
			if iff == nil {
				return false
			}
			cond := iff.Cond
			truth := si == 0
			for {
				if u, ok := cond.(*ssa.UnOp); ok && u.Op == token.NOT {
					cond, truth = u.X, !truth
					continue
				}
				break
			}
			cl, ok := cond.(*ssa.Call)
			if !ok || !truth || callName(cl) != webPath+".isSubPath" || cl.Call.Args[1] != v {
				return false
			}
			if !k.isResolved(cl.Call.Args[0]) {
				if k.needRes {
					return false
				}
				k.rootAdv = append(k.rootAdv, k.c.pos(cl.Pos()))
			}
			any = true
			return true
		}
		q := &pathQuery{fn: fn, cutEdge: cut, target: func(ins ssa.Instruction) bool { return ins.Block() == at }}
		hit, _ := q.fromEntry()
		if hit != nil || !any {
			return false, "resolved path is used without having passed isSubPath(root, path) on every path"
		}
		return true, ""
	case *ssa.UnOp:
		if al, ok := y.X.(*ssa.Alloc); ok && y.Op == token.MUL {
			for _, r := range refs(al) {
				if st, ok := r.(*ssa.Store); ok && st.Addr == ssa.Value(al) {
					if ok, why := k.confined(st.Val, st.Block(), depth+1); !ok {
						return false, why
					}
				}
			}
			return true, ""
		}
	case *ssa.Call:
		if sf := staticFn(y); sf != nil && sf.Pkg != nil && sf.Pkg.Pkg.Path() == webPath && sf.Signature.Results().Len() == 1 {
			return k.helperResultConfined(sf, 0, depth)
		}
		return false, "raw path computed by " + short(callName(y)) + " at " + k.c.pos(y.Pos()) + " (joined/concatenated after the containment check)"
	}
	return false, "raw path value " + v.Name()
}

// helperResultConfined: result idx of the package's helper sf is confined at every return (the empty string
// constant - nothing can be opened under it - aside): the helper resolved and checked the path itself.
func (k *confiner) helperResultConfined(sf *ssa.Function, idx int, depth int) (bool, string) {
	n := 0
	for _, b := range sf.Blocks {
		ret, ok := b.Instrs[len(b.Instrs)-1].(*ssa.Return)
		if !ok || idx >= len(ret.Results) {
			continue
		}
		n++
		if cst, ok := ret.Results[idx].(*ssa.Const); ok && cst.Value != nil && cst.Value.ExactString() == `""` {
			continue
		}
		if ok, why := k.confined(ret.Results[idx], b, depth+1); !ok {
			return false, "returned by " + fnKey(sf) + " at " + k.c.pos(ret.Pos()) + ": " + why
		}
	}
	if n == 0 {
		return false, "helper " + fnKey(sf) + " has no return"
	}
	return true, ""
}

func runC17(c *Ctx) {
	c.rule("C17-R1", "TNT typestate raw -> resolved -> confined: in every function of pkg/web that can write file bytes to an http.ResponseWriter, the path argument of os.Open/OpenFile/ReadFile/ReadDir and http.ServeFile is confined: the result of filepath.EvalSymlinks that passed isSubPath(resolved root, path) on every path to the sink; a Join/concatenation/phi with a non-confined value is raw again; parameters are judged at every call site in the package")
	k := &confiner{c: c, callers: map[*ssa.Function][]*ssa.Call{}, needRes: false}
	fns := c.srcFuncs(webPkg)
	for _, fn := range fns {
		eachInstr(fn, func(_ *ssa.BasicBlock, _ int, ins ssa.Instruction) {
			if cl, ok := ins.(*ssa.Call); ok {
				if sf := cl.Call.StaticCallee(); sf != nil {
					k.callers[sf] = append(k.callers[sf], cl)
				}
			}
		})
	}
	hasWriter := func(fn *ssa.Function) bool {
		for f := fn; f != nil; f = f.Parent() {
			for _, p := range f.Params {
				if typeIs(p.Type(), "net/http", "ResponseWriter") {
					return true
				}
			}
		}
		return false
	}
	nSink := 0
	for _, fn := range fns {
		if !hasWriter(fn) {
			continue
		}
		n := 0
		eachInstr(fn, func(_ *ssa.BasicBlock, _ int, ins ssa.Instruction) {
			cl, ok := ins.(*ssa.Call)
			if !ok {
				return
			}
			ai, isSink := fileSinks[callName(cl)]
			if !isSink {
				return
			}
			n++
			nSink++
			ok2, why := k.confined(cl.Call.Args[ai], cl.Block(), 0)
			c.ob("C17-R1", fnKey(fn)+"#"+short(callName(cl))+"-"+itoa(n), cl.Pos(), ok2, "the path opened here is not confined to the root: "+why+" — a symbolic link (or joined component) can point outside the root and its content is served")
		})
	}
	if nSink < 2 {
		c.undecided("C17-R1: %d file sinks found in response-writing functions of pkg/web, floor 2", nSink)
	}
	for _, p := range k.rootAdv {
		c.info("C17-R1", webPkg+"#isSubPath-root-not-symlink-resolved", token.NoPos, "isSubPath called with a root that is only Abs-ed, not EvalSymlinks-ed, at "+p+" (availability: a symlinked root rejects everything; not an escape)")
	}
	// constructor stores a resolved root
	nStore := 0
	for _, fn := range fns {
		eachInstr(fn, func(_ *ssa.BasicBlock, _ int, ins ssa.Instruction) {
			st, ok := ins.(*ssa.Store)
			if !ok || !isStoreToField(st, "StaticFileServer", "absRoot") {
				return
			}
			nStore++
			okR := derivesFromOnly(st.Val, func(x ssa.Value) (bool, bool) {
				if e, ok := x.(*ssa.Extract); ok {
					call, isC := e.Tuple.(*ssa.Call)
					return true, isC && callName(call) == "path/filepath.EvalSymlinks" && e.Index == 0 &&
						derivesFrom(call.Call.Args[0], func(y ssa.Value) bool { cl, ok := y.(*ssa.Call); return ok && callName(cl) == "path/filepath.Abs" })
				}
				return false, false
			})
			c.ob("C17-R1", fnKey(fn)+"#root-stored-resolved-"+itoa(nStore), st.Pos(), okR, "StaticFileServer.absRoot is set to something other than EvalSymlinks(Abs(root)): containment checks compare against an unresolved root")
		})
	}
	if nStore == 0 {
		c.ob("C17-R1", webPkg+".StaticFileServer.absRoot#set", token.NoPos, false, "no assignment of StaticFileServer.absRoot found")
	}

	// R2 isSubPath shape
	c.rule("C17-R2", "MPT: isSubPath compares with the separator-terminated parent: every strings.HasPrefix in it has second argument parent + string(filepath.Separator) (prefix look-alikes like /var/www-evil are rejected), and its only other accepting condition is child == parent")
	if f := c.mustFn("C17-R2", webPkg, "isSubPath"); f != nil {
		nHP := 0
		eachCall(f, func(call ssa.CallInstruction) {
			n := callName(call)
			if n != "strings.HasPrefix" {
				if strings.HasPrefix(n, "strings.") {
					c.ob("C17-R2", webPkg+".isSubPath#uses-"+n, call.Pos(), false, "isSubPath decides containment with "+n+" instead of a separator-terminated prefix comparison")
				}
				return
			}
			nHP++
			a1 := call.Common().Args[1]
			bo, ok := a1.(*ssa.BinOp)
			okSep := false
			if ok && bo.Op == token.ADD && bo.X == ssa.Value(f.Params[0]) {
				if s, isC := constString(bo.Y); isC && (s == "/" || s == "\\") {
					okSep = true
				}
			}
			okChild := call.Common().Args[0] == ssa.Value(f.Params[1])
			c.ob("C17-R2", webPkg+".isSubPath#prefix-with-separator-"+itoa(nHP), call.Pos(), okSep && okChild, "HasPrefix(child, parent) without the trailing separator accepts sibling directories that share the prefix (e.g. /srv/www-evil for /srv/www)")
		})
		if nHP == 0 {
			c.ob("C17-R2", webPkg+".isSubPath#prefix-compare", f.Pos(), false, "isSubPath contains no separator-terminated prefix comparison")
		}
		// every return is false, child==parent, or the HasPrefix result
		rn := 0
		eachInstr(f, func(_ *ssa.BasicBlock, _ int, ins ssa.Instruction) {
			r, ok := ins.(*ssa.Return)
			if !ok {
				return
			}
			rn++
			v := retVals(r)[0]
			okv := derivesFromOnly(v, func(x ssa.Value) (bool, bool) {
				switch y := x.(type) {
				case *ssa.Const:
					// `return true` is acceptable only in the block guarded by child == parent
					if isConstBool(y, true) {
						q := &pathQuery{fn: f, target: func(i ssa.Instruction) bool { return i == ins }, cutEdge: func(b *ssa.BasicBlock, si int) bool {
							for _, fct := range eqOnEdge(b, si) {
								if (fct.x == ssa.Value(f.Params[0]) && fct.y == ssa.Value(f.Params[1])) || (fct.x == ssa.Value(f.Params[1]) && fct.y == ssa.Value(f.Params[0])) {
									return true
								}
							}
							return false
						}}
						h, _ := q.fromEntry()
						return true, h == nil
					}
					return true, true
				case *ssa.Call:
					return true, callName(y) == "strings.HasPrefix"
				case *ssa.BinOp:
					return true, y.Op == token.EQL
				}
				return false, false
			})
			c.ob("C17-R2", webPkg+".isSubPath#return-"+itoa(rn), r.Pos(), okv, "isSubPath can answer true for a reason other than child==parent or the separator-terminated prefix")
		})
	}

	// R3 no generic file servers
	c.rule("C17-R4", "ERR: in pkg/web the string returned by filepath.EvalSymlinks / filepath.Abs is used only where the call's error was established to be nil: no use of the result is reachable from the call along a path that does not cross the err == nil edge. On an error these functions return \"\", and isSubPath(\"\", p) holds for every absolute p - a root that does not exist (yet, or any more) would confine nothing")
	{
		n := 0
		for _, fn := range c.srcFuncs(webPkg) {
			k := 0
			eachInstr(fn, func(_ *ssa.BasicBlock, _ int, ins ssa.Instruction) {
				call, ok := ins.(*ssa.Call)
				if !ok {
					return
				}
				if nm := callName(call); nm != "path/filepath.EvalSymlinks" && nm != "path/filepath.Abs" {
					return
				}
				res := extractOf(call, 0)
				errs := extractOf(call, 1)
				if len(res) == 0 {
					return
				}
				n++
				k++
				uses := map[ssa.Instruction]bool{}
				for _, r := range res {
					for _, u := range refs(r) {
						if _, dbg := u.(*ssa.DebugRef); !dbg {
							uses[u] = true
						}
					}
				}
				q := &pathQuery{fn: fn, target: func(x ssa.Instruction) bool { return uses[x] }, cutEdge: func(b *ssa.BasicBlock, si int) bool {
					for _, e := range errs {
						if nilOnEdge(b, si, e) {
							return true
						}
					}
					return false
				}}
				hit, path := q.after(call)
				p := call.Pos()
				if hit != nil {
					p = hit.Pos()
				}
				c.ob("C17-R4", fnKey(fn)+"#resolved-path-used-only-after-success-"+itoa(k), p, hit == nil && len(errs) > 0, "the result of "+short(callName(call))+" is used on a path on which its error was not established to be nil (the error is ignored, or only some errors return): on failure the result is the empty string, and a containment test against an empty root accepts every absolute path", c.blockPath(path)...)
			})
		}
		c.Sites["C17-R4#resolutions"] = n
		c.floor("C17-R4", 3)
	}

	c.rule("C17-R3", "WCS: no non-test code of the module serves files through http.FileServer / http.Dir / http.ServeFile / http.FileServerFS (which follow symbolic links without a containment check); `@ static` is registered only through web.NewStaticFileServer")
	n := 0
	for p := range c.SSA {
		rel := strings.TrimPrefix(p, modPath+"/")
		if strings.HasPrefix(rel, "examples") {
			continue
		}
		for _, fn := range c.srcFuncs(rel) {
			eachInstr(fn, func(_ *ssa.BasicBlock, _ int, ins ssa.Instruction) {
				bad := ""
				switch x := ins.(type) {
				case ssa.CallInstruction:
					switch callName(x) {
					case "net/http.FileServer", "net/http.ServeFile", "net/http.FileServerFS", "net/http.ServeFileFS":
						bad = callName(x)
					}
				case *ssa.ChangeType:
					if typeIs(x.Type(), "net/http", "Dir") {
						bad = "net/http.Dir"
					}
				case *ssa.Convert:
					if typeIs(x.Type(), "net/http", "Dir") {
						bad = "net/http.Dir"
					}
				}
				if bad != "" {
					n++
					c.ob("C17-R3", fnKey(fn)+"#uses-"+bad+"-"+itoa(n), ins.Pos(), false, "files are served through "+bad+", which follows symbolic links out of the directory")
				}
			})
		}
	}
	c.ob("C17-R3", "module#no-generic-file-server", token.NoPos, n == 0, "")
	if rs := c.mustFn("C17-R3", "cmd/glyph", "registerStaticRoutes"); rs != nil {
		okNew := false
		var handled []ssa.Value
		eachCall(rs, func(call ssa.CallInstruction) {
			if callName(call) == webPath+".NewStaticFileServer" {
				okNew = true
			}
			if callName(call) == "net/http.ServeMux.Handle" {
				handled = append(handled, call.Common().Args[2])
			}
		})
		okH := len(handled) > 0
		for _, h := range handled {
			if !derivesFrom(h, func(v ssa.Value) bool {
				cl, ok := v.(*ssa.Call)
				return ok && callName(cl) == webPath+".NewStaticFileServer"
			}) {
				okH = false
			}
		}
		c.ob("C17-R3", "cmd/glyph.registerStaticRoutes#handler-is-StaticFileServer", rs.Pos(), okNew && okH, "a static route is registered with a handler that is not the confined web.StaticFileServer")
	}
	_ = types.Typ
}
