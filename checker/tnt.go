package main

import (
	"fmt"
	"go/token"
	"go/types"
	"strings"

	"golang.org/x/tools/go/ssa"
)

// ===== TNT: cleanliness analysis for SQL text =====
//
// clean(v, at) decides whether string value v, used in block `at`, is built only from constants,
// sanitiser results, numeric formatting, and values that a guard proves equal to one of a finite
// set of constants on every path to `at`. Everything else (parameters, struct fields, map keys,
// elements of caller-supplied slices, results of unknown calls) is tainted.

type tnt struct {
	memberPred map[*ssa.Function]int
	c          *Ctx
	sanitizers map[string]bool
	fnMemo     map[string]int // fn|idx -> 1 computing, 2 clean, 3 dirty
	fnWhy      map[string]string
	// paramClean: when analysing a wrapper's body, treat these parameters as clean
	passParams map[*ssa.Parameter]bool
}

func newTnt(c *Ctx, sanitizers map[string]bool) *tnt {
	return &tnt{c: c, sanitizers: sanitizers, fnMemo: map[string]int{}, fnWhy: map[string]string{}, passParams: map[*ssa.Parameter]bool{}}
}

func isNumericOrBool(t types.Type) bool {
	b, ok := t.Underlying().(*types.Basic)
	return ok && b.Info()&(types.IsNumeric|types.IsBoolean) != 0
}

func isStringType(t types.Type) bool {
	b, ok := t.Underlying().(*types.Basic)
	return ok && b.Info()&types.IsString != 0
}

type tctx struct {
	seen map[ssa.Value]bool
	d    int
}

func (t *tnt) clean(v ssa.Value, at *ssa.BasicBlock) (bool, string) {
	return t.cl(v, at, &tctx{seen: map[ssa.Value]bool{}})
}

func (t *tnt) cl(v ssa.Value, at *ssa.BasicBlock, x *tctx) (bool, string) {
	if v == nil {
		return true, ""
	}
	if isNumericOrBool(v.Type()) {
		return true, ""
	}
	if x.seen[v] {
		return true, "" // cycle: greatest fixpoint
	}
	x.d++
	defer func() { x.d-- }()
	if x.d > 60 {
		return false, "analysis depth exceeded at " + v.Name()
	}
	x.seen[v] = true
	ok, why := t.base(v, at, x)
	if ok {
		return true, ""
	}
	if at != nil && t.guardedConst(v, at) {
		return true, ""
	}
	return false, why
}

func (t *tnt) pos(v ssa.Value) string { return t.c.pos(v.Pos()) }

func (t *tnt) base(v ssa.Value, at *ssa.BasicBlock, x *tctx) (bool, string) {
	switch y := v.(type) {
	case *ssa.Const:
		return true, ""
	case *ssa.Phi:
		for i, e := range y.Edges {
			if ok, why := t.cl(e, y.Block().Preds[i], x); !ok {
				return false, why
			}
		}
		return true, ""
	case *ssa.BinOp:
		if y.Op == token.ADD {
			if ok, why := t.cl(y.X, at, x); !ok {
				return false, why
			}
			return t.cl(y.Y, at, x)
		}
		return false, "operator result " + y.Name()
	case *ssa.MakeInterface:
		return t.cl(y.X, at, x)
	case *ssa.ChangeType:
		return t.cl(y.X, at, x)
	case *ssa.Convert:
		if isNumericOrBool(y.X.Type()) {
			return true, ""
		}
		return t.cl(y.X, at, x)
	case *ssa.Slice:
		if isStringType(y.X.Type()) {
			return t.cl(y.X, at, x)
		}
		return t.sliceClean(y, at, x)
	case *ssa.Extract:
		if call, ok := y.Tuple.(*ssa.Call); ok {
			return t.callClean(call, y.Index, at, x)
		}
		return false, "tuple element (map lookup / range / type assertion) at " + t.pos(y)
	case *ssa.Call:
		return t.callClean(y, 0, at, x)
	case *ssa.Index:
		return t.sliceClean(y.X, at, x)
	case *ssa.Lookup:
		if isStringType(y.X.Type()) {
			return t.cl(y.X, at, x)
		}
		return false, "map element at " + t.pos(y)
	case *ssa.UnOp:
		if y.Op != token.MUL {
			return false, "operator result"
		}
		switch a := y.X.(type) {
		case *ssa.Alloc:
			for _, r := range refs(a) {
				if st, ok := r.(*ssa.Store); ok && st.Addr == ssa.Value(a) {
					if ok, why := t.cl(st.Val, st.Block(), x); !ok {
						return false, why
					}
				}
			}
			return true, ""
		case *ssa.IndexAddr:
			return t.sliceClean(a.X, at, x)
		case *ssa.FieldAddr:
			_, f, _ := fieldOf(a)
			return false, "struct field ." + f + " (caller-controlled) read at " + t.pos(y)
		case *ssa.Global:
			return false, "package variable " + a.Name()
		case *ssa.FreeVar:
			// a variable captured by reference: the cell lives in the enclosing function; every store to it, there and
			// in sibling closures, must be clean
			if cell := capturedCell(a); cell != nil {
				for _, r := range refs(cell) {
					if st, ok := r.(*ssa.Store); ok && st.Addr == ssa.Value(cell) {
						if ok, why := t.cl(st.Val, st.Block(), x); !ok {
							return false, "captured variable " + a.Name() + ": " + why
						}
					}
				}
				// stores made through the capture in other closures of the same parent
				dirty := ""
				for _, sib := range a.Parent().Parent().AnonFuncs {
					for i, fv := range sib.FreeVars {
						if i >= len(sib.FreeVars) || capturedCell(fv) != cell {
							continue
						}
						for _, r := range refs(fv) {
							if st, ok := r.(*ssa.Store); ok && st.Addr == ssa.Value(fv) {
								if ok, why := t.cl(st.Val, st.Block(), x); !ok {
									dirty = why
								}
							}
						}
					}
				}
				if dirty != "" {
					return false, "captured variable " + a.Name() + ": " + dirty
				}
				return true, ""
			}
			return false, "captured variable " + a.Name()
		}
		return false, "indirect load at " + t.pos(y)
	case *ssa.Parameter:
		if t.passParams[y] {
			return true, ""
		}
		return false, "parameter " + y.Name() + " of " + fnKey(y.Parent())
	case *ssa.TypeAssert:
		return false, "type-asserted dynamic value at " + t.pos(y)
	}
	return false, fmt.Sprintf("%T %s", v, v.Name())
}

var taintPreserving = map[string]bool{
	"strings.ToUpper": true, "strings.ToLower": true, "strings.TrimSpace": true, "strings.Trim": true, "strings.TrimPrefix": true,
	"strings.TrimSuffix": true, "strings.TrimLeft": true, "strings.TrimRight": true, "strings.Title": true, "strings.Clone": true,
}

var alwaysClean = map[string]bool{
	"strconv.Itoa": true, "strconv.FormatInt": true, "strconv.FormatUint": true, "strconv.FormatBool": true, "strconv.FormatFloat": true,
}

func (t *tnt) callClean(call *ssa.Call, idx int, at *ssa.BasicBlock, x *tctx) (bool, string) {
	name := callName(call)
	args := call.Call.Args
	switch {
	case t.sanitizers[name]:
		return true, ""
	case alwaysClean[name]:
		return true, ""
	case name == "fmt.Sprintf":
		return t.sprintfClean(args[0], args[1], call.Block(), x)
	case name == "strings.Join":
		if ok, why := t.sliceClean(args[0], call.Block(), x); !ok {
			return false, why
		}
		return t.cl(args[1], call.Block(), x)
	case name == "strings.Repeat":
		return t.cl(args[0], call.Block(), x)
	case name == "strings.Builder.String":
		return t.builderClean(args[0], x)
	case taintPreserving[name]:
		return t.cl(args[0], call.Block(), x)
	case name == "strings.Replace" || name == "strings.ReplaceAll":
		for _, a := range args[:3] {
			if ok, why := t.cl(a, call.Block(), x); !ok {
				return false, why
			}
		}
		return true, ""
	}
	if sf := call.Call.StaticCallee(); sf != nil && len(sf.Blocks) > 0 && sf.Pkg != nil && strings.HasPrefix(sf.Pkg.Pkg.Path(), modPath) {
		return t.returnsClean(sf, idx)
	}
	if name == "" {
		name = "dynamic call"
	}
	return false, "result of " + short(name) + " at " + t.c.pos(call.Pos())
}

// returnsClean: result idx of fn is clean on every return, with parameters tainted.
func (t *tnt) returnsClean(fn *ssa.Function, idx int) (bool, string) {
	key := fmt.Sprintf("%s|%d", fn.String(), idx)
	switch t.fnMemo[key] {
	case 1, 2:
		return true, ""
	case 3:
		return false, t.fnWhy[key]
	}
	t.fnMemo[key] = 1
	t.c.touched(fn)
	res := true
	why := ""
	eachInstr(fn, func(b *ssa.BasicBlock, _ int, ins ssa.Instruction) {
		r, ok := ins.(*ssa.Return)
		if !ok || !res || idx >= len(r.Results) {
			return
		}
		v := retVals(r)[idx]
		var ok2 bool
		var w string
		if _, isSl := v.Type().Underlying().(*types.Slice); isSl {
			ok2, w = t.sliceClean(v, b, &tctx{seen: map[ssa.Value]bool{}})
		} else {
			ok2, w = t.clean(v, b)
		}
		if !ok2 {
			res = false
			why = "via " + fnKey(fn) + ": " + w
		}
	})
	if res {
		t.fnMemo[key] = 2
	} else {
		t.fnMemo[key] = 3
		t.fnWhy[key] = why
	}
	return res, why
}

// varargs extracts the element values of a varargs slice built at the call site.
func varargs(v ssa.Value) ([]ssa.Value, bool) {
	if isNilConst(v) {
		return nil, true
	}
	sl, ok := v.(*ssa.Slice)
	if !ok {
		return nil, false
	}
	al, ok := sl.X.(*ssa.Alloc)
	if !ok {
		return nil, false
	}
	arr, ok := al.Type().(*types.Pointer).Elem().Underlying().(*types.Array)
	if !ok {
		return nil, false
	}
	out := make([]ssa.Value, arr.Len())
	for _, r := range refs(al) {
		ia, ok := r.(*ssa.IndexAddr)
		if !ok {
			continue
		}
		i, ok := constInt(ia.Index)
		if !ok {
			return nil, false
		}
		for _, rr := range refs(ia) {
			if st, ok := rr.(*ssa.Store); ok && st.Addr == ssa.Value(ia) {
				out[i] = st.Val
			}
		}
	}
	return out, true
}

func (t *tnt) sprintfClean(format, args ssa.Value, at *ssa.BasicBlock, x *tctx) (bool, string) {
	f, ok := constString(format)
	if !ok {
		if ok, why := t.cl(format, at, x); !ok {
			return false, "non-constant format: " + why
		}
		return false, "non-constant format string"
	}
	vals, ok := varargs(args)
	if !ok {
		if !strings.Contains(strings.ReplaceAll(f, "%%", ""), "%") {
			return true, ""
		}
		return false, "format arguments passed as an opaque slice"
	}
	ai := 0
	for i := 0; i < len(f); i++ {
		if f[i] != '%' {
			continue
		}
		i++
		if i < len(f) && f[i] == '%' {
			continue
		}
		for i < len(f) && strings.ContainsRune("+-# 0123456789.", rune(f[i])) {
			i++
		}
		if i >= len(f) {
			break
		}
		verb := f[i]
		if verb == '[' || verb == '*' {
			return false, "indexed/star format verbs not analysed"
		}
		if ai >= len(vals) {
			break
		}
		a := vals[ai]
		ai++
		if a == nil {
			continue
		}
		inner := a
		if mi, ok := a.(*ssa.MakeInterface); ok {
			inner = mi.X
		}
		if isNumericOrBool(inner.Type()) {
			continue
		}
		if ok, why := t.cl(inner, a.(ssa.Instruction).Block(), x); !ok {
			return false, fmt.Sprintf("%%%c argument %d: %s", verb, ai, why)
		}
	}
	return true, ""
}

func (t *tnt) builderClean(recv ssa.Value, x *tctx) (bool, string) {
	al, ok := recv.(*ssa.Alloc)
	if !ok {
		return false, "strings.Builder that is not a local variable"
	}
	for _, r := range refs(al) {
		switch u := r.(type) {
		case *ssa.Call:
			n := callName(u)
			switch n {
			case "strings.Builder.WriteString":
				if ok, why := t.cl(u.Call.Args[1], u.Block(), x); !ok {
					return false, why
				}
			case "strings.Builder.WriteByte", "strings.Builder.WriteRune":
				if _, isC := u.Call.Args[1].(*ssa.Const); !isC {
					return false, "non-constant byte written to builder"
				}
			case "strings.Builder.String", "strings.Builder.Len", "strings.Builder.Grow", "strings.Builder.Reset", "strings.Builder.Cap":
			default:
				return false, "builder passed to " + short(n)
			}
		case *ssa.MakeInterface:
			for _, rr := range refs(u) {
				call, ok := rr.(*ssa.Call)
				if !ok || callName(call) != "fmt.Fprintf" {
					return false, "builder escapes as io.Writer"
				}
				if ok, why := t.sprintfClean(call.Call.Args[1], call.Call.Args[2], call.Block(), x); !ok {
					return false, why
				}
			}
		case *ssa.DebugRef:
		default:
			return false, fmt.Sprintf("builder used by %T", r)
		}
	}
	return true, ""
}

// sliceClean: every element that can be in slice v is clean.
func (t *tnt) sliceClean(v ssa.Value, at *ssa.BasicBlock, x *tctx) (bool, string) {
	if x.seen[v] {
		return true, ""
	}
	x.seen[v] = true
	x.d++
	defer func() { x.d-- }()
	if x.d > 60 {
		return false, "analysis depth exceeded"
	}
	storesInto := func(base ssa.Value) (bool, string) {
		for _, r := range refs(base) {
			if ia, ok := r.(*ssa.IndexAddr); ok && ia.X == base {
				for _, rr := range refs(ia) {
					if st, ok := rr.(*ssa.Store); ok && st.Addr == ssa.Value(ia) {
						if ok, why := t.cl(st.Val, st.Block(), x); !ok {
							return false, why
						}
					}
				}
			}
		}
		return true, ""
	}
	switch y := v.(type) {
	case *ssa.Const:
		return true, ""
	case *ssa.MakeSlice:
		return storesInto(y)
	case *ssa.Phi:
		for i, e := range y.Edges {
			if ok, why := t.sliceClean(e, y.Block().Preds[i], x); !ok {
				return false, why
			}
		}
		// stores through the phi itself
		return storesInto(y)
	case *ssa.Slice:
		if al, ok := y.X.(*ssa.Alloc); ok {
			// array-backed literal / varargs
			for _, r := range refs(al) {
				if ia, ok := r.(*ssa.IndexAddr); ok {
					for _, rr := range refs(ia) {
						if st, ok := rr.(*ssa.Store); ok && st.Addr == ssa.Value(ia) {
							if ok, why := t.cl(st.Val, st.Block(), x); !ok {
								return false, why
							}
						}
					}
				}
			}
			return true, ""
		}
		return t.sliceClean(y.X, at, x)
	case *ssa.Call:
		n := callName(y)
		if n == "builtin.append" {
			if ok, why := t.sliceClean(y.Call.Args[0], y.Block(), x); !ok {
				return false, why
			}
			if len(y.Call.Args) > 1 {
				if ok, why := t.sliceClean(y.Call.Args[1], y.Block(), x); !ok {
					return false, why
				}
			}
			return storesInto(y)
		}
		if t.sanitizers[n] {
			return true, ""
		}
		if sf := y.Call.StaticCallee(); sf != nil && len(sf.Blocks) > 0 && sf.Pkg != nil && strings.HasPrefix(sf.Pkg.Pkg.Path(), modPath) {
			return t.returnsClean(sf, 0)
		}
		return false, "slice returned by " + short(n) + " at " + t.c.pos(y.Pos())
	case *ssa.Extract:
		if call, ok := y.Tuple.(*ssa.Call); ok {
			n := callName(call)
			if t.sanitizers[n] {
				return true, ""
			}
			if sf := call.Call.StaticCallee(); sf != nil && len(sf.Blocks) > 0 && sf.Pkg != nil && strings.HasPrefix(sf.Pkg.Pkg.Path(), modPath) {
				return t.returnsClean(sf, y.Index)
			}
			return false, "slice returned by " + short(n)
		}
		return false, "tuple element slice"
	case *ssa.UnOp:
		if al, ok := y.X.(*ssa.Alloc); ok && y.Op == token.MUL {
			for _, r := range refs(al) {
				if st, ok := r.(*ssa.Store); ok && st.Addr == ssa.Value(al) {
					if ok, why := t.sliceClean(st.Val, st.Block(), x); !ok {
						return false, why
					}
				}
			}
			return true, ""
		}
		if fa, ok := y.X.(*ssa.FieldAddr); ok {
			_, f, _ := fieldOf(fa)
			return false, "slice field ." + f + " (caller-controlled)"
		}
		return false, "slice loaded indirectly"
	case *ssa.Parameter:
		if t.passParams[y] {
			return true, ""
		}
		return false, "slice parameter " + y.Name() + " of " + fnKey(y.Parent())
	}
	return false, fmt.Sprintf("slice from %T", v)
}

// guardedConst: block `at` is unreachable from the entry of v's function once every edge that
// establishes v ∈ {constants} is deleted: `v == "c"` true edge / `v != "c"` false edge, and the
// true edge of a membership lookup m[v] where m is a map literal with constant keys (local, or a
// package-level variable initialised by a literal and never written elsewhere).
func (t *tnt) guardedConst(v ssa.Value, at *ssa.BasicBlock) bool {
	fn := at.Parent()
	if len(fn.Blocks) == 0 {
		return false
	}
	establishes := func(b *ssa.BasicBlock, si int) bool {
		iff := ifOf(b)
		if iff == nil {
			return false
		}
		for _, f := range eqFacts(iff.Cond, si == 0) {
			if (f.x == v && isConstVal(f.y)) || (f.y == v && isConstVal(f.x)) {
				return true
			}
		}
		// membership lookups
		cond := iff.Cond
		truth := si == 0
		for {
			if u, ok := cond.(*ssa.UnOp); ok && u.Op == token.NOT {
				cond = u.X
				truth = !truth
				continue
			}
			break
		}
		if lk, ok := cond.(*ssa.Lookup); ok && truth && !lk.CommaOk && lk.Index == v && t.literalSet(lk.X) {
			return true
		}
		// a predicate of the module that answers true only for members of a constant set (`isValidOperator(op)`)
		if call, ok := cond.(*ssa.Call); ok && truth && len(call.Call.Args) == 1 && call.Call.Args[0] == v {
			if sf := call.Call.StaticCallee(); sf != nil && t.membershipPredicate(sf) {
				return true
			}
		}
		return false
	}
	any := false
	for _, b := range fn.Blocks {
		for si := range b.Succs {
			if establishes(b, si) {
				any = true
			}
		}
	}
	if !any {
		return false
	}
	q := &pathQuery{fn: fn, cutEdge: establishes, target: func(ins ssa.Instruction) bool { return ins.Block() == at }}
	hit, _ := q.fromEntry()
	if hit != nil {
		return false
	}
	// `at` with no instructions cannot be matched by target; treat empty blocks conservatively
	return len(at.Instrs) > 0
}

func isConstVal(v ssa.Value) bool { _, ok := v.(*ssa.Const); return ok }

// membershipPredicate: fn(s string) bool of the module returns anything other than constant false only on paths
// that established s ∈ {constants}.
func (t *tnt) membershipPredicate(fn *ssa.Function) bool {
	if t.memberPred == nil {
		t.memberPred = map[*ssa.Function]int{}
	}
	switch t.memberPred[fn] {
	case 1:
		return true
	case 2:
		return false
	}
	t.memberPred[fn] = 2
	if fn.Pkg == nil || !strings.HasPrefix(fn.Pkg.Pkg.Path(), modPath) || len(fn.Params) != 1 || fn.Signature.Results().Len() != 1 || len(fn.Blocks) == 0 {
		return false
	}
	if bt, ok := fn.Signature.Results().At(0).Type().Underlying().(*types.Basic); !ok || bt.Kind() != types.Bool {
		return false
	}
	if bt, ok := fn.Params[0].Type().Underlying().(*types.Basic); !ok || bt.Kind() != types.String {
		return false
	}
	ok, n := true, 0
	eachInstr(fn, func(b *ssa.BasicBlock, _ int, ins ssa.Instruction) {
		r, isRet := ins.(*ssa.Return)
		if !isRet {
			return
		}
		n++
		var acceptable func(v ssa.Value, blk *ssa.BasicBlock, d int) bool
		acceptable = func(v ssa.Value, blk *ssa.BasicBlock, d int) bool {
			if d > 6 {
				return false
			}
			if isConstBool(v, false) {
				return true
			}
			switch x := v.(type) {
			case *ssa.BinOp: // s == "c"
				if x.Op == token.EQL && ((x.X == ssa.Value(fn.Params[0]) && isConstVal(x.Y)) || (x.Y == ssa.Value(fn.Params[0]) && isConstVal(x.X))) {
					return true
				}
			case *ssa.Lookup: // literalSet[s]
				if !x.CommaOk && x.Index == ssa.Value(fn.Params[0]) && t.literalSet(x.X) {
					return true
				}
			case *ssa.Phi:
				for i, e := range x.Edges {
					pred := x.Block().Preds[i]
					// a constant true carried by the edge on which `s == "c"` held
					if isConstBool(e, true) {
						if iff := ifOf(pred); iff != nil {
							estab := false
							for si, sb := range pred.Succs {
								if sb != x.Block() || (len(pred.Succs) == 2 && pred.Succs[0] == pred.Succs[1]) {
									continue
								}
								for _, f := range eqFacts(iff.Cond, si == 0) {
									if (f.x == ssa.Value(fn.Params[0]) && isConstVal(f.y)) || (f.y == ssa.Value(fn.Params[0]) && isConstVal(f.x)) {
										estab = true
									}
								}
							}
							if estab {
								continue
							}
						}
					}
					if !acceptable(e, pred, d+1) {
						return false
					}
				}
				return true
			}
			return t.guardedConst(fn.Params[0], blk)
		}
		if !acceptable(retVals(r)[0], b, 0) {
			ok = false
		}
	})
	if ok && n > 0 {
		t.memberPred[fn] = 1
		return true
	}
	return false
}

// literalSet: m is a map whose key set is a compile-time literal.
func (t *tnt) literalSet(m ssa.Value) bool {
	switch y := m.(type) {
	case *ssa.MakeMap:
		for _, r := range refs(y) {
			switch u := r.(type) {
			case *ssa.MapUpdate:
				if !isConstVal(u.Key) {
					return false
				}
			case *ssa.Lookup, *ssa.DebugRef:
			default:
				return false
			}
		}
		return true
	case *ssa.UnOp:
		g, ok := y.X.(*ssa.Global)
		if !ok || y.Op != token.MUL {
			return false
		}
		// written only by the package initialiser with a literal
		okAll := true
		nStores := 0
		for _, fn := range t.c.allFuncsOfPkg(g.Pkg) {
			eachInstr(fn, func(_ *ssa.BasicBlock, _ int, ins ssa.Instruction) {
				if st, ok := ins.(*ssa.Store); ok && st.Addr == ssa.Value(g) {
					nStores++
					if fn.Name() != "init" || !t.literalSet(st.Val) {
						okAll = false
					}
				}
				// map updates through loads of the global outside init
				if mu, ok := ins.(*ssa.MapUpdate); ok {
					if u, ok := mu.Map.(*ssa.UnOp); ok && u.X == ssa.Value(g) {
						okAll = false
					}
				}
			})
		}
		return okAll && nStores == 1
	}
	return false
}

func (c *Ctx) allFuncsOfPkg(p *ssa.Package) []*ssa.Function {
	rel := strings.TrimPrefix(p.Pkg.Path(), modPath+"/")
	out := c.srcFuncs(rel)
	if init := p.Func("init"); init != nil {
		out = append(out, init)
	}
	return out
}

// capturedCell: the Alloc in the enclosing function that free variable fv refers to (capture by reference), or nil.
func capturedCell(fv *ssa.FreeVar) *ssa.Alloc {
	fn := fv.Parent()
	if fn == nil || fn.Parent() == nil {
		return nil
	}
	idx := -1
	for i, v := range fn.FreeVars {
		if v == fv {
			idx = i
		}
	}
	if idx < 0 {
		return nil
	}
	var cell *ssa.Alloc
	eachInstr(fn.Parent(), func(_ *ssa.BasicBlock, _ int, ins ssa.Instruction) {
		if mc, ok := ins.(*ssa.MakeClosure); ok && mc.Fn == ssa.Value(fn) && idx < len(mc.Bindings) {
			if al, ok := mc.Bindings[idx].(*ssa.Alloc); ok {
				cell = al
			}
		}
	})
	return cell
}
