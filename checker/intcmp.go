package main

// INTCMP: "integers are compared and added as integers". GlyphLang's int is a 64-bit integer; a float64 has 53 bits
// of mantissa. An engine that routes int-int ordering or arithmetic through float64 answers wrongly for values above
// 2^53 (ids, nanosecond timestamps) - and differently from the other engine. Necessary condition decided here: for
// every ordering / additive / multiplicative operator arm of an engine's operator dispatch, the code the arm runs
// (the handler and its same-package callees, two levels) contains that operation on two *integer payloads* - values
// obtained from a type assertion (or the Val field of an asserted value struct) without any numeric conversion.

import (
	"go/ast"
	"go/token"
	"go/types"

	"golang.org/x/tools/go/ssa"
)

type opClass int

const (
	opOrdering opClass = iota
	opAdd
	opSub
	opMul
)

func isIntKind(t types.Type) bool {
	b, ok := t.Underlying().(*types.Basic)
	return ok && b.Info()&types.IsInteger != 0
}

// intPayload: v is an integer that came out of a dynamically typed value as it is (no Convert on the way).
func intPayload(v ssa.Value, d int) bool {
	if d > 8 || !isIntKind(v.Type()) {
		return false
	}
	switch x := v.(type) {
	case *ssa.TypeAssert:
		return true
	case *ssa.Extract:
		if ta, ok := x.Tuple.(*ssa.TypeAssert); ok {
			return isIntKind(ta.AssertedType) && x.Index == 0
		}
	case *ssa.Field:
		return payloadStruct(x.X, d+1)
	case *ssa.UnOp:
		if x.Op == token.MUL {
			if fa, ok := x.X.(*ssa.FieldAddr); ok {
				// field of a spilled asserted struct
				if al, ok := fa.X.(*ssa.Alloc); ok {
					for _, r := range refs(al) {
						if st, ok := r.(*ssa.Store); ok && st.Addr == ssa.Value(al) && payloadStruct(st.Val, d+1) {
							return true
						}
					}
				}
			}
			if al, ok := x.X.(*ssa.Alloc); ok {
				for _, r := range refs(al) {
					if st, ok := r.(*ssa.Store); ok && st.Addr == ssa.Value(al) && intPayload(st.Val, d+1) {
						return true
					}
				}
			}
		}
	case *ssa.Phi:
		for _, e := range x.Edges {
			if !intPayload(e, d+1) {
				return false
			}
		}
		return len(x.Edges) > 0
	}
	return false
}

// payloadStruct: v is a struct value obtained by asserting a dynamically typed value (vm.IntValue).
func payloadStruct(v ssa.Value, d int) bool {
	if d > 8 {
		return false
	}
	switch x := v.(type) {
	case *ssa.TypeAssert:
		return true
	case *ssa.Extract:
		_, ok := x.Tuple.(*ssa.TypeAssert)
		return ok && x.Index == 0
	case *ssa.Phi:
		for _, e := range x.Edges {
			if !payloadStruct(e, d+1) {
				return false
			}
		}
		return len(x.Edges) > 0
	case *ssa.UnOp:
		if al, ok := x.X.(*ssa.Alloc); ok && x.Op == token.MUL {
			for _, r := range refs(al) {
				if st, ok := r.(*ssa.Store); ok && st.Addr == ssa.Value(al) && payloadStruct(st.Val, d+1) {
					return true
				}
			}
		}
	}
	return false
}

func hasIntOp(fn *ssa.Function, cls opClass, depth int, seen map[*ssa.Function]bool) bool {
	if fn == nil || seen[fn] || depth > 2 || len(fn.Blocks) == 0 {
		return false
	}
	seen[fn] = true
	found := false
	eachInstr(fn, func(_ *ssa.BasicBlock, _ int, ins ssa.Instruction) {
		if found {
			return
		}
		switch x := ins.(type) {
		case *ssa.BinOp:
			okTok := false
			switch cls {
			case opOrdering:
				okTok = x.Op == token.LSS || x.Op == token.LEQ || x.Op == token.GTR || x.Op == token.GEQ
			case opAdd:
				okTok = x.Op == token.ADD
			case opSub:
				okTok = x.Op == token.SUB
			case opMul:
				okTok = x.Op == token.MUL
			}
			if okTok && intPayload(x.X, 0) && intPayload(x.Y, 0) {
				found = true
			}
		case ssa.CallInstruction:
			if sf := staticFn(x); sf != nil && sf.Pkg == fn.Pkg {
				if hasIntOp(sf, cls, depth+1, seen) {
					found = true
				}
			}
		}
	})
	return found
}

// intOpAudit: the dispatch function `dispatch` of package rel switches over constants of pkgPath.typeName; table maps
// constant names to the operation class their arm must perform on integer payloads.
func intOpAudit(c *Ctx, rule, rel, dispatch, pkgPath, typeName string, table map[string]opClass, engine string) int {
	d := c.decl(rel, dispatch)
	p := c.pkg(rel)
	if d == nil || p == nil {
		c.undecided("%s: operator dispatch %s.%s not found", rule, rel, dispatch)
		return 0
	}
	n := 0
	seenConst := map[string]bool{}
	ast.Inspect(d, func(nd ast.Node) bool {
		sw, ok := nd.(*ast.SwitchStmt)
		if !ok || sw.Tag == nil {
			return true
		}
		if t := p.TypesInfo.TypeOf(sw.Tag); t == nil || !typeIs(t, pkgPath, typeName) {
			return true
		}
		for _, st := range sw.Body.List {
			cc := st.(*ast.CaseClause)
			for _, e := range cc.List {
				var id *ast.Ident
				switch x := e.(type) {
				case *ast.Ident:
					id = x
				case *ast.SelectorExpr:
					id = x.Sel
				}
				if id == nil {
					continue
				}
				cst, ok := p.TypesInfo.Uses[id].(*types.Const)
				if !ok {
					continue
				}
				cls, want := table[cst.Name()]
				if !want || seenConst[cst.Name()] {
					continue
				}
				seenConst[cst.Name()] = true
				// the handlers the arm calls
				var handlers []*ssa.Function
				for _, s := range cc.Body {
					ast.Inspect(s, func(m ast.Node) bool {
						call, ok := m.(*ast.CallExpr)
						if !ok {
							return true
						}
						var fid *ast.Ident
						switch f := call.Fun.(type) {
						case *ast.Ident:
							fid = f
						case *ast.SelectorExpr:
							fid = f.Sel
						}
						if fid != nil {
							if fo, ok := p.TypesInfo.Uses[fid].(*types.Func); ok {
								if sf := c.Prog.FuncValue(fo); sf != nil {
									handlers = append(handlers, sf)
								}
							}
						}
						return true
					})
				}
				n++
				ok2 := false
				for _, h := range handlers {
					if hasIntOp(h, cls, 0, map[*ssa.Function]bool{}) {
						ok2 = true
					}
				}
				// an arm that computes inline (no handler call): look in the dispatch function itself
				if len(handlers) == 0 {
					if sf := c.fn(rel, dispatch); sf != nil {
						ok2 = hasIntOp(sf, cls, 2, map[*ssa.Function]bool{})
					}
				}
				what := map[opClass]string{opOrdering: "ordered (< <= > >=)", opAdd: "added", opSub: "subtracted", opMul: "multiplied"}[cls]
				c.ob(rule, rel+"."+dispatch+"#arm:"+cst.Name()+"-integers-as-integers", cc.Pos(), ok2,
					"nothing the "+cst.Name()+" arm of the "+engine+" runs has two integer operands "+what+" as integers (both taken from the dynamic values without numeric conversion): int-int goes through float64, whose 53-bit mantissa merges neighbouring values above 2^53 - 9007199254740993 > 9007199254740992 is false, and the two engines disagree")
			}
		}
		return true
	})
	return n
}

// orderingKinds: the operand kinds (int, float, string) on which fn and its same-package callees (two levels)
// perform an ordering comparison of two non-constant values.
func orderingKinds(fn *ssa.Function, depth int, seen map[*ssa.Function]bool, out map[string]bool) {
	if fn == nil || seen[fn] || depth > 2 || len(fn.Blocks) == 0 {
		return
	}
	seen[fn] = true
	eachInstr(fn, func(_ *ssa.BasicBlock, _ int, ins ssa.Instruction) {
		switch x := ins.(type) {
		case *ssa.BinOp:
			if x.Op != token.LSS && x.Op != token.LEQ && x.Op != token.GTR && x.Op != token.GEQ {
				return
			}
			if _, isC := x.X.(*ssa.Const); isC {
				return
			}
			if _, isC := x.Y.(*ssa.Const); isC {
				return
			}
			if bt, ok := x.X.Type().Underlying().(*types.Basic); ok {
				switch {
				case bt.Info()&types.IsInteger != 0:
					if intPayload(x.X, 0) && intPayload(x.Y, 0) {
						out["int"] = true
					}
				case bt.Info()&types.IsFloat != 0:
					out["float"] = true
				case bt.Info()&types.IsString != 0:
					out["string"] = true
				}
			}
		case ssa.CallInstruction:
			if sf := staticFn(x); sf != nil && sf.Pkg == fn.Pkg {
				orderingKinds(sf, depth+1, seen, out)
			}
		}
	})
}

// armHandlers: the functions called from the arm of `dispatch`'s switch for the constant `cname`.
func armHandlers(c *Ctx, rel, dispatch, pkgPath, typeName, cname string) []*ssa.Function {
	d := c.decl(rel, dispatch)
	p := c.pkg(rel)
	var out []*ssa.Function
	if d == nil || p == nil {
		return nil
	}
	ast.Inspect(d, func(nd ast.Node) bool {
		sw, ok := nd.(*ast.SwitchStmt)
		if !ok || sw.Tag == nil {
			return true
		}
		if t := p.TypesInfo.TypeOf(sw.Tag); t == nil || !typeIs(t, pkgPath, typeName) {
			return true
		}
		for _, st := range sw.Body.List {
			cc := st.(*ast.CaseClause)
			match := false
			for _, e := range cc.List {
				var id *ast.Ident
				switch x := e.(type) {
				case *ast.Ident:
					id = x
				case *ast.SelectorExpr:
					id = x.Sel
				}
				if id != nil {
					if cst, ok := p.TypesInfo.Uses[id].(*types.Const); ok && cst.Name() == cname {
						match = true
					}
				}
			}
			if !match {
				continue
			}
			for _, s := range cc.Body {
				ast.Inspect(s, func(m ast.Node) bool {
					call, ok := m.(*ast.CallExpr)
					if !ok {
						return true
					}
					var fid *ast.Ident
					switch f := call.Fun.(type) {
					case *ast.Ident:
						fid = f
					case *ast.SelectorExpr:
						fid = f.Sel
					}
					if fid != nil {
						if fo, ok := p.TypesInfo.Uses[fid].(*types.Func); ok {
							if sf := c.Prog.FuncValue(fo); sf != nil {
								out = append(out, sf)
							}
						}
					}
					return true
				})
			}
		}
		return true
	})
	return out
}
