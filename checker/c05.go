package main

import (
	"go/token"
	"go/types"
	"strings"

	"golang.org/x/tools/go/ssa"
)

func init() {
	register(&propSpec{
		id: "C05", title: "Requests reach exactly the declared handler", run: runC05,
		notCovered:  "the specificity order of Match over all route tables and requests (value-level), segment splitting / escaping semantics of net/url, what http.ServeMux does before the dispatcher",
		assumptions: []string{"the dispatchers are cmd/glyph.createHandler's closure and pkg/server.Handler.ServeHTTP; route bodies are identified by the *ast.Route they were created from"},
	})
}

// routeFieldsIn collects the names of ast.Route fields (of any route value) that v's backward slice loads,
// following static calls into module functions (their returns).
func routeFieldsIn(v ssa.Value, depth int, out map[string]bool) {
	derivesFrom(v, func(x ssa.Value) bool {
		switch y := x.(type) {
		case *ssa.UnOp:
			if y.Op == token.MUL {
				if nt, f, ok := fieldOf(y.X); ok && nt != nil && nt.Obj().Name() == "Route" && nt.Obj().Pkg().Path() == astPath {
					out[f] = true
				}
			}
		case *ssa.Call:
			if sf := y.Call.StaticCallee(); sf != nil && depth < 3 && sf.Pkg != nil && strings.HasPrefix(sf.Pkg.Pkg.Path(), modPath) && len(sf.Blocks) > 0 {
				takesRoute := false
				for _, p := range sf.Params {
					if typeIs(p.Type(), astPath, "Route") {
						takesRoute = true
					}
				}
				if takesRoute {
					eachInstr(sf, func(_ *ssa.BasicBlock, _ int, ins ssa.Instruction) {
						if r, ok := ins.(*ssa.Return); ok {
							for _, rv := range retVals(r) {
								routeFieldsIn(rv, depth+1, out)
							}
						}
					})
				}
			}
		}
		return false
	})
}

func runC05(c *Ctx) {
	// ---- R1 key provenance
	c.rule("C05-R1", "TNT-style key provenance: every map in cmd/glyph that stores the result of Compiler.CompileRoute(r), and every lookup that feeds registerCompiledRoute, uses a key whose derivation reads both r.Method and r.Path (two routes that share a path but differ in method never share bytecode); a store into such a map lies behind the not-present edge of a lookup of the same key (of two declarations with one method and path the earlier keeps its code, as in the router)")
	n := 0
	for _, fn := range c.srcFuncs(glyphCmd) {
		eachInstr(fn, func(_ *ssa.BasicBlock, _ int, ins ssa.Instruction) {
			var key ssa.Value
			what := ""
			switch x := ins.(type) {
			case *ssa.MapUpdate:
				if derivesFrom(x.Value, func(v ssa.Value) bool {
					cl, ok := v.(*ssa.Call)
					return ok && callName(cl) == compilerPath+".Compiler.CompileRoute"
				}) {
					key, what = x.Key, "store"
				}
			case *ssa.Lookup:
				usedForReg := false
				var walk func(v ssa.Value, d int)
				walk = func(v ssa.Value, d int) {
					if d > 4 {
						return
					}
					for _, r := range refs(v) {
						if call, ok := r.(ssa.CallInstruction); ok && callName(call) == modPath+"/cmd/glyph.registerCompiledRoute" {
							usedForReg = true
						}
						if val, ok := r.(ssa.Value); ok {
							switch r.(type) {
							case *ssa.Extract, *ssa.Phi:
								walk(val, d+1)
							}
						}
					}
				}
				walk(x, 0)
				if usedForReg {
					key, what = x.Index, "lookup"
				}
			}
			if key == nil {
				return
			}
			n++
			fields := map[string]bool{}
			routeFieldsIn(key, 0, fields)
			c.ob("C05-R1", fnKey(fn)+"#compiled-bytecode-"+what+"-key-"+itoa(n), ins.Pos(), fields["Method"] && fields["Path"], "compiled bytecode is keyed without the route's method (or path): in compiled mode GET /x and POST /x run the same, last-compiled body")
			// two declarations of one method and path share the key: the router dispatches to the earlier one, so the
			// table must keep the earlier one's code - the store lies behind the not-present edge of a lookup of that key
			if mu, ok := ins.(*ssa.MapUpdate); ok {
				var oks []ssa.Value
				eachInstr(fn, func(_ *ssa.BasicBlock, _ int, x ssa.Instruction) {
					if lk, ok := x.(*ssa.Lookup); ok && lk.CommaOk && (lk.X == mu.Map || sameVal(lk.X, mu.Map)) {
						f2 := map[string]bool{}
						routeFieldsIn(lk.Index, 0, f2)
						if f2["Method"] && f2["Path"] {
							oks = append(oks, extractOf(lk, 1)...)
						}
					}
				})
				q := &pathQuery{fn: fn, target: func(x ssa.Instruction) bool { return x == ins }, cutEdge: func(b *ssa.BasicBlock, si int) bool {
					for _, o := range oks {
						if known, val := boolOnEdge(b, si, o); known && !val {
							return true
						}
					}
					return false
				}}
				hit, _ := q.fromEntry()
				c.ob("C05-R1", fnKey(fn)+"#earlier-declaration-keeps-its-bytecode-"+itoa(n), ins.Pos(), hit == nil && len(oks) > 0, "the bytecode table is overwritten when the same method and path are declared again: both registrations then run the later body, while the router (and the interpreter) give the route to the earlier declaration - whose auth, rate limit and input type guard a body they were not written for")
			}
		})
	}
	if n == 0 {
		c.info("C05-R1", "cmd/glyph#no-bytecode-table", token.NoPos, "no map keyed by route holds compiled bytecode (obligation vacuous)")
	}

	// ---- R2 404 runs nothing
	c.rule("C05-R2", "MPT: in each dispatcher the route handler (anything derived from the matched route) is invoked only on the err==nil edge of Router.Match, and from its err!=nil edge every path to return writes status 404")
	disp := []*ssa.Function{}
	if ch := c.mustFn("C05-R2", glyphCmd, "createHandler"); ch != nil {
		for _, cl := range innerClosures(ch) {
			if cl.Parent() == ch && len(cl.Params) == 2 {
				disp = append(disp, cl)
			}
		}
	}
	if sh := c.mustFn("C05-R2", serverPkg, "Handler.ServeHTTP"); sh != nil {
		disp = append(disp, sh)
	}
	for _, d := range disp {
		c.touched(d)
		var match *ssa.Call
		eachInstr(d, func(_ *ssa.BasicBlock, _ int, ins ssa.Instruction) {
			if cl, ok := ins.(*ssa.Call); ok && callName(cl) == serverPath+".Router.Match" {
				match = cl
			}
		})
		if match == nil {
			c.ob("C05-R2", fnKey(d)+"#router-match", d.Pos(), false, "dispatcher does not consult Router.Match")
			continue
		}
		// the method a request is matched under is the one on its request line: nothing a header says goes into it
		{
			fromHeader := func(v ssa.Value) bool {
				return derivesFrom(v, func(z ssa.Value) bool {
					cl, ok := z.(*ssa.Call)
					if !ok {
						return false
					}
					switch callName(cl) {
					case "net/http.Header.Get", "net/http.Header.Values", "net/url.Values.Get", "net/http.Request.FormValue", "net/http.Request.PostFormValue":
						return true
					}
					return false
				})
			}
			bad := len(match.Call.Args) > 1 && fromHeader(match.Call.Args[1])
			// ... nor is the request's Method field rewritten before the match
			for _, f := range withAnon(d) {
				eachInstr(f, func(_ *ssa.BasicBlock, _ int, ins ssa.Instruction) {
					if st, ok := ins.(*ssa.Store); ok && isStoreToField(st, "Request", "Method") {
						bad = true
					}
				})
			}
			c.ob("C05-R2", fnKey(d)+"#matched-under-the-method-of-the-request-line", match.Pos(), !bad, "the method handed to Router.Match can come from a header or query value (a method override applied to every request): a GET that carries the header runs the DELETE body declared for the same path, and a method with no declaration runs another method's body instead of answering 404")
		}
		errs := extractOf(match, 2)
		isHandlerCall := func(x ssa.Instruction) bool {
			cl, ok := x.(*ssa.Call)
			return ok && !cl.Call.IsInvoke() && cl.Call.StaticCallee() == nil && typeIs(cl.Call.Value.Type(), serverPath, "RouteHandler")
		}
		q := &pathQuery{fn: d, target: isHandlerCall, cutEdge: func(b *ssa.BasicBlock, si int) bool {
			for _, e := range errs {
				if nilOnEdge(b, si, e) {
					return true
				}
			}
			return false
		}}
		hit, path := q.fromEntry()
		c.ob("C05-R2", fnKey(d)+"#handler-only-after-successful-match", match.Pos(), hit == nil && len(errs) > 0, "a route handler can run although Router.Match did not succeed", c.blockPath(path)...)
		for _, e := range errs {
			for _, b := range d.Blocks {
				for si, s := range b.Succs {
					if !nonNilOnEdge(b, si, e) {
						continue
					}
					q2 := &pathQuery{fn: d, target: isReturn, stop: func(x ssa.Instruction) bool {
						call, ok := x.(ssa.CallInstruction)
						if !ok {
							return false
						}
						for _, a := range call.Common().Args {
							if k, ok := constInt(a); ok && k == 404 {
								return true
							}
						}
						return false
					}}
					hit2, path2 := q2.from(s, 0)
					c.ob("C05-R2", fnKey(d)+"#no-match-answers-404", match.Pos(), hit2 == nil, "a request matching no declaration does not get a 404", c.blockPath(path2)...)
					q3 := &pathQuery{fn: d, target: isHandlerCall}
					hit3, _ := q3.from(s, 0)
					c.ob("C05-R2", fnKey(d)+"#no-match-runs-nothing", match.Pos(), hit3 == nil, "a handler is reachable from the no-match edge")
				}
			}
		}
		// the handler invoked derives from the matched route
		eachInstr(d, func(_ *ssa.BasicBlock, _ int, ins ssa.Instruction) {
			if !isHandlerCall(ins) {
				return
			}
			ok := false
			for _, r := range extractOf(match, 0) {
				if derivesFrom(ins.(*ssa.Call).Call.Value, func(v ssa.Value) bool { return v == r }) {
					ok = true
				}
			}
			c.ob("C05-R2", fnKey(d)+"#runs-the-matched-route", ins.Pos(), ok, "the handler invoked does not derive from the route returned by Router.Match")
		})
		// path parameters bound from Match's result
		okParams := false
		eachInstr(d, func(_ *ssa.BasicBlock, _ int, ins ssa.Instruction) {
			if st, ok := ins.(*ssa.Store); ok && isStoreToField(st, "Context", "PathParams") {
				for _, p := range extractOf(match, 1) {
					if derivesFrom(st.Val, func(v ssa.Value) bool { return v == p }) {
						okParams = true
					}
				}
			}
		})
		c.ob("C05-R2", fnKey(d)+"#path-params-from-match", match.Pos(), okParams, "Context.PathParams is not filled from Router.Match's parameter bindings")
	}

	// ---- R3 registration fidelity
	c.rule("C05-R3", "TBL: every server.Route built in cmd/glyph from an *ast.Route r sets Method: convertHTTPMethod(r.Method) and Path: r.Path for the same r that produced its Handler; convertHTTPMethod has a distinct arm for every ast.HttpMethod constant that a plain route can carry (WebSocket and SSE are registered elsewhere / served as GET: reasoned exceptions)")
	for _, fn := range c.srcFuncs(glyphCmd) {
		eachInstr(fn, func(_ *ssa.BasicBlock, _ int, ins ssa.Instruction) {
			al, ok := ins.(*ssa.Alloc)
			if !ok || al.Comment != "complit" || !typeIs(al.Type(), serverPath, "Route") {
				return
			}
			stores := map[string]ssa.Value{}
			for _, r := range refs(al) {
				if fa, ok := r.(*ssa.FieldAddr); ok {
					_, f, _ := fieldOf(fa)
					for _, rr := range refs(fa) {
						if st, ok := rr.(*ssa.Store); ok && st.Addr == ssa.Value(fa) {
							stores[f] = st.Val
						}
					}
				}
			}
			var src ssa.Value
			if h := stores["Handler"]; h != nil {
				src, _ = handlerSourceRoute(c, "C05-R3", fn, h)
			}
			if src == nil {
				return
			}
			fromSrcField := func(v ssa.Value, field string) bool {
				return v != nil && derivesFrom(v, func(x ssa.Value) bool {
					u, ok := x.(*ssa.UnOp)
					if !ok || u.Op != token.MUL {
						return false
					}
					fa, ok := u.X.(*ssa.FieldAddr)
					if !ok || fa.X != src {
						return false
					}
					_, f, _ := fieldOf(fa)
					return f == field
				})
			}
			c.ob("C05-R3", fnKey(fn)+"#server.Route.Path-from-declaration", al.Pos(), fromSrcField(stores["Path"], "Path"), "the registered path is not the declared route's path")
			mOK := fromSrcField(stores["Method"], "Method") && derivesFrom(stores["Method"], func(x ssa.Value) bool {
				cl, ok := x.(*ssa.Call)
				return ok && callName(cl) == modPath+"/cmd/glyph.convertHTTPMethod"
			})
			c.ob("C05-R3", fnKey(fn)+"#server.Route.Method-from-declaration", al.Pos(), mOK, "the registered method is not convertHTTPMethod(declared route's method)")
		})
	}
	c.floor("C05-R3", 4)
	if d := c.decl(glyphCmd, "convertHTTPMethod"); d != nil {
		for _, cov := range switchConstCoverage(c, glyphCmd, d, astPath, "HttpMethod") {
			var miss []string
			for _, m := range cov.missing {
				if m != "WebSocket" && m != "SSE" {
					miss = append(miss, m)
				}
			}
			c.ob("C05-R3", "cmd/glyph.convertHTTPMethod#arm-per-method", cov.pos, len(miss) == 0, "no arm for "+strings.Join(miss, ",")+": routes declared with that method are registered under the default (GET)")
		}
		// distinct results per arm
		if f := c.fn(glyphCmd, "convertHTTPMethod"); f != nil {
			seen := map[string]int{}
			eachInstr(f, func(_ *ssa.BasicBlock, _ int, ins ssa.Instruction) {
				if r, ok := ins.(*ssa.Return); ok {
					if s, ok := constString(stripConv(retVals(r)[0])); ok {
						seen[s]++
					}
				}
			})
			dup := ""
			for s, k := range seen {
				if k > 1 && s != "GET" {
					dup = s
				}
			}
			c.ob("C05-R3", "cmd/glyph.convertHTTPMethod#arms-map-to-distinct-methods", f.Pos(), dup == "" && seen["GET"] <= 2, "two declared methods are registered under the same HTTP method "+dup)
		}
	}

	// ---- R4 router discipline
	c.rule("C05-R4", "WCS/MPT: Router.routes is written only by RegisterRoute, which appends the new node at the end (declaration order is the tie-break) and never sorts; Match returns a route only through the matched edge of matchRoute, scans every candidate, and replaces its best candidate only on a strict fewer-parameters comparison (equal specificity keeps the earlier declaration)")
	for _, fn := range c.srcFuncs(serverPkg) {
		eachInstr(fn, func(_ *ssa.BasicBlock, _ int, ins ssa.Instruction) {
			w := false
			switch x := ins.(type) {
			case *ssa.MapUpdate:
				w = loadedFromField(x.Map, "Router", "routes")
			case *ssa.Store:
				w = isStoreToField(x, "Router", "routes") && !isFreshAlloc(x.Addr)
				if ia, ok := x.Addr.(*ssa.IndexAddr); ok {
					// element store into a slice that is itself an element of the table
					base := ia.X
					if e, ok := base.(*ssa.Extract); ok {
						base = e.Tuple
					}
					if lk, ok := base.(*ssa.Lookup); ok && loadedFromField(lk.X, "Router", "routes") {
						w = true
					}
				}
			case ssa.CallInstruction:
				if n := callName(x); (strings.HasPrefix(n, "sort.") || strings.HasPrefix(n, "slices.Sort")) && !strings.Contains(n, "Stable") {
					for _, a := range x.Common().Args {
						if derivesFrom(a, func(v ssa.Value) bool { return loadedFromField(v, "Router", "routes") }) {
							c.ob("C05-R4", fnKey(fn)+"#sorts-route-table", ins.Pos(), false, "the route table is re-ordered by a sort that is not stable: equal-specificity matches no longer go to the earlier declaration (sort.Slice happens to keep the order of up to 12 elements, so it shows only from the 13th route of a method on)")
						}
					}
				}
			}
			if !w {
				return
			}
			okW := fnKey(fn) == serverPkg+".Router.RegisterRoute"
			c.ob("C05-R4", fnKey(fn)+"#writes-Router.routes", ins.Pos(), okW, "Router.routes is modified outside RegisterRoute")
			if mu, ok := ins.(*ssa.MapUpdate); ok && okW {
				// value is make(...) or append(existing, node)
				okApp := false
				switch v := mu.Value.(type) {
				case *ssa.MakeSlice:
					okApp = true
				case *ssa.Slice:
					_, okApp = v.X.(*ssa.Alloc) // empty literal
				case *ssa.Call:
					if callName(v) == "builtin.append" && derivesFrom(v.Call.Args[0], func(y ssa.Value) bool { return loadedFromField(y, "Router", "routes") }) {
						okApp = true
					}
				}
				c.ob("C05-R4", fnKey(fn)+"#appends-in-declaration-order", ins.Pos(), okApp, "RegisterRoute does not append the new route at the end of its method's table")
			}
		})
	}
	if m := matchLoopFn(c, c.mustFn("C05-R4", serverPkg, "Router.Match")); m != nil {
		var mrs []ssa.Value
		eachInstr(m, func(_ *ssa.BasicBlock, _ int, ins ssa.Instruction) {
			if cl, ok := ins.(*ssa.Call); ok && callName(cl) == serverPath+".matchRoute" {
				mrs = append(mrs, extractOf(cl, 1)...)
			}
		})
		matchedCut := func(b *ssa.BasicBlock, si int) bool {
			for _, v := range mrs {
				if known, val := boolOnEdge(b, si, v); known && val {
					return true
				}
			}
			return false
		}
		// every candidate that can become the returned route is assigned only on matchRoute's matched edge
		okSrc := len(mrs) > 0
		var badPos token.Pos
		eachInstr(m, func(_ *ssa.BasicBlock, _ int, ins ssa.Instruction) {
			r, ok := ins.(*ssa.Return)
			if !ok || isNilConst(stripConv(retVals(r)[0])) {
				return
			}
			seen := map[ssa.Value]bool{}
			var walk func(v ssa.Value, at *ssa.BasicBlock)
			walk = func(v ssa.Value, at *ssa.BasicBlock) {
				if seen[v] {
					return
				}
				seen[v] = true
				switch x := v.(type) {
				case *ssa.Phi:
					for i, e := range x.Edges {
						walk(e, x.Block().Preds[i])
					}
				case *ssa.UnOp:
					if fa, ok := x.X.(*ssa.FieldAddr); ok {
						walk(fa.X, at)
						return
					}
					walk(x.X, at)
				case *ssa.Const:
				default:
					// a concrete candidate (range element, lookup result, …) flowing in at block `at`
					q := &pathQuery{fn: m, cutEdge: matchedCut, target: func(i ssa.Instruction) bool { return i.Block() == at }}
					if h, _ := q.fromEntry(); h != nil {
						okSrc = false
						badPos = v.Pos()
					}
				}
			}
			walk(retVals(r)[0], r.Block())
		})
		if badPos == token.NoPos {
			badPos = m.Pos()
		}
		c.ob("C05-R4", serverPkg+".Router.Match#returns-only-matchRoute-hits", badPos, okSrc, "Match can return a route that matchRoute did not accept (a shortcut comparison decides instead of segment matching)")
		// strict comparison
		found := false
		okStrict := false
		onMaps := false
		for _, b := range m.Blocks {
			iff := ifOf(b)
			if iff == nil {
				continue
			}
			bo, ok := iff.Cond.(*ssa.BinOp)
			if !ok {
				continue
			}
			isLen := func(v ssa.Value) bool { cl, ok := v.(*ssa.Call); return ok && callName(cl) == "builtin.len" }
			if isLen(bo.X) && isLen(bo.Y) {
				found = true
				okStrict = bo.Op == token.LSS || bo.Op == token.GTR
				for _, lv := range []ssa.Value{bo.X, bo.Y} {
					if _, isMap := lv.(*ssa.Call).Call.Args[0].Type().Underlying().(*types.Map); isMap {
						onMaps = true
					}
				}
			}
		}
		c.ob("C05-R4", serverPkg+".Router.Match#specificity-counts-parameter-segments", m.Pos(), !onMaps, "specificity is measured as the size of the name->value binding maps: a pattern that uses a parameter name twice (/cmp/:id/:id) binds one name, so it counts as more specific than it is and ties with /cmp/latest/:id - the tie then goes to the earlier declaration")
		c.ob("C05-R4", serverPkg+".Router.Match#strict-specificity-comparison", m.Pos(), found && okStrict, "the best-candidate update is not a strict parameter-count comparison: with equal specificity a later declaration replaces the earlier one")
		// no early return inside the candidate loop (every candidate is scanned)
		early := false
		for _, lp := range naturalLoops(m) {
			for b := range lp.body {
				for _, ins := range b.Instrs {
					if r, ok := ins.(*ssa.Return); ok && !isNilConst(stripConv(retVals(r)[0])) {
						early = true
					}
				}
			}
		}
		c.ob("C05-R4", serverPkg+".Router.Match#scans-all-candidates", m.Pos(), !early, "Match returns from inside the candidate loop (first hit wins): a more specific route declared later is unreachable")
	}

	// ---- R5 the interpreter sees the decoded path
	c.rule("C05-R5", "def-use: the interpreter.Request.Path built by cmd/glyph.executeRoute derives from the decoded URL.Path (plus RawQuery), not from RequestURI()/EscapedPath()/RawPath — the interpreter re-derives path parameters from it and must see the same segments the router matched")
	if er := c.mustFn("C05-R5", glyphCmd, "executeRoute"); er != nil {
		done := false
		eachInstr(er, func(_ *ssa.BasicBlock, _ int, ins ssa.Instruction) {
			st, ok := ins.(*ssa.Store)
			if !ok || !isStoreToField(st, "Request", "Path") {
				return
			}
			if nt, _, _ := fieldOf(st.Addr); nt == nil || nt.Obj().Pkg().Path() != interpPath {
				return
			}
			done = true
			fromPath := derivesFrom(st.Val, func(v ssa.Value) bool {
				u, ok := v.(*ssa.UnOp)
				if !ok || u.Op != token.MUL {
					return false
				}
				nt, f, ok := fieldOf(u.X)
				return ok && nt != nil && nt.Obj().Name() == "URL" && f == "Path"
			})
			escaped := derivesFrom(st.Val, func(v ssa.Value) bool {
				if cl, ok := v.(*ssa.Call); ok {
					switch callName(cl) {
					case "net/url.URL.RequestURI", "net/url.URL.EscapedPath", "net/url.URL.String":
						return true
					}
				}
				if u, ok := v.(*ssa.UnOp); ok && u.Op == token.MUL {
					if nt, f, ok := fieldOf(u.X); ok && nt != nil && ((nt.Obj().Name() == "URL" && f == "RawPath") || (nt.Obj().Name() == "Request" && f == "RequestURI")) {
						return true
					}
				}
				return false
			})
			c.ob("C05-R5", "cmd/glyph.executeRoute#interpreter-path-is-decoded-path", st.Pos(), fromPath && !escaped, "the path handed to the interpreter is the escaped request URI: percent-encoded segments bind differently (or fail) in interpreted mode than in the router / compiled mode")
		})
		if !done {
			c.ob("C05-R5", "cmd/glyph.executeRoute#builds-request", er.Pos(), false, "executeRoute does not build an interpreter.Request")
		}
		// the decoded path and the raw query are never joined into one string
		isRawQuery := func(v ssa.Value) bool {
			u, ok := v.(*ssa.UnOp)
			if !ok || u.Op != token.MUL {
				return false
			}
			nt, f, ok := fieldOf(u.X)
			return ok && nt != nil && nt.Obj().Name() == "URL" && f == "RawQuery"
		}
		joined, sep, rq := false, false, false
		eachInstr(er, func(_ *ssa.BasicBlock, _ int, ins ssa.Instruction) {
			st, ok := ins.(*ssa.Store)
			if !ok {
				return
			}
			nt, f, ok := fieldOf(st.Addr)
			if !ok || nt == nil || nt.Obj().Pkg() == nil || nt.Obj().Pkg().Path() != interpPath || nt.Obj().Name() != "Request" {
				return
			}
			switch f {
			case "Path":
				if derivesFrom(st.Val, isRawQuery) {
					joined = true
				}
			case "QuerySeparate":
				sep = isConstBool(st.Val, true)
			case "RawQuery":
				rq = derivesFrom(st.Val, isRawQuery)
			}
		})
		c.ob("C05-R5", "cmd/glyph.executeRoute#decoded-path-and-raw-query-stay-apart", er.Pos(), !joined && sep && rq, "the percent-decoded path and the raw query string are joined into one string that the interpreter splits again at the first '?': a %3F inside a path segment ends the path there, the rest of the segment is parsed as query parameters (GET /docs/why%3Fdraft=true binds title=\"why\" and sets the typed parameter draft)")
	}
	// … and the interpreter does not look for a '?' in a path it was given apart from the query
	if xr := c.fn(interpPkg, "Interpreter.ExecuteRoute"); xr != nil {
		var sepLoads []ssa.Value
		eachInstr(xr, func(_ *ssa.BasicBlock, _ int, ins ssa.Instruction) {
			if u, ok := ins.(*ssa.UnOp); ok && loadedFromField(u, "Request", "QuerySeparate") {
				sepLoads = append(sepLoads, u)
			}
		})
		searchesQ := func(f *ssa.Function) func(ins ssa.Instruction) bool {
			return func(ins ssa.Instruction) bool {
				call, ok := ins.(*ssa.Call)
				if !ok {
					return false
				}
				switch callName(call) {
				case "strings.Index", "strings.IndexByte", "strings.Cut", "strings.Split", "strings.SplitN", "strings.Contains", "strings.LastIndex":
					if s, ok := constString(call.Call.Args[1]); ok && s == "?" {
						return true
					}
					if k, ok := constInt(call.Call.Args[1]); ok && k == '?' {
						return true
					}
				}
				return false
			}
		}
		cutSep := func(b *ssa.BasicBlock, si int) bool {
			for _, v := range sepLoads {
				if known, val := boolOnEdge(b, si, v); known && !val {
					return true
				}
			}
			return false
		}
		// any search for '?' (here or in a callee that is given something derived from request.Path)
		isSearch := func(ins ssa.Instruction) bool {
			if searchesQ(xr)(ins) {
				return true
			}
			if call, ok := ins.(ssa.CallInstruction); ok {
				if sf := staticFn(call); sf != nil && sf.Pkg == xr.Pkg {
					fromPath := false
					for _, a := range call.Common().Args {
						if derivesFrom(a, func(v ssa.Value) bool { return loadedFromField(v, "Request", "Path") }) {
							fromPath = true
						}
					}
					if fromPath && reachesInstr(sf, searchesQ(sf), 0, map[*ssa.Function]bool{}) {
						return true
					}
				}
			}
			return false
		}
		q := &pathQuery{fn: xr, cutEdge: cutSep, target: isSearch}
		hit, path := q.fromEntry()
		p := xr.Pos()
		if hit != nil {
			p = hit.Pos()
		}
		c.ob("C05-R5", fnKey(xr)+"#no-query-split-of-a-separate-path", p, len(sepLoads) > 0 && hit == nil, "ExecuteRoute looks for '?' in the request path although the caller passed the query string separately (QuerySeparate): a literal '?' in a decoded path segment is taken for the start of the query", c.blockPath(path)...)
	}

	// the dispatchers hand Router.Match the decoded path (URL.Path), the form the patterns are written in: matching the
	// escaped form makes an equivalent spelling of a static segment (/users/%6De) miss its route and fall to a parameter
	for _, site := range []struct{ rel, fn string }{{glyphCmd, "createHandler"}, {serverPkg, "Handler.ServeHTTP"}} {
		root := c.fn(site.rel, site.fn)
		if root == nil {
			continue
		}
		for _, fn := range withAnon(root) {
			k := 0
			eachInstr(fn, func(_ *ssa.BasicBlock, _ int, ins ssa.Instruction) {
				call, ok := ins.(*ssa.Call)
				if !ok || callName(call) != serverPath+".Router.Match" || len(call.Call.Args) < 3 {
					return
				}
				k++
				arg := call.Call.Args[2]
				fromPath := derivesFrom(arg, func(v ssa.Value) bool {
					u, ok := v.(*ssa.UnOp)
					if !ok || u.Op != token.MUL {
						return false
					}
					nt, f, ok := fieldOf(u.X)
					return ok && nt != nil && nt.Obj().Name() == "URL" && f == "Path"
				})
				escaped := derivesFrom(arg, func(v ssa.Value) bool {
					if cl, ok := v.(*ssa.Call); ok {
						switch callName(cl) {
						case "net/url.URL.RequestURI", "net/url.URL.EscapedPath", "net/url.URL.String", "net/url.PathEscape", "net/url.QueryEscape":
							return true
						}
					}
					if u, ok := v.(*ssa.UnOp); ok && u.Op == token.MUL {
						if nt, f, ok := fieldOf(u.X); ok && nt != nil && ((nt.Obj().Name() == "URL" && f == "RawPath") || (nt.Obj().Name() == "Request" && f == "RequestURI")) {
							return true
						}
					}
					return false
				})
				c.ob("C05-R7", fnKey(fn)+"#dispatcher-matches-the-decoded-path-"+itoa(k), call.Pos(), fromPath && !escaped, "the dispatcher hands Router.Match the escaped form of the request path: patterns are compared byte for byte with decoded text, so GET /users/%6De misses the static route /users/me and runs /users/:id, /user%2Dprofile is a 404, and the interpreter (which re-derives parameters from the decoded path) answers 500 where the router matched")
			})
		}
	}

	// ---- R10 routes are registered in declaration order
	c.rule("C05-R10", "ORD: no route is registered (Router.RegisterRoute, directly or through a registering helper of cmd/glyph / pkg/server) from inside a loop that ranges over a Go map: the router breaks ties between equally specific patterns by registration order, and Go's map order is random - ranging the bytecode table instead of the module's items makes the winner of /t/:x/c vs /t/b/:y differ from load to load (and from the interpreter)")

	// one pass: with equal specificity the earlier declaration wins, and "earlier" is the position in the router's
	// list - so all HTTP routes of a module are registered by one loop over the declarations. A second loop that
	// registers "the rest" afterwards (routes that fell back to the interpreter) puts an earlier declaration behind a
	// later one
	if sr := c.fn(glyphCmd, "setupRoutes"); sr != nil {
		var regs []ssa.Instruction
		for _, f := range withAnon(sr) {
			eachInstr(f, func(_ *ssa.BasicBlock, _ int, ins ssa.Instruction) {
				if isCallTo(ins, modPath+"/cmd/glyph.registerRoute", modPath+"/cmd/glyph.registerCompiledRoute") {
					regs = append(regs, ins)
				}
			})
		}
		loops := naturalLoops(sr)
		loopOf := func(ins ssa.Instruction) *loop {
			var best *loop
			for _, lp := range loops {
				if lp.body[ins.Block()] && (best == nil || len(lp.body) < len(best.body)) {
					best = lp
				}
			}
			return best
		}
		bad := false
		var bp []*ssa.BasicBlock
		var at token.Pos
		for _, a := range regs {
			for _, b := range regs {
				if a == b || a.Parent() != sr || b.Parent() != sr || loopOf(a) == loopOf(b) {
					continue
				}
				q := &pathQuery{fn: sr, target: func(x ssa.Instruction) bool { return x == b }}
				if h, p := q.after(a); h != nil {
					bad, bp, at = true, p, b.Pos()
				}
			}
		}
		c.ob("C05-R10", glyphCmd+".setupRoutes#routes-registered-in-one-pass", at, !bad && len(regs) > 0, "HTTP routes are registered by two loops that can both run for one module: the routes the second loop registers come after every route of the first in the router's list, whatever their place in the source - a later declaration of equal specificity then wins over an earlier one (in one execution mode only)", c.blockPath(bp)...)
	}
	{
		registers := func(x ssa.Instruction) bool {
			return isCallTo(x, serverPath+".Router.RegisterRoute", serverPath+".Server.RegisterRoute")
		}
		n := 0
		for _, rel := range []string{glyphCmd, serverPkg} {
			for _, fn := range c.srcFuncs(rel) {
				k := 0
				loops := naturalLoops(fn)
				eachInstr(fn, func(_ *ssa.BasicBlock, _ int, ins ssa.Instruction) {
					rg, ok := ins.(*ssa.Range)
					if !ok {
						return
					}
					if _, isMap := rg.X.Type().Underlying().(*types.Map); !isMap {
						return
					}
					var lp *loop
					for _, l := range loops {
						for _, r := range refs(rg) {
							if nx, ok := r.(*ssa.Next); ok && l.body[nx.Block()] {
								lp = l
							}
						}
					}
					if lp == nil {
						return
					}
					n++
					bad := token.NoPos
					for b := range lp.body {
						for _, x := range b.Instrs {
							if registers(x) {
								bad = x.Pos()
							}
							if call, ok := x.(ssa.CallInstruction); ok {
								if sf := staticFn(call); sf != nil && sf.Pkg != nil && strings.HasPrefix(sf.Pkg.Pkg.Path(), modPath) && reachesInstr(sf, registers, 0, map[*ssa.Function]bool{}) {
									bad = x.Pos()
								}
							}
						}
					}
					if bad != token.NoPos {
						k++
						c.ob("C05-R10", fnKey(fn)+"#routes-registered-in-map-order-"+itoa(k), bad, false, "routes are registered while ranging over a Go map: registration order - the router's tie-break between equally specific patterns - is then random per program load instead of the order of declaration")
					}
				})
			}
		}
		c.Sites["C05-R10#map-ranges-examined"] = n
		c.ob("C05-R10", glyphCmd+"#registration-follows-declaration-order", token.NoPos, true, "")
	}

	// ---- R9 path parameters are what the route declared under their names
	c.rule("C05-R9", "ORD: in both engines no binding under a constant name (the built-in request variables query, input, headers, auth) and no binding of a declared query parameter is made after the last binding of the path parameters (the loop over the router's / the pattern's parameter map): a parameter such as /search/:query keeps the request segment, whatever else is called `query`")
	{
		check := func(fn *ssa.Function, callees []string, isParamMap func(v ssa.Value) bool, engine string) {
			// the path-parameter bindings: calls whose name argument is a key of the parameter map
			var pathBinds, others []ssa.Instruction
			eachInstr(fn, func(_ *ssa.BasicBlock, _ int, ins ssa.Instruction) {
				call, ok := ins.(*ssa.Call)
				if !ok {
					return
				}
				isBind := false
				for _, cn := range callees {
					if callName(call) == cn {
						isBind = true
					}
				}
				if !isBind {
					return
				}
				name := call.Call.Args[1]
				fromParams := derivesFrom(name, func(v ssa.Value) bool {
					if rg, ok := v.(*ssa.Range); ok {
						return isParamMap(rg.X)
					}
					return false
				})
				if fromParams {
					pathBinds = append(pathBinds, ins)
				} else if s, ok := constString(name); !ok || !strings.HasPrefix(s, "__") {
					others = append(others, ins)
				}
			})
			if len(pathBinds) == 0 {
				c.ob("C05-R9", fnKey(fn)+"#binds-path-parameters", fn.Pos(), false, "the "+engine+" binds no path parameters from the router's parameter map")
				return
			}
			// some path binding from which no other binding is reachable (the last one)
			okLast := false
			for _, pb := range pathBinds {
				after := false
				for _, o := range others {
					q := &pathQuery{fn: fn, target: func(x ssa.Instruction) bool { return x == o }}
					if h, _ := q.after(pb); h != nil {
						after = true
					}
				}
				if !after {
					okLast = true
				}
			}
			c.ob("C05-R9", fnKey(fn)+"#path-parameters-bound-last", pathBinds[0].Pos(), okLast, "after every binding of the path parameters the "+engine+" still binds other names into the same scope (query, input, headers, auth, declared query parameters): for @ GET /search/:query the body reads the query object instead of the segment")
		}
		if cr := c.fn(glyphCmd, "createCompiledRouteHandler"); cr != nil {
			for _, cl := range innerClosures(cr) {
				has := false
				eachCall(cl, func(call ssa.CallInstruction) {
					if callName(call) == vmPath+".VM.SetLocal" {
						has = true
					}
				})
				if has {
					check(cl, []string{vmPath + ".VM.SetLocal"}, func(v ssa.Value) bool { return loadedFromField(v, "Context", "PathParams") }, "compiled handler")
				}
			}
		}
		if xr := c.fn(interpPkg, "Interpreter.ExecuteRoute"); xr != nil {
			isParams := func(v ssa.Value) bool {
				// the map returned by the parameter binder
				return derivesFrom(v, func(x ssa.Value) bool {
					cl, ok := x.(*ssa.Call)
					if !ok {
						return false
					}
					sf := staticFn(cl)
					if sf == nil || sf.Pkg != xr.Pkg || sf.Signature.Results().Len() == 0 {
						return false
					}
					mt, ok := sf.Signature.Results().At(0).Type().Underlying().(*types.Map)
					return ok && mt.Elem().String() == "string" && mt.Key().String() == "string"
				})
			}
			check(xr, []string{interpPath + ".Environment.DefineWithSource", interpPath + ".Environment.Define"}, isParams, "interpreter")
		}
	}

	// ---- R8 the request names no variable
	c.rule("C05-R8", "TNT: the name under which a value is bound for the route body (VM.SetLocal in the compiled handler; Environment.Define/DefineWithSource in Interpreter.ExecuteRoute) never derives from the request's query string, headers or body (URL.Query()/RawQuery, the parsed raw-query map, Header, the decoded body): only declared names are bound, so `?id=9` cannot replace the path parameter `id` of /accounts/:id")
	{
		fromRequest := func(v ssa.Value) bool {
			return derivesFrom(v, func(x ssa.Value) bool {
				switch y := x.(type) {
				case *ssa.Call:
					switch callName(y) {
					case "net/url.URL.Query", "net/url.ParseQuery", interpPath + ".ExtractRawQueryParams", interpPath + ".parseRawQuery":
						return true
					}
				case *ssa.UnOp:
					if y.Op == token.MUL {
						if nt, f, ok := fieldOf(y.X); ok && nt != nil {
							if (nt.Obj().Name() == "URL" && f == "RawQuery") || (nt.Obj().Name() == "Request" && (f == "Header" || f == "RawQuery" || f == "Body" || f == "Headers")) {
								return true
							}
						}
					}
				}
				return false
			})
		}
		n := 0
		check := func(fn *ssa.Function, callee string, nameIdx int) {
			k := 0
			eachInstr(fn, func(_ *ssa.BasicBlock, _ int, ins ssa.Instruction) {
				call, ok := ins.(*ssa.Call)
				if !ok || callName(call) != callee || len(call.Call.Args) <= nameIdx {
					return
				}
				n++
				k++
				c.ob("C05-R8", fnKey(fn)+"#bound-name-is-declared-"+short(callee)+"-"+itoa(k), call.Pos(), !fromRequest(call.Call.Args[nameIdx]),
					"a variable of the route body is named by the request (the name comes from the query string / headers / body keys): a query key spelled like a path parameter, `input`, `auth` or a local of the body replaces that binding - GET /accounts/7?id=9 runs the body with id=9")
			})
		}
		if cr := c.fn(glyphCmd, "createCompiledRouteHandler"); cr != nil {
			for _, cl := range innerClosures(cr) {
				check(cl, vmPath+".VM.SetLocal", 1)
			}
		}
		if xr := c.fn(interpPkg, "Interpreter.ExecuteRoute"); xr != nil {
			check(xr, interpPath+".Environment.Define", 1)
			check(xr, interpPath+".Environment.DefineWithSource", 1)
		}
		c.Sites["C05-R8#bindings"] = n
		c.floor("C05-R8", 6)
	}

	// ---- R7 dispatch-time path is matched as it arrived
	c.rule("C05-R7", "def-use: what Router.Match hands to matchRoute derives from its path parameter only through the leading-slash normalisation and the split into segments (strings.HasPrefix, concatenation with \"/\", splitPath/strings.Split): no TrimSpace/Trim*/ToLower/Replace/Clean/Unescape is applied to the already percent-decoded request path, so the segments that are bound are the segments that were sent")
	if m := c.fn(serverPkg, "Router.Match"); m != nil && len(m.Params) >= 3 {
		pathParam := m.Params[2]
		allowed := map[string]bool{"strings.HasPrefix": true, "strings.Split": true, serverPath + ".splitPath": true, "builtin.len": true}
		bad := ""
		var badPos token.Pos
		n := 0
		// the derivation may cross into the helper that holds the candidate loop: judge each function's part
		var judge func(fn *ssa.Function, v ssa.Value, isSrc func(ssa.Value) bool, depth int)
		judge = func(fn *ssa.Function, v ssa.Value, isSrc func(ssa.Value) bool, depth int) {
			derivesFrom(v, func(x ssa.Value) bool {
				if cl, ok := x.(*ssa.Call); ok {
					nm := callName(cl)
					if !allowed[nm] {
						for _, a := range cl.Call.Args {
							if derivesFrom(a, isSrc) {
								bad = short(nm)
								badPos = cl.Pos()
							}
						}
					}
				}
				return false
			})
		}
		mf := matchLoopFn(c, m)
		if mf != nil {
			eachInstr(mf, func(_ *ssa.BasicBlock, _ int, ins ssa.Instruction) {
				call, ok := ins.(*ssa.Call)
				if !ok || callName(call) != serverPath+".matchRoute" {
					return
				}
				n++
				if mf == m {
					judge(m, call.Call.Args[1], func(z ssa.Value) bool { return z == ssa.Value(pathParam) }, 0)
					return
				}
				// in the helper: anything derived from its parameters; then the arguments Match hands to the helper
				judge(mf, call.Call.Args[1], func(z ssa.Value) bool { _, isP := z.(*ssa.Parameter); return isP }, 0)
				eachInstr(m, func(_ *ssa.BasicBlock, _ int, i2 ssa.Instruction) {
					if c2, ok := i2.(*ssa.Call); ok && staticFn(c2) == mf {
						for _, a := range c2.Call.Args {
							judge(m, a, func(z ssa.Value) bool { return z == ssa.Value(pathParam) }, 0)
						}
					}
				})
			})
		}
		if badPos == token.NoPos {
			badPos = m.Pos()
		}
		c.ob("C05-R7", fnKey(m)+"#request-path-matched-as-sent", badPos, n > 0 && bad == "", "the request path passes through "+bad+" before it is matched: net/http has already decoded it, so white space, case or dots at its ends are data of a segment (GET /files/a%20 binds \"a\", GET /files/%20 is dispatched to /files)")
	}

	// the splitter itself is trusted by the clause above only for splitting: inside it, the path goes through no
	// lexical cleaning, case folding, replacement or decoding either (path.Clean resolves the dot segments that
	// net/http leaves in a percent-decoded path: GET /files/%2E%2E/admin would be dispatched to /admin)
	if sp := c.fn(serverPkg, "splitPath"); sp != nil && len(sp.Params) >= 1 {
		isParam := func(z ssa.Value) bool { _, ok := z.(*ssa.Parameter); return ok }
		badIn := ""
		var at token.Pos = sp.Pos()
		eachCall(sp, func(call ssa.CallInstruction) {
			f := calleeOf(call)
			if f == nil || f.Pkg() == nil {
				return
			}
			deny := false
			switch f.Pkg().Path() {
			case "path", "path/filepath", "net/url":
				deny = true
			case "strings":
				switch f.Name() {
				case "TrimSpace", "ToLower", "ToUpper", "Replace", "ReplaceAll", "Title", "Map":
					deny = true
				}
			}
			if !deny {
				return
			}
			for _, a := range call.Common().Args {
				if derivesFrom(a, isParam) {
					badIn, at = f.Pkg().Path()+"."+f.Name(), call.Pos()
				}
			}
		})
		c.ob("C05-R7", fnKey(sp)+"#splitter-only-splits", at, badIn == "", "the router's path splitter passes the path through "+badIn+": the request path is already percent-decoded, so dot segments, case and blanks are data of a segment - resolving or folding them dispatches the request to another route than the one its segments match (GET /files/%2E%2E/admin runs /admin)")
	}

	// ---- R6 binding fidelity
	c.rule("C05-R6", "def-use: both engines bind a path parameter to the request segment itself: in server.matchRoute and interpreter.extractPathParams the value stored under a parameter name is an element of the split request path reached through no call other than the splitting/trimming of the whole path (no second percent-decoding, no case folding), and matchRoute decides static and parameter patterns alike over that one segmentation (every string comparison has an element of the segment slice on the request side, never the unsplit path)")
	segElem := func(v ssa.Value) bool {
		// element of a []string: load of IndexAddr, or Index
		switch x := v.(type) {
		case *ssa.UnOp:
			if x.Op == token.MUL {
				if ia, ok := x.X.(*ssa.IndexAddr); ok {
					if sl, ok := ia.X.Type().Underlying().(*types.Slice); ok {
						if bt, ok := sl.Elem().Underlying().(*types.Basic); ok && bt.Kind() == types.String {
							return true
						}
					}
				}
			}
		case *ssa.Index:
			return true
		}
		return false
	}
	for _, site := range []struct{ rel, fn string }{{"pkg/server", "matchRoute"}, {interpPkg, "extractPathParams"}} {
		fn := c.mustFn("C05-R6", site.rel, site.fn)
		if fn == nil {
			continue
		}
		n := 0
		// the binding may live in a helper the anchor delegates to (same package, returns the name->segment map)
		hasBinding := func(f *ssa.Function) bool {
			found := false
			eachInstr(f, func(_ *ssa.BasicBlock, _ int, ins ssa.Instruction) {
				if mu, ok := ins.(*ssa.MapUpdate); ok {
					if mt, ok := mu.Map.Type().Underlying().(*types.Map); ok && mt.Elem().String() == "string" {
						found = true
					}
				}
			})
			return found
		}
		for d := 0; d < 3 && !hasBinding(fn); d++ {
			var next *ssa.Function
			eachCall(fn, func(call ssa.CallInstruction) {
				sf := staticFn(call)
				if sf == nil || sf.Pkg != fn.Pkg || sf.Signature.Results().Len() == 0 {
					return
				}
				if mt, ok := sf.Signature.Results().At(0).Type().Underlying().(*types.Map); ok && mt.Elem().String() == "string" && next == nil {
					next = sf
				}
			})
			if next == nil {
				break
			}
			fn = next
		}
		eachInstr(fn, func(_ *ssa.BasicBlock, _ int, ins ssa.Instruction) {
			mu, ok := ins.(*ssa.MapUpdate)
			if !ok {
				return
			}
			if mt, ok := mu.Map.Type().Underlying().(*types.Map); !ok || mt.Elem().String() != "string" {
				return
			}
			n++
			// the value: an element of the split path, possibly through phis; no call on the way
			viaCall := ""
			var walk func(v ssa.Value, d int) bool
			seen := map[ssa.Value]bool{}
			walk = func(v ssa.Value, d int) bool {
				if seen[v] || d > 12 {
					return true
				}
				seen[v] = true
				if segElem(v) {
					return true
				}
				switch x := v.(type) {
				case *ssa.Phi:
					for _, e := range x.Edges {
						if !walk(e, d+1) {
							return false
						}
					}
					return true
				case *ssa.UnOp:
					if x.Op == token.MUL {
						if al, ok := x.X.(*ssa.Alloc); ok {
							okAll := true
							for _, r := range refs(al) {
								if st, ok := r.(*ssa.Store); ok && st.Addr == ssa.Value(al) && !walk(st.Val, d+1) {
									okAll = false
								}
							}
							return okAll
						}
					}
				case *ssa.Extract:
					if nx, ok := x.Tuple.(*ssa.Next); ok && !nx.IsString {
						return true // range over the segment slice / map
					}
					if call, ok := x.Tuple.(*ssa.Call); ok {
						viaCall = callName(call)
					}
				case *ssa.Call:
					viaCall = callName(x)
				}
				return false
			}
			ok2 := walk(mu.Value, 0)
			why := "the bound value is not an element of the split request path"
			if viaCall != "" {
				why = "the bound value passes through " + short(viaCall) + " on its way from the request segment"
			}
			c.ob("C05-R6", fnKey(fn)+"#parameter-bound-to-the-segment-itself-"+itoa(n), mu.Pos(), ok2, why+": this engine binds a different string from the one the router matched and the other engine binds (net/http has already percent-decoded URL.Path once; decoding again turns %2520 into a space and %252F into a slash)")
		})
		if n == 0 {
			c.ob("C05-R6", fnKey(fn)+"#binds-parameters", fn.Pos(), false, "no parameter binding found")
		}
	}
	// the interpreter splits the path it was given: on the way from Request.Path to the binder nothing but cutting
	// at the query delimiter happens (no URL parsing, unescaping, cleaning, case folding)
	if xr := c.fn(interpPkg, "Interpreter.ExecuteRoute"); xr != nil {
		allowed := map[string]bool{"strings.Index": true, "strings.IndexByte": true, "strings.Cut": true, "strings.SplitN": true, "builtin.len": true}
		n := 0
		eachInstr(xr, func(_ *ssa.BasicBlock, _ int, ins ssa.Instruction) {
			call, ok := ins.(*ssa.Call)
			if !ok {
				return
			}
			sf := staticFn(call)
			if sf == nil || sf.Pkg != xr.Pkg || sf.Signature.Results().Len() == 0 {
				return
			}
			if mt, ok := sf.Signature.Results().At(0).Type().Underlying().(*types.Map); !ok || mt.Elem().String() != "string" || mt.Key().String() != "string" {
				return
			}
			// the actual-path argument: the string argument that derives from Request.Path
			for _, a := range call.Call.Args {
				if !isStringType(a.Type()) || !derivesFrom(a, func(v ssa.Value) bool { return loadedFromField(v, "Request", "Path") }) {
					continue
				}
				n++
				via := ""
				derivesFrom(a, func(v ssa.Value) bool {
					if cl, ok := v.(*ssa.Call); ok {
						if nm := callName(cl); !allowed[nm] {
							via = short(nm)
						}
					}
					if ex, ok := v.(*ssa.Extract); ok {
						if cl, ok := ex.Tuple.(*ssa.Call); ok {
							if nm := callName(cl); !allowed[nm] {
								via = short(nm)
							}
						}
					}
					return false
				})
				c.ob("C05-R6", fnKey(xr)+"#request-path-reaches-the-binder-unprocessed-"+itoa(n), call.Pos(), via == "", "the request path passes through "+via+" before its segments are bound: net/http has already percent-decoded it once, so parsing or unescaping it again turns %2520 into a space, %23 into a fragment delimiter and %252F into a slash - the interpreter binds a different string from the one the router matched and the compiled engine binds")
			}
		})
		if n == 0 {
			c.ob("C05-R6", fnKey(xr)+"#request-path-reaches-the-binder-unprocessed", xr.Pos(), false, "ExecuteRoute hands no value derived from Request.Path to a parameter binder")
		}
	}
	if mr := c.fn("pkg/server", "matchRoute"); mr != nil {
		k := 0
		eachInstr(mr, func(_ *ssa.BasicBlock, _ int, ins ssa.Instruction) {
			bo, ok := ins.(*ssa.BinOp)
			if !ok || (bo.Op != token.EQL && bo.Op != token.NEQ) {
				return
			}
			if bt, ok := bo.X.Type().Underlying().(*types.Basic); !ok || bt.Kind() != types.String {
				return
			}
			k++
			c.ob("C05-R6", fnKey(mr)+"#compares-segment-with-segment-"+itoa(k), bo.Pos(), segElem(bo.X) || segElem(bo.Y), "matchRoute compares a pattern with something other than one segment of the split request path (e.g. the whole, unsplit path): static and parameter patterns then disagree about empty segments (trailing or doubled slashes), and `GET /posts/published/` runs the parameter route instead of the static one")
		})
		if k == 0 {
			c.info("C05-R6", fnKey(mr)+"#no-string-comparison", mr.Pos(), "matchRoute compares no strings")
		}
	}
}

// matchLoopFn: the function that holds Router.Match's candidate loop - Match itself, or the helper of the package it
// delegates to (the one that calls matchRoute).
func matchLoopFn(c *Ctx, m *ssa.Function) *ssa.Function {
	if m == nil {
		return nil
	}
	calls := func(f *ssa.Function) bool {
		found := false
		eachCall(f, func(call ssa.CallInstruction) {
			if callName(call) == serverPath+".matchRoute" {
				found = true
			}
		})
		return found
	}
	if calls(m) {
		return m
	}
	var out *ssa.Function
	eachCall(m, func(call ssa.CallInstruction) {
		if sf := staticFn(call); sf != nil && sf.Pkg == m.Pkg && out == nil && calls(sf) {
			out = sf
		}
	})
	if out == nil {
		return m
	}
	return out
}
