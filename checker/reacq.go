package main

// REACQ: self-deadlock audit. Go's mutexes are not re-entrant, and a second RLock on a sync.RWMutex blocks as soon
// as a writer is queued between the two. A method that holds its receiver's mutex f (from a Lock/RLock on recv.f up
// to the matching release on that path) must therefore not call - on the same receiver - a method that acquires
// recv.f itself, directly or through further same-receiver calls.

import (
	"go/token"
	"strings"

	"golang.org/x/tools/go/ssa"
)

func isAcquire(call ssa.CallInstruction) (string, bool) {
	switch callName(call) {
	case "sync.Mutex.Lock", "sync.RWMutex.Lock":
		return "Lock", true
	case "sync.RWMutex.RLock":
		return "RLock", true
	}
	return "", false
}

// recvMutexField: v is &recv.f (possibly through an embedded struct) for the function's receiver; returns the field path.
func recvMutexField(v ssa.Value, fn *ssa.Function) (string, bool) {
	if fn.Signature.Recv() == nil || len(fn.Params) == 0 {
		return "", false
	}
	path := ""
	for {
		fa, ok := v.(*ssa.FieldAddr)
		if !ok {
			return "", false
		}
		_, f, ok2 := fieldOf(fa)
		if !ok2 {
			return "", false
		}
		if path == "" {
			path = f
		} else {
			path = f + "." + path
		}
		if fa.X == ssa.Value(fn.Params[0]) {
			return path, true
		}
		v = fa.X
	}
}

func reacquireAudit(c *Ctx, rule string, rels []string) int {
	// summaries: which receiver mutex fields a method acquires (directly or through same-receiver calls)
	acq := map[*ssa.Function]map[string]bool{}
	var fns []*ssa.Function
	for _, rel := range rels {
		for _, fn := range c.srcFuncs(rel) {
			if fn.Signature.Recv() == nil || len(fn.Params) == 0 || fn.Parent() != nil {
				continue
			}
			fns = append(fns, fn)
			set := map[string]bool{}
			eachCall(fn, func(call ssa.CallInstruction) {
				if _, isGo := call.(*ssa.Go); isGo {
					return
				}
				if _, ok := isAcquire(call); ok {
					if f, ok := recvMutexField(call.Common().Args[0], fn); ok {
						set[f] = true
					}
				}
			})
			acq[fn] = set
		}
	}
	sameRecvCallee := func(fn *ssa.Function, call ssa.CallInstruction) *ssa.Function {
		if _, isGo := call.(*ssa.Go); isGo {
			return nil
		}
		sf := staticFn(call)
		if sf == nil || sf.Signature.Recv() == nil || len(call.Common().Args) == 0 {
			return nil
		}
		a0 := call.Common().Args[0]
		if a0 != ssa.Value(fn.Params[0]) {
			return nil
		}
		return sf
	}
	for changed := true; changed; {
		changed = false
		for _, fn := range fns {
			eachCall(fn, func(call ssa.CallInstruction) {
				if sf := sameRecvCallee(fn, call); sf != nil {
					for f := range acq[sf] {
						if !acq[fn][f] {
							acq[fn][f] = true
							changed = true
						}
					}
				}
			})
		}
	}
	n := 0
	for _, fn := range fns {
		k := 0
		eachInstr(fn, func(_ *ssa.BasicBlock, _ int, ins ssa.Instruction) {
			call, ok := ins.(*ssa.Call)
			if !ok {
				return
			}
			mode, ok := isAcquire(call)
			if !ok {
				return
			}
			f, ok := recvMutexField(call.Call.Args[0], fn)
			if !ok {
				return
			}
			n++
			k++
			mu := call.Call.Args[0]
			isRelease := func(x ssa.Instruction) bool {
				ci, ok := x.(*ssa.Call) // a deferred release keeps the lock to the end: only plain calls release
				if !ok {
					return false
				}
				cn := callName(ci)
				if !strings.HasPrefix(cn, "sync.") || !(strings.HasSuffix(cn, ".Unlock") || strings.HasSuffix(cn, ".RUnlock")) {
					return false
				}
				g, ok := recvMutexField(ci.Call.Args[0], fn)
				return ok && g == f && (ci.Call.Args[0] == mu || true)
			}
			var via *ssa.Function
			q := &pathQuery{fn: fn, stop: isRelease, target: func(x ssa.Instruction) bool {
				ci, ok := x.(ssa.CallInstruction)
				if !ok || x == ssa.Instruction(call) {
					return false
				}
				if _, isDefer := x.(*ssa.Defer); isDefer {
					// a deferred same-receiver call runs at exit, where a deferred unlock registered later has
					// not run yet only if it was registered earlier; keep to plain calls
					return false
				}
				if m2, ok := isAcquire(ci); ok {
					if g, ok := recvMutexField(ci.Common().Args[0], fn); ok && g == f {
						_ = m2
						return true
					}
				}
				if sf := sameRecvCallee(fn, ci); sf != nil && acq[sf][f] {
					via = sf
					return true
				}
				return false
			}}
			hit, path := q.after(call)
			detail := ""
			p := call.Pos()
			if hit != nil {
				p = hit.Pos()
				if via != nil {
					detail = "while " + f + " is held (" + mode + " at " + c.pos(call.Pos()) + ") the method calls " + fnKey(via) + " on the same receiver, which acquires " + f + " again: sync mutexes are not re-entrant, and a second RLock blocks as soon as a writer is waiting - the operation (and then every other one on this object) blocks forever"
				} else {
					detail = "while " + f + " is held (" + mode + " at " + c.pos(call.Pos()) + ") it is acquired again on the same path: self-deadlock"
				}
			}
			c.ob(rule, fnKey(fn)+"#no-reacquire-of-"+f+"-"+itoa(k), p, hit == nil, detail, c.blockPath(path)...)
		})
	}
	_ = token.NoPos
	return n
}
