package main

import (
	"go/token"
	"go/types"

	"golang.org/x/tools/go/ssa"
)

func init() {
	register(&propSpec{
		id: "C16", title: "WebSocket rooms stay consistent under concurrency", run: runC16,
		notCovered:  "delivery guarantees, deadlock freedom involving blocking channel sends, fairness, real interleavings (histories); only the lock discipline, the close/unlink order, the two-view update order, the limit tests and the config plumbing are decided",
		assumptions: []string{"guard table (field -> mutex) is taken from the struct comments of pkg/websocket and confirmed by reading", "lockset is receiver-insensitive"},
	})
}

const wsPkg = "pkg/websocket"
const wsPath = modPath + "/pkg/websocket"

// chanOps lists send/close operations on a channel loaded from field `field` of type `typ`.
type chanOp struct {
	ins  ssa.Instruction
	kind string // send | close | select-send
}

func chanOpsOnField(fn *ssa.Function, typName, field string) []chanOp {
	var out []chanOp
	eachInstr(fn, func(_ *ssa.BasicBlock, _ int, ins ssa.Instruction) {
		switch x := ins.(type) {
		case *ssa.Send:
			if loadedFromField(x.Chan, typName, field) {
				out = append(out, chanOp{ins, "send"})
			}
		case *ssa.Select:
			for _, st := range x.States {
				if st.Dir == types.SendOnly && loadedFromField(st.Chan, typName, field) {
					out = append(out, chanOp{ins, "select-send"})
				}
			}
		case *ssa.Call:
			if callName(x) == "builtin.close" && loadedFromField(x.Call.Args[0], typName, field) {
				out = append(out, chanOp{ins, "close"})
			}
		}
	})
	return out
}

func runC16(c *Ctx) {
	// ---- R1 lockset
	c.rule("C16-R1", "LCK: Hub.connections/connMu, Hub.connectionStates/stateMu, Hub handler tables/handlerMu, Hub.running/runMu, Room.{connections,metadata,maxConnections}/Room.mu, RoomManager.rooms/mu, Connection.rooms/roomsMu, Connection.Data/mu, Connection.{missedPongs,lastPongTime}/heartbeatMu: every access with the mutex held, writes exclusive (log-only reads listed, not reported)")
	g := func(t, f, m string) guard {
		return guard{typ: wsPkg + "." + t, field: f, class: wsPkg + "." + t + "." + m}
	}
	e := newLck(c, &lckConfig{rule: "C16-R1", pkgs: []string{wsPkg, "cmd/glyph"}, guards: []guard{
		g("Hub", "connections", "connMu"), g("Hub", "connectionStates", "stateMu"),
		g("Hub", "onConnect", "handlerMu"), g("Hub", "onDisconnect", "handlerMu"), g("Hub", "routeOnConnect", "handlerMu"), g("Hub", "routeOnDisconnect", "handlerMu"),
		g("Hub", "running", "runMu"),
		g("Room", "connections", "mu"), g("Room", "metadata", "mu"), g("Room", "maxConnections", "mu"),
		g("RoomManager", "rooms", "mu"),
		g("Connection", "rooms", "roomsMu"), g("Connection", "Data", "mu"),
		g("Connection", "missedPongs", "heartbeatMu"), g("Connection", "lastPongTime", "heartbeatMu"),
	}})
	e.run()
	c.floor("C16-R1", 40)

	// ---- R2 close after unlink
	c.rule("C16-R2", "ORD: every close(conn.send) is reached only after, on every path, RoomManager.RemoveConnectionFromAllRooms(conn) (Room.Broadcast sends under Room.mu.RLock and Remove takes the write lock, so this order makes a room send on a closed channel impossible) and after the connection was deleted from Hub.connections")
	nClose := 0
	for _, fn := range c.srcFuncs(wsPkg) {
		nInFn := 0
		for _, op := range chanOpsOnField(fn, "Connection", "send") {
			if op.kind != "close" {
				continue
			}
			nClose++
			nInFn++
			q := &pathQuery{fn: fn, target: func(x ssa.Instruction) bool { return x == op.ins },
				stop: func(x ssa.Instruction) bool { return isCallTo(x, wsPath+".RoomManager.RemoveConnectionFromAllRooms") }}
			hit, path := q.fromEntry()
			c.ob("C16-R2", fnKey(fn)+"#close-send-after-room-unlink-"+itoa(nInFn), op.ins.Pos(), hit == nil,
				"close(conn.send) can execute while the connection is still a member of rooms: a concurrent Room.Broadcast then sends on a closed channel and panics (no recover in that goroutine => process exit)", c.blockPath(path)...)
			q2 := &pathQuery{fn: fn, target: func(x ssa.Instruction) bool { return x == op.ins },
				stop: func(x ssa.Instruction) bool {
					cl, ok := x.(*ssa.Call)
					return ok && callName(cl) == "builtin.delete" && loadedFromField(cl.Call.Args[0], "Hub", "connections")
				}}
			hit2, path2 := q2.fromEntry()
			c.ob("C16-R2", fnKey(fn)+"#close-send-after-hub-unlink-"+itoa(nInFn), op.ins.Pos(), hit2 == nil,
				"close(conn.send) can execute while the connection is still in Hub.connections: the broadcast arm then sends on a closed channel", c.blockPath(path2)...)
		}
	}
	if nClose < 1 {
		c.undecided("C16-R2: no close(conn.send) site found")
	}

	// ---- R3 senders
	c.rule("C16-R3", "WCS: sends on Connection.send happen only (a) inside Hub.Run (the loop that also closes the channel), (b) under Room.mu (excluded from close by R2), or (c) behind a closed-state guard; any other sender can hit a closed channel")
	for _, fn := range c.srcFuncs(wsPkg) {
		ops := chanOpsOnField(fn, "Connection", "send")
		n := 0
		for _, op := range ops {
			if op.kind == "close" {
				continue
			}
			n++
			key := fnKey(fn) + "#send-" + itoa(n)
			if fnKey(fn) == wsPkg+".Hub.Run" {
				c.ob("C16-R3", key, op.ins.Pos(), true, "")
				continue
			}
			// under Room.mu?
			at, _ := e.analyse(fn)
			if at[op.ins][wsPkg+".Room.mu"] >= modeRead {
				c.ob("C16-R3", key, op.ins.Pos(), true, "")
				continue
			}
			c.ob("C16-R3", key, op.ins.Pos(), false, "send on Connection.send outside the hub loop and outside Room.mu with no closed-state guard: after the hub closed the channel (disconnect) this send panics")
		}
	}

	// ---- R4 two views
	c.rule("C16-R4", "MPT: Connection.rooms[name]=true is reached only on the err==nil edge of the room-side add (AddConnectionToRoom / Room.Add) for the same connection; a delete from Connection.rooms is always followed by the room-side remove")
	for _, fn := range c.srcFuncs(wsPkg) {
		eachInstr(fn, func(_ *ssa.BasicBlock, _ int, ins ssa.Instruction) {
			mu, ok := ins.(*ssa.MapUpdate)
			if !ok || !loadedFromField(mu.Map, "Connection", "rooms") {
				return
			}
			if isFreshAlloc(mu.Map.(*ssa.UnOp).X) {
				return
			}
			var errs []ssa.Value
			eachInstr(fn, func(_ *ssa.BasicBlock, _ int, x ssa.Instruction) {
				if cl, ok := x.(*ssa.Call); ok && isCallTo(cl, wsPath+".RoomManager.AddConnectionToRoom", wsPath+".Room.Add") {
					errs = append(errs, cl)
				}
			})
			q := &pathQuery{fn: fn, target: func(x ssa.Instruction) bool { return x == ins },
				cutEdge: func(b *ssa.BasicBlock, si int) bool {
					for _, er := range errs {
						if nilOnEdge(b, si, er) {
							return true
						}
					}
					return false
				}}
			hit, path := q.fromEntry()
			c.ob("C16-R4", fnKey(fn)+"#own-view-set-only-after-room-accepts", ins.Pos(), hit == nil && len(errs) > 0,
				"the connection records itself as a member before/without the room accepting it (room full => the two views disagree; broadcast_to_room skips a connection that believes it is in the room)", c.blockPath(path)...)
		})
		eachInstr(fn, func(_ *ssa.BasicBlock, _ int, ins ssa.Instruction) {
			cl, ok := ins.(*ssa.Call)
			if !ok || callName(cl) != "builtin.delete" || !loadedFromField(cl.Call.Args[0], "Connection", "rooms") {
				return
			}
			q := &pathQuery{fn: fn, target: isReturn, stop: func(x ssa.Instruction) bool {
				return isCallTo(x, wsPath+".RoomManager.RemoveConnectionFromRoom", wsPath+".Room.Remove", wsPath+".RoomManager.RemoveConnectionFromAllRooms")
			}}
			hit, path := q.after(ins)
			c.ob("C16-R4", fnKey(fn)+"#own-view-delete-followed-by-room-remove", ins.Pos(), hit == nil,
				"the connection forgets a room without being removed from it: it keeps receiving that room's messages", c.blockPath(path)...)
		})
	}
	c.floor("C16-R4", 1)

	// ---- R5 limits
	c.rule("C16-R5", "MPT: every insert into Hub.connections / Room.connections is preceded, in the same critical section, by a comparison of len(<that map>) with the configured maximum whose len==max outcome does not reach the insert; and the *Config handed to NewServer reaches the Hub it creates")
	limitRule := func(rel, fname, typ, field string, isMax func(v ssa.Value) bool) {
		fn := c.mustFn("C16-R5", rel, fname)
		if fn == nil {
			return
		}
		n := 0
		eachInstr(fn, func(_ *ssa.BasicBlock, _ int, ins ssa.Instruction) {
			mu, ok := ins.(*ssa.MapUpdate)
			if !ok || !loadedFromField(mu.Map, typ, field) {
				return
			}
			n++
			isLen := func(v ssa.Value) bool {
				cl, ok := v.(*ssa.Call)
				return ok && callName(cl) == "builtin.len" && loadedFromField(cl.Call.Args[0], typ, field)
			}
			// find the comparison
			var cmp *ssa.If
			rejIdx := 0
			for _, b := range fn.Blocks {
				iff := ifOf(b)
				if iff == nil {
					continue
				}
				bo, ok := iff.Cond.(*ssa.BinOp)
				if !ok {
					continue
				}
				x, y, op := bo.X, bo.Y, bo.Op
				if isLen(y) && isMax(x) {
					x, y = y, x
					op = map[token.Token]token.Token{token.LSS: token.GTR, token.GTR: token.LSS, token.LEQ: token.GEQ, token.GEQ: token.LEQ, token.EQL: token.EQL, token.NEQ: token.NEQ}[op]
				}
				if !isLen(x) || !isMax(y) {
					continue
				}
				// outcome at len == max
				atEq := op == token.GEQ || op == token.LEQ || op == token.EQL
				cmp = iff
				if atEq {
					rejIdx = 0
				} else {
					rejIdx = 1
				}
			}
			if cmp == nil {
				c.ob("C16-R5", fnKey(fn)+"#insert-"+typ+"."+field+"-limit-test", ins.Pos(), false, "no comparison of len("+typ+"."+field+") with the configured maximum precedes the insert: the limit is not enforced")
				return
			}
			dom := true // the `max > 0` (unlimited) short-circuit legitimately bypasses the comparison
			q := &pathQuery{fn: fn, target: func(x ssa.Instruction) bool { return x == ins },
				stop: func(x ssa.Instruction) bool {
					return isCallTo(x, "sync.Mutex.Unlock", "sync.RWMutex.Unlock") && !isDeferInstr(x)
				}}
			hit, path := q.from(cmp.Block().Succs[rejIdx], 0)
			c.ob("C16-R5", fnKey(fn)+"#insert-"+typ+"."+field+"-limit-test", ins.Pos(), dom && hit == nil,
				"with len == max the insert is still reachable (or the limit test does not dominate the insert): the configured limit can be exceeded", c.blockPath(path)...)
			// same critical section: no Unlock between the test and the insert
			q2 := &pathQuery{fn: fn, target: func(x ssa.Instruction) bool {
				return isCallTo(x, "sync.Mutex.Unlock", "sync.RWMutex.Unlock") && !isDeferInstr(x)
			}, stop: func(x ssa.Instruction) bool { return x == ins }}
			okCS := true
			if u, _ := q2.from(cmp.Block().Succs[1-rejIdx], 0); u != nil {
				q3 := &pathQuery{fn: fn, target: func(x ssa.Instruction) bool { return x == ins }, stop: func(x ssa.Instruction) bool {
					return isCallTo(x, "sync.Mutex.Lock", "sync.RWMutex.Lock")
				}}
				_ = q3
				// an unlock on the admit path before the insert: check whether the insert is reachable after it
				q4 := &pathQuery{fn: fn, target: func(x ssa.Instruction) bool { return x == ins }}
				if h, _ := q4.after(u); h != nil && !cmp.Block().Dominates(u.Block()) == false {
					// the unlock lies between test and insert only if the test dominates it and the insert follows it without a new test
					q5 := &pathQuery{fn: fn, target: func(x ssa.Instruction) bool { return x == ins }, stop: func(x ssa.Instruction) bool { return x == ssa.Instruction(cmp) }}
					if h5, _ := q5.after(u); h5 != nil {
						okCS = false
					}
				}
			}
			c.ob("C16-R5", fnKey(fn)+"#insert-"+typ+"."+field+"-same-critical-section", ins.Pos(), okCS, "the mutex is released between the limit test and the insert: two concurrent joins can both pass the test at max-1")
		})
		if n == 0 {
			c.ob("C16-R5", fnKey(fn)+"#insert-"+typ+"."+field, fn.Pos(), false, "no insert into "+typ+"."+field+" found in "+fname)
		}
	}
	limitRule(wsPkg, "Hub.Run", "Hub", "connections", func(v ssa.Value) bool {
		return derivesFrom(v, func(x ssa.Value) bool { _, f, ok := fieldOf(x); return ok && f == "MaxConnectionsPerHub" })
	})
	limitRule(wsPkg, "Room.Add", "Room", "connections", func(v ssa.Value) bool {
		return loadedFromField(v, "Room", "maxConnections")
	})
	// config plumbing
	if ns := c.mustFn("C16-R5", wsPkg, "NewServer"); ns != nil {
		var hubCall *ssa.Call
		eachInstr(ns, func(_ *ssa.BasicBlock, _ int, ins ssa.Instruction) {
			if cl, ok := ins.(*ssa.Call); ok && typeIs(cl.Type(), wsPath, "Hub") {
				hubCall = cl
			}
		})
		ok := hubCall != nil && len(hubCall.Call.Args) > 0 && derivesFrom(hubCall.Call.Args[0], func(v ssa.Value) bool { return v == ssa.Value(ns.Params[0]) })
		p := ns.Pos()
		if hubCall != nil {
			p = hubCall.Pos()
		}
		c.ob("C16-R5", wsPkg+".NewServer#config-reaches-hub", p, ok, "NewServer builds its Hub without the Config it was given: configured connection/room limits (MaxConnectionsPerHub, MaxConnectionsPerRoom) are never applied")
	}
	// RoomManager applies the per-room limit when it creates a room
	for _, name := range []string{"RoomManager.CreateRoom", "RoomManager.GetOrCreateRoom"} {
		if f := c.fn(wsPkg, name); f != nil {
			has := false
			eachCall(f, func(call ssa.CallInstruction) {
				if callName(call) == wsPath+".Room.SetMaxConnections" && derivesFrom(call.Common().Args[1], func(v ssa.Value) bool { _, fl, ok := fieldOf(v); return ok && fl == "MaxConnectionsPerRoom" }) {
					has = true
				}
			})
			c.ob("C16-R5", wsPkg+"."+name+"#applies-room-limit", f.Pos(), has, "rooms are created without the configured MaxConnectionsPerRoom")
		}
	}

	// ---- R6 unchecked assertions on connection data in hub goroutines
	c.rule("C16-R6", "PAN: in pkg/websocket every single-result type assertion on an interface value obtained from connection data (GetData / Data[...]) is dominated by a comma-ok assertion or type switch of the same value; an unchecked one panics inside the hub loop, which has no recover")
	for _, fn := range c.srcFuncs(wsPkg) {
		n := 0
		eachInstr(fn, func(_ *ssa.BasicBlock, _ int, ins ssa.Instruction) {
			ta, ok := ins.(*ssa.TypeAssert)
			if !ok || ta.CommaOk {
				return
			}
			if !derivesFrom(ta.X, func(v ssa.Value) bool {
				if cl, ok := v.(*ssa.Call); ok && callName(cl) == wsPath+".Connection.GetData" {
					return true
				}
				if lk, ok := v.(*ssa.Lookup); ok && loadedFromField(lk.X, "Connection", "Data") {
					return true
				}
				return false
			}) {
				return
			}
			n++
			c.ob("C16-R6", fnKey(fn)+"#unchecked-assert-"+itoa(n), ta.Pos(), assertGuarded(ta), "unchecked type assertion on client-controlled connection data: a non-"+ta.AssertedType.String()+" value panics in the hub goroutine")
		})
	}
}

func isDeferInstr(x ssa.Instruction) bool { _, ok := x.(*ssa.Defer); return ok }

// assertGuarded: a single-result assertion x.(T) is safe if x's dynamic type was established:
// x is a phi/value all of whose sources are themselves values of static type T converted to interface.
func assertGuarded(ta *ssa.TypeAssert) bool {
	ok := true
	seen := map[ssa.Value]bool{}
	var walk func(v ssa.Value, d int)
	walk = func(v ssa.Value, d int) {
		if seen[v] || d > 10 {
			return
		}
		seen[v] = true
		switch x := v.(type) {
		case *ssa.MakeInterface:
			if !types.Identical(x.X.Type(), ta.AssertedType) {
				ok = false
			}
		case *ssa.Phi:
			for _, e := range x.Edges {
				walk(e, d+1)
			}
		default:
			ok = false
		}
	}
	walk(ta.X, 0)
	return ok
}
