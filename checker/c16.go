package main

import (
	"go/ast"
	"go/token"
	"go/types"
	"strings"

	"golang.org/x/tools/go/ssa"
)

func init() {
	register(&propSpec{
		id: "C16", title: "WebSocket rooms stay consistent under concurrency", run: runC16,
		notCovered:  "delivery guarantees, deadlock freedom involving blocking channel sends, fairness, real interleavings (histories); only the lock discipline, the close/unlink order, the two-view update order, the limit tests and the config plumbing are decided",
		assumptions: []string{"guard table (field -> mutex) is taken from the struct comments of pkg/websocket and confirmed by reading", "lockset is receiver-insensitive"},
	})
}

const wsPkg = "pkg/websocket"
const wsPath16 = modPath + "/pkg/websocket"
const wsPath = modPath + "/pkg/websocket"

// chanOps lists send/close operations on a channel loaded from field `field` of type `typ`.
type chanOp struct {
	ins  ssa.Instruction
	kind string // send | close | select-send
}

func chanOpsOnField(fn *ssa.Function, typName, field string) []chanOp {
	var out []chanOp
	eachInstr(fn, func(_ *ssa.BasicBlock, _ int, ins ssa.Instruction) {
		switch x := ins.(type) {
		case *ssa.Send:
			if loadedFromField(x.Chan, typName, field) {
				out = append(out, chanOp{ins, "send"})
			}
		case *ssa.Select:
			for _, st := range x.States {
				if st.Dir == types.SendOnly && loadedFromField(st.Chan, typName, field) {
					out = append(out, chanOp{ins, "select-send"})
				}
			}
		case *ssa.Call:
			if callName(x) == "builtin.close" && loadedFromField(x.Call.Args[0], typName, field) {
				out = append(out, chanOp{ins, "close"})
			}
		}
	})
	return out
}

type closeSite struct {
	fn    *ssa.Function
	ins   ssa.Instruction
	depth int
}

// closedGuarded decides clause (c) of C16-R3 for one send instruction.
func closedGuarded(c *Ctx, e *lckEngine, fn *ssa.Function, send ssa.Instruction, closes []closeSite) (bool, string) {
	if len(closes) == 0 {
		return false, "no close site"
	}
	// G and flag from the close sites
	var G, flag string
	for i, cs := range closes {
		at, _ := e.analyse(cs.fn)
		var g string
		for class, mode := range at[cs.ins] {
			if mode >= modeWrite && strings.HasPrefix(class, wsPkg+".Connection.") {
				g = class
			}
		}
		if g == "" {
			return false, "close(conn.send) in " + fnKey(cs.fn) + " holds no Connection mutex exclusively"
		}
		f := ""
		eachInstr(cs.fn, func(_ *ssa.BasicBlock, _ int, x ssa.Instruction) {
			st, ok := x.(*ssa.Store)
			if !ok || !isConstBool(st.Val, true) || at[x][g] < modeWrite {
				return
			}
			if named, fld, ok := fieldOf(st.Addr); ok && named.Obj().Name() == "Connection" {
				f = fld
			}
		})
		if f == "" {
			return false, "close(conn.send) in " + fnKey(cs.fn) + " sets no closed flag under " + short(g)
		}
		if i > 0 && (g != G || f != flag) {
			return false, "close sites disagree on the guard (" + short(G) + "/" + flag + " vs " + short(g) + "/" + f + ")"
		}
		G, flag = g, f
	}
	at, _ := e.analyse(fn)
	if at[send][G] < modeRead {
		return false, "the send does not hold " + short(G)
	}
	var loads []ssa.Value
	eachInstr(fn, func(_ *ssa.BasicBlock, _ int, x ssa.Instruction) {
		if u, ok := x.(*ssa.UnOp); ok && u.Op == token.MUL && loadedFromField(u, "Connection", flag) && at[x][G] >= modeRead {
			loads = append(loads, u)
		}
	})
	if len(loads) == 0 {
		return false, "Connection." + flag + " is never read under " + short(G) + " before the send"
	}
	q := &pathQuery{fn: fn, target: func(x ssa.Instruction) bool { return x == send },
		cutEdge: func(b *ssa.BasicBlock, si int) bool {
			for _, l := range loads {
				if known, val := boolOnEdge(b, si, l); known && !val {
					return true
				}
			}
			return false
		}}
	if hit, _ := q.fromEntry(); hit != nil {
		return false, "a path reaches the send without the Connection." + flag + "==false outcome"
	}
	// the lock must be held continuously from the flag test to the send: no instruction that lies between a
	// guarded load and the send (reachable from the load and reaching the send) may find G released
	reachFwd := func(from *ssa.BasicBlock) map[*ssa.BasicBlock]bool {
		seen := map[*ssa.BasicBlock]bool{}
		var walk func(b *ssa.BasicBlock)
		walk = func(b *ssa.BasicBlock) {
			for _, s := range b.Succs {
				if !seen[s] {
					seen[s] = true
					walk(s)
				}
			}
		}
		walk(from)
		return seen
	}
	reachBwd := map[*ssa.BasicBlock]bool{}
	var walkB func(b *ssa.BasicBlock)
	walkB = func(b *ssa.BasicBlock) {
		for _, p := range b.Preds {
			if !reachBwd[p] {
				reachBwd[p] = true
				walkB(p)
			}
		}
	}
	walkB(send.Block())
	for _, l := range loads {
		lb := l.(ssa.Instruction).Block()
		fwd := reachFwd(lb)
		for _, b := range fn.Blocks {
			between := (fwd[b] || b == lb) && (reachBwd[b] || b == send.Block())
			if !between {
				continue
			}
			inRange := b != lb || fwd[lb]
			for _, x := range b.Instrs {
				if b == lb && !fwd[lb] && x == l.(ssa.Instruction) {
					inRange = true
					continue
				}
				if b == send.Block() && !reachBwd[b] && x == send {
					break
				}
				if inRange && at[x][G] < modeRead {
					return false, short(G) + " is released between the closed-flag test and the send"
				}
			}
		}
	}
	// holding G while blocking on the channel must not stall the closer: a plain send, or a blocking select with no
	// arm released by the closer before it takes G exclusively, leaves closeSend (hub goroutine) waiting forever
	// once the peer stops draining.
	releasedByCloser := false
	for _, cs := range closes {
		cat, _ := e.analyse(cs.fn)
		eachInstr(cs.fn, func(_ *ssa.BasicBlock, _ int, x ssa.Instruction) {
			if cl, ok := x.(*ssa.Call); ok && callName(cl) == "builtin.close" && !loadedFromField(cl.Call.Args[0], "Connection", "send") && cat[x][G] < modeRead {
				releasedByCloser = true
			}
		})
	}
	switch x := send.(type) {
	case *ssa.Send:
		return false, "blocking send while holding " + short(G) + ": the closer waits for " + short(G) + " forever when the peer stopped draining (hub deadlock)"
	case *ssa.Select:
		if x.Blocking {
			hasRecv := false
			for _, st := range x.States {
				if st.Dir == types.RecvOnly {
					hasRecv = true
				}
			}
			if !hasRecv || !releasedByCloser {
				return false, "blocking select-send while holding " + short(G) + " with no arm the closer releases before taking " + short(G) + " (hub deadlock)"
			}
		}
	}
	return true, ""
}

func runC16(c *Ctx) {
	c16Extra(c)
	c.rule("C16-R7", "PAIR: the hub neither deadlocks: every Lock/RLock in pkg/websocket is released on every path to a return (explicit or deferred Unlock); REACQ: no method calls, while it holds its receiver's mutex, a method of the same receiver that acquires that mutex again (sync mutexes are not re-entrant; a second RLock blocks once a writer waits)")
	c.Sites["C16-R7#acquire-sites"] = lockReleaseAudit(c, "C16-R7", []string{wsPkg})
	c.floor("C16-R7", 15)
	// ---- R1 lockset
	c.rule("C16-R1", "LCK: Hub.connections/connMu, Hub.connectionStates/stateMu, Hub handler tables/handlerMu, Hub.running/runMu, Room.{connections,metadata,maxConnections}/Room.mu, RoomManager.rooms/mu, Connection.rooms/roomsMu, Connection.Data/mu, Connection.{missedPongs,lastPongTime}/heartbeatMu: every access with the mutex held, writes exclusive (log-only reads listed, not reported)")
	g := func(t, f, m string) guard {
		return guard{typ: wsPkg + "." + t, field: f, class: wsPkg + "." + t + "." + m}
	}
	e := newLck(c, &lckConfig{rule: "C16-R1", pkgs: []string{wsPkg, "cmd/glyph"}, guards: []guard{
		g("Hub", "connections", "connMu"), g("Hub", "connectionStates", "stateMu"),
		g("Hub", "onConnect", "handlerMu"), g("Hub", "onDisconnect", "handlerMu"), g("Hub", "routeOnConnect", "handlerMu"), g("Hub", "routeOnDisconnect", "handlerMu"),
		g("Hub", "running", "runMu"),
		g("Room", "connections", "mu"), g("Room", "metadata", "mu"), g("Room", "maxConnections", "mu"),
		g("RoomManager", "rooms", "mu"),
		g("Connection", "rooms", "roomsMu"), g("Connection", "Data", "mu"),
		g("Connection", "missedPongs", "heartbeatMu"), g("Connection", "lastPongTime", "heartbeatMu"),
	}})
	e.run()
	c.floor("C16-R1", 40)

	// ---- R2 close after unlink
	c.rule("C16-R2", "ORD: every close(conn.send) is reached only after, on every path, RoomManager.RemoveConnectionFromAllRooms(conn) (Room.Broadcast sends under Room.mu.RLock and Remove takes the write lock, so this order makes a room send on a closed channel impossible) and after the connection was deleted from Hub.connections")
	// A close site is a direct close(conn.send) or a call to a closer wrapper: a function that (itself or in one of its
	// closures, e.g. a sync.Once body) reaches a close site without the unlink order established. The order is then
	// required at the wrapper's call sites instead (wrapper summary, lifting bound 3).
	var pending []closeSite
	for _, fn := range c.srcFuncs(wsPkg) {
		for _, op := range chanOpsOnField(fn, "Connection", "send") {
			if op.kind == "close" {
				pending = append(pending, closeSite{fn, op.ins, 0})
			}
		}
	}
	nClose := len(pending)
	directCloses := append([]closeSite(nil), pending...)
	closeFlagStores := map[*ssa.Function]bool{} // closer functions (for R3)
	nPerFn := map[*ssa.Function]int{}
	lifted := map[*ssa.Function]bool{}
	orderOK := func(fn *ssa.Function, ins ssa.Instruction) (bool, []*ssa.BasicBlock, bool, []*ssa.BasicBlock) {
		q := &pathQuery{fn: fn, target: func(x ssa.Instruction) bool { return x == ins },
			stop: func(x ssa.Instruction) bool {
				if isCallTo(x, wsPath+".RoomManager.RemoveConnectionFromAllRooms") {
					return true
				}
				// a method of the connection that unlinks it from every room on all of its paths (the tear-down helper)
				if cl, ok := x.(*ssa.Call); ok {
					if sf := staticFn(cl); sf != nil && sf.Pkg != nil && sf.Pkg.Pkg.Path() == wsPath && len(sf.Blocks) > 0 {
						qq := &pathQuery{fn: sf, target: isReturn, stop: func(y ssa.Instruction) bool {
							return isCallTo(y, wsPath+".RoomManager.RemoveConnectionFromAllRooms")
						}}
						if h, _ := qq.fromEntry(); h == nil {
							return true
						}
					}
				}
				return false
			}}
		hit, path := q.fromEntry()
		q2 := &pathQuery{fn: fn, target: func(x ssa.Instruction) bool { return x == ins },
			stop: func(x ssa.Instruction) bool {
				cl, ok := x.(*ssa.Call)
				return ok && callName(cl) == "builtin.delete" && loadedFromField(cl.Call.Args[0], "Hub", "connections")
			}}
		hit2, path2 := q2.fromEntry()
		// a connection that was just received from the register channel and is refused (the limit is reached) was
		// never put into the table or into a room: closing its send channel needs no unlink - provided no insert
		// of this iteration precedes the close
		if (hit != nil || hit2 != nil) && freshFromRegister(ins) {
			clean := true
			eachInstr(fn, func(_ *ssa.BasicBlock, _ int, x ssa.Instruction) {
				mu, ok := x.(*ssa.MapUpdate)
				if !ok || !loadedFromField(mu.Map, "Hub", "connections") {
					return
				}
				q3 := &pathQuery{fn: fn, target: func(y ssa.Instruction) bool { return y == ins }, stop: func(y ssa.Instruction) bool {
					if _, isSel := y.(*ssa.Select); isSel {
						return true // the next iteration receives another connection
					}
					cl, ok := y.(*ssa.Call)
					return ok && callName(cl) == "builtin.delete" && loadedFromField(cl.Call.Args[0], "Hub", "connections")
				}}
				if h, _ := q3.after(x); h != nil {
					clean = false
				}
			})
			if clean {
				return true, nil, true, nil
			}
		}
		return hit == nil, path, hit2 == nil, path2
	}
	for len(pending) > 0 {
		st := pending[0]
		pending = pending[1:]
		fn := st.fn
		closeFlagStores[topParent(fn)] = true
		ok1, path, ok2, path2 := orderOK(fn, st.ins)
		if !(ok1 && ok2) && st.depth < 3 {
			top := topParent(fn)
			var callers []closeSite
			for _, pk := range c.modulePkgs() {
				for _, g := range c.srcFuncs(pk) {
					eachCall(g, func(call ssa.CallInstruction) {
						if staticFn(call) == top && topParent(g) != top {
							callers = append(callers, closeSite{g, call.(ssa.Instruction), st.depth + 1})
						}
					})
				}
			}
			if len(callers) > 0 {
				if !lifted[top] {
					lifted[top] = true
					c.info("C16-R2", fnKey(top)+"#closer-wrapper", st.ins.Pos(), "closes Connection.send without establishing the unlink order itself: the order is required at its "+itoa(len(callers))+" call site(s)")
					pending = append(pending, callers...)
				}
				continue
			}
		}
		nPerFn[fn]++
		n := itoa(nPerFn[fn])
		c.ob("C16-R2", fnKey(fn)+"#close-send-after-room-unlink-"+n, st.ins.Pos(), ok1,
			"close(conn.send) can execute while the connection is still a member of rooms: a concurrent Room.Broadcast then sends on a closed channel and panics (no recover in that goroutine => process exit)", c.blockPath(path)...)
		c.ob("C16-R2", fnKey(fn)+"#close-send-after-hub-unlink-"+n, st.ins.Pos(), ok2,
			"close(conn.send) can execute while the connection is still in Hub.connections: the broadcast arm then sends on a closed channel", c.blockPath(path2)...)
	}
	if nClose < 1 {
		c.undecided("C16-R2: no close(conn.send) site found")
	}

	// ---- R3 senders
	c.rule("C16-R3", "WCS: sends on Connection.send happen only (a) inside Hub.Run (the loop that also closes the channel), (b) under Room.mu (excluded from close by R2), or (c) behind a closed-state guard; any other sender can hit a closed channel")
	for _, fn := range c.srcFuncs(wsPkg) {
		ops := chanOpsOnField(fn, "Connection", "send")
		n := 0
		for _, op := range ops {
			if op.kind == "close" {
				continue
			}
			n++
			key := fnKey(fn) + "#send-" + itoa(n)
			if fnKey(fn) == wsPkg+".Hub.Run" {
				c.ob("C16-R3", key, op.ins.Pos(), true, "")
				continue
			}
			// under Room.mu?
			at, _ := e.analyse(fn)
			if at[op.ins][wsPkg+".Room.mu"] >= modeRead {
				c.ob("C16-R3", key, op.ins.Pos(), true, "")
				continue
			}
			// (c) closed-state guard: the send holds a Connection mutex G that every direct close(conn.send) holds
			// exclusively together with a store <flag>=true, and every path to the send crosses an edge on which a
			// load of that flag, made under G, is false.
			guarded, why := closedGuarded(c, e, fn, op.ins, directCloses)
			if !guarded && !ast.IsExported(fn.Name()) && fn.Parent() == nil {
				// a helper of the senders (the overflow handling of Send, the loop of the hub's broadcast arm): the condition
				// is required where it is called - in the hub loop, under Room.mu, or behind the closed-state guard
				sites, okSites := 0, 0
				for _, g := range c.srcFuncs(wsPkg) {
					eachCall(g, func(cs ssa.CallInstruction) {
						if staticFn(cs) != fn {
							return
						}
						sites++
						ci := cs.(ssa.Instruction)
						if fnKey(topParent(g)) == wsPkg+".Hub.Run" {
							okSites++
							return
						}
						atg, _ := e.analyse(g)
						if atg[ci][wsPkg+".Room.mu"] >= modeRead {
							okSites++
							return
						}
						if gd, _ := closedGuarded(c, e, g, ci, directCloses); gd {
							okSites++
						}
					})
				}
				if sites > 0 && sites == okSites {
					guarded = true
				}
			}
			c.ob("C16-R3", key, op.ins.Pos(), guarded, "send on Connection.send outside the hub loop and outside Room.mu with no closed-state guard ("+why+"): after the hub closed the channel (disconnect) this send panics")
		}
	}

	// ---- R4 two views
	c.rule("C16-R4", "MPT: Connection.rooms[name]=true is reached only on the err==nil edge of the room-side add (AddConnectionToRoom / Room.Add) for the same connection; a delete from Connection.rooms is always followed by the room-side remove")
	for _, fn := range c.srcFuncs(wsPkg) {
		eachInstr(fn, func(_ *ssa.BasicBlock, _ int, ins ssa.Instruction) {
			mu, ok := ins.(*ssa.MapUpdate)
			if !ok || !loadedFromField(mu.Map, "Connection", "rooms") {
				return
			}
			if isFreshAlloc(mu.Map.(*ssa.UnOp).X) {
				return
			}
			var errs []ssa.Value
			eachInstr(fn, func(_ *ssa.BasicBlock, _ int, x ssa.Instruction) {
				if cl, ok := x.(*ssa.Call); ok && isCallTo(cl, wsPath+".RoomManager.AddConnectionToRoom", wsPath+".Room.Add") {
					errs = append(errs, cl)
				}
			})
			q := &pathQuery{fn: fn, target: func(x ssa.Instruction) bool { return x == ins },
				cutEdge: func(b *ssa.BasicBlock, si int) bool {
					for _, er := range errs {
						if nilOnEdge(b, si, er) {
							return true
						}
					}
					return false
				}}
			hit, path := q.fromEntry()
			c.ob("C16-R4", fnKey(fn)+"#own-view-set-only-after-room-accepts", ins.Pos(), hit == nil && len(errs) > 0,
				"the connection records itself as a member before/without the room accepting it (room full => the two views disagree; broadcast_to_room skips a connection that believes it is in the room)", c.blockPath(path)...)
		})
		eachInstr(fn, func(_ *ssa.BasicBlock, _ int, ins ssa.Instruction) {
			cl, ok := ins.(*ssa.Call)
			if !ok || callName(cl) != "builtin.delete" || !loadedFromField(cl.Call.Args[0], "Connection", "rooms") {
				return
			}
			q := &pathQuery{fn: fn, target: isReturn, stop: func(x ssa.Instruction) bool {
				return isCallTo(x, wsPath+".RoomManager.RemoveConnectionFromRoom", wsPath+".Room.Remove", wsPath+".RoomManager.RemoveConnectionFromAllRooms")
			}}
			hit, path := q.after(ins)
			c.ob("C16-R4", fnKey(fn)+"#own-view-delete-followed-by-room-remove", ins.Pos(), hit == nil,
				"the connection forgets a room without being removed from it: it keeps receiving that room's messages", c.blockPath(path)...)
		})
	}
	c.floor("C16-R4", 1)

	// ---- R5 limits
	c.rule("C16-R5", "MPT: every insert into Hub.connections / Room.connections is preceded, in the same critical section, by a comparison of len(<that map>) with the configured maximum whose len==max outcome does not reach the insert; and the *Config handed to NewServer reaches the Hub it creates")
	limitRuleIn := func(fn *ssa.Function, typ, field string, isMax func(v ssa.Value) bool) int {
		n := 0
		eachInstr(fn, func(_ *ssa.BasicBlock, _ int, ins ssa.Instruction) {
			mu, ok := ins.(*ssa.MapUpdate)
			if !ok || !loadedFromField(mu.Map, typ, field) {
				return
			}
			n++
			isLen := func(v ssa.Value) bool {
				cl, ok := v.(*ssa.Call)
				return ok && callName(cl) == "builtin.len" && loadedFromField(cl.Call.Args[0], typ, field)
			}
			// find the comparison
			var cmp *ssa.If
			rejIdx := 0
			for _, b := range fn.Blocks {
				iff := ifOf(b)
				if iff == nil {
					continue
				}
				bo, ok := iff.Cond.(*ssa.BinOp)
				if !ok {
					continue
				}
				x, y, op := bo.X, bo.Y, bo.Op
				if isLen(y) && isMax(x) {
					x, y = y, x
					op = map[token.Token]token.Token{token.LSS: token.GTR, token.GTR: token.LSS, token.LEQ: token.GEQ, token.GEQ: token.LEQ, token.EQL: token.EQL, token.NEQ: token.NEQ}[op]
				}
				if !isLen(x) || !isMax(y) {
					continue
				}
				// outcome at len == max
				atEq := op == token.GEQ || op == token.LEQ || op == token.EQL
				cmp = iff
				if atEq {
					rejIdx = 0
				} else {
					rejIdx = 1
				}
			}
			if cmp == nil {
				c.ob("C16-R5", fnKey(fn)+"#insert-"+typ+"."+field+"-limit-test", ins.Pos(), false, "no comparison of len("+typ+"."+field+") with the configured maximum precedes the insert: the limit is not enforced")
				return
			}
			dom := true // the `max > 0` (unlimited) short-circuit legitimately bypasses the comparison
			q := &pathQuery{fn: fn, target: func(x ssa.Instruction) bool { return x == ins },
				stop: func(x ssa.Instruction) bool {
					return isCallTo(x, "sync.Mutex.Unlock", "sync.RWMutex.Unlock") && !isDeferInstr(x)
				}}
			hit, path := q.from(cmp.Block().Succs[rejIdx], 0)
			c.ob("C16-R5", fnKey(fn)+"#insert-"+typ+"."+field+"-limit-test", ins.Pos(), dom && hit == nil,
				"with len == max the insert is still reachable (or the limit test does not dominate the insert): the configured limit can be exceeded", c.blockPath(path)...)
			// same critical section: no Unlock between the test and the insert
			q2 := &pathQuery{fn: fn, target: func(x ssa.Instruction) bool {
				return isCallTo(x, "sync.Mutex.Unlock", "sync.RWMutex.Unlock") && !isDeferInstr(x)
			}, stop: func(x ssa.Instruction) bool { return x == ins }}
			okCS := true
			if u, _ := q2.from(cmp.Block().Succs[1-rejIdx], 0); u != nil {
				q3 := &pathQuery{fn: fn, target: func(x ssa.Instruction) bool { return x == ins }, stop: func(x ssa.Instruction) bool {
					return isCallTo(x, "sync.Mutex.Lock", "sync.RWMutex.Lock")
				}}
				_ = q3
				// an unlock on the admit path before the insert: check whether the insert is reachable after it
				q4 := &pathQuery{fn: fn, target: func(x ssa.Instruction) bool { return x == ins }}
				if h, _ := q4.after(u); h != nil && !cmp.Block().Dominates(u.Block()) == false {
					// the unlock lies between test and insert only if the test dominates it and the insert follows it without a new test
					q5 := &pathQuery{fn: fn, target: func(x ssa.Instruction) bool { return x == ins }, stop: func(x ssa.Instruction) bool { return x == ssa.Instruction(cmp) }}
					if h5, _ := q5.after(u); h5 != nil {
						okCS = false
					}
				}
			}
			c.ob("C16-R5", fnKey(fn)+"#insert-"+typ+"."+field+"-same-critical-section", ins.Pos(), okCS, "the mutex is released between the limit test and the insert: two concurrent joins can both pass the test at max-1")
		})
		return n
	}
	// the rule is evaluated in whichever function of the package performs the insert (the hub loop itself or a
	// helper it was moved to); constructors filling a fresh map are not inserts into a live table
	limitRule := func(rel, fname, typ, field string, isMax func(v ssa.Value) bool) {
		total := 0
		for _, fn := range c.srcFuncs(rel) {
			total += limitRuleIn(fn, typ, field, isMax)
		}
		if total == 0 {
			c.ob("C16-R5", rel+"."+fname+"#insert-"+typ+"."+field, token.NoPos, false, "no insert into "+typ+"."+field+" found in "+rel)
		}
	}
	limitRule(wsPkg, "Hub.Run", "Hub", "connections", func(v ssa.Value) bool {
		return derivesFrom(v, func(x ssa.Value) bool { _, f, ok := fieldOf(x); return ok && f == "MaxConnectionsPerHub" })
	})
	limitRule(wsPkg, "Room.Add", "Room", "connections", func(v ssa.Value) bool {
		return loadedFromField(v, "Room", "maxConnections")
	})
	// config plumbing
	if ns := c.mustFn("C16-R5", wsPkg, "NewServer"); ns != nil {
		var hubCall *ssa.Call
		eachInstr(ns, func(_ *ssa.BasicBlock, _ int, ins ssa.Instruction) {
			if cl, ok := ins.(*ssa.Call); ok && typeIs(cl.Type(), wsPath, "Hub") {
				hubCall = cl
			}
		})
		ok := hubCall != nil && len(hubCall.Call.Args) > 0 && derivesFrom(hubCall.Call.Args[0], func(v ssa.Value) bool { return v == ssa.Value(ns.Params[0]) })
		p := ns.Pos()
		if hubCall != nil {
			p = hubCall.Pos()
		}
		c.ob("C16-R5", wsPkg+".NewServer#config-reaches-hub", p, ok, "NewServer builds its Hub without the Config it was given: configured connection/room limits (MaxConnectionsPerHub, MaxConnectionsPerRoom) are never applied")
	}
	// RoomManager applies the per-room limit when it creates a room
	for _, name := range []string{"RoomManager.CreateRoom", "RoomManager.GetOrCreateRoom"} {
		if f := c.fn(wsPkg, name); f != nil {
			has := false
			eachCall(f, func(call ssa.CallInstruction) {
				if callName(call) == wsPath+".Room.SetMaxConnections" && derivesFrom(call.Common().Args[1], func(v ssa.Value) bool { _, fl, ok := fieldOf(v); return ok && fl == "MaxConnectionsPerRoom" }) {
					has = true
				}
			})
			c.ob("C16-R5", wsPkg+"."+name+"#applies-room-limit", f.Pos(), has, "rooms are created without the configured MaxConnectionsPerRoom")
		}
	}

	// ---- R6 unchecked assertions on connection data in hub goroutines
	c.rule("C16-R6", "PAN: in pkg/websocket every single-result type assertion on an interface value obtained from connection data (GetData / Data[...]) is dominated by a comma-ok assertion or type switch of the same value; an unchecked one panics inside the hub loop, which has no recover")
	for _, fn := range c.srcFuncs(wsPkg) {
		n := 0
		eachInstr(fn, func(_ *ssa.BasicBlock, _ int, ins ssa.Instruction) {
			ta, ok := ins.(*ssa.TypeAssert)
			if !ok || ta.CommaOk {
				return
			}
			if !derivesFrom(ta.X, func(v ssa.Value) bool {
				if cl, ok := v.(*ssa.Call); ok && callName(cl) == wsPath+".Connection.GetData" {
					return true
				}
				if lk, ok := v.(*ssa.Lookup); ok && loadedFromField(lk.X, "Connection", "Data") {
					return true
				}
				return false
			}) {
				return
			}
			n++
			c.ob("C16-R6", fnKey(fn)+"#unchecked-assert-"+itoa(n), ta.Pos(), assertGuarded(ta), "unchecked type assertion on client-controlled connection data: a non-"+ta.AssertedType.String()+" value panics in the hub goroutine")
		})
	}
}

func isDeferInstr(x ssa.Instruction) bool { _, ok := x.(*ssa.Defer); return ok }

// assertGuarded: a single-result assertion x.(T) is safe if x's dynamic type was established:
// x is a phi/value all of whose sources are themselves values of static type T converted to interface.
func assertGuarded(ta *ssa.TypeAssert) bool {
	ok := true
	seen := map[ssa.Value]bool{}
	var walk func(v ssa.Value, d int)
	walk = func(v ssa.Value, d int) {
		if seen[v] || d > 10 {
			return
		}
		seen[v] = true
		switch x := v.(type) {
		case *ssa.MakeInterface:
			if !types.Identical(x.X.Type(), ta.AssertedType) {
				ok = false
			}
		case *ssa.Phi:
			for _, e := range x.Edges {
				walk(e, d+1)
			}
		default:
			ok = false
		}
	}
	walk(ta.X, 0)
	return ok
}

func c16Extra(c *Ctx) {
	// a connection handed to the hub ends up registered, or finished: the pumps are started for it either way
	if run := c.fn(wsPkg, "Hub.Run"); run != nil {
		k := 0
		eachInstr(run, func(_ *ssa.BasicBlock, _ int, ins ssa.Instruction) {
			ex, ok := ins.(*ssa.Extract)
			if !ok {
				return
			}
			// the value received in the register case
			isReg := false
			if sel, ok := ex.Tuple.(*ssa.Select); ok && ex.Index >= 2 {
				j := 0
				for _, st := range sel.States {
					if st.Dir != types.RecvOnly {
						continue
					}
					if 2+j == ex.Index {
						if u, ok := st.Chan.(*ssa.UnOp); ok {
							if nt, f, ok := fieldOf(u.X); ok && nt != nil && nt.Obj().Name() == "Hub" && f == "register" {
								isReg = true
							}
						}
					}
					j++
				}
			}
			if !isReg {
				return
			}
			k++
			closes := func(x ssa.Instruction) bool {
				cl, ok := x.(*ssa.Call)
				if !ok {
					return false
				}
				sf := staticFn(cl)
				if sf == nil || sf.Pkg == nil || sf.Pkg.Pkg.Path() != wsPath {
					return false
				}
				isClose := func(y ssa.Instruction) bool {
					c2, ok := y.(*ssa.Call)
					return ok && callName(c2) == "builtin.close" && chanFromField(c2.Call.Args[0], "Connection", "send")
				}
				// the close may sit in the function handed to sync.Once.Do, some calls down
				seen := map[*ssa.Function]bool{}
				var closesIn func(f *ssa.Function, d int) bool
				closesIn = func(f *ssa.Function, d int) bool {
					if f == nil || seen[f] || d > 4 || f.Pkg == nil || f.Pkg.Pkg.Path() != wsPath || len(f.Blocks) == 0 {
						return false
					}
					seen[f] = true
					r := false
					for _, g := range withAnon(f) {
						eachInstr(g, func(_ *ssa.BasicBlock, _ int, y ssa.Instruction) {
							if isClose(y) {
								r = true
							}
							if c2, ok := y.(*ssa.Call); ok && !r {
								if closesIn(staticFn(c2), d+1) {
									r = true
								}
							}
						})
					}
					return r
				}
				return closesIn(sf, 0)
			}
			insertsOrCloses := func(x ssa.Instruction) bool {
				if mu, ok := x.(*ssa.MapUpdate); ok && loadedFromField(mu.Map, "Hub", "connections") {
					return true
				}
				return closes(x)
			}
			// a helper of the loop that is handed the received connection does the registering: it is held to the
			// obligation on all of its own paths, and the call counts as done in the loop
			var helper *ssa.Function
			q := &pathQuery{fn: run, target: func(x ssa.Instruction) bool {
				if _, isSel := x.(*ssa.Select); isSel {
					return true
				}
				return isReturn(x)
			}, stop: func(x ssa.Instruction) bool {
				if insertsOrCloses(x) {
					return true
				}
				if cl, ok := x.(*ssa.Call); ok {
					if sf := staticFn(cl); sf != nil && sf.Pkg != nil && sf.Pkg.Pkg.Path() == wsPath && len(sf.Blocks) > 0 {
						for _, a := range cl.Call.Args {
							if a == ssa.Value(ex) {
								inserts := false
								eachInstr(sf, func(_ *ssa.BasicBlock, _ int, y ssa.Instruction) {
									if mu, ok := y.(*ssa.MapUpdate); ok && loadedFromField(mu.Map, "Hub", "connections") {
										inserts = true
									}
								})
								if inserts {
									helper = sf
									return true
								}
							}
						}
					}
				}
				return false
			}}
			hit, path := q.after(ins)
			if hit == nil && helper != nil {
				qh := &pathQuery{fn: helper, target: isReturn, stop: insertsOrCloses}
				hit, path = qh.fromEntry()
			}
			c.ob("C16-R2", fnKey(run)+"#refused-connection-is-finished-"+itoa(k), ins.Pos(), hit == nil, "a connection received for registration can be dropped (the limit is reached) without being registered and without its send channel being closed: its pumps have been started all the same, its unregister is ignored because it was never registered, so the write pump waits on the send channel for ever and Server.Shutdown waits for the pump", c.blockPath(path)...)
		})
	}

	c.rule("C16-R11", "LCK/blocking: a room broadcast runs on the hub loop and holds Room.mu: while that mutex is held (shared or exclusive) nothing can block - no blocking send, receive or select, directly or in a function of the package that is called there. A queue-strategy helper that waits for space (`Connection.Send` in block mode waits for the queue or for `done`, which only the hub loop closes) turns one stalled member into a hub that takes no register, unregister or message any more")
	{
		e11 := newLck(c, &lckConfig{rule: "C16-R11", pkgs: []string{wsPkg}, guards: nil})
		canBlock := map[*ssa.Function]int{} // 0 unknown, 1 no, 2 yes
		var blocks func(f *ssa.Function, d int) bool
		blocks = func(f *ssa.Function, d int) bool {
			if f == nil || d > 4 || f.Pkg == nil || f.Pkg.Pkg.Path() != wsPath16 || len(f.Blocks) == 0 {
				return false
			}
			if v := canBlock[f]; v != 0 {
				return v == 2
			}
			canBlock[f] = 1
			r := false
			eachInstr(f, func(_ *ssa.BasicBlock, _ int, ins ssa.Instruction) {
				switch x := ins.(type) {
				case *ssa.Send:
					r = true
				case *ssa.UnOp:
					if x.Op == token.ARROW {
						r = true
					}
				case *ssa.Select:
					if x.Blocking {
						r = true
					}
				case *ssa.Call:
					if blocks(staticFn(x), d+1) {
						r = true
					}
				}
			})
			if r {
				canBlock[f] = 2
			}
			return r
		}
		n := 0
		for _, fn := range c.srcFuncs(wsPkg) {
			at, _ := e11.analyse(fn)
			k := 0
			eachInstr(fn, func(_ *ssa.BasicBlock, _ int, ins ssa.Instruction) {
				held := false
				for cls, m := range at[ins] {
					if strings.HasSuffix(cls, ".Room.mu") && m > 0 {
						held = true
					}
				}
				if !held {
					return
				}
				n++
				bad := false
				switch x := ins.(type) {
				case *ssa.Send:
					bad = true
				case *ssa.UnOp:
					bad = x.Op == token.ARROW
				case *ssa.Select:
					bad = x.Blocking
				case *ssa.Call:
					bad = blocks(staticFn(x), 0)
				}
				if bad {
					k++
					c.ob("C16-R11", fnKey(fn)+"#nothing-blocks-under-the-room-lock-"+itoa(k), ins.Pos(), false, "an operation that can block executes while Room.mu is held (by the hub loop, during a room broadcast): one member whose queue is full and not drained stops the hub for ever - no register, unregister or handler runs again, and Shutdown hangs")
				}
			})
		}
		c.Sites["C16-R11#instructions-under-the-room-lock"] = n
		c.ob("C16-R11", wsPkg+"#instructions-under-the-room-lock-examined", token.NoPos, n >= 10, "fewer than 10 instructions found under Room.mu: the room code is not where the rule expects it")
	}

	c.rule("C16-R10", "ATOM: a connection's membership has two views - the room's table (Room.connections) and its own (Connection.rooms) - and a tear-down that must leave it in no room. They agree under every interleaving only if each change of membership is one critical section of the connection: (a) every function of Connection that changes both views (calls the room-side add/remove and updates Connection.rooms) holds one mutex of the connection across both steps; (b) the hub's tear-down removes the connection from its rooms under that same mutex and marks the connection as gone there, and (c) the joining function tests that mark under the mutex before it adds - otherwise a join that the loop handles after the unregister (both are queued, select picks at random) puts a connection whose send channel is closed back into a room, and the next room broadcast panics on the hub goroutine")
	{
		type memberFn struct {
			fn       *ssa.Function
			roomSide []ssa.Instruction
			ownSide  []ssa.Instruction
			adds     bool
		}
		var ms []memberFn
		isRoomSide := func(x ssa.Instruction) (bool, bool) {
			cl, ok := x.(*ssa.Call)
			if !ok {
				return false, false
			}
			switch callName(cl) {
			case wsPath16 + ".RoomManager.AddConnectionToRoom", wsPath16 + ".Room.Add":
				return true, true
			case wsPath16 + ".RoomManager.RemoveConnectionFromRoom", wsPath16 + ".Room.Remove", wsPath16 + ".RoomManager.RemoveConnectionFromAllRooms":
				return true, false
			}
			return false, false
		}
		for _, fn := range c.srcFuncs(wsPkg) {
			if fn.Signature.Recv() == nil || !typeIs(derefPtr(fn.Signature.Recv().Type()), wsPath16, "Connection") {
				continue
			}
			m := memberFn{fn: fn}
			eachInstr(fn, func(_ *ssa.BasicBlock, _ int, ins ssa.Instruction) {
				if is, add := isRoomSide(ins); is {
					m.roomSide = append(m.roomSide, ins)
					m.adds = m.adds || add
				}
				switch x := ins.(type) {
				case *ssa.MapUpdate:
					if loadedFromField(x.Map, "Connection", "rooms") {
						m.ownSide = append(m.ownSide, ins)
					}
				case *ssa.Call:
					if callName(x) == "builtin.delete" && loadedFromField(x.Call.Args[0], "Connection", "rooms") {
						m.ownSide = append(m.ownSide, ins)
					}
				}
			})
			if len(m.roomSide) > 0 && len(m.ownSide) > 0 {
				ms = append(ms, m)
			}
		}
		e10 := newLck(c, &lckConfig{rule: "C16-R10", pkgs: []string{wsPkg}, guards: nil})
		heldAcross := func(m memberFn) (string, bool) {
			at, _ := e10.analyse(m.fn)
			common := map[string]bool{}
			first := true
			for _, ins := range append(append([]ssa.Instruction{}, m.roomSide...), m.ownSide...) {
				cur := map[string]bool{}
				for cls, n := range at[ins] {
					if n >= 2 && strings.Contains(cls, ".Connection.") { // held exclusively
						cur[cls] = true
					}
				}
				if first {
					common, first = cur, false
					continue
				}
				for k := range common {
					if !cur[k] {
						delete(common, k)
					}
				}
			}
			// the own-view map's mutex is taken and released around the map update only; the membership mutex is one
			// that is held at the room-side call as well
			for k := range common {
				return k, true
			}
			return "", false
		}
		memberMu := ""
		for _, m := range ms {
			cls, ok := heldAcross(m)
			if ok {
				memberMu = cls
			}
			c.ob("C16-R10", fnKey(m.fn)+"#both-views-change-in-one-critical-section", m.fn.Pos(), ok, "the room's table and the connection's own list are changed in two separate critical sections (and join and leave take them in opposite order): a join racing a leave ends with the connection in the room but not in its own list, or the reverse, and nothing repairs it")
		}
		c.ob("C16-R10", wsPkg+"#membership-changing-functions-found", token.NoPos, len(ms) >= 2, "fewer than two functions of Connection change both membership views: the join / leave code is not where the rule expects it")
		// (b),(c): the tear-down takes the membership mutex and marks the connection; the join tests the mark
		if memberMu != "" {
			var markField string
			tornDown := false
			for _, fn := range c.srcFuncs(wsPkg) {
				at, _ := e10.analyse(fn)
				eachInstr(fn, func(_ *ssa.BasicBlock, _ int, ins ssa.Instruction) {
					if isCallTo(ins, wsPath16+".RoomManager.RemoveConnectionFromAllRooms") && at[ins][memberMu] >= 2 {
						tornDown = true
						// a boolean field of Connection set in the same function under the mutex
						eachInstr(fn, func(_ *ssa.BasicBlock, _ int, x ssa.Instruction) {
							if st, ok := x.(*ssa.Store); ok && at[x][memberMu] >= 2 && isConstBool(st.Val, true) {
								if nt, f, ok := fieldOf(st.Addr); ok && nt != nil && nt.Obj().Name() == "Connection" {
									markField = f
								}
							}
						})
					}
				})
			}
			c.ob("C16-R10", wsPkg+"#tear-down-leaves-the-rooms-under-the-membership-mutex", token.NoPos, tornDown && markField != "", "the hub removes a disconnecting connection from its rooms without the connection's membership mutex (or without marking it gone there): a join handled after the unregister re-adds the dead connection")
			for _, m := range ms {
				if !m.adds {
					continue
				}
				tested := false
				if markField != "" {
					at, _ := e10.analyse(m.fn)
					eachInstr(m.fn, func(_ *ssa.BasicBlock, _ int, ins ssa.Instruction) {
						if u, ok := ins.(*ssa.UnOp); ok && loadedFromField(u, "Connection", markField) && at[ins][memberMu] >= 2 {
							for _, rs := range m.roomSide {
								if dominatesInstr(ins, rs) {
									tested = true
								}
							}
						}
					})
				}
				c.ob("C16-R10", fnKey(m.fn)+"#join-refuses-a-connection-that-is-gone", m.fn.Pos(), tested, "the join does not test, under the membership mutex, whether the connection has been torn down: handled after the unregister it puts a connection with a closed send channel back into a room (zombie member; the next room broadcast sends on a closed channel and panics the hub goroutine)")
			}
		} else {
			c.ob("C16-R10", wsPkg+"#tear-down-leaves-the-rooms-under-the-membership-mutex", token.NoPos, false, "there is no membership mutex: the tear-down cannot exclude a concurrent or later join")
		}
	}

	c.rule("C16-R9", "WCS/blocking: the hub loop (Hub.Run) is the only receiver of the hub's request channels, and it runs every connect / disconnect / message handler itself. So the API a handler is handed - the exported methods of Connection, MessageContext and VMHandler, with what they call inside the package - must not perform a blocking send on one of those channels: on the loop's goroutine the send waits for a receive that only the sender could make. An unbuffered channel deadlocks at the first call (ws.close() in a handler freezes the hub for everybody), a buffered one when the handler fills it. Sends in a goroutine of their own, in a select with another ready-able case, and the pumps (functions the package starts with `go`) are not on the loop")
	{
		wsPath := modPath + "/" + wsPkg
		// channels of Hub that Run receives from
		loopChans := map[string]bool{}
		if run := c.mustFn("C16-R9", wsPkg, "Hub.Run"); run != nil {
			eachInstr(run, func(_ *ssa.BasicBlock, _ int, ins ssa.Instruction) {
				if sel, ok := ins.(*ssa.Select); ok {
					for _, st := range sel.States {
						if st.Dir == types.RecvOnly {
							if u, ok := st.Chan.(*ssa.UnOp); ok {
								if nt, f, ok := fieldOf(u.X); ok && nt != nil && nt.Obj().Name() == "Hub" {
									loopChans[f] = true
								}
							}
						}
					}
				}
			})
		}
		// functions the package starts as goroutines (pumps, the loop itself)
		pump := map[*ssa.Function]bool{}
		for _, fn := range c.srcFuncs(wsPkg) {
			eachInstr(fn, func(_ *ssa.BasicBlock, _ int, ins ssa.Instruction) {
				if g, ok := ins.(*ssa.Go); ok {
					if sf := g.Call.StaticCallee(); sf != nil {
						pump[sf] = true
					}
				}
			})
		}
		blockingSendOn := func(fn *ssa.Function) (string, token.Pos) {
			name, pos := "", token.NoPos
			eachInstr(fn, func(_ *ssa.BasicBlock, _ int, ins ssa.Instruction) {
				snd, ok := ins.(*ssa.Send)
				if !ok {
					return
				}
				if u, ok := snd.Chan.(*ssa.UnOp); ok {
					if nt, f, ok := fieldOf(u.X); ok && nt != nil && nt.Obj().Name() == "Hub" && loopChans[f] {
						name, pos = f, snd.Pos()
					}
				}
			})
			return name, pos
		}
		n := 0
		for _, fn := range c.srcFuncs(wsPkg) {
			if fn.Parent() != nil || fn.Signature.Recv() == nil || !ast.IsExported(fn.Name()) || pump[fn] {
				continue
			}
			rn := namedOf(derefPtr(fn.Signature.Recv().Type()))
			if rn == nil || rn.Obj().Pkg() == nil || rn.Obj().Pkg().Path() != wsPath {
				continue
			}
			switch rn.Obj().Name() {
			case "Connection", "MessageContext", "VMHandler":
			default:
				continue
			}
			// the method and what it calls statically inside the package (not goroutine bodies: closures started with go
			// are separate functions and are not followed)
			seen := map[*ssa.Function]bool{}
			var where string
			var at token.Pos
			var visit func(f *ssa.Function, d int)
			visit = func(f *ssa.Function, d int) {
				if f == nil || seen[f] || d > 4 || f.Pkg == nil || f.Pkg.Pkg.Path() != wsPath || pump[f] {
					return
				}
				seen[f] = true
				if ch, p := blockingSendOn(f); ch != "" && where == "" {
					where, at = ch+" in "+fnKey(f), p
				}
				eachInstr(f, func(_ *ssa.BasicBlock, _ int, ins ssa.Instruction) {
					if cl, ok := ins.(*ssa.Call); ok {
						visit(staticFn(cl), d+1)
					}
				})
			}
			visit(fn, 0)
			n++
			if at == token.NoPos {
				at = fn.Pos()
			}
			c.ob("C16-R9", fnKey(fn)+"#does-not-wait-for-the-hub-loop", at, where == "", "a method that handlers call performs a blocking send on Hub."+where+", a channel only the hub loop receives from, and handlers run on the hub loop: the loop waits for itself - the hub stops registering, unregistering and delivering for every client, and Shutdown hangs")
		}
		c.Sites["C16-R9#handler-api-methods"] = n
		c.floor("C16-R9", 10)
	}

	c.rule("C16-R8", "ATOM/ORD: (a) a room is created in the manager's table only after looking the same name up under the same exclusive hold of RoomManager.mu (check and insert in one critical section: two first joins cannot each create a Room and lose one's members); (b) a connection is handed to the hub's register channel synchronously, before its read pump is started, so its unregister can never overtake its register and leave a dead connection registered for good; (c) Room objects are not unlinked from the manager's table by running code while a join is lookup-then-add in two critical sections (the unlinking functions have no non-test caller, or the join holds RoomManager.mu across both steps)")
	// (a)
	nIns := 0
	for _, fn := range c.srcFuncs(wsPkg) {
		k := 0
		eachInstr(fn, func(_ *ssa.BasicBlock, _ int, ins ssa.Instruction) {
			mu, ok := ins.(*ssa.MapUpdate)
			if !ok || !loadedFromField(mu.Map, "RoomManager", "rooms") || isFreshAlloc(mu.Map.(*ssa.UnOp).X) {
				return
			}
			nIns++
			k++
			isLookup := func(x ssa.Instruction) bool {
				lk, ok := x.(*ssa.Lookup)
				return ok && loadedFromField(lk.X, "RoomManager", "rooms") && (lk.Index == mu.Key || sameVal(lk.Index, mu.Key))
			}
			// from every exclusive acquire of a RoomManager mutex that reaches the insert: the lookup lies in between
			bad := false
			var path []*ssa.BasicBlock
			nLock := 0
			eachInstr(fn, func(_ *ssa.BasicBlock, _ int, x ssa.Instruction) {
				call, ok := x.(*ssa.Call)
				if !ok || (callName(call) != "sync.RWMutex.Lock" && callName(call) != "sync.Mutex.Lock") {
					return
				}
				if nt, _, ok := fieldOf(call.Call.Args[0]); !ok || nt == nil || nt.Obj().Name() != "RoomManager" {
					return
				}
				nLock++
				q := &pathQuery{fn: fn, target: func(y ssa.Instruction) bool { return y == ins }, stop: isLookup}
				if hit, p := q.after(x); hit != nil {
					bad, path = true, p
				}
			})
			c.ob("C16-R8", fnKey(fn)+"#room-created-only-after-lookup-under-same-lock-"+itoa(k), mu.Pos(), !bad && nLock > 0,
				"a Room is stored into RoomManager.rooms without the same name having been looked up since the exclusive lock was taken (the existence check was made before, under another hold of the lock, or not at all): two connections joining a new room at once each create a Room, the later one replaces the earlier in the table, and the first connection believes it is a member of a room that does not list it", c.blockPath(path)...)
		})
	}
	c.Sites["C16-R8#room-table-inserts"] = nIns
	// (c) a join is "look the room up (or create it), then add the member" - two critical sections. That is only
	// sound while no Room object is unlinked from the manager's table behind a joiner's back: the functions that
	// delete from / replace RoomManager.rooms have no caller in the module's non-test code (they are explicit
	// administrative API), unless the join itself holds RoomManager.mu across lookup and add.
	{
		unlinkers := map[*ssa.Function]bool{}
		for _, fn := range c.srcFuncs(wsPkg) {
			eachInstr(fn, func(_ *ssa.BasicBlock, _ int, ins ssa.Instruction) {
				switch x := ins.(type) {
				case *ssa.Call:
					if callName(x) == "builtin.delete" && loadedFromField(x.Call.Args[0], "RoomManager", "rooms") {
						unlinkers[fn] = true
					}
				case *ssa.Store:
					if isStoreToField(x, "RoomManager", "rooms") && !isFreshAlloc(x.Addr) {
						unlinkers[fn] = true
					}
				}
			})
		}
		joinAtomic := false
		if add := c.fn(wsPkg, "RoomManager.AddConnectionToRoom"); add != nil {
			// lookup/create and Room.Add between one Lock and its Unlock of RoomManager.mu
			eachInstr(add, func(_ *ssa.BasicBlock, _ int, x ssa.Instruction) {
				call, ok := x.(*ssa.Call)
				if !ok || (callName(call) != "sync.RWMutex.Lock" && callName(call) != "sync.Mutex.Lock") {
					return
				}
				if nt, _, ok := fieldOf(call.Call.Args[0]); ok && nt != nil && nt.Obj().Name() == "RoomManager" {
					q := &pathQuery{fn: add, target: func(y ssa.Instruction) bool { return isCallTo(y, wsPath+".Room.Add") }, stop: func(y ssa.Instruction) bool {
						return isCallTo(y, "sync.RWMutex.Unlock", "sync.Mutex.Unlock")
					}}
					if h, _ := q.after(x); h != nil {
						joinAtomic = true
					}
				}
			})
		}
		nCallers := 0
		for _, rel := range c.modulePkgs() {
			for _, fn := range c.srcFuncs(rel) {
				k := 0
				eachCall(fn, func(call ssa.CallInstruction) {
					sf := staticFn(call)
					if sf == nil || !unlinkers[sf] {
						return
					}
					nCallers++
					k++
					c.ob("C16-R8", fnKey(fn)+"#unlinks-a-room-while-joins-are-two-step-"+itoa(k), call.Pos(), joinAtomic,
						fnKey(sf)+" removes Room objects from the manager's table, and it is called from running code, while a join looks the room up and adds the member in two separate critical sections: a join that overlaps the removal adds the connection to a Room the manager no longer knows - the connection says it is in the room, broadcasts to the room miss it and the member list does not show it")
				})
			}
		}
		c.Sites["C16-R8#room-unlinking-functions"] = len(unlinkers)
		c.Sites["C16-R8#callers-of-room-unlinking-functions"] = nCallers
		c.ob("C16-R8", wsPkg+".RoomManager#rooms-are-not-unlinked-behind-a-joiner", token.NoPos, len(unlinkers) > 0 || joinAtomic, "no function that removes rooms was found: the rule's anchor (delete on RoomManager.rooms) is gone")
	}
	if nIns < 1 {
		c.undecided("C16-R8: no insert into RoomManager.rooms found")
	}
	// (b)
	nPump := 0
	for _, fn := range c.srcFuncs(wsPkg) {
		k := 0
		eachInstr(fn, func(_ *ssa.BasicBlock, _ int, ins ssa.Instruction) {
			g, ok := ins.(*ssa.Go)
			if !ok || callName(g) != wsPath+".Connection.ReadPump" {
				return
			}
			nPump++
			k++
			isRegister := func(x ssa.Instruction) bool {
				snd, ok := x.(*ssa.Send)
				return ok && loadedFromField(snd.Chan, "Hub", "register")
			}
			q := &pathQuery{fn: fn, target: func(y ssa.Instruction) bool { return y == ins }, stop: isRegister}
			hit, path := q.fromEntry()
			c.ob("C16-R8", fnKey(fn)+"#registered-before-read-pump-starts-"+itoa(k), g.Pos(), hit == nil,
				"the read pump is started without the connection having been sent on Hub.register by this goroutine first (registration was moved into its own goroutine, or after the pump): a client that disconnects at once has its unregister processed before its register, which then adds a dead connection that is never removed, stays in rooms and keeps receiving broadcasts", c.blockPath(path)...)
		})
	}
	c.Sites["C16-R8#read-pump-starts"] = nPump
	if nPump < 1 {
		c.undecided("C16-R8: no `go conn.ReadPump()` found")
	}
}

// freshFromRegister: the connection closed by this call was received from Hub.register in the select this function
// runs (the hub loop's register case).
func freshFromRegister(ins ssa.Instruction) bool {
	cl, ok := ins.(*ssa.Call)
	if !ok || len(cl.Call.Args) == 0 {
		return false
	}
	return derivesFrom(cl.Call.Args[0], func(v ssa.Value) bool {
		// in a helper of the loop: the connection it is handed, when every caller hands over what it received from register
		if p, ok := v.(*ssa.Parameter); ok && p.Parent() != nil && p.Parent().Pkg != nil {
			fn := p.Parent()
			pi := -1
			for i, fp := range fn.Params {
				if fp == p {
					pi = i
				}
			}
			sites, fresh := 0, 0
			for _, g := range allPkgFuncs(fn.Pkg) {
				eachCall(g, func(cs ssa.CallInstruction) {
					if staticFn(cs) != fn || pi < 0 || pi >= len(cs.Common().Args) {
						return
					}
					sites++
					if isRegisterExtract(cs.Common().Args[pi]) {
						fresh++
					}
				})
			}
			return sites > 0 && sites == fresh
		}
		return isRegisterExtract(v)
	})
}

// allPkgFuncs: the functions and methods of an SSA package, with their closures.
func allPkgFuncs(p *ssa.Package) []*ssa.Function {
	var out []*ssa.Function
	seen := map[*ssa.Function]bool{}
	var add func(f *ssa.Function)
	add = func(f *ssa.Function) {
		if f == nil || seen[f] {
			return
		}
		seen[f] = true
		out = append(out, f)
		for _, a := range f.AnonFuncs {
			add(a)
		}
	}
	for _, m := range p.Members {
		switch x := m.(type) {
		case *ssa.Function:
			add(x)
		case *ssa.Type:
			for _, t := range []types.Type{x.Type(), types.NewPointer(x.Type())} {
				ms := p.Prog.MethodSets.MethodSet(t)
				for i := 0; i < ms.Len(); i++ {
					add(p.Prog.MethodValue(ms.At(i)))
				}
			}
		}
	}
	return out
}

// isRegisterExtract: v is the value the hub loop's select received from Hub.register.
func isRegisterExtract(v ssa.Value) bool {
	return derivesFrom(v, func(v ssa.Value) bool {
		ex, ok := v.(*ssa.Extract)
		if !ok {
			return false
		}
		sel, ok := ex.Tuple.(*ssa.Select)
		if !ok || ex.Index < 2 {
			return false
		}
		// Extract index 2+k is the value received by the k-th receive state
		k := 0
		for _, st := range sel.States {
			if st.Dir != types.RecvOnly {
				continue
			}
			if 2+k == ex.Index {
				if u, ok := st.Chan.(*ssa.UnOp); ok {
					if nt, f, ok := fieldOf(u.X); ok && nt != nil && nt.Obj().Name() == "Hub" && f == "register" {
						return true
					}
				}
				return false
			}
			k++
		}
		return false
	})
}
