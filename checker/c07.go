package main

import (
	"go/token"
	"go/types"
	"sort"
	"strings"

	"golang.org/x/tools/go/ssa"
)

func init() {
	register(&propSpec{
		id: "C07", title: "Declared data contracts are enforced at the boundary", run: runC07,
		notCovered:  "the accept/reject decisions of CheckType / TypesCompatible over all type definitions x JSON documents (value-level), numeric parsing semantics, nested-type recursion depth",
		assumptions: []string{"the boundary stages are ProcessQueryParams, ApplyTypeDefaults, ValidateObjectAgainstTypeDef and CheckType; a route has a contract when its InputType is a NamedType with a known TypeDef"},
	})
}

func runC07(c *Ctx) {
	respCtors := responseCtors(c)
	// ---- R1 interpreter: validate before run
	c.rule("C07-R1", "MPT/GRD: in Interpreter.ExecuteRoute the route body (executeStatements) is unreachable from entry once the no-contract edges (route.InputType==nil, type definition unknown) and the validators' err==nil edges are deleted: whenever a contract exists - of any shape: Item, Item?, Item | Other, [Item] - every path to the body passed ValidateObjectAgainstTypeDef or CheckType(body, route.InputType) successfully (or returned a 4xx before)")
	if er := c.mustFn("C07-R1", interpPkg, "Interpreter.ExecuteRoute"); er != nil {
		var wrappers []*ssa.Function
		var validates, noContractOK []ssa.Value
		var inputNil []ssa.Value
		eachInstr(er, func(_ *ssa.BasicBlock, _ int, ins ssa.Instruction) {
			switch x := ins.(type) {
			case *ssa.Call:
				if callName(x) == interpPath+".TypeChecker.ValidateObjectAgainstTypeDef" {
					validates = append(validates, x)
				}
				// a declared type that is not a bare name is enforced by the general checker
				if callName(x) == interpPath+".TypeChecker.CheckType" && len(x.Call.Args) >= 3 && derivesFrom(x.Call.Args[2], func(v ssa.Value) bool { return loadedFromField(v, "Route", "InputType") }) {
					validates = append(validates, x)
				}
				// a helper that returns a nil error only after validating (or when no contract applies) counts as the validator
				if sf := staticFn(x); sf != nil && sf != er && sf.Pkg != nil && sf.Pkg.Pkg.Path() == interpPath && validationWrapper(c, sf) {
					n := sf.Signature.Results().Len()
					if n == 1 {
						validates = append(validates, x)
					} else {
						validates = append(validates, extractOf(x, n-1)...)
					}
					wrappers = append(wrappers, sf)
				}
			case *ssa.UnOp:
				if loadedFromField(x, "Route", "InputType") {
					inputNil = append(inputNil, x)
				}
			case *ssa.Lookup:
				if x.CommaOk && loadedFromField(x.X, "Interpreter", "typeDefs") {
					noContractOK = append(noContractOK, extractOf(x, 1)...)
				}
			}
		})
		n := 0
		eachInstr(er, func(_ *ssa.BasicBlock, _ int, ins ssa.Instruction) {
			call, ok := ins.(*ssa.Call)
			if !ok || callName(call) != interpPath+".Interpreter.executeStatements" || !derivesFrom(call.Call.Args[1], func(v ssa.Value) bool { return loadedFromField(v, "Route", "Body") }) {
				return
			}
			n++
			q := &pathQuery{fn: er, target: func(x ssa.Instruction) bool { return x == ins }, cutEdge: func(b *ssa.BasicBlock, si int) bool {
				for _, v := range inputNil {
					if nilOnEdge(b, si, v) {
						return true
					}
				}
				for _, v := range noContractOK {
					if known, val := boolOnEdge(b, si, v); known && !val {
						return true
					}
				}
				for _, v := range validates {
					if nilOnEdge(b, si, v) {
						return true
					}
				}
				return false
			}}
			hit, path := q.fromEntry()
			c.ob("C07-R1", interpPkg+".Interpreter.ExecuteRoute#body-only-after-validation", call.Pos(), hit == nil && len(validates) > 0, "the route body is reachable for a route with a declared input type without the input having passed ValidateObjectAgainstTypeDef (e.g. body absent / not an object): the body runs on data violating the contract", c.blockPath(path)...)
		})
		if n == 0 {
			c.ob("C07-R1", interpPkg+".Interpreter.ExecuteRoute#runs-body", er.Pos(), false, "ExecuteRoute does not execute route.Body")
		}
		// failures are 4xx (decided in the function that makes the validator call: ExecuteRoute or its wrapper)
		for _, w := range wrappers {
			eachInstr(w, func(_ *ssa.BasicBlock, _ int, ins ssa.Instruction) {
				call, ok := ins.(*ssa.Call)
				if !ok || callName(call) != interpPath+".TypeChecker.ValidateObjectAgainstTypeDef" {
					return
				}
				for _, b := range w.Blocks {
					for si, s := range b.Succs {
						if nonNilOnEdge(b, si, call) {
							q2 := &pathQuery{fn: w, target: func(x ssa.Instruction) bool {
								k, ok := respStatusMadeAt(respCtors, x)
								return ok && k >= 400 && k < 500
							}}
							h, _ := q2.from(s, 0)
							c.ob("C07-R1", interpPkg+".Interpreter.ExecuteRoute#validation-failure-is-4xx", call.Pos(), h != nil, "a validation failure is not answered with a 4xx response")
						}
					}
				}
			})
		}
		for _, v := range validates {
			if _, isCall := v.(*ssa.Call); !isCall || callName(v.(*ssa.Call)) != interpPath+".TypeChecker.ValidateObjectAgainstTypeDef" {
				// a wrapper's error: the body must not run on it; the status was decided inside the wrapper
				for _, b := range er.Blocks {
					for si, s := range b.Succs {
						if nonNilOnEdge(b, si, v) {
							q := &pathQuery{fn: er, target: func(x ssa.Instruction) bool { return isCallTo(x, interpPath+".Interpreter.executeStatements") }}
							hit, _ := q.from(s, 0)
							c.ob("C07-R1", interpPkg+".Interpreter.ExecuteRoute#validation-failure-does-not-run-body", v.Pos(), hit == nil, "after a validation failure the body is still reachable")
						}
					}
				}
				continue
			}
			for _, b := range er.Blocks {
				for si, s := range b.Succs {
					if nonNilOnEdge(b, si, v) {
						q := &pathQuery{fn: er, target: func(x ssa.Instruction) bool { return isCallTo(x, interpPath+".Interpreter.executeStatements") }}
						hit, _ := q.from(s, 0)
						c.ob("C07-R1", interpPkg+".Interpreter.ExecuteRoute#validation-failure-does-not-run-body", v.Pos(), hit == nil, "after a validation failure the body is still reachable")
						okStatus := false
						q2 := &pathQuery{fn: er, target: func(x ssa.Instruction) bool {
							k, ok := respStatusMadeAt(respCtors, x)
							return ok && k >= 400 && k < 500
						}}
						if h, _ := q2.from(s, 0); h != nil {
							okStatus = true
						}
						c.ob("C07-R1", interpPkg+".Interpreter.ExecuteRoute#validation-failure-is-4xx", v.Pos(), okStatus, "a validation failure is not answered with a 4xx response")
					}
				}
			}
		}
	}

	// ---- R2 compiled: validate before run
	c.rule("C07-R2", "MPT/GRD: in the compiled route handler VM.Execute is unreachable once the err==nil edge of validateCompiledInput is deleted (validation happens for every request, whatever method/content type), its failure edge answers through sendClientError (4xx), and validateCompiledInput returns nil only under the no-contract conditions or after ValidateObjectAgainstTypeDef succeeded")
	// The compiled path's validator is resolved by role: the *core* validators are the functions of cmd/glyph
	// that call TypeChecker.ValidateObjectAgainstTypeDef themselves; a function all of whose returns hand back
	// the result of a call to a validator (a thin wrapper fixing an argument) is a validator too.
	coreValidators, validatorFns := compiledValidators(c)
	if cr := c.mustFn("C07-R2", glyphCmd, "createCompiledRouteHandler"); cr != nil {
		for _, cl := range innerClosures(cr) {
			var vs []ssa.Value
			var exec ssa.Instruction
			eachInstr(cl, func(_ *ssa.BasicBlock, _ int, ins ssa.Instruction) {
				if call, ok := ins.(*ssa.Call); ok {
					if sf := staticFn(call); sf != nil && validatorFns[sf] {
						vs = append(vs, call)
					}
					if callName(call) == vmPath+".VM.Execute" {
						exec = ins
					}
				}
			})
			if exec == nil {
				continue
			}
			q := &pathQuery{fn: cl, target: func(x ssa.Instruction) bool { return x == exec }, cutEdge: func(b *ssa.BasicBlock, si int) bool {
				for _, v := range vs {
					if nilOnEdge(b, si, v) {
						return true
					}
				}
				return false
			}}
			hit, path := q.fromEntry()
			c.ob("C07-R2", "cmd/glyph.createCompiledRouteHandler#execute-only-after-validation", exec.Pos(), hit == nil && len(vs) > 0, "the compiled body runs on a path that did not validate the input against the declared type (other method, content type, undecodable or absent body)", c.blockPath(path)...)
			for _, v := range vs {
				for _, b := range cl.Blocks {
					for si, s := range b.Succs {
						if nonNilOnEdge(b, si, v) {
							q2 := &pathQuery{fn: cl, target: isReturn, stop: func(x ssa.Instruction) bool { return isCallTo(x, modPath+"/cmd/glyph.sendClientError") }}
							h, _ := q2.from(s, 0)
							q3 := &pathQuery{fn: cl, target: func(x ssa.Instruction) bool { return x == exec }}
							h3, _ := q3.from(s, 0)
							c.ob("C07-R2", "cmd/glyph.createCompiledRouteHandler#validation-failure-is-4xx-and-stops", v.Pos(), h == nil && h3 == nil, "a failed input validation is not answered with a client error, or the body still runs")
						}
					}
				}
			}
			// the validated value is the one bound as input
			okSame := false
			for _, v := range vs {
				arg := bodyArgOf(v.(*ssa.Call))
				if arg == nil {
					continue
				}
				eachInstr(cl, func(_ *ssa.BasicBlock, _ int, ins ssa.Instruction) {
					call, ok := ins.(*ssa.Call)
					if !ok || callName(call) != vmPath+".VM.SetLocal" {
						return
					}
					if s, ok := constString(call.Call.Args[1]); ok && s == "input" {
						if derivesFrom(call.Call.Args[2], func(x ssa.Value) bool { return valEq(x, arg) }) {
							okSame = true
						}
					}
				})
			}
			c.ob("C07-R2", "cmd/glyph.createCompiledRouteHandler#validated-value-is-bound", exec.Pos(), okSame, "the value bound as `input` is not the value that was validated")
		}
	}
	if len(coreValidators) == 0 {
		c.ob("C07-R2", "cmd/glyph.validateCompiledInput#calls-validator", token.NoPos, false, "no function of cmd/glyph calls ValidateObjectAgainstTypeDef: the compiled path has no input validator")
	}
	for _, vi := range coreValidators {
		var validates, okFlags, inNil []ssa.Value
		eachInstr(vi, func(_ *ssa.BasicBlock, _ int, ins ssa.Instruction) {
			switch x := ins.(type) {
			case *ssa.Call:
				if callName(x) == interpPath+".TypeChecker.ValidateObjectAgainstTypeDef" {
					validates = append(validates, x)
				}
				if callName(x) == interpPath+".TypeChecker.CheckType" && len(x.Call.Args) >= 3 && derivesFrom(x.Call.Args[2], func(v ssa.Value) bool { return loadedFromField(v, "Route", "InputType") }) {
					validates = append(validates, x)
				}
			case *ssa.UnOp:
				if loadedFromField(x, "Route", "InputType") {
					inNil = append(inNil, x)
				}
			case *ssa.TypeAssert:
				// "the declared type is not a bare name" is not a reason to skip validation: that edge must lead
				// to the general checker (CheckType), whose success edge is what allows the nil return
				_ = x
			case *ssa.Lookup:
				if x.CommaOk {
					okFlags = append(okFlags, extractOf(x, 1)...)
				}
			}
		})
		checkNilReturnOnlyUnder(c, "C07-R2", vi, func(b *ssa.BasicBlock, si int) bool {
			for _, v := range inNil {
				if nilOnEdge(b, si, v) {
					return true
				}
			}
			for _, v := range okFlags {
				if known, val := boolOnEdge(b, si, v); known && !val {
					return true
				}
			}
			for _, v := range validates {
				if nilOnEdge(b, si, v) {
					return true
				}
			}
			return false
		}, "the compiled path's validator answers 'valid' on a path that neither found 'no input type declared' nor crossed the success edge of ValidateObjectAgainstTypeDef / CheckType(body, route.InputType): a declared input type of that shape (Item?, Item | Other, [Item]) is not enforced and the body runs on whatever arrived")
		c.ob("C07-R2", fnKey(vi)+"#calls-validator", vi.Pos(), len(validates) > 0, "the compiled path's validator no longer calls ValidateObjectAgainstTypeDef")
	}

	// ---- R3 result check
	c.rule("C07-R3", "MPT: in Interpreter.ExecuteRoute, with the `route.ReturnType == nil` edge and CheckType's err==nil edge deleted, the only success returns still reachable are the marker responses (SSE route, *RedirectResponse, *StatusResponse): every ordinary result passed CheckType(result, route.ReturnType), whose failure edge answers 5xx; the compiled handler must do the same")
	if er := c.fn(interpPkg, "Interpreter.ExecuteRoute"); er != nil {
		var checks, rtNil []ssa.Value
		var bodyCall ssa.Instruction
		eachInstr(er, func(_ *ssa.BasicBlock, _ int, ins ssa.Instruction) {
			switch x := ins.(type) {
			case *ssa.Call:
				if callName(x) == interpPath+".TypeChecker.CheckType" && derivesFrom(x.Call.Args[2], func(v ssa.Value) bool { return loadedFromField(v, "Route", "ReturnType") }) {
					checks = append(checks, x)
				}
				if callName(x) == interpPath+".Interpreter.executeStatements" {
					bodyCall = ins
				}
			case *ssa.UnOp:
				if loadedFromField(x, "Route", "ReturnType") {
					rtNil = append(rtNil, x)
				}
			}
		})
		if bodyCall != nil {
			cut := func(b *ssa.BasicBlock, si int) bool {
				for _, v := range rtNil {
					if nilOnEdge(b, si, v) {
						return true
					}
				}
				for _, v := range checks {
					if nilOnEdge(b, si, v) {
						return true
					}
				}
				return false
			}
			n := 0
			eachInstr(er, func(_ *ssa.BasicBlock, _ int, ins ssa.Instruction) {
				r, ok := ins.(*ssa.Return)
				if !ok || !isNilConst(stripConv(retVals(r)[1])) || isNilConst(stripConv(retVals(r)[0])) {
					return
				}
				// reachable after the body without the check?
				q := &pathQuery{fn: er, cutEdge: cut, target: func(x ssa.Instruction) bool { return x == ins }}
				if h, _ := q.after(bodyCall); h == nil {
					return
				}
				n++
				// must be a marker response: dominated by ok-edge of an assertion of the result to a *…Response marker, or Method == SSE
				marker := false
				for _, b := range er.Blocks {
					iff := ifOf(b)
					if iff == nil || !b.Dominates(r.Block()) {
						continue
					}
					if e, ok := iff.Cond.(*ssa.Extract); ok {
						if ta, ok := e.Tuple.(*ssa.TypeAssert); ok && ta.CommaOk && b.Succs[0].Dominates(r.Block()) {
							nm := ta.AssertedType.String()
							if strings.HasSuffix(nm, "RedirectResponse") || strings.HasSuffix(nm, "StatusResponse") {
								marker = true
							}
						}
					}
					if bo, ok := iff.Cond.(*ssa.BinOp); ok && bo.Op == token.EQL && loadedFromField(bo.X, "Route", "Method") && b.Succs[0].Dominates(r.Block()) {
						marker = true
					}
				}
				c.ob("C07-R3", interpPkg+".Interpreter.ExecuteRoute#success-return-"+itoa(n)+"-checked-or-marker", r.Pos(), marker, "a result is returned to the client without CheckType(result, route.ReturnType) although it is not a status/redirect/SSE marker")
			})
			c.ob("C07-R3", interpPkg+".Interpreter.ExecuteRoute#checks-return-type", er.Pos(), len(checks) > 0, "ExecuteRoute never checks the declared return type")
			for _, v := range checks {
				for _, b := range er.Blocks {
					for si, s := range b.Succs {
						if nonNilOnEdge(b, si, v) {
							q2 := &pathQuery{fn: er, target: func(x ssa.Instruction) bool {
								k, ok := respStatusMadeAt(respCtors, x)
								return ok && k >= 500
							}}
							h, _ := q2.from(s, 0)
							c.ob("C07-R3", interpPkg+".Interpreter.ExecuteRoute#bad-return-value-is-5xx", v.Pos(), h != nil, "a return-type mismatch is not answered with a 5xx")
						}
					}
				}
			}
		}
	}

	// ---- R4 stage parity
	c.rule("C07-R4", "TBL: the set of boundary stages reached by the compiled route handler (closure and its cmd/glyph helpers) equals the set reached by the interpreted path (executeRoute -> Interpreter.ExecuteRoute): ProcessQueryParams, ApplyTypeDefaults, ValidateObjectAgainstTypeDef, CheckType of the declared input type, CheckType of the declared return type")
	stages := []string{interpPath + ".ProcessQueryParams", interpPath + ".Interpreter.ApplyTypeDefaults", interpPath + ".TypeChecker.ValidateObjectAgainstTypeDef", interpPath + ".TypeChecker.CheckType"}
	reached := func(root *ssa.Function, pkgs ...string) map[string]bool {
		paramRole := map[*ssa.Parameter]string{}
		out := map[string]bool{}
		seen := map[*ssa.Function]bool{}
		var visit func(f *ssa.Function, d int)
		visit = func(f *ssa.Function, d int) {
			if f == nil || seen[f] || d > 3 || len(f.Blocks) == 0 {
				return
			}
			seen[f] = true
			for _, a := range f.AnonFuncs {
				visit(a, d)
			}
			eachCall(f, func(call ssa.CallInstruction) {
				n := callName(call)
				for _, s := range stages {
					if n == s {
						out[s] = true
					}
				}
				// CheckType is used for two different contracts: tell them apart by the type it is given
				if n == interpPath+".TypeChecker.CheckType" && len(call.Common().Args) >= 3 {
					delete(out, n)
					for _, fld := range []string{"ReturnType", "InputType"} {
						if derivesFrom(call.Common().Args[2], func(v ssa.Value) bool {
							if pp, ok := v.(*ssa.Parameter); ok && paramRole[pp] == fld {
								return true
							}
							return loadedFromField(v, "Route", fld)
						}) {
							out[n+":"+fld] = true
						}
					}
				}
				if sf := staticFn(call); sf != nil && sf.Pkg != nil {
					// a helper that is handed the declared type: its parameter stands for the route's field
					for i, a := range call.Common().Args {
						if i >= len(sf.Params) {
							break
						}
						for _, fld := range []string{"ReturnType", "InputType"} {
							if derivesFrom(a, func(v ssa.Value) bool {
								if pp, ok := v.(*ssa.Parameter); ok && paramRole[pp] == fld {
									return true
								}
								return loadedFromField(v, "Route", fld)
							}) {
								paramRole[sf.Params[i]] = fld
							}
						}
					}
					for _, p := range pkgs {
						if sf.Pkg.Pkg.Path() == modPath+"/"+p && !strings.Contains(sf.Name(), "CheckType") && !strings.Contains(sf.Name(), "ValidateObject") && !strings.Contains(sf.Name(), "ApplyTypeDefaults") && !strings.Contains(sf.Name(), "ProcessQueryParams") {
							visit(sf, d+1)
						}
					}
				}
			})
		}
		visit(root, 0)
		return out
	}
	var compiled, interp map[string]bool
	if f := c.fn(glyphCmd, "createCompiledRouteHandler"); f != nil {
		compiled = reached(f, glyphCmd)
	}
	if f := c.fn(interpPkg, "Interpreter.ExecuteRoute"); f != nil {
		interp = reached(f)
		// boundary work may live in helpers of ExecuteRoute that are handed the route or the request (not in the
		// evaluator, which is reached through the body and is not a boundary stage)
		eachCall(f, func(call ssa.CallInstruction) {
			sf := staticFn(call)
			if sf == nil || sf.Pkg == nil || sf.Pkg.Pkg.Path() != interpPath {
				return
			}
			takesRoute := false
			for i := 0; i < sf.Signature.Params().Len(); i++ {
				t := sf.Signature.Params().At(i).Type()
				if typeIs(t, astPath, "Route") || typeIs(t, interpPath, "Request") {
					takesRoute = true
				}
			}
			if takesRoute && sf != f {
				for k := range reached(sf) {
					interp[k] = true
				}
			}
		})
	}
	stages = append(stages[:len(stages)-1], interpPath+".TypeChecker.CheckType:InputType", interpPath+".TypeChecker.CheckType:ReturnType")
	sort.Strings(stages)
	for _, s := range stages {
		if interp[s] {
			c.ob("C07-R4", "cmd/glyph.createCompiledRouteHandler#stage:"+short(s), token.NoPos, compiled[s], "the interpreted path applies "+short(s)+" at the boundary but the compiled (default) path never does: the two engines enforce different contracts")
		}
	}
	if len(interp) < 3 {
		c.undecided("C07-R4: interpreter path reaches only %d boundary stages", len(interp))
	}

	// ---- R5 required means non-null
	c.rule("C07-R5", "MPT: in ValidateObjectAgainstTypeDef the looked-up value of a required field flows into a nil comparison whose nil edge reaches the missing-field error return (CheckType accepts null for every type, so presence alone is not enough)")
	if vf0 := c.mustFn("C07-R5", interpPkg, "TypeChecker.ValidateObjectAgainstTypeDef"); vf0 != nil {
		// the validator may delegate to helpers of the package: examine it and its static callees (depth 2)
		cands := []*ssa.Function{vf0}
		for d := 0; d < 2; d++ {
			for _, f := range append([]*ssa.Function{}, cands...) {
				eachCall(f, func(call ssa.CallInstruction) {
					if sf := staticFn(call); sf != nil && sf.Pkg == vf0.Pkg && len(sf.Blocks) > 0 && !strings.HasSuffix(sf.Name(), "CheckType") {
						dup := false
						for _, x := range cands {
							if x == sf {
								dup = true
							}
						}
						if !dup {
							cands = append(cands, sf)
						}
					}
				})
			}
		}
		ok := false
		reqOK := false
		for _, vf := range cands {
			isMapParam := func(v ssa.Value) bool {
				p, isP := v.(*ssa.Parameter)
				if !isP {
					return false
				}
				_, isM := p.Type().Underlying().(*types.Map)
				return isM
			}
			eachInstr(vf, func(_ *ssa.BasicBlock, _ int, ins ssa.Instruction) {
				lk, isL := ins.(*ssa.Lookup)
				if !isL || !lk.CommaOk || !isMapParam(lk.X) {
					return
				}
				for _, v := range extractOf(lk, 0) {
					for _, b := range vf.Blocks {
						for si, s := range b.Succs {
							if nilOnEdge(b, si, v) {
								q := &pathQuery{fn: vf, target: func(x ssa.Instruction) bool {
									r, ok := x.(*ssa.Return)
									return ok && !isNilConst(stripConv(retVals(r)[0]))
								}, stop: func(x ssa.Instruction) bool { return isCallTo(x, interpPath+".TypeChecker.CheckType") }}
								if h, _ := q.from(s, 0); h != nil {
									ok = true
								}
							}
						}
					}
				}
			})
			// the required loop tests Required and absence of a default
			eachInstr(vf, func(_ *ssa.BasicBlock, _ int, ins ssa.Instruction) {
				if u, ok := ins.(*ssa.UnOp); ok {
					if _, f, ok := fieldOf(u.X); ok && f == "Required" {
						reqOK = true
					}
				}
				if fl, ok := ins.(*ssa.Field); ok {
					if st, ok := fl.X.Type().Underlying().(*types.Struct); ok && st.Field(fl.Field).Name() == "Required" {
						reqOK = true
					}
				}
			})
		}
		vf := vf0
		c.ob("C07-R5", interpPkg+".TypeChecker.ValidateObjectAgainstTypeDef#required-field-null-rejected", vf.Pos(), ok, "a required field that is present but null passes validation ({\"name\": null} satisfies name: str!)")
		// … and that null test does not sit behind "the field has no default": a default fills in absent fields
		// only, so {"role": null} for `role: str! = "member"` must be refused too. Decided by cutting every edge on
		// which field.Default == nil is established and asking whether a nil-edge of the looked-up value that
		// leads to the error return is still reachable from entry.
		okNoDefault := false
		for _, vfx := range cands {
			var defaults []ssa.Value
			eachInstr(vfx, func(_ *ssa.BasicBlock, _ int, ins ssa.Instruction) {
				switch x := ins.(type) {
				case *ssa.UnOp:
					if _, f, ok := fieldOf(x.X); ok && f == "Default" {
						defaults = append(defaults, x)
					}
				case *ssa.Field:
					if st, ok := x.X.Type().Underlying().(*types.Struct); ok && st.Field(x.Field).Name() == "Default" {
						defaults = append(defaults, x)
					}
				}
			})
			cutDefaultNil := func(b *ssa.BasicBlock, si int) bool {
				for _, d := range defaults {
					if nilOnEdge(b, si, d) {
						return true
					}
				}
				return false
			}
			eachInstr(vfx, func(_ *ssa.BasicBlock, _ int, ins ssa.Instruction) {
				lk, isL := ins.(*ssa.Lookup)
				if !isL || !lk.CommaOk {
					return
				}
				if p, isP := lk.X.(*ssa.Parameter); !isP {
					return
				} else if _, isM := p.Type().Underlying().(*types.Map); !isM {
					return
				}
				for _, v := range extractOf(lk, 0) {
					for _, b := range vfx.Blocks {
						for si, s := range b.Succs {
							if !nilOnEdge(b, si, v) {
								continue
							}
							qErr := &pathQuery{fn: vfx, target: func(x ssa.Instruction) bool {
								r, ok := x.(*ssa.Return)
								return ok && !isNilConst(stripConv(retVals(r)[0]))
							}, stop: func(x ssa.Instruction) bool { return isCallTo(x, interpPath+".TypeChecker.CheckType") }, cutEdge: cutDefaultNil}
							if h, _ := qErr.from(s, 0); h == nil {
								continue
							}
							// is this nil-edge's source block reachable from entry without a Default==nil edge?
							qIn := &pathQuery{fn: vfx, cutEdge: cutDefaultNil, target: func(x ssa.Instruction) bool { return x.Block() == b }}
							if h, _ := qIn.fromEntry(); h != nil {
								okNoDefault = true
							}
						}
					}
				}
			})
		}
		c.ob("C07-R5", interpPkg+".TypeChecker.ValidateObjectAgainstTypeDef#null-rejected-also-when-the-field-has-a-default", vf.Pos(), okNoDefault, "the null test of a required field is only reached for fields without a default: {\"role\": null} satisfies `role: str! = \"member\"` and the body sees null in a field declared non-null (a default fills in absent fields, not null ones)")
		c.ob("C07-R5", interpPkg+".TypeChecker.ValidateObjectAgainstTypeDef#tests-required-flag", vf.Pos(), reqOK, "the Required flag of fields is never consulted")
	}

	// ---- R6 typed query conversion
	c.rule("C07-R6", "EXH/MPT: convertValue has an arm for each scalar ast.Type a query parameter can declare (IntType, FloatType, BoolType, StringType, ArrayType) and for the wrappers OptionalType and UnionType; from the err!=nil edge of strconv.ParseInt / ParseFloat / parseBool / a recursive convertValue every path to a success return crosses the success edge of another conversion (a later member of a union) - no lenient fallback turns an unparsable value into a value; both handlers turn ProcessQueryParams' error into a 4xx")
	if cv := c.mustFn("C07-R6", interpPkg, "convertValue"); cv != nil {
		have := map[string]bool{}
		eachInstr(cv, func(_ *ssa.BasicBlock, _ int, ins ssa.Instruction) {
			if ta, ok := ins.(*ssa.TypeAssert); ok && ta.CommaOk && ta.X == ssa.Value(cv.Params[1]) {
				if n := namedOf(ta.AssertedType); n != nil {
					have[n.Obj().Name()] = true
				}
			}
		})
		for _, t := range []string{"IntType", "FloatType", "BoolType", "StringType", "ArrayType", "OptionalType", "UnionType"} {
			c.ob("C07-R6", interpPkg+".convertValue#arm:"+t, cv.Pos(), have[t], "no conversion arm for "+t+": a query parameter declared with it (`? page: int?`) is passed through as the raw string - ?page=abc runs the body, and ?page=5 arrives as \"5\"")
		}
		// the success edges of the conversion calls: a success return reached through one of them after an
		// earlier member of a union failed is a conversion, not leniency
		var convErrs []ssa.Value
		eachInstr(cv, func(_ *ssa.BasicBlock, _ int, ins ssa.Instruction) {
			if call, ok := ins.(*ssa.Call); ok {
				// only the conversion of another member (a recursive convertValue) counts: a second parser tried on
				// the same text after the first refused it (ParseFloat after ParseInt) is exactly the leniency meant
				if callName(call) == interpPath+".convertValue" {
					convErrs = append(convErrs, extractOf(call, 1)...)
				}
			}
		})
		cutConverted := func(b *ssa.BasicBlock, si int) bool {
			for _, e := range convErrs {
				if nilOnEdge(b, si, e) {
					return true
				}
			}
			return false
		}
		k := 0
		eachInstr(cv, func(_ *ssa.BasicBlock, _ int, ins ssa.Instruction) {
			call, ok := ins.(*ssa.Call)
			if !ok {
				return
			}
			n := callName(call)
			if n != "strconv.ParseInt" && n != "strconv.ParseFloat" && n != interpPath+".parseBool" && n != "strconv.ParseBool" && n != interpPath+".convertValue" {
				return
			}
			for _, er := range extractOf(call, 1) {
				for _, b := range cv.Blocks {
					for si, s := range b.Succs {
						if !nonNilOnEdge(b, si, er) {
							continue
						}
						k++
						q := &pathQuery{fn: cv, cutEdge: cutConverted, target: func(x ssa.Instruction) bool {
							r, ok := x.(*ssa.Return)
							return ok && isNilConst(stripConv(retVals(r)[1]))
						}}
						hit, path := q.from(s, 0)
						c.ob("C07-R6", interpPkg+".convertValue#parse-error-is-returned-"+itoa(k)+":"+short(n), call.Pos(), hit == nil, "after "+short(n)+" failed a success return is still reachable without any other conversion having succeeded: an unparsable typed query value is accepted (converted leniently) instead of yielding a 4xx", c.blockPath(path)...)
					}
				}
			}
		})
	}
	for _, site := range []struct{ rel, fn string }{{interpPkg, "Interpreter.ExecuteRoute"}, {glyphCmd, "createCompiledRouteHandler"}} {
		f := c.fn(site.rel, site.fn)
		if f == nil {
			continue
		}
		for _, g := range withAnon(f) {
			eachInstr(g, func(_ *ssa.BasicBlock, _ int, ins ssa.Instruction) {
				call, ok := ins.(*ssa.Call)
				if !ok || callName(call) != interpPath+".ProcessQueryParams" {
					return
				}
				for _, er := range extractOf(call, 1) {
					for _, b := range g.Blocks {
						for si, s := range b.Succs {
							if !nonNilOnEdge(b, si, er) {
								continue
							}
							q := &pathQuery{fn: g, target: func(x ssa.Instruction) bool {
								return isCallTo(x, interpPath+".Interpreter.executeStatements", vmPath+".VM.Execute")
							}}
							h, _ := q.from(s, 0)
							c.ob("C07-R6", fnKey(g)+"#query-error-stops-before-body", call.Pos(), h == nil, "after a query-parameter conversion error the body still runs")
						}
					}
				}
			})
		}
	}

	// both handlers hand ProcessQueryParams what an error-reporting parser made of the raw query: never
	// url.URL.Query() / url.ParseQuery with its error dropped, which silently lose the pairs they cannot parse
	for _, fname := range []string{"createCompiledRouteHandler", "executeRoute"} {
		f := c.fn(glyphCmd, fname)
		if f == nil {
			continue
		}
		for _, g := range withAnon(f) {
			eachInstr(g, func(_ *ssa.BasicBlock, _ int, ins ssa.Instruction) {
				call, ok := ins.(*ssa.Call)
				if !ok || callName(call) != interpPath+".ProcessQueryParams" {
					return
				}
				lossy := derivesFrom(call.Call.Args[0], func(v ssa.Value) bool {
					cl, ok := v.(*ssa.Call)
					return ok && callName(cl) == "net/url.URL.Query"
				})
				var parseErrs []ssa.Value
				derivesFrom(call.Call.Args[0], func(v ssa.Value) bool {
					if ex, ok := v.(*ssa.Extract); ok {
						if cl, ok := ex.Tuple.(*ssa.Call); ok {
							switch callName(cl) {
							case interpPath + ".ExtractRawQueryParams", interpPath + ".parseRawQuery", "net/url.ParseQuery":
								parseErrs = append(parseErrs, extractOf(cl, 1)...)
							}
						}
					}
					return false
				})
				c.ob("C07-R6", fnKey(g)+"#raw-query-from-an-error-reporting-parser", call.Pos(), !lossy && len(parseErrs) > 0, "the raw query parameters come from URL.Query(), which drops every pair it cannot parse (page=%zz, page=1;2) without an error: the declared typed parameter looks absent and the body runs with null / the default instead of the request being answered 4xx")
				for _, er := range parseErrs {
					for _, b := range g.Blocks {
						for si, s2 := range b.Succs {
							if !nonNilOnEdge(b, si, er) {
								continue
							}
							// the parser's error may be merged with the converter's into one variable that is tested once:
							// on the failure path that merged value is the parser's error, so its nil edge is not taken
							merged := func(b2 *ssa.BasicBlock, si2 int) bool {
								for _, ins2 := range b2.Instrs {
									_ = ins2
								}
								iff := ifOf(b2)
								if iff == nil {
									return false
								}
								for _, blk := range g.Blocks {
									for _, i3 := range blk.Instrs {
										ph, ok := i3.(*ssa.Phi)
										if !ok {
											continue
										}
										has := false
										for _, e := range ph.Edges {
											if e == er {
												has = true
											}
										}
										if has && nilOnEdge(b2, si2, ph) {
											return true
										}
									}
								}
								return false
							}
							q := &pathQuery{fn: g, cutEdge: merged, target: func(x ssa.Instruction) bool { return isCallTo(x, vmPath+".VM.Execute") }}
							h, _ := q.from(s2, 0)
							c.ob("C07-R6", fnKey(g)+"#unparsable-query-stops-before-body", call.Pos(), h == nil, "after the raw query failed to parse the body still runs")
						}
					}
				}
			})
		}
	}

	// every supplied value reaches the converter: no filtering between the raw query and convertValue
	if pq := c.mustFn("C07-R6", interpPkg, "ProcessQueryParams"); pq != nil {
		rawLookup := func(v ssa.Value) bool {
			// values, exists := rawParams[name]  -> Extract #0 of a comma-ok Lookup on the first parameter
			ex, ok := v.(*ssa.Extract)
			if ok {
				v = ex.Tuple
			}
			lk, ok := v.(*ssa.Lookup)
			return ok && lk.X == ssa.Value(pq.Params[0])
		}
		var onlyRaw func(v ssa.Value, d int) (bool, string)
		onlyRaw = func(v ssa.Value, d int) (bool, string) {
			if d > 10 {
				return false, "derivation too deep"
			}
			if rawLookup(v) {
				return true, ""
			}
			switch x := v.(type) {
			case *ssa.Phi:
				for _, e := range x.Edges {
					if ok, why := onlyRaw(e, d+1); !ok {
						return false, why
					}
				}
				return true, ""
			case *ssa.UnOp:
				if x.Op == token.MUL {
					if ia, ok := x.X.(*ssa.IndexAddr); ok {
						return onlyRaw(ia.X, d+1)
					}
					if al, ok := x.X.(*ssa.Alloc); ok {
						n := 0
						for _, r := range refs(al) {
							if st, ok := r.(*ssa.Store); ok && st.Addr == ssa.Value(al) {
								n++
								if ok, why := onlyRaw(st.Val, d+1); !ok {
									return false, why
								}
							}
						}
						return n > 0, "uninitialised"
					}
				}
			case *ssa.Slice:
				return false, "a sub-slice of the supplied values"
			case *ssa.Call:
				return false, "the result of " + short(callName(x))
			}
			return false, "not the raw values of the parameter"
		}
		k := 0
		eachCall(pq, func(call ssa.CallInstruction) {
			n := callName(call)
			if n != interpPath+".convertValue" && n != interpPath+".convertToArray" {
				return
			}
			k++
			ok, why := onlyRaw(call.Common().Args[0], 0)
			c.ob("C07-R6", interpPkg+".ProcessQueryParams#converter-sees-the-supplied-values-"+itoa(k)+":"+short(n), call.Pos(), ok, "what is converted is "+why+", not rawParams[name] as the client sent it: values dropped or rewritten on the way (e.g. blank entries of a typed parameter) are never parsed, so `?limit=` runs the body with the default instead of yielding a 4xx")
		})
		if k < 2 {
			c.undecided("C07-R6: ProcessQueryParams has %d converter calls, expected 2", k)
		}
	}
	if ca := c.mustFn("C07-R6", interpPkg, "convertToArray"); ca != nil {
		for _, lp := range naturalLoops(ca) {
			// a way round the loop that converts nothing
			isConv := func(x ssa.Instruction) bool { return isCallTo(x, interpPath+".convertValue") }
			skip := false
			for _, b := range ca.Blocks {
				if !lp.body[b] {
					continue
				}
				for _, s := range b.Succs {
					if s == lp.head && b != lp.head {
						// b is a latch: reachable from the header without converting?
						q := &pathQuery{fn: ca, target: func(x ssa.Instruction) bool { return x == b.Instrs[len(b.Instrs)-1] }, stop: isConv,
							cutEdge: func(bb *ssa.BasicBlock, si int) bool { return !lp.body[bb.Succs[si]] }}
						if hit, _ := q.from(lp.head, 0); hit != nil {
							skip = true
						}
					}
				}
			}
			c.ob("C07-R6", interpPkg+".convertToArray#every-element-is-converted", ca.Pos(), !skip, "an iteration of the element loop can complete without calling convertValue: some supplied elements of a typed list parameter are skipped instead of being parsed (`?ids=1&ids=&ids=3` runs with [1,3])")
		}
	}

	// ---- R7 limits in the validator fail closed
	c.rule("C07-R7", "MPT: no function of the type checker (pkg/interpreter/typechecker.go) answers 'valid' (returns a nil error) directly on the edge of a comparison between an integer parameter/counter and a constant limit: a nesting/size limit that is reached must be reported as an error, never treated as conformance")
	for _, fn := range c.srcFuncs(interpPkg) {
		if !strings.HasSuffix(c.Fset.Position(fn.Pos()).Filename, "/typechecker.go") {
			continue
		}
		res := fn.Signature.Results()
		if res.Len() != 1 || res.At(0).Type().String() != "error" {
			continue
		}
		k := 0
		for _, b := range fn.Blocks {
			iff := ifOf(b)
			if iff == nil {
				continue
			}
			bo, ok := iff.Cond.(*ssa.BinOp)
			if !ok {
				continue
			}
			isIntParamish := func(v ssa.Value) bool {
				bt, ok := v.Type().Underlying().(*types.Basic)
				if !ok || bt.Info()&types.IsInteger == 0 {
					return false
				}
				return derivesFrom(v, func(x ssa.Value) bool { _, isP := x.(*ssa.Parameter); return isP }) && !derivesFrom(v, func(x ssa.Value) bool {
					cl, ok := x.(*ssa.Call)
					return ok && callName(cl) == "builtin.len"
				})
			}
			var lim int64
			okShape := false
			if n, isC := constInt(bo.Y); isC && isIntParamish(bo.X) {
				lim, okShape = n, true
			}
			if n, isC := constInt(bo.X); isC && isIntParamish(bo.Y) {
				lim, okShape = n, true
			}
			if !okShape || lim < 4 {
				continue
			}
			k++
			bad := false
			for _, sblk := range b.Succs {
				// successor that immediately returns nil
				for _, ins := range sblk.Instrs {
					if r, ok := ins.(*ssa.Return); ok && isNilConst(stripConv(retVals(r)[0])) && len(sblk.Instrs) <= 3 {
						bad = true
					}
				}
			}
			c.ob("C07-R7", fnKey(fn)+"#limit-"+itoa(k)+"-fails-closed", bo.Pos(), !bad, "when the limit is reached the checker returns nil (valid): everything nested deeper than the limit is accepted unvalidated, for input validation and for the return-type check")
		}
	}
	c.ob("C07-R7", interpPkg+"#typechecker-limits-scanned", token.NoPos, true, "")

	// ---- R8 no stale checker state on the compiled path
	c.rule("C07-R10", "GRD: whether a request has a body is never decided by an ordering test of http.Request.ContentLength against 0/1: the field is -1 for bodies of unknown length (chunked, streamed), so `ContentLength > 0` treats such a body as absent - a conforming chunked request is then rejected as missing its required fields, and a wrongly typed one runs the body unchecked. Only ==/!= 0 or a comparison with a size limit are accepted")
	{
		n := 0
		for _, rel := range []string{glyphCmd, "pkg/server", interpPkg} {
			for _, fn := range c.srcFuncs(rel) {
				k := 0
				eachInstr(fn, func(_ *ssa.BasicBlock, _ int, ins ssa.Instruction) {
					bo, ok := ins.(*ssa.BinOp)
					if !ok {
						return
					}
					isCL := func(v ssa.Value) bool {
						u, ok := stripConv(v).(*ssa.UnOp)
						if !ok || u.Op != token.MUL {
							return false
						}
						nt, f, ok := fieldOf(u.X)
						return ok && nt != nil && nt.Obj().Pkg() != nil && nt.Obj().Pkg().Path() == "net/http" && nt.Obj().Name() == "Request" && f == "ContentLength"
					}
					var other ssa.Value
					if isCL(bo.X) {
						other = bo.Y
					} else if isCL(bo.Y) {
						other = bo.X
					} else {
						return
					}
					n++
					kv, isK := constInt(other)
					bad := isK && (kv == 0 || kv == 1) && (bo.Op == token.GTR || bo.Op == token.GEQ || bo.Op == token.LSS || bo.Op == token.LEQ)
					k++
					c.ob("C07-R10", fnKey(fn)+"#content-length-sign-test-"+itoa(k), bo.Pos(), !bad, "the presence of a request body is decided by an ordering test of Request.ContentLength against "+itoa(int(kv))+": -1 (unknown length: chunked or streamed body) falls on the 'no body' side, so the declared input contract is applied to an empty object instead of the body the client sent")
				})
			}
		}
		// … and the declared length never sizes how much of the body is read, unless the unknown-length value
		// was told apart first (a comparison of ContentLength with -1 or 0 in that function)
		isCLv := func(v ssa.Value) bool {
			u, ok := v.(*ssa.UnOp)
			if !ok || u.Op != token.MUL {
				return false
			}
			nt, f, ok := fieldOf(u.X)
			return ok && nt != nil && nt.Obj().Pkg() != nil && nt.Obj().Pkg().Path() == "net/http" && nt.Obj().Name() == "Request" && f == "ContentLength"
		}
		for _, rel := range []string{glyphCmd, "pkg/server", interpPkg} {
			for _, fn := range c.srcFuncs(rel) {
				k := 0
				eachInstr(fn, func(_ *ssa.BasicBlock, _ int, ins ssa.Instruction) {
					call, ok := ins.(*ssa.Call)
					if !ok {
						return
					}
					var size ssa.Value
					switch callName(call) {
					case "io.LimitReader", "io.CopyN":
						size = call.Call.Args[len(call.Call.Args)-1]
					case "net/http.MaxBytesReader":
						size = call.Call.Args[2]
					default:
						return
					}
					if !derivesFrom(size, isCLv) {
						return
					}
					n++
					k++
					guarded := false
					eachInstr(fn, func(_ *ssa.BasicBlock, _ int, x ssa.Instruction) {
						if bo, ok := x.(*ssa.BinOp); ok {
							for _, pr := range [][2]ssa.Value{{bo.X, bo.Y}, {bo.Y, bo.X}} {
								if isCLv(stripConv(pr[0])) {
									if kv, ok := constInt(pr[1]); ok && (kv == 0 || kv == -1) {
										guarded = true
									}
								}
							}
						}
					})
					c.ob("C07-R10", fnKey(fn)+"#declared-length-does-not-size-the-read-"+itoa(k), call.Pos(), guarded, "how much of the request body is read is taken from Request.ContentLength without telling the unknown-length value apart: for a chunked or streamed body the field is -1, the reader ends at once, the body counts as absent and the declared input type is applied to an empty object - a conforming request is refused (or, with optional fields only, its data silently dropped)")
				})
			}
		}
		c.Sites["C07-R10#ContentLength-comparisons"] = n
		c.ob("C07-R10", glyphCmd+"#body-presence-not-a-ContentLength-sign-test", token.NoPos, true, "")
	}

	c.rule("C07-R11", "def-use: in Interpreter.ApplyTypeDefaults every value written into the result object that is not copied from the request's own object is the result of evaluating the field's default expression in this call (EvaluateExpression), never a value kept from an earlier request: a default such as `tags: [str] = [\"new\"]` must be a new array for every request, or one request's in-place edits become the next request's 'default'")
	freshDefaultsRule(c, "C07-R11")

	c.rule("C07-R13", "EXH: CheckType descends into every type kind that contains other types: for each ast type with a field of type Type or []Type (OptionalType, UnionType, ArrayType, GenericType; FunctionType and FutureType excepted - request and response data hold no functions or futures) the checker's code has an assertion / switch arm on that kind from whose taken edge a recursive CheckType call (or the object validator) is reachable. A kind that is only compared by runtime type lets any object pass for `Addr?` / `Addr | str` and any array for List[str] without looking inside")
	if ct := c.mustFn("C07-R13", interpPkg, "TypeChecker.CheckType"); ct != nil {
		astp := c.Pkgs[modPath+"/pkg/ast"]
		var kinds []string
		if astp != nil {
			typeIface, _ := astp.Types.Scope().Lookup("Type").(*types.TypeName)
			sc := astp.Types.Scope()
			for _, nm := range sc.Names() {
				tn, ok := sc.Lookup(nm).(*types.TypeName)
				if !ok || typeIface == nil {
					continue
				}
				st, ok := tn.Type().Underlying().(*types.Struct)
				if !ok {
					continue
				}
				it, _ := typeIface.Type().Underlying().(*types.Interface)
				if it == nil || !(types.Implements(tn.Type(), it) || types.Implements(types.NewPointer(tn.Type()), it)) {
					continue
				}
				contains := false
				for i := 0; i < st.NumFields(); i++ {
					ft := st.Field(i).Type()
					if types.Identical(ft, typeIface.Type()) {
						contains = true
					}
					if sl, ok := ft.Underlying().(*types.Slice); ok && types.Identical(sl.Elem(), typeIface.Type()) {
						contains = true
					}
				}
				if contains && nm != "FunctionType" && nm != "FutureType" { // neither has a representation in request or response data
					kinds = append(kinds, nm)
				}
			}
		}
		sort.Strings(kinds)
		for _, k := range kinds {
			found := false
			for _, fn := range []*ssa.Function{ct} {
				eachInstr(fn, func(_ *ssa.BasicBlock, _ int, ins ssa.Instruction) {
					ta, ok := ins.(*ssa.TypeAssert)
					if !ok || !ta.CommaOk {
						return
					}
					nt := namedOf(ta.AssertedType)
					if nt == nil || nt.Obj().Name() != k {
						return
					}
					if !derivesFrom(ta.X, func(v ssa.Value) bool { return v == ssa.Value(ct.Params[2]) }) {
						return
					}
					for _, okv := range extractOf(ta, 1) {
						for _, b := range fn.Blocks {
							for si, succ := range b.Succs {
								if known, val := boolOnEdge(b, si, okv); known && val {
									isCheck := func(x ssa.Instruction) bool {
										return isCallTo(x, interpPath+".TypeChecker.CheckType", interpPath+".TypeChecker.ValidateObjectAgainstTypeDef")
									}
									q := &pathQuery{fn: fn, target: func(x ssa.Instruction) bool {
										if isCheck(x) {
											return true
										}
										// a helper that is handed a part of the asserted type and checks against it
										cl, ok := x.(*ssa.Call)
										if !ok {
											return false
										}
										sf := staticFn(cl)
										if sf == nil || sf == ct || sf.Pkg != ct.Pkg {
											return false
										}
										fromKind := false
										for _, a := range cl.Call.Args {
											if derivesFrom(a, func(v ssa.Value) bool {
												e, ok := v.(*ssa.Extract)
												return ok && e.Tuple == ssa.Value(ta) && e.Index == 0
											}) {
												fromKind = true
											}
										}
										return fromKind && reachesInstr(sf, isCheck, 0, map[*ssa.Function]bool{})
									}}
									if h, _ := q.from(succ, 0); h != nil {
										found = true
									}
								}
							}
						}
					}
				})
			}
			c.ob("C07-R13", fnKey(ct)+"#descends-into:"+k, ct.Pos(), found, "CheckType never looks inside a value whose declared type is a "+k+": only the runtime type of the value as a whole is compared, so elements / nested objects / the members of the wrapper are not checked against the declaration")
		}
		if len(kinds) < 3 {
			c.undecided("C07-R13: only %d composite type kinds computed from pkg/ast", len(kinds))
		}
	}

	// defaults reach every nesting level: ApplyTypeDefaults lies on a call cycle (it, or a helper it calls, applies the
	// defaults of the type definitions named by the fields' types to nested objects and list elements)
	if ad := c.fn(interpPkg, "Interpreter.ApplyTypeDefaults"); ad != nil {
		rec := false
		eachCall(ad, func(call ssa.CallInstruction) {
			sf := staticFn(call)
			if sf == nil || sf.Pkg != ad.Pkg {
				return
			}
			if sf == ad || reachesInstr(sf, func(y ssa.Instruction) bool {
				c2, ok := y.(ssa.CallInstruction)
				return ok && staticFn(c2) == ad
			}, 0, map[*ssa.Function]bool{}) {
				rec = true
			}
		})
		c.ob("C07-R11", fnKey(ad)+"#defaults-applied-at-every-nesting-level", ad.Pos(), rec, "ApplyTypeDefaults fills absent fields of the top-level object only and never comes back to itself for a field whose type is another type definition: validation treats the nested type's defaulted fields as optional, so the request is accepted and the body sees them absent")
	}

	c.rule("C07-R15", "ORD/def-use: what is validated is what the body gets: in every function that both fills in defaults (ApplyTypeDefaults) and validates (ValidateObjectAgainstTypeDef) for the same declared type, the object handed to the validator derives from the result of the defaults step - a default is an expression (`= query.max`, a constant, a call) and its value is input like any other: validated before the defaults are filled in, it reaches the body unchecked. And the query string is cut at `&` and `=` before its parts are percent-decoded: url.QueryUnescape / PathUnescape in the query parser is applied to a part (something cut out of the raw text), never to the raw text itself - decoding first turns an encoded %26 or %3D inside a value into a separator")
	{
		n := 0
		for _, rel := range []string{interpPkg, glyphCmd} {
			for _, fn := range c.srcFuncs(rel) {
				var defaults []*ssa.Call
				eachInstr(fn, func(_ *ssa.BasicBlock, _ int, ins ssa.Instruction) {
					if cl, ok := ins.(*ssa.Call); ok && callName(cl) == interpPath+".Interpreter.ApplyTypeDefaults" {
						defaults = append(defaults, cl)
					}
				})
				if len(defaults) == 0 {
					continue
				}
				k := 0
				eachInstr(fn, func(_ *ssa.BasicBlock, _ int, ins ssa.Instruction) {
					cl, ok := ins.(*ssa.Call)
					if !ok || callName(cl) != interpPath+".TypeChecker.ValidateObjectAgainstTypeDef" || len(cl.Call.Args) < 2 {
						return
					}
					k++
					n++
					fromDefaults := derivesFrom(cl.Call.Args[1], func(v ssa.Value) bool {
						for _, d := range defaults {
							if v == ssa.Value(d) {
								return true
							}
							if e, ok := v.(*ssa.Extract); ok && e.Tuple == ssa.Value(d) {
								return true
							}
						}
						return false
					})
					c.ob("C07-R15", fnKey(fn)+"#validates-the-defaulted-object-"+itoa(k), cl.Pos(), fromDefaults, "the object handed to the validator is not the one the defaults were filled into: a default that is an expression (`limit: int = query.max`) is bound into the input without ever being checked against the field's type, and the body runs on `limit = \"lots\"`")
				})
			}
		}
		c.Sites["C07-R15#validate-after-defaults"] = n
		// unescape after cutting
		nu := 0
		for _, fn := range c.srcFuncs(interpPkg) {
			if !strings.HasSuffix(c.Fset.Position(fn.Pos()).Filename, "/query_params.go") {
				continue
			}
			k := 0
			eachInstr(fn, func(_ *ssa.BasicBlock, _ int, ins ssa.Instruction) {
				cl, ok := ins.(*ssa.Call)
				if !ok || (callName(cl) != "net/url.QueryUnescape" && callName(cl) != "net/url.PathUnescape") {
					return
				}
				k++
				nu++
				// the argument went through a cut: an element of a Split result, a Cut result, or a slice expression
				cut := derivesFrom(cl.Call.Args[0], func(v ssa.Value) bool {
					switch y := v.(type) {
					case *ssa.Call:
						switch callName(y) {
						case "strings.Split", "strings.SplitN", "strings.Cut", "strings.SplitAfter", "strings.SplitAfterN", "strings.Fields", "strings.FieldsFunc":
							return true
						}
					case *ssa.Slice:
						return isStringType(y.X.Type())
					}
					return false
				})
				whole := false
				if p, isP := cl.Call.Args[0].(*ssa.Parameter); isP && isStringType(p.Type()) {
					whole = true
				}
				c.ob("C07-R15", fnKey(fn)+"#percent-decoding-after-the-cut-"+itoa(k), cl.Pos(), cut && !whole, "the query text is percent-decoded before it is cut at `&` and `=`: an encoded %26 or %3D inside a value becomes a separator - `?page=1%26x` runs the body with page=1 where a 400 is due, and `?q=a%26page%3Dabc&page=2` is refused although it conforms")
			})
		}
		c.Sites["C07-R15#query-unescapes"] = nu
		c.floor("C07-R15", 3)
	}

	c.rule("C07-R14", "SIB/EXH: every function of pkg/interpreter that follows a type to the type definition it names (asserts a Type to NamedType and looks the name up in typeDefs) in order to act on nested objects reaches that point through the same wrapper kinds the checker descends into - it (or the helper it recurses through) also has arms for OptionalType, ArrayType and GenericType. A walker that only follows bare names (a 'does this type declare defaults anywhere' shortcut) disagrees with the one that applies them through `T?`, `[T]` and `List[T]`, and the shortcut's answer switches the other off")
	{
		wrappers := []string{"OptionalType", "ArrayType", "GenericType"}
		n := 0
		r14fns := append(append([]*ssa.Function{}, c.srcFuncs(interpPkg)...), c.srcFuncs(glyphCmd)...)
		for _, fn := range r14fns {
			// follows a name to its definition?
			follows := false
			eachInstr(fn, func(_ *ssa.BasicBlock, _ int, ins ssa.Instruction) {
				lk, ok := ins.(*ssa.Lookup)
				if !ok {
					return
				}
				isDefsTable := loadedFromField(lk.X, "Interpreter", "typeDefs") || loadedFromField(lk.X, "TypeChecker", "typeDefs")
				if mt, isMap := lk.X.Type().Underlying().(*types.Map); isMap && !isDefsTable {
					if nt := namedOf(derefPtr(mt.Elem())); nt != nil && nt.Obj().Name() == "TypeDef" {
						isDefsTable = true // a table of type definitions handed in or captured
					}
				}
				if !isDefsTable {
					return
				}
				if derivesFrom(lk.Index, func(v ssa.Value) bool {
					ex, ok := v.(*ssa.Extract)
					if ok {
						if ta, ok := ex.Tuple.(*ssa.TypeAssert); ok {
							return typeIs(ta.AssertedType, astPath, "NamedType")
						}
					}
					if ta, ok := v.(*ssa.TypeAssert); ok {
						return typeIs(ta.AssertedType, astPath, "NamedType")
					}
					return false
				}) {
					follows = true
				}
			})
			if !follows {
				continue
			}
			// … and is a walker over field types: the asserted value comes from a field's TypeAnnotation or a Type parameter it recurses on
			walksFields := false
			eachInstr(fn, func(_ *ssa.BasicBlock, _ int, ins ssa.Instruction) {
				if v, ok := ins.(ssa.Value); ok {
					if _, f, ok := fieldOf(v); ok && f == "TypeAnnotation" {
						walksFields = true
					}
					if fl, ok := v.(*ssa.Field); ok {
						if st, ok := fl.X.Type().Underlying().(*types.Struct); ok && st.Field(fl.Field).Name() == "TypeAnnotation" {
							walksFields = true
						}
					}
				}
			})
			recursesOnType := false
			eachCall(fn, func(call ssa.CallInstruction) {
				if staticFn(call) == fn {
					recursesOnType = true
				}
			})
			if !walksFields && !recursesOnType {
				continue
			}
			// route-level validation entry points handle one declared type, not a structure: skip those that take a Route
			takesRoute := false
			for _, p := range fn.Params {
				if typeIs(derefType(p.Type()), astPath, "Route") || typeIs(derefType(p.Type()), interpPath, "Request") {
					takesRoute = true
				}
			}
			if takesRoute {
				continue
			}
			// only walkers that running code calls (a function with no caller but itself decides nothing)
			called := false
			for _, rel := range c.modulePkgs() {
				for _, g := range c.srcFuncs(rel) {
					if topParent(g) == fn {
						continue
					}
					eachCall(g, func(call ssa.CallInstruction) {
						if staticFn(call) == fn {
							called = true
						}
					})
				}
			}
			if !called {
				c.info("C07-R14", fnKey(fn)+"#not-called", fn.Pos(), "a type-structure walker without callers in non-test code: not judged")
				continue
			}
			n++
			have := map[string]bool{}
			var scan func(f *ssa.Function, d int, seen map[*ssa.Function]bool)
			scan = func(f *ssa.Function, d int, seen map[*ssa.Function]bool) {
				if f == nil || seen[f] || d > 2 || len(f.Blocks) == 0 {
					return
				}
				seen[f] = true
				eachInstr(f, func(_ *ssa.BasicBlock, _ int, ins ssa.Instruction) {
					if ta, ok := ins.(*ssa.TypeAssert); ok {
						if nt := namedOf(ta.AssertedType); nt != nil {
							have[nt.Obj().Name()] = true
						}
					}
					if call, ok := ins.(ssa.CallInstruction); ok {
						if sf := staticFn(call); sf != nil && sf.Pkg == fn.Pkg {
							// helpers that are handed a Type
							for i := 0; i < sf.Signature.Params().Len(); i++ {
								if typeIs(sf.Signature.Params().At(i).Type(), astPath, "Type") {
									scan(sf, d+1, seen)
								}
							}
						}
					}
				})
			}
			scan(fn, 0, map[*ssa.Function]bool{})
			var missing []string
			for _, w := range wrappers {
				if !have[w] {
					missing = append(missing, w)
				}
			}
			c.ob("C07-R14", fnKey(fn)+"#follows-names-through-every-wrapper-kind", fn.Pos(), len(missing) == 0, "this function follows a field's type to the type definition it names but only for bare names - it has no arm for "+strings.Join(missing, ", ")+": a nested type reached through `T?`, `[T]` or `List[T]` is invisible to it, while the validator and the default-applier do go through those")
		}
		c.Sites["C07-R14#type-structure-walkers"] = n
	}

	c.rule("C07-R12", "MEMO: where the validators (ValidateObjectAgainstTypeDef, CheckType, ApplyTypeDefaults and what they call in pkg/interpreter) remember something in storage that outlives the request (a map or sync.Map held in a TypeChecker/Interpreter field), the key covers what the remembered value was computed from: a value computed from a type definition's Fields is never filed under the definition's Name alone - two definitions with one Name coexist (`import { User as BillingUser }` keeps the original Name), and whichever is validated first would decide how the other's fields are checked")
	{
		roots := []*ssa.Function{c.fn(interpPkg, "TypeChecker.ValidateObjectAgainstTypeDef"), c.fn(interpPkg, "TypeChecker.CheckType"), c.fn(interpPkg, "Interpreter.ApplyTypeDefaults")}
		seen := map[*ssa.Function]bool{}
		var walk func(fn *ssa.Function, d int)
		walk = func(fn *ssa.Function, d int) {
			if fn == nil || seen[fn] || d > 5 || len(fn.Blocks) == 0 || fn.Pkg == nil || fn.Pkg.Pkg.Path() != interpPath {
				return
			}
			seen[fn] = true
			eachCall(fn, func(call ssa.CallInstruction) { walk(staticFn(call), d+1) })
		}
		for _, r := range roots {
			walk(r, 0)
		}
		isName := func(v ssa.Value) bool {
			return derivesFrom(v, func(x ssa.Value) bool {
				switch y := x.(type) {
				case *ssa.Field:
					if nt := namedOf(y.X.Type()); nt != nil && nt.Obj().Name() == "TypeDef" {
						return nt.Underlying().(*types.Struct).Field(y.Field).Name() == "Name"
					}
				case *ssa.UnOp:
					return loadedFromField(y, "TypeDef", "Name")
				}
				return false
			})
		}
		fromFields := func(v ssa.Value) bool {
			return derivesFrom(v, func(x ssa.Value) bool {
				switch y := x.(type) {
				case *ssa.Field:
					if nt := namedOf(y.X.Type()); nt != nil && nt.Obj().Name() == "TypeDef" {
						return nt.Underlying().(*types.Struct).Field(y.Field).Name() == "Fields"
					}
				case *ssa.UnOp:
					return loadedFromField(y, "TypeDef", "Fields")
				case *ssa.FieldAddr:
					_, f, ok := fieldOf(y)
					if nt, _, _ := fieldOf(y); ok && nt != nil && nt.Obj().Name() == "TypeDef" && f == "Fields" {
						return true
					}
				}
				return false
			})
		}
		longLived := func(v ssa.Value) bool {
			return derivesFrom(v, func(x ssa.Value) bool {
				if u, ok := x.(*ssa.UnOp); ok && u.Op == token.MUL {
					if nt, _, ok := fieldOf(u.X); ok && nt != nil && (nt.Obj().Name() == "TypeChecker" || nt.Obj().Name() == "Interpreter") {
						return true
					}
				}
				if fa, ok := x.(*ssa.FieldAddr); ok {
					if nt, _, ok := fieldOf(fa); ok && nt != nil && (nt.Obj().Name() == "TypeChecker" || nt.Obj().Name() == "Interpreter") {
						return true
					}
				}
				return false
			})
		}
		nStores := 0
		for fn := range seen {
			k := 0
			eachInstr(fn, func(_ *ssa.BasicBlock, _ int, ins ssa.Instruction) {
				var key, val ssa.Value
				switch x := ins.(type) {
				case *ssa.MapUpdate:
					if longLived(x.Map) {
						key, val = x.Key, x.Value
					}
				case *ssa.Call:
					switch callName(x) {
					case "sync.Map.Store", "sync.Map.LoadOrStore", "sync.Map.Swap":
						if longLived(x.Call.Args[0]) {
							key, val = x.Call.Args[1], x.Call.Args[2]
						}
					}
				}
				if key == nil {
					return
				}
				nStores++
				k++
				bad := isName(key) && fromFields(val) && !fromFields(key)
				c.ob("C07-R12", fnKey(fn)+"#remembered-value-keyed-by-what-it-was-computed-from-"+itoa(k), ins.Pos(), !bad, "a table computed from a type definition's Fields is kept across requests under the definition's Name only: of two definitions that share a Name (an aliased import next to a local type) the one validated first is used for both - wrongly typed fields of the other reach the route body")
			})
		}
		c.Sites["C07-R12#validator-functions"] = len(seen)
		c.Sites["C07-R12#stores-into-long-lived-tables"] = nStores
		c.ob("C07-R12", interpPkg+"#validators-scanned", token.NoPos, len(seen) >= 5, "fewer than 5 validator functions found: the rule's roots are gone")
	}

	c.rule("C07-R8", "WCS: the compiled request path (closure + cmd/glyph helpers) keeps no package-level sync.Once / Pool state and writes no package variable: the type checker used for validation is built from the current compiledTypeDefs on every request (a cached one survives `glyph dev` reloads and validates against stale nested types)")
	compiledPathGlobalState(c, "C07-R8")
	c.ob("C07-R8", "cmd/glyph#compiled-request-path-global-state-scanned", token.NoPos, true, "")

	// ---- R9 declarations survive copies
	c.rule("C07-R9", "TBL: every ast.Route literal in the module carries InputType, ReturnType and QueryParams either parsed or copied from the source route (a copy that drops one silently removes that contract)")
	routeLiteralFidelity(c, "C07-R9", "InputType", "parseType")
	routeLiteralFidelity(c, "C07-R9", "ReturnType", "parseType")
	routeLiteralFidelity(c, "C07-R9", "QueryParams", "parseQueryParamDecl")
}

// validationWrapper: fn reaches ValidateObjectAgainstTypeDef and, with the no-contract edges (InputType == nil, not a
// NamedType, unknown type definition) and the validator's err==nil edge deleted, no return with a nil error is reachable:
// a nil error from fn means "validated, or no contract applies".
func validationWrapper(c *Ctx, fn *ssa.Function) bool {
	res := fn.Signature.Results()
	if res.Len() == 0 || !isErrorType(res.At(res.Len()-1).Type()) {
		return false
	}
	var validates, noContractOK, inputNil []ssa.Value
	eachInstr(fn, func(_ *ssa.BasicBlock, _ int, ins ssa.Instruction) {
		switch x := ins.(type) {
		case *ssa.Call:
			if callName(x) == interpPath+".TypeChecker.ValidateObjectAgainstTypeDef" {
				validates = append(validates, x)
			}
		case *ssa.UnOp:
			if loadedFromField(x, "Route", "InputType") {
				inputNil = append(inputNil, x)
			}
		case *ssa.TypeAssert:
			if x.CommaOk && typeIs(x.AssertedType, astPath, "NamedType") {
				noContractOK = append(noContractOK, extractOf(x, 1)...)
			}
		case *ssa.Lookup:
			if x.CommaOk && loadedFromField(x.X, "Interpreter", "typeDefs") {
				noContractOK = append(noContractOK, extractOf(x, 1)...)
			}
		}
	})
	if len(validates) == 0 {
		return false
	}
	q := &pathQuery{fn: fn, target: func(x ssa.Instruction) bool {
		r, ok := x.(*ssa.Return)
		if !ok {
			return false
		}
		vals := retVals(r)
		return isNilConst(stripConv(vals[len(vals)-1]))
	}, cutEdge: func(b *ssa.BasicBlock, si int) bool {
		for _, v := range inputNil {
			if nilOnEdge(b, si, v) {
				return true
			}
		}
		for _, v := range noContractOK {
			if known, val := boolOnEdge(b, si, v); known && !val {
				return true
			}
		}
		for _, v := range validates {
			if nilOnEdge(b, si, v) {
				return true
			}
		}
		return false
	}}
	hit, _ := q.fromEntry()
	return hit == nil
}

func isErrorType(t types.Type) bool {
	n, ok := t.(*types.Named)
	return ok && n.Obj().Pkg() == nil && n.Obj().Name() == "error"
}

// compiledValidators resolves the compiled path's input validators by role (see C07-R2).
func compiledValidators(c *Ctx) (core []*ssa.Function, all map[*ssa.Function]bool) {
	all = map[*ssa.Function]bool{}
	fns := c.srcFuncs("cmd/glyph")
	for _, f := range fns {
		if f.Parent() != nil || f.Signature.Results().Len() != 1 || !isErrorType(f.Signature.Results().At(0).Type()) {
			continue
		}
		direct, general := false, false
		eachInstr(f, func(_ *ssa.BasicBlock, _ int, ins ssa.Instruction) {
			if call, ok := ins.(*ssa.Call); ok && callName(call) == interpPath+".TypeChecker.ValidateObjectAgainstTypeDef" {
				direct = true
			}
			// the general form of a declared input type (T?, T | U, [T]) is checked with CheckType against the type
			// itself: a function that does so for a type it is handed is a validator of the same standing
			if call, ok := ins.(*ssa.Call); ok && callName(call) == interpPath+".TypeChecker.CheckType" && len(call.Call.Args) >= 3 {
				if derivesFrom(call.Call.Args[2], func(v ssa.Value) bool {
					if loadedFromField(v, "Route", "InputType") {
						return true
					}
					p, isP := v.(*ssa.Parameter)
					return isP && typeIs(p.Type(), astPath, "Type")
				}) && bodyArgOfValue(call) {
					general = true
				}
			}
		})
		if direct {
			core = append(core, f)
			all[f] = true
		} else if general {
			all[f] = true // a validator for the wrappers' purposes; the object-validator clauses do not apply to it
		}
	}
	for changed := true; changed; {
		changed = false
		for _, f := range fns {
			if all[f] || f.Parent() != nil || f.Signature.Results().Len() != 1 || !isErrorType(f.Signature.Results().At(0).Type()) {
				continue
			}
			n, okAll := 0, true
			for _, b := range f.Blocks {
				for _, ins := range b.Instrs {
					ret, ok := ins.(*ssa.Return)
					if !ok {
						continue
					}
					n++
					// `valid` without asking a validator only where no input type is declared
					if isNilConst(stripConv(retVals(ret)[0])) {
						q := &pathQuery{fn: f, target: func(x ssa.Instruction) bool { return x == ins }, cutEdge: func(bb *ssa.BasicBlock, si int) bool {
							iff := ifOf(bb)
							if iff == nil {
								return false
							}
							bo, ok := iff.Cond.(*ssa.BinOp)
							if !ok {
								return false
							}
							isInput := func(v ssa.Value) bool {
								return derivesFrom(v, func(z ssa.Value) bool { return loadedFromField(z, "Route", "InputType") })
							}
							if !((isInput(bo.X) && isNilConst(bo.Y)) || (isInput(bo.Y) && isNilConst(bo.X))) {
								return false
							}
							return (bo.Op == token.EQL && si == 0) || (bo.Op == token.NEQ && si == 1)
						}}
						if hit, _ := q.fromEntry(); hit != nil {
							okAll = false
						}
						n--
						continue
					}
					call, ok := stripConv(retVals(ret)[0]).(*ssa.Call)
					if !ok || staticFn(call) == nil || !all[staticFn(call)] || bodyArgOf(call) == nil {
						okAll = false
						continue
					}
					// the wrapper passes its own body parameter on
					if !derivesFrom(bodyArgOf(call), func(v ssa.Value) bool { _, isP := v.(*ssa.Parameter); return isP }) {
						okAll = false
					}
				}
			}
			if n > 0 && okAll {
				all[f] = true
				changed = true
			}
		}
	}
	return core, all
}

// bodyArgOf: the argument of a validator call that carries the decoded body (the map[string]interface{} one).
func bodyArgOf(call *ssa.Call) ssa.Value {
	for _, a := range call.Call.Args {
		if m, ok := a.Type().Underlying().(*types.Map); ok {
			if b, ok := m.Key().Underlying().(*types.Basic); ok && b.Kind() == types.String {
				if _, ok := m.Elem().Underlying().(*types.Interface); ok {
					return a
				}
			}
		}
	}
	return nil
}

// freshDefaultsRule: see C07-R11 (also evaluated as C08-R10: a default shared between requests is shared mutable state).
func freshDefaultsRule(c *Ctx, rule string) {
	if ad := c.mustFn(rule, interpPkg, "Interpreter.ApplyTypeDefaults"); ad != nil {
		n := 0
		eachInstr(ad, func(_ *ssa.BasicBlock, _ int, ins ssa.Instruction) {
			mu, ok := ins.(*ssa.MapUpdate)
			if !ok {
				return
			}
			n++
			var ok2 func(v ssa.Value, d int) bool
			ok2 = func(v ssa.Value, d int) bool {
				if d > 8 {
					return false
				}
				switch x := v.(type) {
				case *ssa.Extract:
					if call, isC := x.Tuple.(*ssa.Call); isC {
						if callName(call) == interpPath+".Interpreter.EvaluateExpression" {
							return true
						}
						// the nested application of defaults: a helper of the package that comes back to
						// ApplyTypeDefaults, given a value that is itself the request's own or an evaluated default
						// (a value read back from the copy being built)
						if sf := staticFn(call); sf != nil && sf.Pkg == ad.Pkg && len(call.Call.Args) >= 2 {
							if sf == ad || reachesInstr(sf, func(y ssa.Instruction) bool {
								c2, ok := y.(ssa.CallInstruction)
								return ok && staticFn(c2) == ad
							}, 0, map[*ssa.Function]bool{}) {
								arg := call.Call.Args[1]
								if ex, isE := arg.(*ssa.Extract); isE {
									if lk, isL := ex.Tuple.(*ssa.Lookup); isL {
										if _, isMk := lk.X.(*ssa.MakeMap); isMk {
											return true
										}
									}
								}
								return ok2(arg, d+1)
							}
						}
						return false
					}
					if nx, isN := x.Tuple.(*ssa.Next); isN {
						return !nx.IsString // copying the request's own object (range over the parameter map)
					}
					if lk, isL := x.Tuple.(*ssa.Lookup); isL {
						return lk.X == ssa.Value(ad.Params[1])
					}
				case *ssa.Lookup:
					return x.X == ssa.Value(ad.Params[1])
				case *ssa.Phi:
					for _, e := range x.Edges {
						if !ok2(e, d+1) {
							return false
						}
					}
					return true
				case *ssa.Call:
					return callName(x) == interpPath+".Interpreter.EvaluateExpression"
				}
				return false
			}
			c.ob(rule, fnKey(ad)+"#default-evaluated-for-this-request-"+itoa(n), mu.Pos(), ok2(mu.Value, 0), "a field of the validated input is filled with a value that is neither the request's own nor a default evaluated in this call (a cached/shared value): array and object defaults are then one Go value shared by all requests")
		})
		if n < 2 {
			c.undecided(rule+": ApplyTypeDefaults has %d writes into its result, expected >= 2", n)
		}
	}
}

// bodyArgOfValue: the value CheckType is asked about is the request body handed to this function (a parameter, or
// derived from one), not something computed afterwards (a route's result).
func bodyArgOfValue(call *ssa.Call) bool {
	if len(call.Call.Args) < 2 {
		return false
	}
	return derivesFrom(call.Call.Args[1], func(v ssa.Value) bool { _, isP := v.(*ssa.Parameter); return isP })
}
