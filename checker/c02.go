package main

import (
	"go/ast"
	"go/token"
	"go/types"
	"sort"
	"strings"

	"golang.org/x/tools/go/ssa"
)

func init() {
	register(&propSpec{
		id: "C02", title: "Compiled and interpreted execution are indistinguishable", run: runC02,
		notCovered:  "agreement of results over all programs x inputs: operator/coercion/equality semantics of the two evaluators (e.g. VM equality is type-strict), builtin results, VM mis-execution of async bodies containing jumps (relocation), JSON encoding differences of values — all runtime-value statements; only the tables the two engines and the bytecode pipeline must share are decided",
		assumptions: []string{"AST node kinds are the concrete types implementing the sealed ast.Expr / ast.Statement interfaces; an arm is a case of the engine's dispatch type switch (value and pointer forms are normalised)"},
	})
}

// typeSwitchArms returns the names of pkg/ast types that appear as cases of type switches in decl.
func typeSwitchArms(c *Ctx, rel string, decl *ast.FuncDecl) map[string]bool {
	out := map[string]bool{}
	if decl == nil {
		return out
	}
	p := c.pkg(rel)
	ast.Inspect(decl, func(n ast.Node) bool {
		ts, ok := n.(*ast.TypeSwitchStmt)
		if !ok {
			return true
		}
		for _, st := range ts.Body.List {
			cc := st.(*ast.CaseClause)
			for _, e := range cc.List {
				t := p.TypesInfo.TypeOf(e)
				if t == nil {
					continue
				}
				if n := namedOf(t); n != nil && n.Obj().Pkg() != nil && n.Obj().Pkg().Path() == astPath {
					out[n.Obj().Name()] = true
				}
			}
		}
		return true
	})
	return out
}

// astImplementors: concrete named types of pkg/ast implementing the interface named iface.
func astImplementors(c *Ctx, iface string) []string {
	p := c.Pkgs[astPath]
	if p == nil {
		return nil
	}
	obj, ok := p.Types.Scope().Lookup(iface).(*types.TypeName)
	if !ok {
		return nil
	}
	it, ok := obj.Type().Underlying().(*types.Interface)
	if !ok {
		return nil
	}
	var out []string
	sc := p.Types.Scope()
	for _, n := range sc.Names() {
		tn, ok := sc.Lookup(n).(*types.TypeName)
		if !ok || tn.IsAlias() {
			continue
		}
		if _, isI := tn.Type().Underlying().(*types.Interface); isI {
			continue
		}
		if types.Implements(tn.Type(), it) || types.Implements(types.NewPointer(tn.Type()), it) {
			out = append(out, n)
		}
	}
	sort.Strings(out)
	return out
}

// constStringArgs collects the constant string passed as argument `idx` to calls named `callee` in fn (and nested closures).
func constStringArgs(fn *ssa.Function, callee string, idx int) map[string]bool {
	out := map[string]bool{}
	constStringArgsInto(fn, callee, idx, 0, map[*ssa.Function]bool{}, out)
	return out
}

// constStringArgsInto collects the constant strings passed as argument idx of `callee` by fn, its closures and the
// same-package functions it calls (three levels): a binding moved into a helper is still a binding. Where a helper
// forwards one of its own parameters as that argument (defineRequestBuiltin(name) -> DefineBuiltin(name)), the
// constants at the helper's call sites count.
func constStringArgsInto(fn *ssa.Function, callee string, idx int, depth int, seen map[*ssa.Function]bool, out map[string]bool) {
	if fn == nil || seen[fn] || depth > 3 || len(fn.Blocks) == 0 {
		return
	}
	seen[fn] = true
	for _, f := range withAnon(fn) {
		eachCall(f, func(call ssa.CallInstruction) {
			if callName(call) == callee {
				if idx < len(call.Common().Args) {
					if s, ok := constString(call.Common().Args[idx]); ok {
						out[s] = true
					}
				}
				return
			}
			sf := staticFn(call)
			if sf == nil || sf.Pkg == nil || topParent(fn).Pkg == nil || sf.Pkg != topParent(fn).Pkg {
				return
			}
			// a forwarder: sf passes its parameter j on as argument idx of callee
			for j, p := range sf.Params {
				forwards := false
				eachCall(sf, func(c2 ssa.CallInstruction) {
					if callName(c2) == callee && idx < len(c2.Common().Args) && c2.Common().Args[idx] == ssa.Value(p) {
						forwards = true
					}
				})
				if forwards && j < len(call.Common().Args) {
					if s, ok := constString(call.Common().Args[j]); ok {
						out[s] = true
					}
				}
			}
			constStringArgsInto(sf, callee, idx, depth+1, seen, out)
		})
	}
}

func runC02(c *Ctx) {
	c.rule("C02-R12", "INTCMP (both engines): each ordering and +, -, * arm of the interpreter's operator dispatch and of the VM's opcode dispatch performs the operation on two integer payloads without numeric conversion: an engine that compares or adds int x int through float64 disagrees with the other one for integers above 2^53 (snowflake ids, nanosecond timestamps)")
	nI := intOpAudit(c, "C02-R12", interpPkg, "Interpreter.evaluateBinaryOp", modPath+"/pkg/ast", "BinOp",
		map[string]opClass{"Lt": opOrdering, "Le": opOrdering, "Gt": opOrdering, "Ge": opOrdering, "Add": opAdd, "Sub": opSub, "Mul": opMul}, "interpreter")
	nV := intOpAudit(c, "C02-R12", vmPkg, "VM.executeInstruction", vmPath, "Opcode",
		map[string]opClass{"OpLt": opOrdering, "OpLe": opOrdering, "OpGt": opOrdering, "OpGe": opOrdering, "OpAdd": opAdd, "OpSub": opSub, "OpMul": opMul}, "VM")
	c.Sites["C02-R12#operator-arms"] = nI + nV
	// the two engines order the same kinds of values: an operator that compares strings in one engine compares them
	// in the other
	for _, pr := range [][2]string{{"Lt", "OpLt"}, {"Le", "OpLe"}, {"Gt", "OpGt"}, {"Ge", "OpGe"}} {
		ki, kv := map[string]bool{}, map[string]bool{}
		for _, h := range armHandlers(c, interpPkg, "Interpreter.evaluateBinaryOp", modPath+"/pkg/ast", "BinOp", pr[0]) {
			orderingKinds(h, 0, map[*ssa.Function]bool{}, ki)
		}
		for _, h := range armHandlers(c, vmPkg, "VM.executeInstruction", vmPath, "Opcode", pr[1]) {
			orderingKinds(h, 0, map[*ssa.Function]bool{}, kv)
		}
		if len(ki) == 0 || len(kv) == 0 {
			continue
		}
		c.ob("C02-R12", "ordering:"+pr[0]+"#both-engines-order-the-same-kinds", token.NoPos, setStr(ki) == setStr(kv), "the interpreter's "+pr[0]+" orders {"+setStr(ki)+"} and the VM's "+pr[1]+" orders {"+setStr(kv)+"}: for the kind only one engine knows (two strings) the comparison answers in one mode and is a 500 in the other")
	}
	// reading what is not there: for a field access (o.k) and for an index with a string key (o["k"]) the two
	// engines take the same way out when the key is absent - both answer (null) or both fail
	{
		absent := func(fn *ssa.Function) (string, token.Pos) {
			if fn == nil {
				return "", token.NoPos
			}
			out := map[string]bool{}
			var at token.Pos
			eachInstr(fn, func(_ *ssa.BasicBlock, _ int, ins ssa.Instruction) {
				lk, ok := ins.(*ssa.Lookup)
				if !ok || !lk.CommaOk {
					return
				}
				mt, ok := lk.X.Type().Underlying().(*types.Map)
				if !ok || !isStringType(mt.Key()) {
					return
				}
				// value maps only: map[string]interface{} / map[string]vm.Value
				if _, isIface := mt.Elem().Underlying().(*types.Interface); !isIface {
					return
				}
				for _, okv := range extractOf(lk, 1) {
					for _, b := range fn.Blocks {
						for si, succ := range b.Succs {
							if known, val := boolOnEdge(b, si, okv); !known || val {
								continue
							}
							at = lk.Pos()
							errRet := &pathQuery{fn: fn, target: func(x ssa.Instruction) bool {
								r, ok := x.(*ssa.Return)
								return ok && len(r.Results) > 0 && !isNilConst(stripConv(retVals(r)[len(r.Results)-1]))
							}}
							okRet := &pathQuery{fn: fn, target: func(x ssa.Instruction) bool {
								r, ok := x.(*ssa.Return)
								return ok && len(r.Results) > 0 && isNilConst(stripConv(retVals(r)[len(r.Results)-1]))
							}}
							if h, _ := errRet.from(succ, 0); h != nil {
								out["fails"] = true
							}
							if h, _ := okRet.from(succ, 0); h != nil {
								out["answers"] = true
							}
						}
					}
				}
			})
			return setStr(out), at
		}
		for _, pr := range []struct{ what, ifn, vfn string }{
			{"field access o.k", "Interpreter.evaluateFieldAccess", "VM.execGetField"},
			{"index o[\"k\"]", "Interpreter.evaluateArrayIndexExpr", "VM.execGetIndex"},
		} {
			a, _ := absent(c.fn(interpPkg, pr.ifn))
			b, pos := absent(c.fn(vmPkg, pr.vfn))
			if a == "" || b == "" {
				c.info("C02-R12", vmPkg+"."+pr.vfn+"#absent-key", token.NoPos, "absent-key handling not found in both engines for "+pr.what)
				continue
			}
			c.ob("C02-R12", vmPkg+"."+pr.vfn+"#absent-key-handled-like-the-interpreter", pos, a == b, "for "+pr.what+" with a key the object does not have the interpreter {"+a+"} and the VM {"+b+"}: `query.page` / `input.nick` for an optional field is null interpreted and a 500 compiled (and `o[\"b\"]` the other way round) - examples/blog-api tests `query.page != null`")
		}
	}
	// == / != : where the interpreter's equality coerces int and float (it reaches CoerceNumeric), the VM's does too:
	// its equality helper compares an integer payload, converted, with a float payload
	{
		interpCoerces := false
		if eq := c.fn(interpPkg, "Interpreter.evaluateEq"); eq != nil {
			interpCoerces = reachesInstr(eq, func(x ssa.Instruction) bool {
				call, ok := x.(ssa.CallInstruction)
				return ok && callName(call) == interpPath+".CoerceNumeric"
			}, 0, map[*ssa.Function]bool{})
		}
		vmCoerces := false
		var vmEq *ssa.Function
		if ex := c.fn(vmPkg, "VM.execEq"); ex != nil {
			var scan func(fn *ssa.Function, d int)
			seen := map[*ssa.Function]bool{}
			scan = func(fn *ssa.Function, d int) {
				if fn == nil || seen[fn] || d > 2 || len(fn.Blocks) == 0 {
					return
				}
				seen[fn] = true
				eachInstr(fn, func(_ *ssa.BasicBlock, _ int, ins ssa.Instruction) {
					switch x := ins.(type) {
					case *ssa.BinOp:
						if x.Op != token.EQL {
							return
						}
						bt, ok := x.X.Type().Underlying().(*types.Basic)
						if !ok || bt.Info()&types.IsFloat == 0 {
							return
						}
						for _, pr := range [][2]ssa.Value{{x.X, x.Y}, {x.Y, x.X}} {
							if cv, ok := pr[0].(*ssa.Convert); ok && intPayload(cv.X, 0) {
								vmCoerces = true
							}
						}
					case ssa.CallInstruction:
						if sf := staticFn(x); sf != nil && sf.Pkg == fn.Pkg {
							if sf.Signature.Results().Len() == 1 && sf.Signature.Results().At(0).Type().String() == "bool" && vmEq == nil {
								vmEq = sf
							}
							scan(sf, d+1)
						}
					}
				})
			}
			scan(ex, 0)
			site := ex
			if vmEq != nil {
				site = vmEq
			}
			c.ob("C02-R12", fnKey(site)+"#numeric-equality-coerces-like-the-interpreter", site.Pos(), !interpCoerces || vmCoerces, "the interpreter's == / != compare an int and a float as numbers (CoerceNumeric) but the VM's equality only compares values of the same kind: `1 == 1.0` is true interpreted and false compiled, and so are `input.n / 2 == 2` for the JSON body {\"n\": 4.0}, `switch 2.0 { case 2 … }` and literal match patterns - while the VM's own <, <=, >, >= do coerce")
		}
	}
	c.floor("C02-R12", 12)
	c.rule("C02-R11", "SIB: forms that the interpreter treats specially are treated specially by the compiler: (a) the interpreter evaluates the right operand of && / || only when the left one does not decide (a conditional return between the two EvaluateExpression calls) - the compiler emits a conditional jump between compiling the two operands; (b) the interpreter's assign / reassign arms dispatch on a '.' in the target (field store) - the compiler's arms test for it too and report the form as unsupported instead of storing into a variable of that name")
	{
		// (a) find the function(s) of the compiler that emit OpAnd / OpOr; between compileExpression(Left) and compileExpression(Right)
		// on the path of these operators a jump opcode must be emitted
		opAnd, okA := opcodeNames(c)["OpAnd"]
		opJF, okJ := opcodeNames(c)["OpJumpIfFalse"]
		opJT := opcodeNames(c)["OpJumpIfTrue"]
		found := 0
		for _, fn := range c.srcFuncs(compilerPkg) {
			emitsAnd := false
			eachCall(fn, func(call ssa.CallInstruction) {
				n := callName(call)
				if (n == compilerPath+".Compiler.emit" || n == compilerPath+".Compiler.emitWithOperand") && len(call.Common().Args) > 1 {
					if k, ok := constInt(call.Common().Args[1]); ok && okA && k == opAnd {
						emitsAnd = true
					}
					// the opcode may be chosen by a phi (And vs Or)
					if derivesFrom(call.Common().Args[1], func(v ssa.Value) bool { k, ok := constInt(v); return ok && okA && k == opAnd }) {
						emitsAnd = true
					}
				}
			})
			if !emitsAnd {
				continue
			}
			found++
			// operand compilations in this function
			var comps []ssa.Instruction
			eachInstr(fn, func(_ *ssa.BasicBlock, _ int, ins ssa.Instruction) {
				if isCallTo(ins, compilerPath+".Compiler.compileExpression") {
					comps = append(comps, ins)
				}
			})
			jumpBetween := false
			if len(comps) >= 2 {
				q := &pathQuery{fn: fn, target: func(x ssa.Instruction) bool { return x == comps[len(comps)-1] }, stop: func(x ssa.Instruction) bool {
					call, ok := x.(*ssa.Call)
					if !ok || callName(call) != compilerPath+".Compiler.emitWithOperand" {
						return false
					}
					return derivesFrom(call.Call.Args[1], func(v ssa.Value) bool {
						k, ok := constInt(v)
						return ok && okJ && (k == opJF || k == opJT)
					})
				}}
				if hit, _ := q.after(comps[0]); hit == nil {
					jumpBetween = true
				}
			}
			c.ob("C02-R11", fnKey(fn)+"#logical-operators-short-circuit", fn.Pos(), jumpBetween, "the function that emits OpAnd/OpOr compiles the right operand unconditionally after the left one (no conditional jump in between): compiled && / || evaluate both operands, so `x != null && x.n > 0` fails on null and effects of the right operand happen although the left one decided - the interpreter short-circuits")
		}
		if found == 0 {
			c.undecided("C02-R11: no compiler function emits OpAnd")
		}
		// (b)
		interpDispatches := 0
		for _, name := range []string{"Interpreter.executeAssign", "Interpreter.executeReassign"} {
			if f := c.fn(interpPkg, name); f != nil {
				eachCall(f, func(call ssa.CallInstruction) {
					if n := callName(call); (n == "strings.SplitN" || n == "strings.Contains" || n == "strings.Index" || n == "strings.Split") && len(call.Common().Args) > 1 {
						if s, ok := constString(call.Common().Args[1]); ok && s == "." {
							interpDispatches++
						}
					}
				})
			}
		}
		if interpDispatches > 0 {
			for _, name := range []string{"Compiler.compileAssignStatement", "Compiler.compileReassignStatement"} {
				f := c.mustFn("C02-R11", compilerPkg, name)
				if f == nil {
					continue
				}
				tests := false
				eachCall(f, func(call ssa.CallInstruction) {
					if n := callName(call); (n == "strings.SplitN" || n == "strings.Contains" || n == "strings.Index" || n == "strings.Split" || n == "strings.ContainsRune" || n == "strings.IndexByte") && len(call.Common().Args) > 1 {
						if s, ok := constString(call.Common().Args[1]); ok && s == "." {
							tests = true
						}
						if k, ok := constInt(call.Common().Args[1]); ok && k == '.' {
							tests = true
						}
					}
				})
				c.ob("C02-R11", fnKey(f)+"#dotted-target-handled", f.Pos(), tests, "the interpreter stores `obj.field = v` into the field, this compiler arm never looks for a '.' in the target: it stores into (or looks for) a variable literally named \"obj.field\", so the compiled engine leaves the object unchanged or rejects the program")
			}
		}
	}
	c02ConstPool(c)
	c.rule("C02-R9", "ID: a table from which entries are deleted never takes the key of a new entry from its own size: every update m[k] of a struct-field map in pkg/vm / pkg/interpreter whose key derives from len(m), while the package also deletes from m, is a collision (a live entry - an enclosing loop's iterator - is overwritten once a lower key was deleted). Fresh keys come from a counter that only grows")
	{
		n := 0
		for _, rel := range []string{vmPkg, interpPkg} {
			deleted := map[string]bool{}
			for _, fn := range c.srcFuncs(rel) {
				eachCall(fn, func(call ssa.CallInstruction) {
					if callName(call) == "builtin.delete" {
						if named, fld, ok := fieldOfLoad(call.Common().Args[0]); ok {
							deleted[named+"."+fld] = true
						}
					}
				})
			}
			for _, fn := range c.srcFuncs(rel) {
				k := 0
				eachInstr(fn, func(_ *ssa.BasicBlock, _ int, ins ssa.Instruction) {
					mu, ok := ins.(*ssa.MapUpdate)
					if !ok {
						return
					}
					named, fld, ok := fieldOfLoad(mu.Map)
					if !ok {
						return
					}
					n++
					if !deleted[named+"."+fld] {
						return
					}
					fromLen := derivesFrom(mu.Key, func(v ssa.Value) bool {
						la := lenArg(v)
						if la == nil {
							return false
						}
						n2, f2, ok := fieldOfLoad(la)
						return ok && n2 == named && f2 == fld
					})
					if fromLen {
						k++
						c.ob("C02-R9", fnKey(fn)+"#new-key-from-table-size:"+named+"."+fld+"-"+itoa(k), mu.Pos(), false, "the key of a new "+named+"."+fld+" entry is computed from len("+fld+") although entries are deleted from that table: after a lower key is deleted the size names a key that is still in use, and the new entry replaces a live one (nested loops on the VM then iterate the wrong collection or never finish, while the interpreter is unaffected)")
					}
				})
			}
		}
		c.Sites["C02-R9#field-map-updates-examined"] = n
		c.ob("C02-R9", vmPkg+"#fresh-keys-not-from-table-size", token.NoPos, true, "")
		if n < 5 {
			c.undecided("C02-R9: %d struct-field map updates found in the engines, floor 5", n)
		}
	}
	c.rule("C02-R8", "STALE: no sync.Once body in cmd/glyph or the engines computes its result from a package-level variable that is assigned again after initialisation (compiledTypeDefs and friends are replaced by every setupRoutes): the compiled path would keep validating/binding against the first program's definitions while the interpreter uses the current ones")
	c.Sites["C02-R8#once-bodies"] = staleOnceAudit(c, "C02-R8", []string{glyphCmd, interpPkg, vmPkg, compilerPkg})
	c.rule("C02-R1", "TBL: the opcode tables of VM, compiler and decompiler agree (arm, operand-ness, name, jump relocation set, emit sites) — same rule as C10-R1")
	opcodeTableRule(c, "C02-R1")

	// ---- R2 construct support
	c.rule("C02-R2", "TBL/EXH: every statement / expression kind the compiler accepts (arms of compileStatement / compileExpression) has an arm in the interpreter's ExecuteStatement / EvaluateExpression; no compile* method of pkg/compiler can return nil (success) on a path that emitted nothing and delegated to no other compile* method (a silent no-op makes the construct enforced by one engine only)")
	cs := typeSwitchArms(c, compilerPkg, c.decl(compilerPkg, "Compiler.compileStatement"))
	ce := typeSwitchArms(c, compilerPkg, c.decl(compilerPkg, "Compiler.compileExpression"))
	is := typeSwitchArms(c, interpPkg, c.decl(interpPkg, "Interpreter.ExecuteStatement"))
	ie := typeSwitchArms(c, interpPkg, c.decl(interpPkg, "Interpreter.EvaluateExpression"))
	if len(cs) < 8 || len(ce) < 8 || len(is) < 8 || len(ie) < 8 {
		c.undecided("C02-R2: dispatch arms extracted %d/%d/%d/%d (floor 8 each)", len(cs), len(ce), len(is), len(ie))
	} else {
		var ks []string
		for k := range cs {
			ks = append(ks, k)
		}
		sort.Strings(ks)
		for _, k := range ks {
			c.ob("C02-R2", "statement:"+k+"#compiled-kind-also-interpreted", token.NoPos, is[k], "the compiler accepts statement kind "+k+" but ExecuteStatement has no arm for it")
		}
		ks = nil
		for k := range ce {
			ks = append(ks, k)
		}
		sort.Strings(ks)
		for _, k := range ks {
			c.ob("C02-R2", "expression:"+k+"#compiled-kind-also-interpreted", token.NoPos, ie[k], "the compiler accepts expression kind "+k+" but EvaluateExpression has no arm for it")
		}
	}
	isEmitOrDelegate := func(x ssa.Instruction) bool {
		call, ok := x.(ssa.CallInstruction)
		if !ok {
			return false
		}
		n := callName(call)
		if !strings.HasPrefix(n, compilerPath+".Compiler.") {
			return false
		}
		m := strings.TrimPrefix(n, compilerPath+".Compiler.")
		return strings.HasPrefix(m, "emit") || strings.HasPrefix(m, "compile") || strings.HasPrefix(m, "patch")
	}
	nComp := 0
	for _, fn := range c.srcFuncs(compilerPkg) {
		if fn.Signature.Recv() == nil || fn.Parent() != nil {
			continue
		}
		nm := fn.Name()
		if !strings.HasPrefix(nm, "compile") || !(strings.HasSuffix(nm, "Statement") || strings.HasSuffix(nm, "Expr") || strings.HasSuffix(nm, "Expression") || strings.HasSuffix(nm, "Call") || strings.HasSuffix(nm, "Literal") || strings.HasSuffix(nm, "Op") || strings.HasSuffix(nm, "Access") || strings.HasSuffix(nm, "Match")) {
			continue
		}
		res := fn.Signature.Results()
		if res.Len() != 1 || res.At(0).Type().String() != "error" {
			continue
		}
		nComp++
		q := &pathQuery{fn: fn, stop: isEmitOrDelegate, target: func(x ssa.Instruction) bool {
			r, ok := x.(*ssa.Return)
			return ok && isNilConst(stripConv(retVals(r)[0]))
		}}
		hit, path := q.fromEntry()
		c.ob("C02-R2", fnKey(fn)+"#no-silent-noop", fn.Pos(), hit == nil, "this compile method can report success without having emitted any instruction or delegated: the construct is silently dropped by the compiled (default) engine while the interpreter executes it", c.blockPath(path)...)
	}
	if nComp < 12 {
		c.undecided("C02-R2: %d compile* methods examined, floor 12", nComp)
	}

	// ---- R3 callable names
	c.rule("C02-R3", "TBL: the VM resolves calls only against VM.registerBuiltins' names; the interpreter against builtinFuncs + user functions. Every name the compiler emits an OpCall for must be resolvable by the VM: compileFunctionCall's OpCall emission must lie behind a membership test of the call's name (anything else has to be reported as unsupported so the server falls back to the interpreter)")
	if cf := c.mustFn("C02-R3", compilerPkg, "Compiler.compileFunctionCall"); cf != nil {
		var emits []ssa.Instruction
		byVal := map[int64]string{}
		for n, v := range opcodeNames(c) {
			byVal[v] = n
		}
		eachCall(cf, func(call ssa.CallInstruction) {
			if callName(call) == compilerPath+".Compiler.emitWithOperand" {
				if k, ok := constInt(call.Common().Args[1]); ok && byVal[k] == "OpCall" {
					emits = append(emits, call.(ssa.Instruction))
				}
			}
		})
		for i, em := range emits {
			gated := false
			for _, b := range cf.Blocks {
				iff := ifOf(b)
				if iff == nil || !b.Dominates(em.Block()) {
					continue
				}
				// a test of expr.Name against a set / predicate (not the ws. prefix test)
				if derivesFrom(iff.Cond, func(v ssa.Value) bool {
					switch x := v.(type) {
					case *ssa.Lookup:
						return derivesFrom(x.Index, func(y ssa.Value) bool { _, f, ok := fieldOf(y); return ok && f == "Name" })
					case *ssa.Call:
						n := callName(x)
						if n == "strings.HasPrefix" {
							return false
						}
						for _, a := range x.Call.Args {
							if derivesFrom(a, func(y ssa.Value) bool { _, f, ok := fieldOf(y); return ok && f == "Name" }) && x.Type().String() == "bool" {
								return true
							}
						}
					}
					return false
				}) {
					gated = true
				}
			}
			c.ob("C02-R3", compilerPkg+".Compiler.compileFunctionCall#OpCall-"+itoa(i+1)+"-gated-on-resolvable-name", em.Pos(), gated, "the compiler emits OpCall for any function name, but the VM resolves only its registered builtins: a compiled route calling an interpreter builtin (toString, …) or a user-defined function fails at request time with 'undefined function' while --interpret succeeds")
		}
		if len(emits) == 0 {
			c.ob("C02-R3", compilerPkg+".Compiler.compileFunctionCall#emits-OpCall", cf.Pos(), false, "compileFunctionCall emits no OpCall")
		}
	}
	// evidence: name sets
	vmNames := map[string]bool{}
	if rb := c.fn(vmPkg, "VM.registerBuiltins"); rb != nil {
		eachInstr(rb, func(_ *ssa.BasicBlock, _ int, ins ssa.Instruction) {
			if mu, ok := ins.(*ssa.MapUpdate); ok {
				if s, ok := constString(mu.Key); ok {
					vmNames[s] = true
				}
			}
		})
	}
	interpNames := map[string]bool{}
	for _, init := range c.srcFuncs(interpPkg) {
		if !strings.HasPrefix(init.Name(), "init") {
			continue
		}
		eachInstr(init, func(_ *ssa.BasicBlock, _ int, ins ssa.Instruction) {
			if mu, ok := ins.(*ssa.MapUpdate); ok {
				if s, ok := constString(mu.Key); ok {
					if mt, ok := mu.Map.Type().Underlying().(*types.Map); ok {
						if _, isSig := mt.Elem().Underlying().(*types.Signature); isSig {
							interpNames[s] = true
						}
					}
				}
			}
		})
	}
	var only []string
	for n := range interpNames {
		if !vmNames[n] {
			only = append(only, n)
		}
	}
	sort.Strings(only)
	c.Notes = append(c.Notes, "VM builtins: "+itoa(len(vmNames))+"; interpreter builtins: "+itoa(len(interpNames))+"; interpreter-only: "+strings.Join(only, ","))
	if len(vmNames) < 5 || len(interpNames) < 20 {
		c.undecided("C02-R3: builtin tables extracted %d / %d", len(vmNames), len(interpNames))
	}

	// ---- R4 request bindings
	c.rule("C02-R4", "TBL: the constant variable names the compiled handler binds (VM.SetLocal) equal those Interpreter.ExecuteRoute binds (Environment.Define*), apart from interpreter-only plumbing (__sse_writer, provider injections force interpreter mode); every name CompileRoute pre-declares for HTTP routes (DefineBuiltin) is bound by the compiled handler (`ws` is bound by the WebSocket executor: reasoned exception)")
	var compiledBound, interpBound, declared map[string]bool
	if f := c.fn(glyphCmd, "createCompiledRouteHandler"); f != nil {
		compiledBound = constStringArgs(f, vmPath+".VM.SetLocal", 1)
	}
	if f := c.fn(interpPkg, "Interpreter.ExecuteRoute"); f != nil {
		interpBound = constStringArgs(f, interpPath+".Environment.Define", 1)
		for k := range constStringArgs(f, interpPath+".Environment.DefineWithSource", 1) {
			interpBound[k] = true
		}
	}
	if f := c.fn(compilerPkg, "Compiler.CompileRoute"); f != nil {
		declared = constStringArgs(f, compilerPath+".SymbolTable.DefineBuiltin", 1)
	}
	if len(compiledBound) < 3 || len(interpBound) < 3 || len(declared) < 3 {
		c.undecided("C02-R4: binding tables extracted %d/%d/%d", len(compiledBound), len(interpBound), len(declared))
	} else {
		var ks []string
		for k := range interpBound {
			ks = append(ks, k)
		}
		sort.Strings(ks)
		for _, k := range ks {
			if k == "__sse_writer" {
				continue
			}
			c.ob("C02-R4", "binding:"+k+"#interpreter-bound-also-compiled-bound", token.NoPos, compiledBound[k], "the interpreter binds `"+k+"` before the route body runs but the compiled handler does not: compiled routes reading it fail (or see null) while interpreted ones work")
		}
		ks = nil
		for k := range compiledBound {
			ks = append(ks, k)
		}
		sort.Strings(ks)
		for _, k := range ks {
			c.ob("C02-R4", "binding:"+k+"#compiled-bound-also-interpreter-bound", token.NoPos, interpBound[k], "the compiled handler binds `"+k+"` but the interpreter does not")
		}
		ks = nil
		for k := range declared {
			ks = append(ks, k)
		}
		sort.Strings(ks)
		for _, k := range ks {
			if k == "ws" {
				c.info("C02-R4", "binding:ws#exception", token.NoPos, "reasoned exception: `ws` is pre-declared for every route but bound only by the WebSocket executor; neither HTTP engine binds it")
				continue
			}
			c.ob("C02-R4", "binding:"+k+"#predeclared-is-bound", token.NoPos, compiledBound[k], "CompileRoute pre-declares `"+k+"` (so the compiler accepts reads of it) but the compiled handler never binds it: the read fails at request time")
		}
	}

	// ---- R7 value identity and aliasing in the bytecode pipeline
	c.rule("C02-R7", "structural: (a) the compiler's constant pool decides identity with a type-aware comparison: Compiler.addConstant reuses a slot only on the true edge of valuesEqual (or an equivalent typed comparison) — never on equality of formatted text, which merges 2 and 2.0; (b) no VM instruction handler appends to the backing array of an operand value (append(x.Val, …) on an ArrayValue that came from the stack aliases results of different expressions); (c) both request handlers decide 'is this a JSON body' with the same operations on the Content-Type header")
	if ac := c.mustFn("C02-R7", compilerPkg, "Compiler.addConstant"); ac != nil {
		usesFmt := false
		typed := false
		for _, f := range append([]*ssa.Function{ac}, calleesIn(ac, compilerPkg)...) {
			eachCall(f, func(call ssa.CallInstruction) {
				n := callName(call)
				if strings.HasPrefix(n, "fmt.Sprint") {
					fs, isC := "", false
					if len(call.Common().Args) > 0 {
						fs, isC = constString(call.Common().Args[0])
					}
					if !(isC && (strings.Contains(fs, "%T") || strings.Contains(fs, "%#v"))) {
						usesFmt = true
					}
				}
				if n == compilerPath+".valuesEqual" {
					typed = true
				}
			})
			eachInstr(f, func(_ *ssa.BasicBlock, _ int, ins ssa.Instruction) {
				if ta, ok := ins.(*ssa.TypeAssert); ok && typeIs(ta.AssertedType, vmPath, "IntValue") {
					typed = true
				}
			})
		}
		c.ob("C02-R7", compilerPkg+".Compiler.addConstant#type-aware-identity", ac.Pos(), typed && !usesFmt, "the constant pool identifies constants by formatted text (or without a typed comparison): an int literal and a float literal with the same digits share a slot, so compiled code computes with the wrong type while the interpreter does not")
	}
	nApp := 0
	for _, fn := range c.srcFuncs(vmPkg) {
		if fn.Signature.Recv() == nil || !strings.HasPrefix(fn.Name(), "exec") {
			continue
		}
		k := 0
		eachInstr(fn, func(_ *ssa.BasicBlock, _ int, ins ssa.Instruction) {
			call, ok := ins.(*ssa.Call)
			if !ok || callName(call) != "builtin.append" {
				return
			}
			base := call.Call.Args[0]
			aliases := derivesFromOnly(base, func(x ssa.Value) (bool, bool) {
				switch y := x.(type) {
				case *ssa.Field:
					if st, ok := y.X.Type().Underlying().(*types.Struct); ok && st.Field(y.Field).Name() == "Val" {
						return true, true
					}
					return true, false
				case *ssa.MakeSlice, *ssa.Const, *ssa.Slice:
					return true, false
				case *ssa.UnOp:
					// load of .Val from a struct value spilled to a local (go/ssa spills type-switch bindings)
					fa, ok := y.X.(*ssa.FieldAddr)
					if !ok {
						return false, false
					}
					if _, f, ok := fieldOf(fa); !ok || f != "Val" {
						return true, false
					}
					al, ok := fa.X.(*ssa.Alloc)
					if !ok {
						return true, true
					}
					for _, r := range refs(al) {
						if st, ok := r.(*ssa.Store); ok && st.Addr == ssa.Value(al) {
							switch st.Val.(type) {
							case *ssa.TypeAssert, *ssa.Extract, *ssa.Call, *ssa.Parameter, *ssa.UnOp, *ssa.Phi:
								return true, true
							}
						}
					}
					return true, false
				}
				return false, false
			})
			nApp++
			if aliases {
				k++
				c.ob("C02-R7", fnKey(fn)+"#append-to-operand-"+itoa(k), call.Pos(), false, "a VM handler appends onto the backing array of an operand value: two results built from the same base share storage and overwrite each other (the interpreter copies)")
			}
		})
	}
	c.ob("C02-R7", vmPkg+"#handlers-never-append-to-operands", token.NoPos, true, "")
	{
		shape := func(fn *ssa.Function) (map[string]bool, bool) {
			out := map[string]bool{}
			found := false
			for _, f := range withAnon(fn) {
				var cts []ssa.Value
				eachInstr(f, func(_ *ssa.BasicBlock, _ int, ins ssa.Instruction) {
					if cl, ok := ins.(*ssa.Call); ok && callName(cl) == "net/http.Header.Get" {
						if s, ok := constString(cl.Call.Args[1]); ok && s == "Content-Type" {
							cts = append(cts, cl)
						}
					}
				})
				if len(cts) == 0 {
					continue
				}
				found = true
				isCT := func(v ssa.Value) bool {
					return derivesFrom(v, func(x ssa.Value) bool {
						for _, ct := range cts {
							if x == ct {
								return true
							}
						}
						return false
					})
				}
				eachInstr(f, func(_ *ssa.BasicBlock, _ int, ins ssa.Instruction) {
					switch x := ins.(type) {
					case *ssa.Call:
						if n := callName(x); n != "net/http.Header.Get" && n != "" {
							for _, a := range x.Call.Args {
								if isCT(a) {
									out["call:"+n] = true
								}
							}
						}
					case *ssa.BinOp:
						for _, pr := range [][2]ssa.Value{{x.X, x.Y}, {x.Y, x.X}} {
							if isCT(pr[0]) {
								if s, ok := constString(pr[1]); ok {
									out["cmp "+x.Op.String()+" "+s] = true
								}
								if k, ok := constInt(pr[1]); ok {
									out["cmp "+x.Op.String()+" "+itoa(int(k))] = true
								}
							}
						}
					case *ssa.Slice:
						if isCT(x.X) {
							hi := "?"
							if k, ok := constInt(x.High); ok && x.High != nil {
								hi = itoa(int(k))
							}
							out["slice[:"+hi+"]"] = true
						}
					}
				})
			}
			return out, found
		}
		a, okA := map[string]bool{}, false
		b, okB := map[string]bool{}, false
		if f := c.fn(glyphCmd, "createCompiledRouteHandler"); f != nil {
			a, okA = shape(f)
		}
		if f := c.fn(glyphCmd, "executeRoute"); f != nil {
			b, okB = shape(f)
		}
		if okA && okB {
			c.ob("C02-R7", "cmd/glyph#json-body-detection-agrees", token.NoPos, setStr(a) == setStr(b), "the compiled handler decides whether the body is JSON with {"+setStr(a)+"} but the interpreted path with {"+setStr(b)+"}: for unusual Content-Type values one engine parses the body and the other does not")
		} else {
			c.info("C02-R7", "cmd/glyph#json-body-detection", token.NoPos, "Content-Type handling not found in both handlers")
		}
	}
	// the set of HTTP methods for which a request body is decoded
	{
		methods := func(root *ssa.Function) map[string]bool {
			out := map[string]bool{}
			seen := map[*ssa.Function]bool{}
			var visit func(f *ssa.Function, d int)
			visit = func(f *ssa.Function, d int) {
				if f == nil || seen[f] || d > 1 || len(f.Blocks) == 0 {
					return
				}
				seen[f] = true
				for _, g := range withAnon(f) {
					seen[g] = true
					eachInstr(g, func(_ *ssa.BasicBlock, _ int, ins ssa.Instruction) {
						switch x := ins.(type) {
						case *ssa.BinOp:
							if x.Op != token.EQL && x.Op != token.NEQ {
								return
							}
							for _, pr := range [][2]ssa.Value{{x.X, x.Y}, {x.Y, x.X}} {
								u, ok := pr[0].(*ssa.UnOp)
								if !ok {
									continue
								}
								if nt, f, ok := fieldOf(u.X); ok && nt != nil && nt.Obj().Name() == "Request" && f == "Method" {
									if s, ok := constString(pr[1]); ok {
										out[s] = true
									}
								}
							}
						case *ssa.Call:
							if sf := staticFn(x); sf != nil && sf.Pkg != nil && sf.Pkg.Pkg.Path() == modPath+"/"+glyphCmd {
								visit(sf, d+1)
							}
						}
					})
				}
			}
			visit(root, 0)
			return out
		}
		var a, b map[string]bool
		if f := c.fn(glyphCmd, "createCompiledRouteHandler"); f != nil {
			a = methods(f)
		}
		if f := c.fn(glyphCmd, "executeRoute"); f != nil {
			b = methods(f)
		}
		if len(a) > 0 && len(b) > 0 {
			c.ob("C02-R7", "cmd/glyph#body-methods-agree", token.NoPos, setStr(a) == setStr(b), "the compiled handler tests the request method against {"+setStr(a)+"} but the interpreted path against {"+setStr(b)+"}: for a method in one set only (DELETE) one engine binds the decoded body as `input` and validates it, the other sees no body")
		} else {
			c.info("C02-R7", "cmd/glyph#body-methods", token.NoPos, "request-method tests not found in both handlers")
		}
	}
	// a route's result is what a return statement carried: the compiled body ends in HALT on an empty stack (null) when
	// no `>` ran, so the interpreter must not answer with the value of the last statement it happened to execute
	if xr := c.fn(interpPkg, "Interpreter.ExecuteRoute"); xr != nil {
		n := 0
		eachInstr(xr, func(_ *ssa.BasicBlock, _ int, ins ssa.Instruction) {
			call, ok := ins.(*ssa.Call)
			if !ok || callName(call) != interpPath+".Interpreter.executeStatements" {
				return
			}
			n++
			used := false
			for _, v := range extractOf(call, 0) {
				for _, r := range refs(v) {
					if _, dbg := r.(*ssa.DebugRef); !dbg {
						used = true
					}
				}
			}
			c.ob("C02-R7", fnKey(xr)+"#result-only-from-a-return-statement", call.Pos(), !used, "ExecuteRoute uses the value of the last executed statement as the route's result when no return ran: `$ secret = \"s3cr3t\"` as the last line of a route answers with the secret interpreted and with null compiled")
		})
		if n == 0 {
			c.info("C02-R7", fnKey(xr)+"#no-executeStatements", xr.Pos(), "ExecuteRoute does not run the body through executeStatements")
		}
	}
	// both engines decide alike when a return carries a status: the comparisons of ReturnStatement.Status with constants
	// in the interpreter's return executor and in the compiler's return arm are the same set (`:: 200` is a status-
	// carrying return in both, exempt from the return-type check in both)
	{
		cmps := func(pkgRel string) (map[string]bool, token.Pos) {
			out := map[string]bool{}
			var at token.Pos
			for _, fn := range c.srcFuncs(pkgRel) {
				if pkgRel == compilerPkg && strings.Contains(fn.Name(), "ptimiz") {
					continue
				}
				eachInstr(fn, func(_ *ssa.BasicBlock, _ int, ins ssa.Instruction) {
					bo, ok := ins.(*ssa.BinOp)
					if !ok {
						return
					}
					for _, pr := range [][2]ssa.Value{{bo.X, bo.Y}, {bo.Y, bo.X}} {
						isStatus := false
						v := stripConv(pr[0])
						if loadedFromField(v, "ReturnStatement", "Status") {
							isStatus = true
						}
						if fl, ok := v.(*ssa.Field); ok {
							if nt := namedOf(fl.X.Type()); nt != nil && nt.Obj().Name() == "ReturnStatement" && nt.Underlying().(*types.Struct).Field(fl.Field).Name() == "Status" {
								isStatus = true
							}
						}
						if !isStatus {
							continue
						}
						if k, ok := constInt(pr[1]); ok {
							out[bo.Op.String()+" "+itoa(int(k))] = true
							at = bo.Pos()
						}
					}
				})
			}
			return out, at
		}
		a, _ := cmps(interpPkg)
		b, pos := cmps(compilerPkg)
		if len(a) > 0 && len(b) > 0 {
			c.ob("C02-R7", "return-status#both-engines-decide-alike-when-a-return-carries-a-status", pos, setStr(a) == setStr(b), "the interpreter tests a return's status with {"+setStr(a)+"} and the compiler with {"+setStr(b)+"}: a return such as `> {error: …} :: 200` is a status-carrying response (exempt from the declared return type) in one engine and an ordinary result in the other - 200 compiled, 500 interpreted")
		} else {
			c.info("C02-R7", "return-status#comparisons", token.NoPos, "status comparisons not found in both engines")
		}
	}
	// both handlers bind the same projection of a header that was sent on several lines
	{
		proj := func(root *ssa.Function) (map[string]bool, int) {
			out := map[string]bool{}
			n := 0
			for _, fn := range withAnon(root) {
				eachInstr(fn, func(_ *ssa.BasicBlock, _ int, ins ssa.Instruction) {
					rg, ok := ins.(*ssa.Range)
					if !ok || !typeIs(rg.X.Type(), "net/http", "Header") {
						return
					}
					var vals []ssa.Value
					for _, r := range refs(rg) {
						if nx, ok := r.(*ssa.Next); ok {
							vals = append(vals, extractOf(nx, 2)...)
						}
					}
					isVals := func(v ssa.Value) bool {
						for _, x := range vals {
							if v == x {
								return true
							}
						}
						return false
					}
					eachInstr(fn, func(_ *ssa.BasicBlock, _ int, i2 ssa.Instruction) {
						mu, ok := i2.(*ssa.MapUpdate)
						if !ok || !derivesFrom(mu.Value, isVals) {
							return
						}
						n++
						derivesFrom(mu.Value, func(v ssa.Value) bool {
							switch x := v.(type) {
							case *ssa.IndexAddr:
								if isVals(x.X) {
									if k, ok := constInt(x.Index); ok {
										out["element "+itoa(int(k))] = true
									} else {
										out["element i"] = true
									}
								}
							case *ssa.Call:
								for _, a := range x.Call.Args {
									if isVals(a) {
										out[short(callName(x))] = true
									}
								}
							}
							return false
						})
					})
				})
			}
			return out, n
		}
		var a, b map[string]bool
		var na, nb int
		if f := c.fn(glyphCmd, "createCompiledRouteHandler"); f != nil {
			a, na = proj(f)
		}
		if f := c.fn(glyphCmd, "executeRoute"); f != nil {
			b, nb = proj(f)
		}
		if na > 0 && nb > 0 {
			c.ob("C02-R7", "cmd/glyph#repeated-header-projection-agrees", token.NoPos, setStr(a) == setStr(b), "for a header sent on several lines the compiled handler binds {"+setStr(a)+"} of its values and the interpreted path {"+setStr(b)+"}: a route reading headers[\"X-Forwarded-For\"] sees \"10.0.0.7, 192.168.1.1\" in one engine and \"10.0.0.7\" in the other")
		} else {
			c.info("C02-R7", "cmd/glyph#header-binding", token.NoPos, "header binding loops not found in both handlers: "+itoa(na)+"/"+itoa(nb))
		}
	}
	// the conversion of request data into VM values keeps the kind: what the interpreter holds as a float64 (every JSON
	// number) is a FloatValue for the VM, an int64 an IntValue - the engines must not disagree on int vs float
	if iv := c.fn(glyphCmd, "interfaceToValue"); iv != nil {
		want := map[string]string{"float64": "FloatValue", "float32": "FloatValue", "int64": "IntValue", "int": "IntValue", "string": "StringValue", "bool": "BoolValue"}
		n := 0
		eachInstr(iv, func(_ *ssa.BasicBlock, _ int, ins ssa.Instruction) {
			r, ok := ins.(*ssa.Return)
			if !ok || len(r.Results) != 1 {
				return
			}
			mi, ok := retVals(r)[0].(*ssa.MakeInterface)
			if !ok {
				return
			}
			gotNamed := namedOf(mi.X.Type())
			if gotNamed == nil {
				return
			}
			// which asserted Go kind does the returned value's payload come from?
			src := ""
			derivesFrom(mi.X, func(v ssa.Value) bool {
				var ta *ssa.TypeAssert
				switch x := v.(type) {
				case *ssa.TypeAssert:
					ta = x
				case *ssa.Extract:
					ta, _ = x.Tuple.(*ssa.TypeAssert)
				}
				if ta != nil && ta.X == ssa.Value(iv.Params[0]) {
					if bt, ok := ta.AssertedType.(*types.Basic); ok {
						src = bt.Name()
						return true
					}
				}
				return false
			})
			if want[src] == "" {
				return
			}
			n++
			c.ob("C02-R7", fnKey(iv)+"#conversion-keeps-the-kind:"+src+"-"+itoa(n), r.Pos(), gotNamed.Obj().Name() == want[src], "a "+src+" of the request data is handed to the VM as "+gotNamed.Obj().Name()+" instead of "+want[src]+": the interpreter keeps the decoded number as it is, so `input.total / input.people` is 3 compiled and 3.5 interpreted, and `names[input.index]` works in one engine only")
		})
		if n < 3 {
			c.info("C02-R7", fnKey(iv)+"#conversion-arms", iv.Pos(), "fewer than 3 scalar conversion arms recognised in interfaceToValue")
		}
	}
	// every Go type the shared query processing can put into the query object has an arm in the VM value conversion
	if iv := c.fn(glyphCmd, "interfaceToValue"); iv != nil {
		arms := map[string]bool{}
		eachInstr(iv, func(_ *ssa.BasicBlock, _ int, ins ssa.Instruction) {
			if ta, ok := ins.(*ssa.TypeAssert); ok && ta.X == ssa.Value(iv.Params[0]) {
				arms[ta.AssertedType.String()] = true
			}
		})
		produced := map[string]token.Pos{}
		for _, name := range []string{"ProcessQueryParams", "convertValue", "convertToArray", "autoConvert"} {
			f := c.fn(interpPkg, name)
			if f == nil {
				continue
			}
			eachInstr(f, func(_ *ssa.BasicBlock, _ int, ins ssa.Instruction) {
				mi, ok := ins.(*ssa.MakeInterface)
				if !ok {
					return
				}
				if it, ok := mi.Type().Underlying().(*types.Interface); !ok || it.NumMethods() != 0 {
					return // only values boxed into interface{} (not errors)
				}
				// the boxed value ends up in the result map or is returned as a value
				produced[mi.X.Type().String()] = mi.Pos()
			})
		}
		names := make([]string, 0, len(produced))
		for t := range produced {
			names = append(names, t)
		}
		sort.Strings(names)
		for _, t := range names {
			if strings.HasPrefix(t, "*") || strings.Contains(t, "error") {
				continue
			}
			c.ob("C02-R7", "cmd/glyph.interfaceToValue#arm-for-query-value:"+short(t), produced[t], arms[t], "the query processing shared by both engines produces values of Go type "+t+" but interfaceToValue has no arm for it and converts them to null: the compiled engine sees null where the interpreter sees the value")
		}
		if len(names) < 4 {
			c.undecided("C02-R7: only %d boxed result types found in the query processing", len(names))
		}
	}
	_ = nApp

	// ---- R6 one engine per module
	c.rule("C02-R6", "MPT: in cmd/glyph.setupRoutes registerCompiledRoute is reachable only on the useCompiler==true edge tested after the compile loop; a route with provider injections, a query-parameter default that the compiled handler's literal evaluator refuses, and a non-semantic compile error, all clear useCompiler (whole module falls back to the interpreter: no mixed registration)")
	if sr := c.mustFn("C02-R6", glyphCmd, "setupRoutes"); sr != nil {
		// the engine flag is setupRoutes' first (boolean) result, whatever it is called
		flag := "useCompiler"
		if res := sr.Signature.Results(); res.Len() > 0 && res.At(0).Name() != "" && res.At(0).Type().String() == "bool" {
			flag = res.At(0).Name()
		}
		n := 0
		eachInstr(sr, func(_ *ssa.BasicBlock, _ int, ins ssa.Instruction) {
			if !isCallTo(ins, modPath+"/cmd/glyph.registerCompiledRoute") {
				return
			}
			n++
			// dominated by an If on the useCompiler phi/alloc taken on its true edge
			dom := false
			for _, b := range sr.Blocks {
				iff := ifOf(b)
				if iff == nil || !b.Dominates(ins.Block()) || !b.Succs[0].Dominates(ins.Block()) {
					continue
				}
				if isBoolVarNamed(iff.Cond, flag) {
					dom = true
				}
			}
			c.ob("C02-R6", "cmd/glyph.setupRoutes#compiled-registration-under-useCompiler-"+itoa(n), ins.Pos(), dom, "compiled routes are registered on a path that does not test useCompiler: after a fallback decision some routes still run compiled")
		})
		if n == 0 {
			c.ob("C02-R6", "cmd/glyph.setupRoutes#registers-compiled-routes", sr.Pos(), false, "setupRoutes never registers compiled routes")
		}
		// injections clear useCompiler
		clearsOnInjection := false
		clearsOnCompileErr := false
		var clearBlocks []*ssa.BasicBlock
		eachInstr(sr, func(_ *ssa.BasicBlock, _ int, ins ssa.Instruction) {
			switch x := ins.(type) {
			case *ssa.Store:
				if al, ok := x.Addr.(*ssa.Alloc); ok && al.Comment == flag && isConstBool(x.Val, false) {
					clearBlocks = append(clearBlocks, x.Block())
				}
			case *ssa.Phi:
				if x.Comment == flag {
					for i, e := range x.Edges {
						if isConstBool(e, false) {
							clearBlocks = append(clearBlocks, x.Block().Preds[i])
						}
					}
				}
			}
		})
		for _, cb := range clearBlocks {
			for _, b := range sr.Blocks {
				iff := ifOf(b)
				if iff == nil || !(b.Dominates(cb)) {
					continue
				}
				if derivesFrom(iff.Cond, func(v ssa.Value) bool {
					if _, f, ok := fieldOf(v); ok && f == "Injections" {
						return true
					}
					// … or a predicate of the package that looks at the routes' injections
					if cl, ok := v.(*ssa.Call); ok {
						if sf := staticFn(cl); sf != nil && sf.Pkg == sr.Pkg {
							return reachesInstr(sf, func(x ssa.Instruction) bool {
								if val, ok := x.(ssa.Value); ok {
									if _, f, ok := fieldOf(val); ok && f == "Injections" {
										return true
									}
								}
								return false
							}, 0, map[*ssa.Function]bool{})
						}
					}
					return false
				}) {
					clearsOnInjection = true
				}
				if derivesFrom(iff.Cond, func(v ssa.Value) bool {
					e, ok := v.(*ssa.Extract)
					if !ok {
						return false
					}
					cl, ok := e.Tuple.(*ssa.Call)
					return ok && callName(cl) == compilerPath+".Compiler.CompileRoute"
				}) {
					clearsOnCompileErr = true
				}
			}
		}
		// a default the compiled handler cannot evaluate (its literal evaluator says no) clears useCompiler:
		// some clearing block is dominated by a branch on a predicate of cmd/glyph that consults that evaluator
		clearsOnDefault := false
		litEval := c.fn(glyphCmd, "evalLiteralExpr")
		for _, cb := range clearBlocks {
			for _, b := range sr.Blocks {
				iff := ifOf(b)
				if iff == nil || !(b.Dominates(cb)) {
					continue
				}
				if derivesFrom(iff.Cond, func(v ssa.Value) bool {
					cl, ok := v.(*ssa.Call)
					if !ok || litEval == nil {
						return false
					}
					sf := staticFn(cl)
					return sf != nil && (sf == litEval || reachesInstr(sf, func(x ssa.Instruction) bool {
						c2, ok := x.(ssa.CallInstruction)
						return ok && staticFn(c2) == litEval
					}, 0, map[*ssa.Function]bool{}))
				}) {
					clearsOnDefault = true
				}
			}
		}
		// only needed while the handler skips what the evaluator refuses
		skips := false
		if cr := c.fn(glyphCmd, "createCompiledRouteHandler"); cr != nil && litEval != nil {
			for _, cl := range innerClosures(cr) {
				eachCall(cl, func(call ssa.CallInstruction) {
					if staticFn(call) == litEval {
						skips = true
					}
				})
			}
		}
		c.ob("C02-R6", "cmd/glyph.setupRoutes#defaults-the-compiled-handler-cannot-evaluate-force-interpreter", sr.Pos(), clearsOnDefault || !skips, "the compiled handler evaluates query-parameter defaults with a literal-only evaluator and skips what it refuses, and setupRoutes does not switch such a module to the interpreter: for `? page: int = -1` the variable stays unbound and a request that omits the parameter gets a 500 where the interpreter answers with the default")
		c.ob("C02-R6", "cmd/glyph.setupRoutes#injections-force-interpreter", sr.Pos(), clearsOnInjection, "a route with provider injections no longer switches the module to the interpreter (the VM cannot call providers)")
		c.ob("C02-R6", "cmd/glyph.setupRoutes#compile-error-falls-back-for-whole-module", sr.Pos(), clearsOnCompileErr, "a compile error no longer clears useCompiler for the whole module")
	}
}

// isBoolVarNamed: cond is (a load of) the named local / result variable.
func isBoolVarNamed(v ssa.Value, name string) bool {
	for {
		switch x := v.(type) {
		case *ssa.UnOp:
			if x.Op == token.NOT {
				return false
			}
			if al, ok := x.X.(*ssa.Alloc); ok {
				return al.Comment == name
			}
			return false
		case *ssa.Phi:
			return x.Comment == name
		case *ssa.Parameter:
			return x.Name() == name
		default:
			return false
		}
	}
}

// calleesIn: static callees of fn inside package rel (one level).
func calleesIn(fn *ssa.Function, rel string) []*ssa.Function {
	var out []*ssa.Function
	eachCall(fn, func(call ssa.CallInstruction) {
		if sf := staticFn(call); sf != nil && sf.Pkg != nil && sf.Pkg.Pkg.Path() == modPath+"/"+rel && len(sf.Blocks) > 0 {
			out = append(out, sf)
		}
	})
	return out
}

// c02ConstPool: R10 - constant-pool deduplication never merges constants of different kinds.
func c02ConstPool(c *Ctx) {
	c.rule("C02-R10", "KIND: Compiler.addConstant merges two constants only when they have the same concrete vm.Value kind: an equality helper answers non-false only where both operands were asserted to the same type, and a key function gives every kind its own constant prefix. An int literal and a float literal of equal value sharing a slot changes the run-time type of one of them (7/2 becomes 3 or 3.5 depending on which came first) only in the compiled engine")
	add := c.mustFn("C02-R10", compilerPkg, "Compiler.addConstant")
	if add == nil {
		return
	}
	isVMValue := func(t types.Type) bool { return typeIs(t, vmPath, "Value") }
	analysed := 0
	eachCall(add, func(call ssa.CallInstruction) {
		g := staticFn(call)
		if g == nil || g.Pkg == nil || g.Pkg.Pkg.Path() != modPath+"/"+compilerPkg {
			return
		}
		sig := g.Signature
		// (a) equality helper: (Value, Value) bool
		if sig.Params().Len() == 2 && isVMValue(sig.Params().At(0).Type()) && isVMValue(sig.Params().At(1).Type()) && sig.Results().Len() == 1 {
			analysed++
			pa, pb := ssa.Value(g.Params[len(g.Params)-2]), ssa.Value(g.Params[len(g.Params)-1])
			okAll, n := true, 0
			why := ""
			eachInstr(g, func(_ *ssa.BasicBlock, _ int, ins ssa.Instruction) {
				r, ok := ins.(*ssa.Return)
				if !ok || isConstBool(retVals(r)[0], false) {
					return
				}
				n++
				// the asserted kinds that dominate this return, per parameter
				var ta, tb []types.Type
				eachInstr(g, func(_ *ssa.BasicBlock, _ int, x ssa.Instruction) {
					as, ok := x.(*ssa.TypeAssert)
					if !ok || !as.CommaOk {
						return
					}
					// the ok-edge must dominate the return
					for _, ex := range extractOf(as, 1) {
						for _, ref := range refs(ex) {
							if iff, ok := ref.(*ssa.If); ok {
								s0 := iff.Block().Succs[0]
								if len(s0.Preds) == 1 && (s0 == r.Block() || s0.Dominates(r.Block())) {
									if as.X == pa {
										ta = append(ta, as.AssertedType)
									}
									if as.X == pb {
										tb = append(tb, as.AssertedType)
									}
								}
							}
						}
					}
				})
				same := false
				// `_, ok := b.(T); return ok`: the result is itself the assertion of the other operand
				if ex, ok := retVals(r)[0].(*ssa.Extract); ok && ex.Index == 1 {
					if as, ok := ex.Tuple.(*ssa.TypeAssert); ok {
						if as.X == pb {
							tb = append(tb, as.AssertedType)
						}
						if as.X == pa {
							ta = append(ta, as.AssertedType)
						}
					}
				}
				for _, x := range ta {
					for _, y := range tb {
						if types.Identical(x, y) {
							same = true
						}
					}
				}
				if !same {
					okAll = false
					why = "a non-false result at " + c.pos(r.Pos()) + " is not dominated by assertions of both operands to one and the same kind"
				}
			})
			c.ob("C02-R10", fnKey(g)+"#equal-only-within-one-kind", g.Pos(), okAll && n > 0, "the pool's equality helper can answer true for constants of different kinds ("+why+")")
		}
		// (b) key function: (Value) (string[, bool])
		if sig.Params().Len() == 1 && isVMValue(sig.Params().At(0).Type()) && sig.Results().Len() >= 1 {
			if bt, ok := sig.Results().At(0).Type().Underlying().(*types.Basic); ok && bt.Kind() == types.String {
				analysed++
				prefixes := map[string]string{}
				dup := ""
				unknown := 0
				eachInstr(g, func(_ *ssa.BasicBlock, _ int, ins ssa.Instruction) {
					r, ok := ins.(*ssa.Return)
					if !ok {
						return
					}
					v := retVals(r)[0]
					pre, known := "", false
					switch x := v.(type) {
					case *ssa.Const:
						pre, known = x.Value.ExactString(), true
						if pre == `""` {
							return // the "not poolable" result
						}
					case *ssa.BinOp:
						if k, ok := x.X.(*ssa.Const); ok && x.Op == token.ADD {
							pre, known = k.Value.ExactString(), true
						}
					}
					if !known {
						unknown++
						return
					}
					if prev, seen := prefixes[pre]; seen {
						dup = pre + " (" + prev + " and " + c.pos(r.Pos()) + ")"
					}
					prefixes[pre] = c.pos(r.Pos())
				})
				if unknown > 0 {
					c.info("C02-R10", fnKey(g)+"#key-prefixes-not-analysed", g.Pos(), "key function builds keys in a form this rule does not decompose ("+itoa(unknown)+" results)")
				} else {
					c.ob("C02-R10", fnKey(g)+"#one-key-prefix-per-kind", g.Pos(), dup == "", "two kinds of constant are given the same key prefix "+dup+": an int and a float of equal value collide in the pool and one of them changes its run-time type")
				}
			}
		}
	})
	if analysed == 0 {
		c.info("C02-R10", fnKey(add)+"#dedup-mechanism-not-recognised", add.Pos(), "addConstant deduplicates through neither a (Value,Value) equality helper nor a (Value) string key function of this package; kind-strictness not decided")
	}
}
