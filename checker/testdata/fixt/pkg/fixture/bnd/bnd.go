// Package bnd: fixtures for the BND engine (run-time integer bounds).
package bnd

import "errors"

// GoodClamp: clamps, then tests the clamped values.
func GoodClamp(arr []interface{}, a, b interface{}) ([]interface{}, error) {
	start, ok := a.(int64)
	if !ok {
		return nil, errors.New("start")
	}
	end, ok := b.(int64)
	if !ok {
		return nil, errors.New("end")
	}
	if start < 0 {
		start = 0
	}
	if end > int64(len(arr)) {
		end = int64(len(arr))
	}
	if start > end {
		return nil, nil
	}
	out := make([]interface{}, end-start)
	copy(out, arr[start:end])
	return out, nil
}

// BadTestBeforeClamp: the inverted-range test is made on the unclamped values.
func BadTestBeforeClamp(arr []interface{}, a, b interface{}) ([]interface{}, error) {
	start, ok := a.(int64)
	if !ok {
		return nil, errors.New("start")
	}
	end, ok := b.(int64)
	if !ok {
		return nil, errors.New("end")
	}
	if start > end {
		return nil, nil
	}
	if start < 0 {
		start = 0
	}
	if end > int64(len(arr)) {
		end = int64(len(arr))
	}
	out := make([]interface{}, end-start)
	copy(out, arr[start:end])
	return out, nil
}

// GoodIndex: both ends tested.
func GoodIndex(arr []string, i interface{}) (string, error) {
	idx, ok := i.(int64)
	if !ok {
		return "", errors.New("idx")
	}
	if idx < 0 || idx >= int64(len(arr)) {
		return "", errors.New("range")
	}
	return arr[idx], nil
}

// BadIndexOtherLength: the test is against the length of a different value.
func BadIndexOtherLength(s string, i interface{}) (rune, error) {
	idx, ok := i.(int64)
	if !ok {
		return 0, errors.New("idx")
	}
	if idx < 0 || idx >= int64(len(s)) {
		return 0, errors.New("range")
	}
	runes := []rune(s)
	return runes[idx], nil
}

// BadIndexNoLowerBound: negative index not excluded.
func BadIndexNoLowerBound(arr []string, i interface{}) (string, error) {
	idx, ok := i.(int64)
	if !ok {
		return "", errors.New("idx")
	}
	if idx >= int64(len(arr)) {
		return "", errors.New("range")
	}
	return arr[idx], nil
}

// GoodLoopWindow: an induction variable bounded by a clamped end.
func GoodLoopWindow(arr []int64, a, b interface{}) (int64, error) {
	start, ok := a.(int64)
	if !ok {
		return 0, errors.New("start")
	}
	end, ok := b.(int64)
	if !ok {
		return 0, errors.New("end")
	}
	if start < 0 {
		start = 0
	}
	if end > int64(len(arr)) {
		end = int64(len(arr))
	}
	var sum int64
	for i := start; i < end; i++ {
		sum += arr[i]
	}
	return sum, nil
}

// BadCapBeforeClamp: the inverted-range test is made before the clamps, so stop-start+1 can be negative.
func BadCapBeforeClamp(list []string, a, b interface{}) []string {
	start, _ := a.(int64)
	stop, _ := b.(int64)
	length := int64(len(list))
	if start > stop {
		return nil
	}
	if start < 0 {
		start = 0
	}
	if stop >= length {
		stop = length - 1
	}
	out := make([]string, 0, stop-start+1)
	return out
}

// GoodCapAfterClamp: the test is made on the clamped values.
func GoodCapAfterClamp(list []string, a, b interface{}) []string {
	start, _ := a.(int64)
	stop, _ := b.(int64)
	length := int64(len(list))
	if start < 0 {
		start = 0
	}
	if stop >= length {
		stop = length - 1
	}
	if start > stop {
		return nil
	}
	out := make([]string, 0, stop-start+1)
	return out
}
