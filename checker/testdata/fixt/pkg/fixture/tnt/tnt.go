// Package tnt is a checker fixture for the SQL-text cleanliness analysis.
package tnt

import (
	"fmt"
	"strings"
)

func Sanitize(s string) (string, error) { return "\"" + "x" + "\"", nil }

func GoodConst() string { return "SELECT 1" }

func GoodSanitized(table string) string {
	t, _ := Sanitize(table)
	return fmt.Sprintf("SELECT * FROM %s LIMIT %d", t, 5)
}

func GoodGuarded(dir string) string {
	d := strings.ToUpper(dir)
	if d != "ASC" && d != "DESC" {
		return "SELECT 1"
	}
	return "SELECT 1 ORDER BY id " + d
}

func BadParam(table string) string { return "SELECT * FROM " + table }

func BadSprintf(col string) string { return fmt.Sprintf("SELECT %s FROM t", col) }

func BadJoin(cols []string) string { return "SELECT " + strings.Join(cols, ", ") }

func isDir(s string) bool { return s == "ASC" || s == "DESC" }

func isOp(s string) bool {
	switch s {
	case "=", "<", ">":
		return true
	}
	return false
}

func anyNonEmpty(s string) bool { return s != "" }

// GoodPredicateGuard: a membership predicate of the module establishes a finite set.
func GoodPredicateGuard(dir, op string) string {
	if !isDir(dir) || !isOp(op) {
		return ""
	}
	return "ORDER BY x " + dir + " " + op
}

// BadPredicateGuard: the predicate accepts anything non-empty.
func BadPredicateGuard(dir string) string {
	if !anyNonEmpty(dir) {
		return ""
	}
	return "ORDER BY x " + dir
}
