// Package pan is a checker fixture for the panic-site audit.
package pan

import "reflect"

func BadEq(a, b interface{}) bool { return a == b }

func GoodEqConst(a interface{}) bool { return a == "x" }

func GoodEqGuarded(a, b interface{}) bool {
	if a == nil || b == nil {
		return false
	}
	if !reflect.TypeOf(a).Comparable() || !reflect.TypeOf(b).Comparable() {
		return false
	}
	return a == b
}

type Box struct{ V interface{} }

func (b *Box) BadAssert(x interface{}) string { return x.(string) }

func (b *Box) GoodAssert(x interface{}) string {
	if s, ok := x.(string); ok {
		return s
	}
	return ""
}
