// Package pan is a checker fixture for the panic-site audit.
package pan

import (
	"reflect"
	"sync/atomic"
)

func BadEq(a, b interface{}) bool { return a == b }

func GoodEqConst(a interface{}) bool { return a == "x" }

func GoodEqGuarded(a, b interface{}) bool {
	if a == nil || b == nil {
		return false
	}
	if !reflect.TypeOf(a).Comparable() || !reflect.TypeOf(b).Comparable() {
		return false
	}
	return a == b
}

type Box struct{ V interface{} }

func (b *Box) BadAssert(x interface{}) string { return x.(string) }

func (b *Box) GoodAssert(x interface{}) string {
	if s, ok := x.(string); ok {
		return s
	}
	return ""
}

type Swap struct {
	cur   atomic.Value // only ever holds a string
	mixed atomic.Value // holds a string or an int
}

func (s *Swap) Set(v string) { s.cur.Store(v) }

func (s *Swap) SetMixed(v string, n int) {
	s.mixed.Store(v)
	s.mixed.Store(n)
}

func (s *Swap) GoodAtomicLoad() string { return s.cur.Load().(string) }

func (s *Swap) BadAtomicLoadMixed() string { return s.mixed.Load().(string) }
