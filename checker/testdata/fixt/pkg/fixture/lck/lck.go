// Package lck is a checker fixture (type-checked only, never run): one store with a correct and an
// incorrect access pattern per LCK feature.
package lck

import (
	"maps"
	"sync"
)

type Store struct {
	mu    sync.RWMutex
	items map[string]int
	n     int
}

func (s *Store) GoodGet(k string) int {
	s.mu.RLock()
	defer s.mu.RUnlock()
	return s.items[k]
}

func (s *Store) GoodSet(k string, v int) {
	s.mu.Lock()
	s.items[k] = v
	s.bump()
	s.mu.Unlock()
}

// bump is a helper that requires the lock; every caller holds it.
func (s *Store) bump() { s.n++ }

func (s *Store) BadSetUnderRLock(k string, v int) {
	s.mu.RLock()
	defer s.mu.RUnlock()
	s.items[k] = v
}

func (s *Store) BadReadAfterUnlock(k string) int {
	s.mu.RLock()
	s.mu.RUnlock()
	return s.items[k]
}

func (s *Store) BadHelperWithoutLock() { s.bump() }

// REACQ fixtures
func (s *Store) Len() int {
	s.mu.RLock()
	defer s.mu.RUnlock()
	return len(s.items)
}

func (s *Store) BadReacquire() int {
	s.mu.RLock()
	defer s.mu.RUnlock()
	return s.Len() + s.n
}

func (s *Store) GoodReleaseFirst() int {
	s.mu.RLock()
	n := s.n
	s.mu.RUnlock()
	return s.Len() + n
}

// GoodHOFCallback: the callback runs during maps.DeleteFunc, i.e. while the lock is held.
func (s *Store) GoodHOFCallback(limit int) {
	s.mu.Lock()
	defer s.mu.Unlock()
	maps.DeleteFunc(s.items, func(_ string, v int) bool { return v > limit+s.n })
}

// BadHOFCallbackUnlocked: the same callback without the lock.
func (s *Store) BadHOFCallbackUnlocked(limit int) {
	maps.DeleteFunc(s.items, func(_ string, v int) bool { return v > limit+s.n })
}
