module github.com/glyphlang/glyph

go 1.25
