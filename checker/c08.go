package main

import (
	"go/token"
	"go/types"
	"strings"

	"golang.org/x/tools/go/ssa"
)

func init() {
	register(&propSpec{
		id: "C08", title: "Concurrent requests do not interfere", run: runC08,
		notCovered:  "atomicity of multi-step provider protocols composed by user programs, scheduling-dependent outcomes, linearizability of provider histories; shared *values* reachable through per-request variables (nested maps inside records)",
		assumptions: []string{"one Interpreter (with its TypeChecker / ModuleResolver / globalEnv) is shared by all requests; per-request state is the Environment chain below globalEnv and the VM", "request roots are Interpreter.ExecuteRoute / ExecuteCommand / ExecuteEventHandler / ExecuteQueueWorker"},
	})
}

func runC08(c *Ctx) {
	c.rule("C08-R7", "PAIR: every Lock/RLock of the shared providers (pkg/database, pkg/redis, pkg/mongodb mocks) and of pkg/interpreter is released on every path to a return: one request cannot wedge the provider for all others; REACQ: no method calls, while it holds its receiver's mutex, a method of the same receiver that acquires that mutex again (sync mutexes are not re-entrant; a second RLock blocks once a writer waits)")
	c.Sites["C08-R7#acquire-sites"] = lockReleaseAudit(c, "C08-R7", []string{"pkg/database", "pkg/redis", "pkg/mongodb", interpPkg})
	c.floor("C08-R7", 20)
	// ---- R8 shared slices are not extended in place for one request / one registration
	c.rule("C08-R8", "ESC/alias (whole module): no `append` on a slice held in a struct field or package variable keeps its result anywhere but in that same place: what one request, route or compilation appended is never written into spare capacity that the next one overwrites (and two goroutines never write the same spare slot)")
	c.Sites["C08-R8#appends-on-shared-slices"] = appendAliasAudit(c, "C08-R8", c.modulePkgs(), "")
	c.floor("C08-R8", 40)
	// ---- R9 the one counter all requests share is restored whatever happens to a request
	c.rule("C08-R9", "ORD: the evaluation-depth counter is interpreter-wide (known finding C08-R1), so every request must give back exactly what it took: after the increment in EvaluateExpression every path to a return passes the decrement, and the decrement is registered with defer before any evaluation code runs - a panic in one request (a provider method, a builtin) that is recovered by the dispatcher otherwise leaks a level for good, and after ~500 such requests every route of every client answers 'maximum evaluation depth exceeded'")
	if ev := c.fn(interpPkg, "Interpreter.EvaluateExpression"); ev != nil {
		var inc ssa.Instruction
		eachInstr(ev, func(_ *ssa.BasicBlock, _ int, ins ssa.Instruction) {
			if isAtomicAddOn(ins, "Interpreter", "evalDepth", +1) && inc == nil {
				inc = ins
			}
		})
		if inc == nil {
			c.info("C08-R9", interpPkg+".Interpreter.EvaluateExpression#no-shared-depth-counter", ev.Pos(), "no interpreter-wide depth counter is modified here")
		} else {
			isDec := func(x ssa.Instruction) bool { return isAtomicAddOn(x, "Interpreter", "evalDepth", -1) }
			q := &pathQuery{fn: ev, target: isReturn, stop: isDec}
			hit, path := q.after(inc)
			c.ob("C08-R9", interpPkg+".Interpreter.EvaluateExpression#shared-counter-restored-on-every-exit", inc.Pos(), hit == nil, "a return is reachable after the increment of the shared counter without the decrement: one request's failed evaluation takes budget away from all later requests", c.blockPath(path)...)
			leak, lpath := unwindLeak(ev, inc, isDec)
			c.ob("C08-R9", interpPkg+".Interpreter.EvaluateExpression#shared-counter-restored-when-a-panic-unwinds", inc.Pos(), leak == nil, "evaluation code runs after the increment of the shared counter with no deferred decrement registered: a panic in one request, recovered by the dispatcher, leaks a level for every later request of every client", c.blockPath(lpath)...)
		}
	}
	// ---- R10 defaults are per request
	c.rule("C08-R10", "def-use: a value put into a request's input by ApplyTypeDefaults is evaluated for that request (see C07-R11): an array/object default kept from an earlier request is one Go map/slice shared by concurrent requests - in-place edits leak between them, and two requests writing it at once is a fatal 'concurrent map writes'")
	freshDefaultsRule(c, "C08-R10")
	// ---- R11 long-lived tables are keyed by what their entries were built from
	c.rule("C08-R11", "MEMO (whole module): no object built from a string parameter is kept in a long-lived map (held in a struct field) under a key that is a lossy image of that parameter (case folding, trimming, a base name) while the object keeps the parameter as given: a later request that differs only in what the key discards is handed the object built for an earlier one")
	c.Sites["C08-R11#table-stores-examined"] = memoKeyAudit(c, "C08-R11", c.modulePkgs(), "")
	c.ob("C08-R11", "module#table-stores-examined", token.NoPos, c.Sites["C08-R11#table-stores-examined"] >= 10, "fewer than 10 stores into long-lived string-keyed tables found in the module")
	// ---- R12 sibling containers change together
	c.rule("C08-R12", "PAIR (whole module): a struct that keeps the same objects in two containers (maps/slices with one element type *T) changes them together: every function that inserts into, deletes from or replaces one does so for the other - otherwise requests served through one container see objects the other no longer knows (stale sessions, evicted cache entries, removed connections)")
	c.Sites["C08-R12#sibling-container-pairs"] = siblingIndexAudit(c, "C08-R12", c.modulePkgs())
	c.ob("C08-R12", "module#sibling-containers-examined", token.NoPos, true, "")
	// ---- R13 the walk-up assignment stops below the module scope
	c.rule("C08-R13", "GRD: every request's scope chain ends in the one module-level environment (NewChildEnvironment(Interpreter.globalEnv)), and Environment.Set writes into whichever scope up the chain holds the name. So in pkg/interpreter every call of Environment.Set, and every in-place update of an object fetched with Environment.Get, lies behind a condition that consults Interpreter.globalEnv (the binding is found below the module scope, or the code runs in the module scope itself): otherwise `$ LIMIT = LIMIT + 1` in a route changes the module's constant for every later request, `$ helper = 5` replaces a function for all of them, and two requests doing so at once are a fatal concurrent map write")
	{
		var loadsGlobal func(f *ssa.Function, d int) bool
		loadsGlobal = func(f *ssa.Function, d int) bool {
			if f == nil || d > 2 || len(f.Blocks) == 0 {
				return false
			}
			r := false
			eachInstr(f, func(_ *ssa.BasicBlock, _ int, ins ssa.Instruction) {
				if u, ok := ins.(*ssa.UnOp); ok && loadedFromField(u, "Interpreter", "globalEnv") {
					r = true
				}
				if cl, ok := ins.(*ssa.Call); ok && !r {
					if sf := staticFn(cl); sf != nil && sf.Pkg == f.Pkg && sf != f {
						r = loadsGlobal(sf, d+1)
					}
				}
			})
			return r
		}
		consults := func(x ssa.Instruction) bool {
			iff, ok := x.(*ssa.If)
			if !ok {
				return false
			}
			return derivesFrom(iff.Cond, func(v ssa.Value) bool {
				if loadedFromField(v, "Interpreter", "globalEnv") {
					return true
				}
				if cl, ok := v.(*ssa.Call); ok {
					if sf := staticFn(cl); sf != nil && sf.Pkg != nil && sf.Pkg.Pkg.Path() == interpPath {
						if bt, ok := cl.Type().Underlying().(*types.Basic); ok && bt.Kind() == types.Bool {
							return loadsGlobal(sf, 0)
						}
						// (name, shared bool) = helper(...)
						if tup, ok := cl.Type().(*types.Tuple); ok {
							for i := 0; i < tup.Len(); i++ {
								if bt, ok := tup.At(i).Type().Underlying().(*types.Basic); ok && bt.Kind() == types.Bool {
									return loadsGlobal(sf, 0)
								}
							}
						}
					}
				}
				return false
			})
		}
		n := 0
		for _, fn := range c.srcFuncs(interpPkg) {
			if strings.HasSuffix(c.Fset.Position(fn.Pos()).Filename, "/environment.go") {
				continue
			}
			k := 0
			eachInstr(fn, func(_ *ssa.BasicBlock, _ int, ins ssa.Instruction) {
				what := ""
				switch x := ins.(type) {
				case *ssa.Call:
					if callName(x) == interpPath+".Environment.Set" {
						what = "walk-up assignment"
					}
				case *ssa.MapUpdate:
					if derivesFrom(x.Map, func(v ssa.Value) bool {
						cl, ok := v.(*ssa.Call)
						return ok && callName(cl) == interpPath+".Environment.Get"
					}) {
						what = "in-place update of an object fetched from the scope chain"
					}
				}
				if what == "" {
					return
				}
				k++
				n++
				q := &pathQuery{fn: fn, stop: consults, target: func(y ssa.Instruction) bool { return y == ins }}
				hit, path := q.fromEntry()
				c.ob("C08-R13", fnKey(fn)+"#write-stays-below-the-module-scope-"+itoa(k), ins.Pos(), hit == nil, "a "+what+" is reachable without any test against the module-level environment: code running for one request rewrites a binding (or an object) of the scope shared by all requests - a constant changes for every later request, a function is replaced by a number, concurrent requests race on the map", c.blockPath(path)...)
			})
		}
		c.Sites["C08-R13#scope-chain-writes"] = n
		c.floor("C08-R13", 2)
		// (b) a builtin that is handed an object writes it in place: the object may be a module-level one
		nb := 0
		for _, fn := range c.srcFuncs(interpPkg) {
			k := 0
			eachInstr(fn, func(_ *ssa.BasicBlock, _ int, ins ssa.Instruction) {
				var m ssa.Value
				switch x := ins.(type) {
				case *ssa.MapUpdate:
					m = x.Map
				case *ssa.Call:
					if callName(x) == "builtin.delete" {
						m = x.Call.Args[0]
					}
				}
				if m == nil {
					return
				}
				if mt, ok := m.Type().Underlying().(*types.Map); !ok || !dynIface(mt.Elem()) {
					return
				}
				// the map is the program value itself: the result of asserting an evaluated expression
				fromValue := derivesFromOnly(m, func(x ssa.Value) (bool, bool) {
					if e, ok := x.(*ssa.Extract); ok && e.Index == 0 {
						if ta, ok := e.Tuple.(*ssa.TypeAssert); ok {
							return true, derivesFrom(ta.X, func(z ssa.Value) bool {
								cl, ok := z.(*ssa.Call)
								return ok && callName(cl) == interpPath+".Interpreter.EvaluateExpression"
							})
						}
					}
					switch x.(type) {
					case *ssa.MakeMap, *ssa.Call, *ssa.Parameter, *ssa.FreeVar, *ssa.Lookup, *ssa.Const:
						return true, false
					}
					return false, false
				})
				if !fromValue {
					return
				}
				k++
				nb++
				q := &pathQuery{fn: fn, stop: consults, target: func(y ssa.Instruction) bool { return y == ins }}
				hit, path := q.fromEntry()
				c.ob("C08-R13", fnKey(fn)+"#builtin-writes-its-argument-in-place-"+itoa(k), ins.Pos(), hit == nil, "a builtin writes into the object it was handed, whatever scope the object lives in: for a module-level object (a constant holding options, a lookup table) the write is seen by every later request, and two requests doing it at once are a fatal concurrent map write", c.blockPath(path)...)
			})
		}
		c.Sites["C08-R13#in-place-writes-by-builtins"] = nb
	}
	// ---- R1 shared write-set
	c.rule("C08-R1", "WRS: no function of pkg/interpreter reachable from a request root stores to, updates a map of, or atomically modifies a field of the shared Interpreter / TypeChecker / ModuleResolver objects, defines or sets variables in Interpreter.globalEnv, or writes a package-level variable, unless a mutex of the owning object is held at that point")
	roots := []string{"Interpreter.ExecuteRoute", "Interpreter.ExecuteCommand", "Interpreter.ExecuteEventHandler", "Interpreter.ExecuteQueueWorker"}
	reach := map[*ssa.Function]bool{}
	var work []*ssa.Function
	for _, r := range roots {
		if f := c.fn(interpPkg, r); f != nil {
			work = append(work, f)
		}
	}
	if len(work) < 2 {
		c.undecided("C08-R1: request roots not found")
	}
	cg := c.CG()
	for len(work) > 0 {
		f := work[len(work)-1]
		work = work[:len(work)-1]
		if reach[f] {
			continue
		}
		reach[f] = true
		for _, a := range f.AnonFuncs {
			work = append(work, a)
		}
		if n := cg.Nodes[f]; n != nil {
			for _, e := range n.Out {
				cal := e.Callee.Func
				if cal.Pkg != nil && cal.Pkg.Pkg.Path() == interpPath && len(cal.Blocks) > 0 && !reach[cal] {
					work = append(work, cal)
				}
			}
		}
	}
	sharedTypes := map[string]bool{"Interpreter": true, "TypeChecker": true, "ModuleResolver": true}
	e := newLck(c, &lckConfig{rule: "C08-R1", pkgs: []string{interpPkg}, guards: nil})
	nReach := 0
	onceBody := func(fn *ssa.Function) bool {
		if fn.Parent() == nil {
			return false
		}
		res := false
		eachInstr(fn.Parent(), func(_ *ssa.BasicBlock, _ int, ins ssa.Instruction) {
			if call, ok := ins.(ssa.CallInstruction); ok && callName(call) == "sync.Once.Do" {
				a := call.Common().Args[1]
				if mc, ok := a.(*ssa.MakeClosure); ok && mc.Fn == ssa.Value(fn) {
					res = true
				}
				if a == ssa.Value(fn) {
					res = true
				}
			}
		})
		return res
	}
	for fn := range reach {
		nReach++
		c.touched(fn)
		if onceBody(fn) {
			continue // runs exactly once under sync.Once
		}
		var at map[ssa.Instruction]lockState
		held := func(ins ssa.Instruction, owner string) bool {
			if at == nil {
				at, _ = e.analyse(fn)
			}
			for cls, m := range at[ins] {
				if m > 0 && strings.HasPrefix(cls, interpPkg+"."+owner+".") {
					return true
				}
			}
			return false
		}
		report := func(ins ssa.Instruction, owner, field, how string) {
			if held(ins, owner) {
				return
			}
			c.ob("C08-R1", fnKey(fn)+"#shared-write:"+owner+"."+field+":"+how, ins.Pos(), false, "request-path code modifies shared "+owner+"."+field+" ("+how+") without a lock: concurrent requests observe or corrupt each other's evaluation state (unsynchronised map writes are a fatal runtime error; a shared counter makes requests fail each other)")
		}
		sharedField := func(addr ssa.Value) (string, string, bool) {
			nt, f, ok := fieldOf(addr)
			if !ok || nt == nil || nt.Obj().Pkg() == nil || nt.Obj().Pkg().Path() != interpPath || !sharedTypes[nt.Obj().Name()] {
				return "", "", false
			}
			if isFreshAlloc(addr) {
				return "", "", false
			}
			return nt.Obj().Name(), f, true
		}
		eachInstr(fn, func(_ *ssa.BasicBlock, _ int, ins ssa.Instruction) {
			switch x := ins.(type) {
			case *ssa.Store:
				if o, f, ok := sharedField(x.Addr); ok {
					report(ins, o, f, "store")
				}
				if g, ok := x.Addr.(*ssa.Global); ok && g.Pkg.Pkg.Path() == interpPath {
					c.ob("C08-R1", fnKey(fn)+"#shared-write:global."+g.Name(), ins.Pos(), false, "request-path code writes package-level variable "+g.Name())
				}
			case *ssa.MapUpdate:
				if u, ok := x.Map.(*ssa.UnOp); ok && u.Op == token.MUL {
					if o, f, ok := sharedField(u.X); ok {
						report(ins, o, f, "map update")
					}
					if g, ok := u.X.(*ssa.Global); ok && g.Pkg.Pkg.Path() == interpPath {
						c.ob("C08-R1", fnKey(fn)+"#shared-write:global."+g.Name(), ins.Pos(), false, "request-path code updates package-level map "+g.Name())
					}
				}
			case ssa.CallInstruction:
				n := callName(x)
				args := x.Common().Args
				switch {
				case n == "builtin.delete" && len(args) > 0:
					if u, ok := args[0].(*ssa.UnOp); ok && u.Op == token.MUL {
						if o, f, ok := sharedField(u.X); ok {
							report(ins, o, f, "map delete")
						}
					}
				case (n == "sync.Map.Store" || n == "sync.Map.LoadOrStore" || n == "sync.Map.Swap" || n == "sync.Map.CompareAndSwap") && len(args) >= 3:
					// a synchronised table on a shared object: the table itself is safe, but a value computed while serving
					// one request and published there is handed to every later request. Accepted only when the value
					// cannot be mutated through (string, number, bool, func).
					o, f, ok := sharedField(args[0])
					if !ok {
						if g, isG := args[0].(*ssa.Global); isG && g.Pkg.Pkg.Path() == interpPath {
							o, f, ok = "global", g.Name(), true
						}
					}
					if ok {
						val := args[2]
						if mi, isMI := val.(*ssa.MakeInterface); isMI {
							val = mi.X
						}
						immutable := false
						if bt, isB := val.Type().Underlying().(*types.Basic); isB && bt.Kind() != types.UnsafePointer {
							immutable = true
						}
						if _, isSig := val.Type().Underlying().(*types.Signature); isSig {
							immutable = true
						}
						if !immutable {
							c.ob("C08-R1", fnKey(fn)+"#shared-write:"+o+"."+f+":published request-time value", ins.Pos(), false, "request-path code publishes a value of type "+val.Type().String()+" computed while serving one request in the shared "+o+"."+f+" table: every later request receives the same Go map/slice/object, so in-place edits by one request (`$ input.tags[0] = ...`) show up in, or race with, the others")
						}
					}
				case strings.HasPrefix(n, "sync/atomic.") && !strings.Contains(n, ".Load") && len(args) > 0:
					if o, f, ok := sharedField(args[0]); ok {
						report(ins, o, f, "atomic read-modify-write")
					}
				case (n == interpPath+".Environment.Define" || n == interpPath+".Environment.DefineWithSource" || n == interpPath+".Environment.Set") && len(args) > 0:
					if loadedFromField(args[0], "Interpreter", "globalEnv") {
						report(ins, "Interpreter", "globalEnv", "variable definition")
					}
				}
			}
		})
	}
	c.Sites["C08-R1#reachable-functions"] = nReach
	c.ob("C08-R1", interpPkg+"#request-reachable-functions-scanned", token.NoPos, nReach >= 40, "fewer than 40 functions reachable from the request roots: call graph incomplete")

	// ---- R6 shared budgets are returned on every exit
	c.rule("C08-R6", "ORD: the interpreter-wide evaluation-depth counter (shared by all in-flight requests, known finding C08-R1) is at least restored on every exit of EvaluateExpression: a leaking exit lets failing requests permanently consume the budget of all later, unrelated requests")
	if ev := c.fn(interpPkg, "Interpreter.EvaluateExpression"); ev != nil {
		var inc ssa.Instruction
		eachInstr(ev, func(_ *ssa.BasicBlock, _ int, ins ssa.Instruction) {
			if isAtomicAddOn(ins, "Interpreter", "evalDepth", +1) && inc == nil {
				inc = ins
			}
		})
		if inc != nil {
			q := &pathQuery{fn: ev, target: isReturn, stop: func(x ssa.Instruction) bool { return isAtomicAddOn(x, "Interpreter", "evalDepth", -1) }}
			hit, path := q.after(inc)
			c.ob("C08-R6", interpPkg+".Interpreter.EvaluateExpression#shared-depth-restored-on-every-exit", inc.Pos(), hit == nil, "a return is reachable after the shared depth increment without the decrement: requests that fail (or hit the limit) shrink the budget of every other request until all fail", c.blockPath(path)...)
		} else {
			c.info("C08-R6", interpPkg+".Interpreter.EvaluateExpression#no-shared-depth-counter", ev.Pos(), "no shared depth counter is modified here")
		}
	}

	// ---- R2 per-request state
	c.rule("C08-R2", "GOR/ESC: the *vm.VM on which a compiled route executes is created by vm.NewVM() inside the per-request closure (not a captured variable, package variable, pool or field), and Interpreter.ExecuteRoute evaluates the body in an Environment created by NewChildEnvironment inside ExecuteRoute")
	if cr := c.mustFn("C08-R2", glyphCmd, "createCompiledRouteHandler"); cr != nil {
		n := 0
		for _, cl := range innerClosures(cr) {
			eachInstr(cl, func(_ *ssa.BasicBlock, _ int, ins ssa.Instruction) {
				call, ok := ins.(*ssa.Call)
				if !ok || callName(call) != vmPath+".VM.Execute" {
					return
				}
				n++
				fresh := derivesFromOnly(call.Call.Args[0], func(x ssa.Value) (bool, bool) {
					if cl2, ok := x.(*ssa.Call); ok {
						return true, callName(cl2) == vmPath+".NewVM" && cl2.Parent() == cl
					}
					switch x.(type) {
					case *ssa.FreeVar, *ssa.Global, *ssa.Parameter, *ssa.TypeAssert, *ssa.Extract:
						return true, false
					}
					return false, false
				})
				c.ob("C08-R2", "cmd/glyph.createCompiledRouteHandler#vm-created-per-request-"+itoa(n), call.Pos(), fresh, "the VM that executes the request is not created by vm.NewVM() inside the request closure (shared / pooled / hoisted VM): locals, constants and stack of one request are visible to another")
			})
		}
		if n == 0 {
			c.ob("C08-R2", "cmd/glyph.createCompiledRouteHandler#executes-vm", cr.Pos(), false, "compiled handler does not execute a VM")
		}
	}
	if er := c.mustFn("C08-R2", interpPkg, "Interpreter.ExecuteRoute"); er != nil {
		n := 0
		eachInstr(er, func(_ *ssa.BasicBlock, _ int, ins ssa.Instruction) {
			call, ok := ins.(*ssa.Call)
			if !ok || callName(call) != interpPath+".Interpreter.executeStatements" {
				return
			}
			n++
			fresh := derivesFromOnly(call.Call.Args[2], func(x ssa.Value) (bool, bool) {
				if cl2, ok := x.(*ssa.Call); ok {
					return true, callName(cl2) == interpPath+".NewChildEnvironment" && cl2.Parent() == er
				}
				return false, false
			})
			c.ob("C08-R2", interpPkg+".Interpreter.ExecuteRoute#env-created-per-request-"+itoa(n), call.Pos(), fresh, "the route body is evaluated in an Environment that is not created per request inside ExecuteRoute")
		})
		if n == 0 {
			c.ob("C08-R2", interpPkg+".Interpreter.ExecuteRoute#runs-body", er.Pos(), false, "ExecuteRoute does not execute the route body")
		}
	}

	// ---- R3 provider stores under their locks
	c.rule("C08-R3", "LCK: MockDatabase.data under MockDatabase.mu; redis MockHandler.{data,lists,hashes,sets} under its mu; mongodb MockHandler.{collections,nextID} and MockCollectionHandler.docs under their mu; database.Handler.tables under its mu — writes exclusive; and no split read-modify-write: a value read from a store is not written back after the lock was released and re-taken without re-reading the store (each provider operation takes effect atomically)")
	g := func(pkg, t, f, m string) guard {
		return guard{typ: pkg + "." + t, field: f, class: pkg + "." + t + "." + m}
	}
	guards := []guard{
		g("pkg/database", "MockDatabase", "data", "mu"), g("pkg/database", "Handler", "tables", "mu"),
		g("pkg/redis", "MockHandler", "data", "mu"), g("pkg/redis", "MockHandler", "lists", "mu"), g("pkg/redis", "MockHandler", "hashes", "mu"), g("pkg/redis", "MockHandler", "sets", "mu"),
		g("pkg/mongodb", "MockHandler", "collections", "mu"), g("pkg/mongodb", "MockHandler", "nextID", "mu"), g("pkg/mongodb", "MockCollectionHandler", "docs", "mu"),
	}
	le := newLck(c, &lckConfig{rule: "C08-R3", pkgs: []string{"pkg/database", "pkg/redis", "pkg/mongodb"}, guards: guards})
	le.run()
	c.floor("C08-R3", 40)
	splitRMW(c, le, "C08-R3")

	// ---- R4 no live references leave the lock
	c.rule("C08-R4", "ESC: a method of a mock store never returns (directly, or as an element of a returned slice) a map that is an element of the lock-protected storage, and never stores a caller-supplied map into that storage, without copying it (request code mutates records outside the lock)")
	liveRefAudit(c, "C08-R4", []struct{ rel, typ, field string }{
		{"pkg/database", "MockDatabase", "data"},
		{"pkg/mongodb", "MockCollectionHandler", "docs"},
		{"pkg/redis", "MockHandler", "hashes"},
	})

	// ---- R5 compiled type table
	c.rule("C08-R5", "WCS: cmd/glyph.compiledTypeDefs is assigned only by setCompiledTypeDefs, which is called only from setupRoutes (never from a request handler), and no request-path function caches a value derived from it in a package variable or sync.Once")
	{
		p := c.spkg(glyphCmd)
		g := p.Var("compiledTypeDefs")
		if g == nil {
			c.info("C08-R5", "cmd/glyph.compiledTypeDefs#absent", token.NoPos, "no package-level compiledTypeDefs")
		} else {
			for _, fn := range c.srcFuncs(glyphCmd) {
				eachInstr(fn, func(_ *ssa.BasicBlock, _ int, ins ssa.Instruction) {
					switch x := ins.(type) {
					case *ssa.Store:
						if x.Addr == ssa.Value(g) {
							c.ob("C08-R5", fnKey(fn)+"#assigns-compiledTypeDefs", ins.Pos(), fnKey(fn) == "cmd/glyph.setCompiledTypeDefs", "compiledTypeDefs is assigned outside setCompiledTypeDefs")
						}
					case *ssa.MapUpdate:
						if isGlobalLoad(x.Map, "compiledTypeDefs") {
							c.ob("C08-R5", fnKey(fn)+"#updates-compiledTypeDefs", ins.Pos(), false, "compiledTypeDefs is mutated in place while request handlers read it")
						}
					case ssa.CallInstruction:
						if callName(x) == modPath+"/cmd/glyph.setCompiledTypeDefs" {
							c.ob("C08-R5", fnKey(fn)+"#calls-setCompiledTypeDefs", ins.Pos(), fnKey(fn) == "cmd/glyph.setupRoutes", "setCompiledTypeDefs is called outside setupRoutes")
						}
					}
				})
			}
			compiledPathGlobalState(c, "C08-R5")
			c.ob("C08-R5", "cmd/glyph#compiled-request-path-global-state-scanned", token.NoPos, true, "")
		}
	}
	_ = types.Typ
}

// splitRMW flags, per function and lock class, a guarded lookup followed — after that lock was
// released and re-taken, and without re-reading the same field — by a guarded write under the same
// class (directly, or through a helper that requires the lock for writing).
func splitRMW(c *Ctx, e *lckEngine, rule string) {
	for _, fn := range e.funcs {
		accs := e.accesses(fn)
		if len(accs) == 0 {
			continue
		}
		at, _ := e.analyse(fn)
		byClass := map[string][]*access{}
		for _, a := range accs {
			byClass[a.g.class] = append(byClass[a.g.class], a)
		}
		for cls, as := range byClass {
			var reads []*access
			var writes []ssa.Instruction
			for _, a := range as {
				if a.write {
					writes = append(writes, a.ins)
				} else if isLookupLike(a.ins) {
					reads = append(reads, a)
				}
			}
			// helper calls that write under the class
			eachCall(fn, func(call ssa.CallInstruction) {
				if _, isGo := call.(*ssa.Go); isGo {
					return
				}
				if cal := e.callee(call); cal != nil {
					if sm, ok := e.sum[cal]; ok && sm.requires[cls] == modeWrite {
						writes = append(writes, call.(ssa.Instruction))
					}
				}
			})
			if len(reads) == 0 || len(writes) == 0 {
				continue
			}
			bad := false
			var where ssa.Instruction
			field := ""
			for _, r := range reads {
				for _, w := range writes {
					eachInstr(fn, func(_ *ssa.BasicBlock, _ int, u ssa.Instruction) {
						call, ok := u.(ssa.CallInstruction)
						if !ok || isDeferInstr(u) {
							return
						}
						if d, ok := syncLockOps[callName(call)]; !ok || d >= 0 {
							return
						}
						if e.classOf(call.Common().Args[0], fn, 0) != cls {
							return
						}
						noBack := func(b *ssa.BasicBlock, si int) bool { return b.Succs[si].Dominates(b) } // one operation = no trip around a loop
						q1 := &pathQuery{fn: fn, cutEdge: noBack, target: func(x ssa.Instruction) bool { return x == u }}
						if h, _ := q1.after(r.ins); h == nil {
							return
						}
						q2 := &pathQuery{fn: fn, cutEdge: noBack, target: func(x ssa.Instruction) bool { return x == w }, stop: func(x ssa.Instruction) bool {
							for _, rr := range reads {
								if rr.ins == x && rr.ins != r.ins && rr.g == r.g {
									return true
								}
							}
							return false
						}}
						if h, _ := q2.after(u); h != nil && at[w][cls] > 0 {
							bad = true
							where = w
							field = r.g.typ + "." + r.g.field
						}
					})
				}
			}
			p := fn.Pos()
			if where != nil {
				p = where.Pos()
			}
			c.ob(rule, fnKey(fn)+"#"+cls+"#read-modify-write-in-one-critical-section", p, !bad, "a value looked up in "+field+" is acted on (written back / used to mutate the store) after the lock was released and re-acquired without re-reading it: concurrent callers lose updates or operate on already-removed elements although every access is locked")
		}
	}
}

func isLookupLike(ins ssa.Instruction) bool {
	switch ins.(type) {
	case *ssa.Lookup, *ssa.Range, *ssa.Next, *ssa.Index:
		return true
	case *ssa.UnOp:
		// a load of a scalar guarded field is a read of its value; a load of a map/slice header is not
		switch ins.(*ssa.UnOp).Type().Underlying().(type) {
		case *types.Map, *types.Slice, *types.Pointer, *types.Chan:
			return false
		}
		return true
	}
	return false
}

// liveRefAudit: methods of the package must not return / keep un-copied element maps of the guarded storage.
func liveRefAudit(c *Ctx, rule string, stores []struct{ rel, typ, field string }) {
	for _, s := range stores {
		isStorage := func(v ssa.Value) bool { return loadedFromField(v, s.typ, s.field) }
		// refElem: v is (an alias of) an element reachable from the storage without a copy
		var live func(v ssa.Value, seen map[ssa.Value]bool) bool
		live = func(v ssa.Value, seen map[ssa.Value]bool) bool {
			if v == nil || seen[v] {
				return false
			}
			seen[v] = true
			switch x := v.(type) {
			case *ssa.UnOp:
				if isStorage(x) {
					return true
				}
				if x.Op == token.MUL {
					if ia, ok := x.X.(*ssa.IndexAddr); ok {
						return live(ia.X, seen)
					}
					if al, ok := x.X.(*ssa.Alloc); ok {
						for _, r := range refs(al) {
							if st, ok := r.(*ssa.Store); ok && st.Addr == ssa.Value(al) && live(st.Val, seen) {
								return true
							}
						}
					}
				}
			case *ssa.Lookup:
				return live(x.X, seen)
			case *ssa.Index:
				return live(x.X, seen)
			case *ssa.Extract:
				if nx, ok := x.Tuple.(*ssa.Next); ok && x.Index == 2 {
					if rg, ok := nx.Iter.(*ssa.Range); ok {
						return live(rg.X, seen)
					}
				}
				if lk, ok := x.Tuple.(*ssa.Lookup); ok && x.Index == 0 {
					return live(lk.X, seen)
				}
			case *ssa.Phi:
				for _, e := range x.Edges {
					if live(e, seen) {
						return true
					}
				}
			case *ssa.MakeInterface:
				switch x.X.Type().Underlying().(type) {
				case *types.Map, *types.Slice, *types.Pointer:
					return live(x.X, seen)
				}
				return false
			case *ssa.ChangeType:
				return live(x.X, seen)
			case *ssa.Slice:
				return live(x.X, seen)
			}
			return false
		}
		isRefType := func(t types.Type) bool {
			switch u := t.Underlying().(type) {
			case *types.Map:
				return true
			case *types.Interface:
				return true
			case *types.Slice:
				_, isMap := u.Elem().Underlying().(*types.Map)
				_, isIf := u.Elem().Underlying().(*types.Interface)
				return isMap || isIf
			}
			return false
		}
		n := 0
		for _, fn := range c.srcFuncs(s.rel) {
			if fn.Signature.Recv() == nil {
				continue
			}
			fo, _ := fn.Object().(*types.Func)
			if fo == nil || !fo.Exported() {
				continue
			}
			touches := false
			eachInstr(fn, func(_ *ssa.BasicBlock, _ int, ins ssa.Instruction) {
				if u, ok := ins.(*ssa.UnOp); ok && isStorage(u) {
					touches = true
				}
			})
			if !touches {
				continue
			}
			n++
			// returns
			leak := false
			var where token.Pos
			eachInstr(fn, func(_ *ssa.BasicBlock, _ int, ins ssa.Instruction) {
				r, ok := ins.(*ssa.Return)
				if !ok {
					return
				}
				for _, v := range retVals(r) {
					if !isRefType(v.Type()) {
						continue
					}
					if _, isMapStorage := v.Type().Underlying().(*types.Map); isMapStorage && live(v, map[ssa.Value]bool{}) {
						leak, where = true, r.Pos()
					}
					if mi, ok := v.(*ssa.MakeInterface); ok && live(mi, map[ssa.Value]bool{}) {
						if _, isM := mi.X.Type().Underlying().(*types.Map); isM {
							leak, where = true, r.Pos()
						}
					}
					// slices built here: stores / appends of live elements
					var chk func(sv ssa.Value, seen map[ssa.Value]bool)
					chk = func(sv ssa.Value, seen map[ssa.Value]bool) {
						if seen[sv] {
							return
						}
						seen[sv] = true
						switch y := sv.(type) {
						case *ssa.MakeSlice:
						case *ssa.Phi:
							for _, e := range y.Edges {
								chk(e, seen)
							}
						case *ssa.Call:
							if callName(y) == "builtin.append" {
								chk(y.Call.Args[0], seen)
								if len(y.Call.Args) > 1 {
									if vs, ok := varargs(y.Call.Args[1]); ok {
										for _, el := range vs {
											if el != nil && live(el, map[ssa.Value]bool{}) {
												leak, where = true, y.Pos()
											}
										}
									}
								}
							}
						}
						for _, rr := range refs(sv) {
							if ia, ok := rr.(*ssa.IndexAddr); ok && ia.X == sv {
								for _, r3 := range refs(ia) {
									if st, ok := r3.(*ssa.Store); ok && st.Addr == ssa.Value(ia) && live(st.Val, map[ssa.Value]bool{}) {
										leak, where = true, st.Pos()
									}
								}
							}
						}
					}
					if _, isSl := v.Type().Underlying().(*types.Slice); isSl {
						chk(v, map[ssa.Value]bool{})
					}
				}
			})
			if where == token.NoPos {
				where = fn.Pos()
			}
			c.ob(rule, fnKey(fn)+"#returns-no-live-record", where, !leak, "the method hands out a map that is still an element of the lock-protected store: request code that assigns to its fields writes shared storage outside the lock (concurrent map writes are fatal)")
			// stores of caller-supplied maps
			keeps := false
			eachInstr(fn, func(_ *ssa.BasicBlock, _ int, ins ssa.Instruction) {
				call, ok := ins.(*ssa.Call)
				if ok && callName(call) == "builtin.append" && live(call.Call.Args[0], map[ssa.Value]bool{}) && len(call.Call.Args) > 1 {
					if vs, ok := varargs(call.Call.Args[1]); ok {
						for _, el := range vs {
							if p, ok := el.(*ssa.Parameter); ok {
								if _, isM := p.Type().Underlying().(*types.Map); isM {
									keeps, where = true, call.Pos()
								}
							}
						}
					}
				}
				if mu, ok := ins.(*ssa.MapUpdate); ok && live(mu.Map, map[ssa.Value]bool{}) {
					if p, ok := mu.Value.(*ssa.Parameter); ok {
						if _, isM := p.Type().Underlying().(*types.Map); isM {
							keeps, where = true, mu.Pos()
						}
					}
				}
			})
			c.ob(rule, fnKey(fn)+"#stores-no-caller-map", where, !keeps, "the method keeps the caller's map inside the lock-protected store: the caller goes on modifying it outside the lock")
		}
		if n == 0 {
			c.undecided("%s: no exported method touches %s.%s", rule, s.typ, s.field)
		}
	}
}

// compiledPathGlobalState: the compiled request closure and its cmd/glyph callees (depth 4) neither write
// package variables nor use a package-level sync.Once / sync.Pool.
func compiledPathGlobalState(c *Ctx, rule string) {
	cr := c.fn(glyphCmd, "createCompiledRouteHandler")
	if cr == nil {
		return
	}
	for _, cl := range innerClosures(cr) {
		seen := map[*ssa.Function]bool{}
		var visit func(f *ssa.Function, d int)
		visit = func(f *ssa.Function, d int) {
			if f == nil || seen[f] || d > 4 || len(f.Blocks) == 0 || f.Pkg == nil || f.Pkg.Pkg.Path() != modPath+"/cmd/glyph" {
				return
			}
			seen[f] = true
			for _, a := range f.AnonFuncs {
				visit(a, d)
			}
			eachInstr(f, func(_ *ssa.BasicBlock, _ int, ins ssa.Instruction) {
				if st, ok := ins.(*ssa.Store); ok {
					if gg, ok := st.Addr.(*ssa.Global); ok {
						c.ob(rule, fnKey(f)+"#request-path-writes-global:"+gg.Name(), ins.Pos(), false, "the compiled request path writes package variable "+gg.Name())
					}
				}
				if call, ok := ins.(ssa.CallInstruction); ok {
					if callName(call) == "sync.Once.Do" || callName(call) == "sync.Pool.Get" || callName(call) == "sync.Pool.Put" {
						if derivesFrom(call.Common().Args[0], func(v ssa.Value) bool { _, ok := v.(*ssa.Global); return ok }) {
							c.ob(rule, fnKey(f)+"#request-path-uses-package-level-"+strings.TrimPrefix(callName(call), "sync."), ins.Pos(), false, "the compiled request path keeps state across requests (and across module reloads) in a package-level sync.Once/Pool: a value computed for one module load or request is reused for another")
						}
					}
					visit(staticFn(call), d+1)
				}
			})
		}
		visit(cl, 0)
	}
}
