package main

import (
	"go/ast"
	"go/token"
	"go/types"
	"sort"
	"strings"

	"golang.org/x/tools/go/ssa"
)

// transitiveCallers returns the functions of package rel that contain, or reach through static
// calls to functions of the same package, a call satisfying pred.
func transitiveCallers(c *Ctx, rel string, pred func(ssa.CallInstruction) bool) map[*ssa.Function]bool {
	fns := c.srcFuncs(rel)
	set := map[*ssa.Function]bool{}
	for _, f := range fns {
		eachCall(f, func(call ssa.CallInstruction) {
			if pred(call) {
				set[f] = true
			}
		})
	}
	for changed := true; changed; {
		changed = false
		for _, f := range fns {
			if set[f] {
				continue
			}
			eachCall(f, func(call ssa.CallInstruction) {
				if sf := staticFn(call); sf != nil && set[sf] && !set[f] {
					set[f] = true
					changed = true
				}
			})
		}
	}
	return set
}

type loop struct {
	head *ssa.BasicBlock
	body map[*ssa.BasicBlock]bool
}

// naturalLoops returns the natural loops of fn (one per header; back edges merged).
func naturalLoops(fn *ssa.Function) []*loop {
	byHead := map[*ssa.BasicBlock]*loop{}
	var order []*ssa.BasicBlock
	for _, b := range fn.Blocks {
		for _, s := range b.Succs {
			if s.Dominates(b) { // back edge b -> s
				lp := byHead[s]
				if lp == nil {
					lp = &loop{head: s, body: map[*ssa.BasicBlock]bool{s: true}}
					byHead[s] = lp
					order = append(order, s)
				}
				// add all nodes reaching b without passing s
				stack := []*ssa.BasicBlock{b}
				for len(stack) > 0 {
					x := stack[len(stack)-1]
					stack = stack[:len(stack)-1]
					if lp.body[x] {
						continue
					}
					lp.body[x] = true
					stack = append(stack, x.Preds...)
				}
			}
		}
	}
	var out []*loop
	for _, h := range order {
		out = append(out, byHead[h])
	}
	return out
}

// isBoundedIteration: the loop is a range/for-i loop over a finite snapshot: it contains a Next
// (map/string range) or an exit test that mentions an induction phi (p = phi[.., p+const]).
func (lp *loop) isBoundedIteration() bool {
	ind := map[ssa.Value]bool{}
	for b := range lp.body {
		for _, ins := range b.Instrs {
			if _, ok := ins.(*ssa.Next); ok {
				return true
			}
			if p, ok := ins.(*ssa.Phi); ok {
				for _, e := range p.Edges {
					if bo, ok := e.(*ssa.BinOp); ok && (bo.Op == token.ADD || bo.Op == token.SUB) {
						if bo.X == ssa.Value(p) {
							if _, isC := bo.Y.(*ssa.Const); isC {
								ind[p] = true
								ind[bo] = true
							}
						}
					}
				}
			}
		}
	}
	if len(ind) == 0 {
		return false
	}
	for b := range lp.body {
		iff, ok := b.Instrs[len(b.Instrs)-1].(*ssa.If)
		if !ok || (lp.body[b.Succs[0]] && lp.body[b.Succs[1]]) {
			continue
		}
		if bo, ok := iff.Cond.(*ssa.BinOp); ok && (ind[bo.X] || ind[bo.Y]) {
			return true
		}
	}
	return false
}

// condTestsEmptiness: cond is list.Len() <op> 0, list.Back()/Front() ==/!= nil, or (the negation of) a
// boolean produced by the evicting call itself.
func condTestsEmptiness(cond ssa.Value, evict ssa.CallInstruction) bool {
	switch x := cond.(type) {
	case *ssa.UnOp:
		if x.Op == token.NOT {
			return condTestsEmptiness(x.X, evict)
		}
	case *ssa.BinOp:
		for _, pair := range [][2]ssa.Value{{x.X, x.Y}, {x.Y, x.X}} {
			if call, ok := pair[0].(*ssa.Call); ok {
				switch callName(call) {
				case "container/list.List.Len":
					if n, ok := constInt(pair[1]); ok && (n == 0 || n == 1) {
						return true
					}
				case "container/list.List.Back", "container/list.List.Front":
					if isNilConst(pair[1]) {
						return true
					}
				}
			}
		}
	case *ssa.Call:
		if ev, ok := evict.(*ssa.Call); ok && x == ev {
			return true
		}
	case *ssa.Extract:
		if ev, ok := evict.(*ssa.Call); ok && x.Tuple == ssa.Value(ev) {
			return true
		}
	}
	return false
}

func isStoreToField(ins ssa.Instruction, typeName, field string) bool {
	st, ok := ins.(*ssa.Store)
	if !ok {
		return false
	}
	n, f, ok := fieldOf(st.Addr)
	return ok && n != nil && n.Obj().Name() == typeName && f == field
}

// loadedFromField: v is *(&x.field) with x of the named struct type.
func loadedFromField(v ssa.Value, typeName, field string) bool {
	u, ok := v.(*ssa.UnOp)
	if !ok || u.Op != token.MUL {
		return false
	}
	n, f, ok := fieldOf(u.X)
	return ok && n != nil && n.Obj().Name() == typeName && f == field
}

// retVals returns the values returned by ret, undoing go/ssa's defer-spilling of results
// (results stored to a local and re-loaded after rundefers).
func retVals(ret *ssa.Return) []ssa.Value {
	out := make([]ssa.Value, len(ret.Results))
	b := ret.Block()
	for i, r := range ret.Results {
		out[i] = r
		u, ok := r.(*ssa.UnOp)
		if !ok || u.Op != token.MUL {
			continue
		}
		al, ok := u.X.(*ssa.Alloc)
		if !ok {
			continue
		}
		for j := len(b.Instrs) - 1; j >= 0; j-- {
			if st, ok := b.Instrs[j].(*ssa.Store); ok && st.Addr == ssa.Value(al) {
				out[i] = st.Val
				break
			}
		}
	}
	return out
}

func isConstBool(v ssa.Value, want bool) bool {
	c, ok := v.(*ssa.Const)
	if !ok || c.Value == nil {
		return false
	}
	return c.Value.String() == map[bool]string{true: "true", false: "false"}[want]
}

// derivesFrom reports whether v's backward slice (within its function; through operators, calls'
// arguments, phis, element/field selection, conversions and loads of locals) contains a value
// satisfying pred.
// derivesBarrier, when set, is a value the backward slice does not cross (see derivesFromAvoiding).
var derivesBarrier ssa.Value

// derivesFromAvoiding is derivesFrom on the slice that does not pass through `avoid`.
func derivesFromAvoiding(v ssa.Value, avoid ssa.Value, pred func(ssa.Value) bool) bool {
	old := derivesBarrier
	derivesBarrier = avoid
	defer func() { derivesBarrier = old }()
	return derivesFrom(v, pred)
}

func derivesFrom(v ssa.Value, pred func(ssa.Value) bool) bool {
	seen := map[ssa.Value]bool{}
	var walk func(v ssa.Value, d int) bool
	walk = func(v ssa.Value, d int) bool {
		if v == nil || seen[v] || d > 40 {
			return false
		}
		if derivesBarrier != nil && v == derivesBarrier {
			return false
		}
		seen[v] = true
		if pred(v) {
			return true
		}
		switch x := v.(type) {
		case *ssa.Phi:
			for _, e := range x.Edges {
				if walk(e, d+1) {
					return true
				}
			}
		case *ssa.MakeMap:
			for _, r := range refs(x) {
				if mu, ok := r.(*ssa.MapUpdate); ok && mu.Map == ssa.Value(x) && (walk(mu.Value, d+1) || walk(mu.Key, d+1)) {
					return true
				}
			}
		case *ssa.Alloc:
			for _, r := range refs(x) {
				if st, ok := r.(*ssa.Store); ok && st.Addr == ssa.Value(x) && walk(st.Val, d+1) {
					return true
				}
				// element / field stores of a local array or struct (varargs arrays, composite literals)
				switch a := r.(type) {
				case *ssa.IndexAddr, *ssa.FieldAddr:
					for _, rr := range refs(a.(ssa.Value)) {
						if st, ok := rr.(*ssa.Store); ok && st.Addr == a.(ssa.Value) && walk(st.Val, d+1) {
							return true
						}
					}
				}
			}
		case *ssa.FreeVar:
			// a variable captured by reference: what the enclosing functions store into it
			if cell := capturedCellDeep(x); cell != nil {
				return walk(cell, d+1)
			}
		case *ssa.UnOp:
			if x.Op == token.MUL {
				if al, ok := x.X.(*ssa.Alloc); ok {
					for _, r := range refs(al) {
						if st, ok := r.(*ssa.Store); ok && st.Addr == ssa.Value(al) && walk(st.Val, d+1) {
							return true
						}
					}
					// a composite literal built in place: field / element stores of the local
					return walk(al, d+1)
				}
			}
			return walk(x.X, d+1)
		case ssa.Instruction:
			for _, op := range x.Operands(nil) {
				if *op != nil && walk(*op, d+1) {
					return true
				}
			}
		}
		return false
	}
	return walk(v, 0)
}

// nextCalls returns the calls in fn whose callee value is a captured/received handler of the given
// named type (e.g. server.RouteHandler `next`).
func isHandlerValueCall(ins ssa.Instruction, pkgPath, typeName string) bool {
	call, ok := ins.(ssa.CallInstruction)
	if !ok || call.Common().IsInvoke() {
		return false
	}
	v := call.Common().Value
	if u, ok := v.(*ssa.UnOp); ok && u.Op == token.MUL {
		v = u.X
	}
	switch v.(type) {
	case *ssa.FreeVar, *ssa.Parameter, *ssa.Alloc:
		return typeIs(v.Type(), pkgPath, typeName)
	}
	return false
}

// isCallTo: ins is a call whose resolved callee has one of the qualified names.
func isCallTo(ins ssa.Instruction, names ...string) bool {
	call, ok := ins.(ssa.CallInstruction)
	if !ok {
		return false
	}
	n := callName(call)
	for _, w := range names {
		if n == w {
			return true
		}
	}
	return false
}

// innerClosures returns all (transitively nested) anonymous functions of fn.
func innerClosures(fn *ssa.Function) []*ssa.Function {
	return withAnon(fn)[1:]
}

func blockHas(b *ssa.BasicBlock, pred func(ssa.Instruction) bool) bool {
	for _, ins := range b.Instrs {
		if pred(ins) {
			return true
		}
	}
	return false
}

// ifOf returns the If terminating block b, or nil.
func ifOf(b *ssa.BasicBlock) *ssa.If {
	if len(b.Instrs) == 0 {
		return nil
	}
	iff, _ := b.Instrs[len(b.Instrs)-1].(*ssa.If)
	return iff
}

// localVarNamed finds the name of the (unique) local variable of fn (heap or stack Alloc) whose
// element type satisfies pred; "" if none or ambiguous. Used to resolve slots by role, not by name.
func localVarNamed(fn *ssa.Function, pred func(t types.Type) bool) string {
	name := ""
	n := 0
	for _, b := range fn.Blocks {
		for _, ins := range b.Instrs {
			if al, ok := ins.(*ssa.Alloc); ok && al.Comment != "" && al.Comment != "complit" && al.Comment != "varargs" {
				if pt, ok := al.Type().(*types.Pointer); ok && pred(pt.Elem()) {
					if al.Comment != name {
						n++
					}
					name = al.Comment
				}
			}
		}
	}
	if n == 1 {
		return name
	}
	return ""
}

func isSyncMutex(t types.Type) bool {
	return typeIs(t, "sync", "Mutex") || typeIs(t, "sync", "RWMutex")
}

// mapWithElem: t is a map whose element type is (pointer to) the named type.
func mapWithElem(pkgPath, name string) func(types.Type) bool {
	return func(t types.Type) bool {
		m, ok := t.Underlying().(*types.Map)
		return ok && typeIs(m.Elem(), pkgPath, name)
	}
}

// switchConstCoverage inspects every `switch x {…}` in decl whose tag has the named type and reports,
// per switch, the constants of that type that have no case, and whether a default exists.
type switchCov struct {
	pos        token.Pos
	missing    []string
	hasDefault bool
	cases      map[string]bool
}

func switchConstCoverage(c *Ctx, rel string, decl ast.Node, pkgPath, typeName string) []switchCov {
	p := c.pkg(rel)
	// all constants of the type
	tp := c.Pkgs[pkgPath]
	var all []string
	if tp != nil {
		sc := tp.Types.Scope()
		for _, n := range sc.Names() {
			if cst, ok := sc.Lookup(n).(*types.Const); ok && typeIs(cst.Type(), pkgPath, typeName) {
				all = append(all, n)
			}
		}
	}
	var out []switchCov
	ast.Inspect(decl, func(n ast.Node) bool {
		sw, ok := n.(*ast.SwitchStmt)
		if !ok || sw.Tag == nil {
			return true
		}
		t := p.TypesInfo.TypeOf(sw.Tag)
		if t == nil || !typeIs(t, pkgPath, typeName) {
			return true
		}
		cov := switchCov{pos: sw.Pos(), cases: map[string]bool{}}
		for _, st := range sw.Body.List {
			cc := st.(*ast.CaseClause)
			if cc.List == nil {
				cov.hasDefault = true
			}
			for _, e := range cc.List {
				var id *ast.Ident
				switch x := e.(type) {
				case *ast.Ident:
					id = x
				case *ast.SelectorExpr:
					id = x.Sel
				}
				if id != nil {
					if obj, ok := p.TypesInfo.Uses[id].(*types.Const); ok {
						cov.cases[obj.Name()] = true
					}
				}
			}
		}
		for _, n := range all {
			if !cov.cases[n] {
				cov.missing = append(cov.missing, n)
			}
		}
		out = append(out, cov)
		return true
	})
	return out
}

// reachesCallTo: does fn (transitively through static callees inside the module, depth-bounded)
// contain an instruction satisfying pred?
func reachesInstr(fn *ssa.Function, pred func(ssa.Instruction) bool, depth int, seen map[*ssa.Function]bool) bool {
	if fn == nil || seen[fn] || depth > 6 || len(fn.Blocks) == 0 {
		return false
	}
	seen[fn] = true
	found := false
	eachInstr(fn, func(_ *ssa.BasicBlock, _ int, ins ssa.Instruction) {
		if found {
			return
		}
		if pred(ins) {
			found = true
			return
		}
		if call, ok := ins.(ssa.CallInstruction); ok {
			if sf := staticFn(call); sf != nil && sf.Pkg != nil && strings.HasPrefix(sf.Pkg.Pkg.Path(), modPath) {
				if reachesInstr(sf, pred, depth+1, seen) {
					found = true
				}
			}
		}
	})
	return found
}

// staleOnceAudit: a sync.Once body must not compute its result from a package-level variable that the
// program assigns again later (outside package initialisation): the once-built value keeps the first
// content for the life of the process, whatever is loaded afterwards. Returns the number of Once bodies examined.
func staleOnceAudit(c *Ctx, rule string, rels []string) int {
	// globals assigned outside init (function -> global)
	type gstore struct {
		fn  *ssa.Function
		pos token.Pos
	}
	reassigned := map[*ssa.Global][]gstore{}
	for _, rel := range c.modulePkgs() {
		for _, fn := range c.srcFuncs(rel) {
			if topParent(fn).Name() == "init" || strings.HasPrefix(topParent(fn).Name(), "init#") {
				continue
			}
			eachInstr(fn, func(_ *ssa.BasicBlock, _ int, ins ssa.Instruction) {
				if st, ok := ins.(*ssa.Store); ok {
					if g, ok := st.Addr.(*ssa.Global); ok {
						reassigned[g] = append(reassigned[g], gstore{fn, st.Pos()})
					}
				}
			})
		}
	}
	n := 0
	for _, rel := range rels {
		for _, fn := range c.srcFuncs(rel) {
			eachCall(fn, func(call ssa.CallInstruction) {
				if callName(call) != "sync.Once.Do" {
					return
				}
				var body *ssa.Function
				switch a := call.Common().Args[1].(type) {
				case *ssa.MakeClosure:
					body, _ = a.Fn.(*ssa.Function)
				case *ssa.Function:
					body = a
				}
				if body == nil {
					return
				}
				n++
				k := 0
				seen := map[*ssa.Global]bool{}
				for _, g := range withAnon(body) {
					eachInstr(g, func(_ *ssa.BasicBlock, _ int, ins ssa.Instruction) {
						u, ok := ins.(*ssa.UnOp)
						if !ok || u.Op != token.MUL {
							return
						}
						gl, ok := u.X.(*ssa.Global)
						if !ok || seen[gl] {
							return
						}
						var outside []gstore
						for _, s := range reassigned[gl] {
							if topParent(s.fn) != topParent(body) {
								outside = append(outside, s)
							}
						}
						if len(outside) == 0 {
							return
						}
						seen[gl] = true
						k++
						c.ob(rule, fnKey(body)+"#once-body-reads-reassigned-global:"+gl.Name(), u.Pos(), false,
							"this sync.Once body builds its result from package variable "+gl.Name()+", which "+fnKey(outside[0].fn)+" assigns again later (e.g. on every reload / route setup): the once-built value keeps what the variable held the first time, so everything loaded afterwards is checked or served against stale data")
					})
				}
				if k == 0 {
					c.ob(rule, fnKey(body)+"#once-body-reads-no-reassigned-global", call.Pos(), true, "")
				}
			})
		}
	}
	return n
}

// fieldOfLoad: v is a load of struct field F of named type T (through a pointer): returns T's name and F.
func fieldOfLoad(v ssa.Value) (string, string, bool) {
	u, ok := v.(*ssa.UnOp)
	if !ok || u.Op != token.MUL {
		return "", "", false
	}
	named, fld, ok := fieldOf(u.X)
	if !ok || named == nil {
		return "", "", false
	}
	return named.Obj().Name(), fld, true
}

// lockReleaseAudit: every explicit Lock/RLock on a struct-field (or local / captured) mutex is released on every
// path to a return: after the acquire, a return is reachable only through the matching Unlock/RUnlock on the same
// mutex or a `defer` of it. A path that returns with the lock held blocks every later operation on that object forever.
// Returns the number of acquire sites examined.
func lockReleaseAudit(c *Ctx, rule string, rels []string) int {
	sameMutex := func(a, b ssa.Value) bool {
		if a == b || sameVal(a, b) {
			return true
		}
		fa, ok1 := a.(*ssa.FieldAddr)
		fb, ok2 := b.(*ssa.FieldAddr)
		if ok1 && ok2 && fa.Field == fb.Field && (fa.X == fb.X || sameVal(fa.X, fb.X)) {
			return true
		}
		return false
	}
	n := 0
	for _, rel := range rels {
		for _, fn := range c.srcFuncs(rel) {
			k := 0
			eachInstr(fn, func(_ *ssa.BasicBlock, _ int, ins ssa.Instruction) {
				call, ok := ins.(*ssa.Call)
				if !ok {
					return
				}
				name := callName(call)
				var rel string
				switch name {
				case "sync.Mutex.Lock", "sync.RWMutex.Lock":
					rel = "Unlock"
				case "sync.RWMutex.RLock":
					rel = "RUnlock"
				default:
					return
				}
				mu := call.Call.Args[0]
				n++
				k++
				isRelease := func(x ssa.Instruction) bool {
					ci, ok := x.(ssa.CallInstruction)
					if !ok {
						return false
					}
					if _, isGo := x.(*ssa.Go); isGo {
						return false
					}
					cn := callName(ci)
					if !(strings.HasSuffix(cn, "."+rel) && strings.HasPrefix(cn, "sync.")) {
						// a deferred closure / helper that releases it
						if d, isDefer := x.(*ssa.Defer); isDefer {
							if mc, ok := d.Call.Value.(*ssa.MakeClosure); ok {
								found := false
								eachCall(mc.Fn.(*ssa.Function), func(c2 ssa.CallInstruction) {
									if strings.HasSuffix(callName(c2), "."+rel) {
										found = true
									}
								})
								return found
							}
						}
						return false
					}
					return sameMutex(ci.Common().Args[0], mu)
				}
				q := &pathQuery{fn: fn, target: isReturn, stop: isRelease}
				hit, path := q.after(ins)
				c.ob(rule, fnKey(fn)+"#lock-released-on-every-return-"+itoa(k), call.Pos(), hit == nil,
					"a return is reachable after this "+short(name)+" without the matching "+rel+" (explicit or deferred): the function can return with the lock held, after which every operation that needs it blocks forever", c.blockPath(path)...)
			})
		}
	}
	// … and no method takes its receiver's mutex again while it holds it (REACQ, reacq.go)
	n += reacquireAudit(c, rule, rels)
	return n
}

// appendAliasAudit: `append(s.f, …)` whose result is kept anywhere but in s.f itself. The shared slice usually has spare
// capacity, so the appended elements are written into the backing array every such call shares: the second call
// overwrites what the first one put there (two routes registered on one server end up with the later route's
// middlewares). Returns the number of appends on shared slices examined.
func appendAliasAudit(c *Ctx, rule string, rels []string, why string) int {
	n := 0
	for _, rel := range rels {
		for _, fn := range c.srcFuncs(rel) {
			k := 0
			eachInstr(fn, func(_ *ssa.BasicBlock, _ int, ins ssa.Instruction) {
				call, ok := ins.(*ssa.Call)
				if !ok || callName(call) != "builtin.append" || len(call.Call.Args) < 2 {
					return
				}
				u, ok := call.Call.Args[0].(*ssa.UnOp)
				if !ok || u.Op != token.MUL {
					return
				}
				var srcField string
				var srcGlobal *ssa.Global
				switch a := u.X.(type) {
				case *ssa.FieldAddr:
					if nt, f, ok := fieldOf(a); ok {
						srcField = nt.Obj().Name() + "." + f
					} else {
						return
					}
					// a struct that was allocated in this function and is still private is not shared
					if al, ok := a.X.(*ssa.Alloc); ok && !al.Heap {
						return
					}
				case *ssa.Global:
					srcGlobal = a
				default:
					return
				}
				n++
				k++
				// every use of the result must be a store back into the same field / global
				okAll := true
				uses := 0
				var visit func(v ssa.Value, d int)
				visit = func(v ssa.Value, d int) {
					for _, r := range refs(v) {
						switch x := r.(type) {
						case *ssa.DebugRef:
						case *ssa.Store:
							uses++
							if x.Val != v {
								continue
							}
							switch a := x.Addr.(type) {
							case *ssa.FieldAddr:
								if nt, f, ok := fieldOf(a); !ok || nt.Obj().Name()+"."+f != srcField {
									okAll = false
								}
							case *ssa.Global:
								if a != srcGlobal {
									okAll = false
								}
							default:
								okAll = false
							}
						case *ssa.Phi:
							if d < 4 {
								visit(x, d+1)
							} else {
								okAll = false
							}
						default:
							uses++
							okAll = false
						}
					}
				}
				visit(call, 0)
				name := srcField
				if srcGlobal != nil {
					name = srcGlobal.Name()
				}
				c.ob(rule, fnKey(fn)+"#append-to-shared-"+name+"-"+itoa(k), call.Pos(), okAll, "append(…"+name+", …) keeps its result somewhere else than in "+name+": with spare capacity the appended elements land in the backing array every such call shares, and the next call overwrites them. "+why)
			})
		}
	}
	return n
}

// onlyFrom: every value that can flow into v (through phis, local variables, conversions and string slicing) satisfies
// leaf - in particular no constant alternative exists. Used for keys that must be the client's identity on every path.
func onlyFrom(v ssa.Value, leaf func(ssa.Value) bool) bool {
	seen := map[ssa.Value]bool{}
	var walk func(x ssa.Value, d int) bool
	walk = func(x ssa.Value, d int) bool {
		if x == nil || d > 12 {
			return false
		}
		if seen[x] {
			return true
		}
		seen[x] = true
		if leaf(x) {
			return true
		}
		switch y := x.(type) {
		case *ssa.Phi:
			for _, e := range y.Edges {
				if !walk(e, d+1) {
					return false
				}
			}
			return len(y.Edges) > 0
		case *ssa.Convert:
			return walk(y.X, d+1)
		case *ssa.ChangeType:
			return walk(y.X, d+1)
		case *ssa.Slice:
			return walk(y.X, d+1)
		case *ssa.Extract:
			return walk(y.Tuple, d+1)
		case *ssa.UnOp:
			if y.Op == token.MUL {
				switch a := y.X.(type) {
				case *ssa.Alloc:
					n := 0
					for _, r := range refs(a) {
						if st, ok := r.(*ssa.Store); ok && st.Addr == ssa.Value(a) {
							n++
							if !walk(st.Val, d+1) {
								return false
							}
						}
					}
					return n > 0
				case *ssa.FreeVar:
					// a captured variable: every store to it in the enclosing functions
					return false
				}
			}
		}
		return false
	}
	return walk(v, 0)
}

// siblingIndexAudit: a struct that keeps the same objects in two containers (two fields that are maps/slices whose
// ultimate element type is the same *T: a list per route and an index by name) must change them together: every
// function that inserts into, deletes from or replaces one of the containers does so for the other too. A function
// that trims the list but not the index leaves objects reachable through the index that every walk over the list
// (invalidation, eviction, statistics) no longer sees. Returns the number of sibling pairs found.
func siblingIndexAudit(c *Ctx, rule string, rels []string) int {
	elemOf := func(t types.Type) *types.Named {
		for i := 0; i < 4; i++ {
			switch u := t.Underlying().(type) {
			case *types.Map:
				t = u.Elem()
				continue
			case *types.Slice:
				t = u.Elem()
				continue
			case *types.Pointer:
				if n := namedOf(u.Elem()); n != nil {
					if _, isStruct := n.Underlying().(*types.Struct); isStruct {
						return n
					}
				}
				return nil
			}
			break
		}
		return nil
	}
	isContainer := func(t types.Type) bool {
		switch t.Underlying().(type) {
		case *types.Map, *types.Slice:
			return true
		}
		return false
	}
	nPairs := 0
	for _, rel := range rels {
		p := c.pkg(rel)
		if p == nil {
			continue
		}
		sc := p.Types.Scope()
		for _, nm := range sc.Names() {
			tn, ok := sc.Lookup(nm).(*types.TypeName)
			if !ok {
				continue
			}
			st, ok := tn.Type().Underlying().(*types.Struct)
			if !ok {
				continue
			}
			byElem := map[*types.Named][]string{}
			for i := 0; i < st.NumFields(); i++ {
				f := st.Field(i)
				if !isContainer(f.Type()) {
					continue
				}
				if e := elemOf(f.Type()); e != nil {
					byElem[e] = append(byElem[e], f.Name())
				}
			}
			for e, fields := range byElem {
				if len(fields) < 2 {
					continue
				}
				// the containers are indexes of the same objects only if some function puts one and the same value into
				// two of them (a list of errors and a list of warnings merely share a type)
				shared := false
				for _, fn := range c.srcFuncs(rel) {
					stored := map[string][]ssa.Value{}
					eachInstr(fn, func(_ *ssa.BasicBlock, _ int, ins ssa.Instruction) {
						mu, ok := ins.(*ssa.MapUpdate)
						if !ok {
							return
						}
						u, ok := mu.Map.(*ssa.UnOp)
						if !ok {
							return
						}
						fa, ok := u.X.(*ssa.FieldAddr)
						if !ok {
							return
						}
						nt, f, ok := fieldOf(fa)
						if !ok || nt == nil || nt.Obj() != tn {
							return
						}
						// the object itself, or the slice it was appended to
						var vals []ssa.Value
						vals = append(vals, mu.Value)
						if ap, ok := mu.Value.(*ssa.Call); ok && callName(ap) == "builtin.append" && len(ap.Call.Args) > 1 {
							if sl, ok := ap.Call.Args[1].(*ssa.Slice); ok {
								if al, ok := sl.X.(*ssa.Alloc); ok {
									for _, r := range refs(al) {
										if ia, ok := r.(*ssa.IndexAddr); ok {
											for _, rr := range refs(ia) {
												if st, ok := rr.(*ssa.Store); ok && st.Addr == ssa.Value(ia) {
													vals = append(vals, st.Val)
												}
											}
										}
									}
								}
							}
						}
						stored[f] = append(stored[f], vals...)
					})
					for i, f1 := range fields {
						for _, f2 := range fields[i+1:] {
							for _, v1 := range stored[f1] {
								for _, v2 := range stored[f2] {
									if v1 == v2 {
										shared = true
									}
								}
							}
						}
					}
				}
				if !shared {
					continue
				}
				nPairs++
				// which functions write which container
				writes := map[*ssa.Function]map[string]bool{}
				for _, fn := range c.srcFuncs(rel) {
					eachInstr(fn, func(_ *ssa.BasicBlock, _ int, ins ssa.Instruction) {
						mark := func(v ssa.Value) {
							// the container itself: the field's address, or the map loaded from it (not an element reached through it)
							var fa *ssa.FieldAddr
							switch y := v.(type) {
							case *ssa.FieldAddr:
								fa = y
							case *ssa.UnOp:
								fa, _ = y.X.(*ssa.FieldAddr)
							}
							if fa == nil {
								return
							}
							if nt, f, ok := fieldOf(fa); ok && nt != nil && nt.Obj() == tn {
								for _, sf := range fields {
									if sf == f {
										if writes[fn] == nil {
											writes[fn] = map[string]bool{}
										}
										writes[fn][f] = true
									}
								}
							}
						}
						switch x := ins.(type) {
						case *ssa.MapUpdate:
							mark(x.Map)
						case *ssa.Store:
							if fa, ok := x.Addr.(*ssa.FieldAddr); ok && !isFreshAlloc(fa.X) {
								mark(fa)
							}
						case *ssa.Call:
							if callName(x) == "builtin.delete" {
								mark(x.Call.Args[0])
							}
						}
					})
				}
				var fns []*ssa.Function
				for fn := range writes {
					fns = append(fns, fn)
				}
				sort.Slice(fns, func(i, j int) bool { return fnKey(fns[i]) < fnKey(fns[j]) })
				for _, fn := range fns {
					var missing []string
					for _, f := range fields {
						if !writes[fn][f] {
							missing = append(missing, f)
						}
					}
					c.ob(rule, fnKey(fn)+"#sibling-containers-of-"+e.Obj().Name()+"-change-together", fn.Pos(), len(missing) == 0,
						tn.Name()+" keeps its "+e.Obj().Name()+" objects in "+strings.Join(fields, " and ")+"; this function changes one of them but not "+strings.Join(missing, ", ")+": an object it drops from one container stays reachable through the other, where invalidation and eviction (which walk the first) no longer see it")
				}
			}
		}
	}
	return nPairs
}

// statusConstWritten: the constant status a call commits to an HTTP response: WriteHeader(k), http.Error(_, _, k),
// server.SendError(_, k, _), or a call of a module function that hands its constant argument on to one of those
// (response helpers, followed three levels deep).
func statusConstWritten(cl ssa.CallInstruction, depth int) (int64, bool) {
	cc := cl.Common()
	switch {
	case cc.IsInvoke() && cc.Method.Name() == "WriteHeader" && len(cc.Args) == 1:
		return constInt(cc.Args[0])
	case callName(cl) == "net/http.Error" && len(cc.Args) == 3:
		return constInt(cc.Args[2])
	case callName(cl) == serverPath+".SendError" && len(cc.Args) >= 2:
		return constInt(cc.Args[1])
	}
	if depth >= 3 {
		return 0, false
	}
	sf := staticFn(cl)
	if sf == nil || sf.Pkg == nil || !strings.HasPrefix(sf.Pkg.Pkg.Path(), modPath) {
		return 0, false
	}
	for i, a := range cc.Args {
		k, isK := constInt(a)
		if !isK || i >= len(sf.Params) {
			continue
		}
		p := sf.Params[i]
		hit := false
		eachCall(sf, func(in ssa.CallInstruction) {
			ic := in.Common()
			var sv ssa.Value
			switch {
			case ic.IsInvoke() && ic.Method.Name() == "WriteHeader" && len(ic.Args) == 1:
				sv = ic.Args[0]
			case callName(in) == "net/http.Error" && len(ic.Args) == 3:
				sv = ic.Args[2]
			case callName(in) == serverPath+".SendError" && len(ic.Args) >= 2:
				sv = ic.Args[1]
			default:
				if inner := staticFn(in); inner != nil && inner != sf {
					for j, ia := range ic.Args {
						if ia == ssa.Value(p) && j < len(inner.Params) {
							// handed on to a further helper: judge that helper with the same constant
							if _, ok := statusParamWritten(inner, j, depth+1); ok {
								hit = true
							}
						}
					}
				}
				return
			}
			if sv == ssa.Value(p) {
				hit = true
			}
		})
		if hit {
			return k, true
		}
	}
	return 0, false
}

// statusParamWritten: parameter i of fn is committed as the response status (directly or through further helpers).
func statusParamWritten(fn *ssa.Function, i int, depth int) (int64, bool) {
	if depth > 3 || i >= len(fn.Params) {
		return 0, false
	}
	p := fn.Params[i]
	hit := false
	eachCall(fn, func(in ssa.CallInstruction) {
		ic := in.Common()
		switch {
		case ic.IsInvoke() && ic.Method.Name() == "WriteHeader" && len(ic.Args) == 1:
			hit = hit || ic.Args[0] == ssa.Value(p)
		case callName(in) == "net/http.Error" && len(ic.Args) == 3:
			hit = hit || ic.Args[2] == ssa.Value(p)
		case callName(in) == serverPath+".SendError" && len(ic.Args) >= 2:
			hit = hit || ic.Args[1] == ssa.Value(p)
		default:
			if inner := staticFn(in); inner != nil && inner != fn {
				for j, ia := range ic.Args {
					if ia == ssa.Value(p) {
						if _, ok := statusParamWritten(inner, j, depth+1); ok {
							hit = true
						}
					}
				}
			}
		}
	})
	return 0, hit
}

// typeAlwaysEncodable: encoding/json cannot fail on a value of this static type (no float, interface, func, chan
// or Marshaler anywhere inside).
func typeAlwaysEncodable(t types.Type, depth int) bool {
	if depth > 5 {
		return false
	}
	if n, ok := t.(*types.Named); ok && n.NumMethods() > 0 {
		return false
	}
	switch u := t.Underlying().(type) {
	case *types.Basic:
		return u.Info()&(types.IsString|types.IsBoolean|types.IsInteger) != 0
	case *types.Map:
		kb, ok := u.Key().Underlying().(*types.Basic)
		return ok && kb.Info()&types.IsString != 0 && typeAlwaysEncodable(u.Elem(), depth+1)
	case *types.Slice:
		return typeAlwaysEncodable(u.Elem(), depth+1)
	case *types.Array:
		return typeAlwaysEncodable(u.Elem(), depth+1)
	case *types.Struct:
		for i := 0; i < u.NumFields(); i++ {
			if !typeAlwaysEncodable(u.Field(i).Type(), depth+1) {
				return false
			}
		}
		return true
	}
	return false
}

// handlerSourceRoute: the *ast.Route a server.Route literal's Handler value h was made from. Either h derives from it
// in fn itself, or fn is a constructor helper that is handed both the handler and the declaration: then the
// declaration parameter is the source, and every call site of fn (obligation per site under rule) must pass a handler
// made from the very declaration it passes.
func handlerSourceRoute(c *Ctx, rule string, fn *ssa.Function, h ssa.Value) (ssa.Value, int) {
	isAstRoute := func(v ssa.Value) bool {
		_, isP := v.Type().(*types.Pointer)
		return isP && typeIs(v.Type(), astPath, "Route")
	}
	var src ssa.Value
	derivesFrom(h, func(v ssa.Value) bool {
		if isAstRoute(v) {
			src = v
			return true
		}
		return false
	})
	if src != nil {
		return src, 1
	}
	hi, ri, nr := -1, -1, 0
	for i, p := range fn.Params {
		if ssa.Value(p) == h {
			hi = i
		}
		if isAstRoute(p) {
			ri = i
			nr++
		}
	}
	if hi < 0 || nr != 1 {
		return nil, 0
	}
	sites := 0
	for _, caller := range c.srcFuncs(glyphCmd) {
		k := 0
		eachCall(caller, func(cl ssa.CallInstruction) {
			if staticFn(cl) != fn || len(cl.Common().Args) <= hi || len(cl.Common().Args) <= ri {
				return
			}
			k++
			sites++
			decl := cl.Common().Args[ri]
			same := derivesFrom(cl.Common().Args[hi], func(v ssa.Value) bool { return v == decl })
			c.ob(rule, fnKey(caller)+"#"+fn.Name()+"-handler-made-from-the-declaration-passed-"+itoa(k), cl.Pos(), same, "the handler handed to "+fn.Name()+" is not made from the declaration handed to it: the route is registered under one declaration's method, path and middlewares with another's body")
		})
	}
	if sites == 0 {
		return nil, 0
	}
	return fn.Params[ri], sites
}

// respCtor: a constructor helper for interpreter.Response - a function of pkg/interpreter that builds a Response
// literal whose StatusCode is its parameter statusParam (and whose Body derives from parameter bodyParam, -1 if from
// none). A call of it with a constant status makes a response like a literal does.
type respCtor struct{ statusParam, bodyParam int }

func responseCtors(c *Ctx) map[*ssa.Function]respCtor {
	out := map[*ssa.Function]respCtor{}
	for _, fn := range c.srcFuncs(interpPkg) {
		eachInstr(fn, func(_ *ssa.BasicBlock, _ int, ins ssa.Instruction) {
			al, ok := ins.(*ssa.Alloc)
			if !ok || !typeIs(derefType(al.Type()), interpPath, "Response") {
				return
			}
			sp, bp := -1, -1
			for _, r := range refs(al) {
				fa, ok := r.(*ssa.FieldAddr)
				if !ok {
					continue
				}
				_, fld, _ := fieldOf(fa)
				for _, rr := range refs(fa) {
					st, ok := rr.(*ssa.Store)
					if !ok || st.Addr != ssa.Value(fa) {
						continue
					}
					for i, p := range fn.Params {
						if fld == "StatusCode" && st.Val == ssa.Value(p) {
							sp = i
						}
						if fld == "Body" && derivesFrom(st.Val, func(v ssa.Value) bool { return v == ssa.Value(p) }) {
							bp = i
						}
					}
				}
			}
			if sp >= 0 {
				out[fn] = respCtor{sp, bp}
			}
		})
	}
	return out
}

// respStatusMadeAt: ins commits a constant status to an interpreter.Response - a store of a constant into
// Response.StatusCode, or a call of a response constructor with a constant status.
func respStatusMadeAt(ctors map[*ssa.Function]respCtor, ins ssa.Instruction) (int64, bool) {
	if st, ok := ins.(*ssa.Store); ok && isStoreToField(st, "Response", "StatusCode") {
		return constInt(st.Val)
	}
	if cl, ok := ins.(*ssa.Call); ok {
		if sf := staticFn(cl); sf != nil {
			if rc, ok := ctors[sf]; ok && rc.statusParam < len(cl.Call.Args) {
				return constInt(cl.Call.Args[rc.statusParam])
			}
		}
	}
	return 0, false
}

// eachResponseMade visits every place in fns where a Response with a constant status is made: a literal, or a call of
// a response constructor. body is the value stored into / passed for the Body (nil if none).
func eachResponseMade(fns []*ssa.Function, ctors map[*ssa.Function]respCtor, f func(fn *ssa.Function, at ssa.Instruction, status int64, body ssa.Value)) {
	for _, fn := range fns {
		eachInstr(fn, func(_ *ssa.BasicBlock, _ int, ins ssa.Instruction) {
			switch x := ins.(type) {
			case *ssa.Alloc:
				if !typeIs(derefType(x.Type()), interpPath, "Response") {
					return
				}
				var status int64 = -1
				var body ssa.Value
				for _, r := range refs(x) {
					fa, ok := r.(*ssa.FieldAddr)
					if !ok {
						continue
					}
					_, fld, _ := fieldOf(fa)
					for _, rr := range refs(fa) {
						st, ok := rr.(*ssa.Store)
						if !ok || st.Addr != ssa.Value(fa) {
							continue
						}
						if fld == "StatusCode" {
							if kv, ok := constInt(st.Val); ok {
								status = kv
							}
						}
						if fld == "Body" {
							body = st.Val
						}
					}
				}
				if status >= 0 {
					f(fn, x, status, body)
				}
			case *ssa.Call:
				sf := staticFn(x)
				if sf == nil {
					return
				}
				rc, ok := ctors[sf]
				if !ok || rc.statusParam >= len(x.Call.Args) {
					return
				}
				k, ok := constInt(x.Call.Args[rc.statusParam])
				if !ok {
					return
				}
				var body ssa.Value
				if rc.bodyParam >= 0 && rc.bodyParam < len(x.Call.Args) {
					body = x.Call.Args[rc.bodyParam]
				}
				f(fn, x, k, body)
			}
		})
	}
}
