package main

import (
	"go/token"

	"golang.org/x/tools/go/ssa"
)

// transitiveCallers returns the functions of package rel that contain, or reach through static
// calls to functions of the same package, a call satisfying pred.
func transitiveCallers(c *Ctx, rel string, pred func(ssa.CallInstruction) bool) map[*ssa.Function]bool {
	fns := c.srcFuncs(rel)
	set := map[*ssa.Function]bool{}
	for _, f := range fns {
		eachCall(f, func(call ssa.CallInstruction) {
			if pred(call) {
				set[f] = true
			}
		})
	}
	for changed := true; changed; {
		changed = false
		for _, f := range fns {
			if set[f] {
				continue
			}
			eachCall(f, func(call ssa.CallInstruction) {
				if sf := staticFn(call); sf != nil && set[sf] && !set[f] {
					set[f] = true
					changed = true
				}
			})
		}
	}
	return set
}

type loop struct {
	head *ssa.BasicBlock
	body map[*ssa.BasicBlock]bool
}

// naturalLoops returns the natural loops of fn (one per header; back edges merged).
func naturalLoops(fn *ssa.Function) []*loop {
	byHead := map[*ssa.BasicBlock]*loop{}
	var order []*ssa.BasicBlock
	for _, b := range fn.Blocks {
		for _, s := range b.Succs {
			if s.Dominates(b) { // back edge b -> s
				lp := byHead[s]
				if lp == nil {
					lp = &loop{head: s, body: map[*ssa.BasicBlock]bool{s: true}}
					byHead[s] = lp
					order = append(order, s)
				}
				// add all nodes reaching b without passing s
				stack := []*ssa.BasicBlock{b}
				for len(stack) > 0 {
					x := stack[len(stack)-1]
					stack = stack[:len(stack)-1]
					if lp.body[x] {
						continue
					}
					lp.body[x] = true
					stack = append(stack, x.Preds...)
				}
			}
		}
	}
	var out []*loop
	for _, h := range order {
		out = append(out, byHead[h])
	}
	return out
}

// isBoundedIteration: the loop is a range/for-i loop over a finite snapshot: it contains a Next
// (map/string range) or an exit test that mentions an induction phi (p = phi[.., p+const]).
func (lp *loop) isBoundedIteration() bool {
	ind := map[ssa.Value]bool{}
	for b := range lp.body {
		for _, ins := range b.Instrs {
			if _, ok := ins.(*ssa.Next); ok {
				return true
			}
			if p, ok := ins.(*ssa.Phi); ok {
				for _, e := range p.Edges {
					if bo, ok := e.(*ssa.BinOp); ok && (bo.Op == token.ADD || bo.Op == token.SUB) {
						if bo.X == ssa.Value(p) {
							if _, isC := bo.Y.(*ssa.Const); isC {
								ind[p] = true
								ind[bo] = true
							}
						}
					}
				}
			}
		}
	}
	if len(ind) == 0 {
		return false
	}
	for b := range lp.body {
		iff, ok := b.Instrs[len(b.Instrs)-1].(*ssa.If)
		if !ok || (lp.body[b.Succs[0]] && lp.body[b.Succs[1]]) {
			continue
		}
		if bo, ok := iff.Cond.(*ssa.BinOp); ok && (ind[bo.X] || ind[bo.Y]) {
			return true
		}
	}
	return false
}

// condTestsEmptiness: cond is list.Len() <op> 0, list.Back()/Front() ==/!= nil, or (the negation of) a
// boolean produced by the evicting call itself.
func condTestsEmptiness(cond ssa.Value, evict ssa.CallInstruction) bool {
	switch x := cond.(type) {
	case *ssa.UnOp:
		if x.Op == token.NOT {
			return condTestsEmptiness(x.X, evict)
		}
	case *ssa.BinOp:
		for _, pair := range [][2]ssa.Value{{x.X, x.Y}, {x.Y, x.X}} {
			if call, ok := pair[0].(*ssa.Call); ok {
				switch callName(call) {
				case "container/list.List.Len":
					if n, ok := constInt(pair[1]); ok && (n == 0 || n == 1) {
						return true
					}
				case "container/list.List.Back", "container/list.List.Front":
					if isNilConst(pair[1]) {
						return true
					}
				}
			}
		}
	case *ssa.Call:
		if ev, ok := evict.(*ssa.Call); ok && x == ev {
			return true
		}
	case *ssa.Extract:
		if ev, ok := evict.(*ssa.Call); ok && x.Tuple == ssa.Value(ev) {
			return true
		}
	}
	return false
}

func isStoreToField(ins ssa.Instruction, typeName, field string) bool {
	st, ok := ins.(*ssa.Store)
	if !ok {
		return false
	}
	n, f, ok := fieldOf(st.Addr)
	return ok && n != nil && n.Obj().Name() == typeName && f == field
}

// loadedFromField: v is *(&x.field) with x of the named struct type.
func loadedFromField(v ssa.Value, typeName, field string) bool {
	u, ok := v.(*ssa.UnOp)
	if !ok || u.Op != token.MUL {
		return false
	}
	n, f, ok := fieldOf(u.X)
	return ok && n != nil && n.Obj().Name() == typeName && f == field
}

// retVals returns the values returned by ret, undoing go/ssa's defer-spilling of results
// (results stored to a local and re-loaded after rundefers).
func retVals(ret *ssa.Return) []ssa.Value {
	out := make([]ssa.Value, len(ret.Results))
	b := ret.Block()
	for i, r := range ret.Results {
		out[i] = r
		u, ok := r.(*ssa.UnOp)
		if !ok || u.Op != token.MUL {
			continue
		}
		al, ok := u.X.(*ssa.Alloc)
		if !ok {
			continue
		}
		for j := len(b.Instrs) - 1; j >= 0; j-- {
			if st, ok := b.Instrs[j].(*ssa.Store); ok && st.Addr == ssa.Value(al) {
				out[i] = st.Val
				break
			}
		}
	}
	return out
}

func isConstBool(v ssa.Value, want bool) bool {
	c, ok := v.(*ssa.Const)
	if !ok || c.Value == nil {
		return false
	}
	return c.Value.String() == map[bool]string{true: "true", false: "false"}[want]
}
