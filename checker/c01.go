package main

import (
	"go/ast"
	"go/constant"
	"go/token"
	"go/types"
	"os"
	"path/filepath"
	"regexp"
	"sort"
	"strconv"
	"strings"

	"golang.org/x/tools/go/ssa"
)

func init() {
	register(&propSpec{
		id: "C01", title: "Evaluation follows the language definition", run: runC01,
		notCovered:  "the numeric / string result of any operator or builtin, int/float coercion rules, pattern-matching semantics, error texts, short-circuit evaluation order — all statements about runtime values; only dispatch totality, scope freshness, iteration-order determinism and the documented precedence table are decided",
		assumptions: []string{"syntactic forms are the concrete types of pkg/ast implementing Expr / Statement / Pattern / Literal and the constants of BinOp / UnOp", "docs/LANGUAGE_SPECIFICATION.md lists operator precedences in markdown tables with a `Precedence` column"},
	})
}

func constsOfType(c *Ctx, pkgPath, typeName string) []string {
	p := c.Pkgs[pkgPath]
	var out []string
	if p == nil {
		return out
	}
	sc := p.Types.Scope()
	for _, n := range sc.Names() {
		if k, ok := sc.Lookup(n).(*types.Const); ok && typeIs(k.Type(), pkgPath, typeName) {
			out = append(out, n)
		}
	}
	sort.Strings(out)
	return out
}

// switchConstCases: constants of the named type mentioned in case clauses (and == comparisons) in decl.
func constsMentioned(c *Ctx, rel string, decl *ast.FuncDecl, pkgPath, typeName string) map[string]bool {
	out := map[string]bool{}
	if decl == nil {
		return out
	}
	p := c.pkg(rel)
	ast.Inspect(decl, func(n ast.Node) bool {
		id, ok := n.(*ast.Ident)
		if !ok {
			return true
		}
		if k, ok := p.TypesInfo.Uses[id].(*types.Const); ok && typeIs(k.Type(), pkgPath, typeName) {
			out[k.Name()] = true
		}
		return true
	})
	return out
}

func runC01(c *Ctx) {
	// ---- R1 dispatch exhaustiveness
	c.rule("C01-R1", "EXH: every concrete pkg/ast type implementing Expr / Statement / Pattern / Literal has an arm in the interpreter's dispatcher for it (EvaluateExpression, ExecuteStatement, matchPattern, evaluateLiteral); every BinOp / UnOp constant is handled by evaluateBinaryOp / evaluateUnaryOp; every BinOp the parser can produce (currentBinaryOp) has an evaluation arm and vice versa. Reasoned exceptions are listed by type name")
	exceptions := map[string]string{
		"Expr:QuoteExpr":                 "parsed for macros, never evaluated; reaches the dispatcher's default arm, which is an error return (not a panic)",
		"Expr:UnquoteExpr":               "same as QuoteExpr",
		"Statement:WebSocketEvent":       "occurs only as an item of WebSocketRoute.Events, compiled per event",
		"Statement:WsSendStatement":      "WebSocket event bodies are executed by the compiler/VM only",
		"Statement:WsBroadcastStatement": "WebSocket event bodies are executed by the compiler/VM only",
		"Statement:WsCloseStatement":     "WebSocket event bodies are executed by the compiler/VM only",
		"Statement:ImportStatement":      "module-level item resolved at load time, not executed as a statement",
		"Statement:MacroDef":             "module-level item expanded before execution",
		"Statement:DbQueryStatement":     "legacy node never produced by the parser",
	}
	disp := []struct{ iface, fn string }{
		{"Expr", "Interpreter.EvaluateExpression"}, {"Statement", "Interpreter.ExecuteStatement"},
		{"Pattern", "Interpreter.matchPattern"}, {"Literal", "Interpreter.evaluateLiteral"},
	}
	nArms := 0
	for _, d := range disp {
		decl := c.decl(interpPkg, d.fn)
		if decl == nil {
			if unexported(d.fn) {
				c.undecided("C01-R1: dispatcher %s not found (renamed or removed unexported function); rule cannot be evaluated", d.fn)
			} else {
				c.ob("C01-R1", interpPkg+"."+d.fn+"#anchor-missing", token.NoPos, false, "dispatcher "+d.fn+" not found")
			}
			continue
		}
		arms := typeSwitchArms(c, interpPkg, decl)
		// the dispatch switch may live in a helper the dispatcher delegates to with the same value
		if f := c.fn(interpPkg, d.fn); f != nil {
			eachCall(f, func(call ssa.CallInstruction) {
				sf := staticFn(call)
				if sf == nil || sf.Pkg != f.Pkg || sf == f {
					return
				}
				passes := false
				for _, a := range call.Common().Args {
					for _, p := range f.Params {
						if a == ssa.Value(p) && typeIs(p.Type(), astPath, d.iface) {
							passes = true
						}
					}
				}
				if !passes {
					return
				}
				name := sf.Name()
				if sf.Signature.Recv() != nil {
					if n := namedOf(sf.Signature.Recv().Type()); n != nil {
						name = n.Obj().Name() + "." + name
					}
				}
				for k := range typeSwitchArms(c, interpPkg, c.decl(interpPkg, name)) {
					arms[k] = true
				}
			})
		}
		impl := astImplementors(c, d.iface)
		if len(impl) < 3 {
			c.undecided("C01-R1: only %d implementors of ast.%s", len(impl), d.iface)
		}
		for _, t := range impl {
			if why, ok := exceptions[d.iface+":"+t]; ok && !arms[t] {
				c.info("C01-R1", interpPkg+"."+d.fn+"#exception:"+t, decl.Pos(), "reasoned exception: "+why)
				continue
			}
			nArms++
			c.ob("C01-R1", interpPkg+"."+d.fn+"#arm:"+t, decl.Pos(), arms[t], "the "+d.iface+" kind "+t+" has no arm in "+d.fn+": programs using it fail (or are silently mis-evaluated) in the interpreter")
		}
	}
	if nArms < 35 {
		c.undecided("C01-R1: %d dispatch arms checked, floor 35", nArms)
	}
	binHandled := constsMentioned(c, interpPkg, c.decl(interpPkg, "Interpreter.evaluateBinaryOp"), astPath, "BinOp")
	unHandled := constsMentioned(c, interpPkg, c.decl(interpPkg, "Interpreter.evaluateUnaryOp"), astPath, "UnOp")
	parserOps := constsMentioned(c, parserPkg, c.decl(parserPkg, "Parser.currentBinaryOp"), astPath, "BinOp")
	for _, k := range constsOfType(c, astPath, "BinOp") {
		c.ob("C01-R1", interpPkg+".Interpreter.evaluateBinaryOp#op:"+k, token.NoPos, binHandled[k], "binary operator "+k+" has no evaluation arm")
		c.ob("C01-R1", parserPkg+".Parser.currentBinaryOp#produces:"+k, token.NoPos, parserOps[k], "binary operator "+k+" is never produced by the expression parser")
	}
	for _, k := range constsOfType(c, astPath, "UnOp") {
		c.ob("C01-R1", interpPkg+".Interpreter.evaluateUnaryOp#op:"+k, token.NoPos, unHandled[k], "unary operator "+k+" has no evaluation arm")
	}

	// ---- R2 scope freshness
	c.rule("C01-R2", "MPT/def-use: every block execution in pkg/interpreter (executeStatements) and every match arm (matchPattern called from evaluateMatchExpr, and the guard/body evaluated after it) runs in an Environment produced by NewChildEnvironment / NewEnvironment / Snapshot in the same function, and when the execution is inside a loop the environment is created inside that loop (fresh per iteration / per arm): bindings never leak between iterations, arms or into the enclosing scope")
	isFreshEnvCall := func(v ssa.Value) bool {
		cl, ok := v.(*ssa.Call)
		if !ok {
			return false
		}
		switch callName(cl) {
		case interpPath + ".NewChildEnvironment", interpPath + ".NewEnvironment", interpPath + ".Environment.Snapshot":
			return true
		}
		return false
	}
	blockForwarder := blockForwarders(c)
	nScope := 0
	for _, fn := range c.srcFuncs(interpPkg) {
		loops := naturalLoops(fn)
		k := 0
		eachInstr(fn, func(_ *ssa.BasicBlock, _ int, ins ssa.Instruction) {
			call, ok := ins.(*ssa.Call)
			if !ok {
				return
			}
			var env ssa.Value
			what := ""
			if sf := staticFn(call); sf != nil {
				if ix, ok := blockForwarder[sf]; ok && ix[1] < len(call.Call.Args) {
					env, what = call.Call.Args[ix[1]], "block"
				}
			}
			if _, isFwd := blockForwarder[fn]; isFwd && callName(call) == interpPath+".Interpreter.executeStatements" {
				return // judged at the forwarder's call sites
			}
			switch callName(call) {
			case interpPath + ".Interpreter.executeStatements":
				env, what = call.Call.Args[2], "block"
			case interpPath + ".Interpreter.matchPattern":
				if fn.Name() == "matchPattern" || strings.HasPrefix(fn.Name(), "match") && fn.Name() != "evaluateMatchExpr" {
					return // structural recursion inside one arm shares that arm's scope
				}
				env, what = call.Call.Args[3], "match-arm"
			default:
				if env == nil {
					return
				}
			}
			k++
			nScope++
			var ctor *ssa.Call
			fresh := derivesFromOnly(env, func(x ssa.Value) (bool, bool) {
				if isFreshEnvCall(x) {
					ctor = x.(*ssa.Call)
					return true, ctor.Parent() == fn || (fn.Parent() != nil && ctor.Parent() == fn)
				}
				switch x.(type) {
				case *ssa.Parameter, *ssa.FreeVar, *ssa.Extract, *ssa.Call:
					return true, false
				}
				return false, false
			})
			// a goroutine body may use an environment created by its parent just before `go`
			if !fresh && fn.Parent() != nil {
				if fv, ok := stripLoad(env).(*ssa.FreeVar); ok {
					par := fn.Parent()
					eachInstr(par, func(_ *ssa.BasicBlock, _ int, pi ssa.Instruction) {
						if mc, ok := pi.(*ssa.MakeClosure); ok && mc.Fn == ssa.Value(fn) {
							for i, b := range mc.Bindings {
								if fn.FreeVars[i] == fv && derivesFrom(b, isFreshEnvCall) {
									fresh = true
								}
							}
						}
					})
				}
			}
			c.ob("C01-R2", fnKey(fn)+"#"+what+"-"+itoa(k)+"-runs-in-fresh-scope", call.Pos(), fresh, "a "+what+" is executed in an environment that is not created for it in this function (the enclosing scope is reused): variables declared inside leak out or shadow outer ones")
			if fresh && ctor != nil {
				for _, lp := range loops {
					if lp.body[call.Block()] && !lp.body[ctor.Block()] {
						c.ob("C01-R2", fnKey(fn)+"#"+what+"-"+itoa(k)+"-scope-fresh-per-iteration", call.Pos(), false, "the scope for this "+what+" is created once outside the loop and reused by every iteration / arm: bindings made by one iteration or by a pattern that failed part-way are visible to the next")
					}
				}
			}
		})
	}
	if nScope < 15 {
		c.undecided("C01-R2: %d block executions found, floor 15", nScope)
	}
	// guard and body of a match arm use the arm's environment
	if me := c.fn(interpPkg, "Interpreter.evaluateMatchExpr"); me != nil {
		var armEnv ssa.Value
		eachCall(me, func(call ssa.CallInstruction) {
			if callName(call) == interpPath+".Interpreter.matchPattern" {
				armEnv = call.Common().Args[3]
			}
		})
		okEnv := armEnv != nil
		eachCall(me, func(call ssa.CallInstruction) {
			if callName(call) != interpPath+".Interpreter.EvaluateExpression" {
				return
			}
			isGuardOrBody := derivesFrom(call.Common().Args[1], func(v ssa.Value) bool {
				_, f, ok := fieldOf(v)
				if ok && (f == "Guard" || f == "Body") {
					return true
				}
				if fl, ok := v.(*ssa.Field); ok {
					if st, ok := fl.X.Type().Underlying().(*types.Struct); ok {
						n := st.Field(fl.Field).Name()
						return n == "Guard" || n == "Body"
					}
				}
				return false
			})
			if isGuardOrBody && !valEq(call.Common().Args[2], armEnv) && call.Common().Args[2] != armEnv {
				okEnv = false
			}
		})
		c.ob("C01-R2", interpPkg+".Interpreter.evaluateMatchExpr#guard-and-body-see-arm-bindings", me.Pos(), okEnv, "a match arm's guard or body is evaluated in a different environment than the one its pattern bound variables in")
	}

	// ---- R3 iteration order
	c.rule("C01-R3", "determinism: every `range` over a Go map in the engines (pkg/interpreter executor/evaluator, pkg/vm) whose body has an order-dependent effect — runs user statements, appends to a slice, pushes iterator keys, returns or breaks — iterates sorted keys (a sort.* call on the collected keys precedes their use), so the outcome is a function of program and input only")
	nRange := 0
	for _, rel := range []string{interpPkg, vmPkg} {
		for _, fn := range c.srcFuncs(rel) {
			file := filepath.Base(c.Fset.Position(fn.Pos()).Filename)
			if rel == interpPkg && !(file == "executor.go" || file == "evaluator.go") {
				continue
			}
			k := 0
			eachInstr(fn, func(_ *ssa.BasicBlock, _ int, ins ssa.Instruction) {
				rg, ok := ins.(*ssa.Range)
				if !ok {
					return
				}
				if _, isMap := rg.X.Type().Underlying().(*types.Map); !isMap {
					return
				}
				// loop body
				var lp *loop
				for _, l := range naturalLoops(fn) {
					for _, r := range refs(rg) {
						if nx, ok := r.(*ssa.Next); ok && l.body[nx.Block()] {
							lp = l
						}
					}
				}
				if lp == nil {
					return
				}
				orderDep := ""
				var appended []ssa.Value
				for b := range lp.body {
					for _, x := range b.Instrs {
						switch y := x.(type) {
						case *ssa.Call:
							n := callName(y)
							if n == interpPath+".Interpreter.executeStatements" || n == interpPath+".Interpreter.EvaluateExpression" || n == vmPath+".VM.Push" {
								orderDep = "runs user code / pushes values"
							}
							if n == "builtin.append" {
								appended = append(appended, y)
								if orderDep == "" {
									orderDep = "appends to a slice"
								}
							}
						case *ssa.Return:
							if orderDep == "" {
								orderDep = "returns from inside the loop"
							}
						}
					}
				}
				if orderDep == "" {
					return
				}
				k++
				nRange++
				sorted := false
				if orderDep == "appends to a slice" {
					// key collection idiom: the slice is sorted after the loop
					eachInstr(fn, func(_ *ssa.BasicBlock, _ int, z ssa.Instruction) {
						if cl, ok := z.(*ssa.Call); ok && (strings.HasPrefix(callName(cl), "sort.") || strings.HasPrefix(callName(cl), "slices.Sort")) {
							for _, a := range cl.Call.Args {
								for _, ap := range appended {
									if derivesFrom(a, func(v ssa.Value) bool { return v == ap }) || sameSliceVar(a, ap) {
										sorted = true
									}
								}
							}
						}
					})
				}
				if !sorted && orderDep == "appends to a slice" && sliceOnlyFeedsOrderInsensitiveCallee(appended) {
					c.info("C01-R3", fnKey(fn)+"#map-range-"+itoa(k)+"-keys-only-deleted", rg.Pos(), "collected keys are only ranged by a callee (set semantics); order is irrelevant")
					return
				}
				c.ob("C01-R3", fnKey(fn)+"#map-range-"+itoa(k)+"-order-independent", rg.Pos(), sorted, "a Go map is ranged in the engine and the loop "+orderDep+": Go's map order is random, so the program's outcome (order of effects, first match) differs between runs and between the engines")
			})
		}
	}
	c.Sites["C01-R3#order-dependent-map-ranges"] = nRange

	// ---- R5 no history-dependent evaluation state
	c.rule("C01-R5", "ORD: the interpreter-wide evaluation-depth counter is restored on every exit of EvaluateExpression (after the increment every path to return passes a decrement, explicit or deferred): otherwise failed evaluations permanently consume budget and the outcome of a later, unrelated evaluation depends on the history of earlier requests rather than on program and input")
	if ev := c.fn(interpPkg, "Interpreter.EvaluateExpression"); ev != nil {
		var inc ssa.Instruction
		eachInstr(ev, func(_ *ssa.BasicBlock, _ int, ins ssa.Instruction) {
			if isAtomicAddOn(ins, "Interpreter", "evalDepth", +1) && inc == nil {
				inc = ins
			}
		})
		if inc != nil {
			q := &pathQuery{fn: ev, target: isReturn, stop: func(x ssa.Instruction) bool { return isAtomicAddOn(x, "Interpreter", "evalDepth", -1) }}
			hit, path := q.after(inc)
			c.ob("C01-R5", interpPkg+".Interpreter.EvaluateExpression#depth-restored-on-every-exit", inc.Pos(), hit == nil, "a return is reachable after the depth increment without the matching decrement: each such exit leaks budget, so later evaluations fail depending on earlier ones", c.blockPath(path)...)
			isDec := func(x ssa.Instruction) bool { return isAtomicAddOn(x, "Interpreter", "evalDepth", -1) }
			leak, lpath := unwindLeak(ev, inc, isDec)
			c.ob("C01-R5", interpPkg+".Interpreter.EvaluateExpression#depth-restored-when-a-panic-unwinds", inc.Pos(), leak == nil, "evaluation code runs after the depth increment with no deferred decrement registered: a recovered panic leaks budget, so the outcome of later evaluations depends on earlier requests", c.blockPath(lpath)...)
		} else {
			c.info("C01-R5", interpPkg+".Interpreter.EvaluateExpression#no-shared-depth-counter", ev.Pos(), "no interpreter-wide depth counter is modified here")
		}
	}

	c.rule("C01-R6", "BND: built-in functions and index expressions of both engines keep run-time integers in range before indexing/slicing/allocating (same decision procedure as C04-R12): a builtin that panics for some argument does not compute its documented result")
	boundsRule(c, "C01-R6", []string{interpPkg, vmPkg}, 6)

	// ---- R8 function frames are lexical
	c.rule("C01-R8", "def-use: the environment in which a user-defined function's body runs (the NewChildEnvironment whose result receives the parameter bindings and is handed to executeStatements together with Function.Body) is a child of the definition environment - Interpreter.globalEnv or a closure's captured Env - never of the *Environment parameter of the calling code: with assignment updating a variable found anywhere up the chain, a frame hung below the caller's scope lets `$ k = n` in the callee overwrite the caller's k (recursion destroys its own locals) and lets the callee read whatever its caller has in scope")
	{
		n := 0
		fwdR8 := blockForwarders(c)
		for _, fn := range c.srcFuncs(interpPkg) {
			// functions that run a Function's body
			eachInstr(fn, func(_ *ssa.BasicBlock, _ int, ins ssa.Instruction) {
				call, ok := ins.(*ssa.Call)
				if !ok {
					return
				}
				bodyArg, envArg, ok := blockExec(fwdR8, call)
				if !ok {
					return
				}
				isFnBody := derivesFrom(bodyArg, func(v ssa.Value) bool {
					switch y := v.(type) {
					case *ssa.Field:
						if nt := namedOf(y.X.Type()); nt != nil && nt.Obj().Name() == "Function" {
							return nt.Underlying().(*types.Struct).Field(y.Field).Name() == "Body"
						}
					case *ssa.UnOp:
						return loadedFromField(y, "Function", "Body")
					}
					return false
				})
				if !isFnBody {
					return
				}
				// the frame: NewChildEnvironment call the env argument derives from
				var frames []*ssa.Call
				derivesFrom(envArg, func(v ssa.Value) bool {
					if cl, ok := v.(*ssa.Call); ok && callName(cl) == interpPath+".NewChildEnvironment" {
						frames = append(frames, cl)
					}
					return false
				})
				for _, fr := range frames {
					n++
					parent := fr.Call.Args[0]
					fromParam := derivesFrom(parent, func(v ssa.Value) bool {
						p, ok := v.(*ssa.Parameter)
						return ok && typeIs(derefType(p.Type()), interpPath, "Environment")
					})
					fromDef := derivesFrom(parent, func(v ssa.Value) bool {
						return loadedFromField(v, "Interpreter", "globalEnv") || loadedFromField(v, "LambdaClosure", "Env")
					})
					c.ob("C01-R8", fnKey(fn)+"#function-frame-hangs-below-the-definition-scope-"+itoa(n), fr.Pos(), fromDef && !fromParam, "the frame of a user-defined function is created as a child of the caller's environment (dynamic scoping): `$ k = n` in the callee assigns the caller's k when one is in scope - fact(4) with a local returns 1 - and the callee can read the calling route's locals")
				}
			})
		}
		c.Sites["C01-R8#function-frames"] = n
		c.floor("C01-R8", 2)
		// a parameter's default expression is evaluated in the function's own frame (it may name earlier parameters),
		// at every binding site: never in the *Environment the caller handed in
		nd := 0
		for _, fn := range c.srcFuncs(interpPkg) {
			eachInstr(fn, func(_ *ssa.BasicBlock, _ int, ins ssa.Instruction) {
				call, ok := ins.(*ssa.Call)
				if !ok || callName(call) != interpPath+".Interpreter.EvaluateExpression" || len(call.Call.Args) < 3 {
					return
				}
				isDefault := derivesFrom(call.Call.Args[1], func(v ssa.Value) bool {
					switch y := v.(type) {
					case *ssa.Field:
						if nt := namedOf(y.X.Type()); nt != nil && nt.Obj().Name() == "Field" {
							return nt.Underlying().(*types.Struct).Field(y.Field).Name() == "Default"
						}
					case *ssa.UnOp:
						return loadedFromField(y, "Field", "Default")
					}
					return false
				})
				if !isDefault {
					return
				}
				buildsFrame := false
				eachCall(fn, func(cl ssa.CallInstruction) {
					if callName(cl) == interpPath+".NewChildEnvironment" && len(cl.Common().Args) == 1 && derivesFrom(cl.Common().Args[0], func(v ssa.Value) bool {
						return loadedFromField(v, "Interpreter", "globalEnv") || loadedFromField(v, "LambdaClosure", "Env")
					}) {
						buildsFrame = true
					}
				})
				if !buildsFrame {
					// a helper that evaluates the default in an environment it is handed: judged where it is called
					ep, isParam := call.Call.Args[2].(*ssa.Parameter)
					if !isParam {
						return
					}
					pi := -1
					for i, fp := range fn.Params {
						if fp == ep {
							pi = i
						}
					}
					for _, g := range c.srcFuncs(interpPkg) {
						gBuildsFrame := false
						eachCall(g, func(cl ssa.CallInstruction) {
							if callName(cl) == interpPath+".NewChildEnvironment" && len(cl.Common().Args) == 1 && derivesFrom(cl.Common().Args[0], func(v ssa.Value) bool {
								return loadedFromField(v, "Interpreter", "globalEnv") || loadedFromField(v, "LambdaClosure", "Env")
							}) {
								gBuildsFrame = true
							}
						})
						if !gBuildsFrame {
							continue // defaults of type fields, not of function parameters
						}
						eachCall(g, func(cs ssa.CallInstruction) {
							if staticFn(cs) != fn || pi < 0 || pi >= len(cs.Common().Args) {
								return
							}
							nd++
							a := cs.Common().Args[pi]
							inFrame := derivesFrom(a, func(v ssa.Value) bool {
								cl, ok := v.(*ssa.Call)
								return ok && callName(cl) == interpPath+".NewChildEnvironment"
							})
							fromCaller := derivesFrom(a, func(v ssa.Value) bool {
								p, ok := v.(*ssa.Parameter)
								return ok && typeIs(derefType(p.Type()), interpPath, "Environment")
							})
							c.ob("C01-R8", fnKey(g)+"#parameter-default-evaluated-in-the-function-frame-"+itoa(nd), cs.Pos(), inFrame && !fromCaller, "a parameter's default expression is evaluated (through "+fn.Name()+") in the environment of the calling code instead of the function's frame: `= greeting + name` cannot see the earlier parameter or silently picks up a variable of the caller that happens to have the name")
						})
					}
					return
				}
				nd++
				inFrame := derivesFrom(call.Call.Args[2], func(v ssa.Value) bool {
					cl, ok := v.(*ssa.Call)
					return ok && callName(cl) == interpPath+".NewChildEnvironment"
				})
				fromCaller := derivesFrom(call.Call.Args[2], func(v ssa.Value) bool {
					p, ok := v.(*ssa.Parameter)
					return ok && typeIs(derefType(p.Type()), interpPath, "Environment")
				})
				c.ob("C01-R8", fnKey(fn)+"#parameter-default-evaluated-in-the-function-frame-"+itoa(nd), call.Pos(), inFrame && !fromCaller, "a parameter's default expression is evaluated in the environment of the calling code instead of the function's frame: `= greeting + name` cannot see the earlier parameter (undefined variable) or silently picks up a variable of the caller that happens to have the name")
			})
		}
		c.Sites["C01-R8#default-evaluations"] = nd
	}

	// closest scope wins when a scope chain is flattened: a loop that walks outward (scope = scope.parent) and
	// copies bindings into one map must not overwrite a name it has already copied from a closer scope
	{
		n := 0
		for _, fn := range c.srcFuncs(interpPkg) {
			if fn.Signature.Recv() == nil || !typeIs(derefType(fn.Signature.Recv().Type()), interpPath, "Environment") {
				continue
			}
			for _, lp := range naturalLoops(fn) {
				// outward walk: a phi at the loop head fed by a load of Environment.parent
				walks := false
				for _, ins := range lp.head.Instrs {
					ph, ok := ins.(*ssa.Phi)
					if !ok {
						continue
					}
					for _, e := range ph.Edges {
						if loadedFromField(e, "Environment", "parent") {
							walks = true
						}
					}
				}
				if !walks {
					continue
				}
				k := 0
				for b := range lp.body {
					for _, ins := range b.Instrs {
						mu, ok := ins.(*ssa.MapUpdate)
						if !ok {
							continue
						}
						// the destination is not the scope being walked (a copy into another environment's table)
						n++
						k++
						var notYet []ssa.Value
						eachInstr(fn, func(_ *ssa.BasicBlock, _ int, x ssa.Instruction) {
							if lk, ok := x.(*ssa.Lookup); ok && lk.CommaOk && (lk.X == mu.Map || sameVal(lk.X, mu.Map)) && (lk.Index == mu.Key || sameVal(lk.Index, mu.Key)) {
								notYet = append(notYet, extractOf(lk, 1)...)
							}
						})
						q := &pathQuery{fn: fn, target: func(x ssa.Instruction) bool { return x == ins }, cutEdge: func(bb *ssa.BasicBlock, si int) bool {
							for _, o := range notYet {
								if known, val := boolOnEdge(bb, si, o); known && !val {
									return true
								}
							}
							return false
						}}
						hit, _ := q.from(lp.head, 0)
						c.ob("C01-R2", fnKey(fn)+"#outward-walk-keeps-the-closest-binding-"+itoa(k), mu.Pos(), hit == nil && len(notYet) > 0, "a scope chain is flattened while walking outward (scope = scope.parent) and every scope's bindings are stored into the same table without testing whether the name is already there: the outermost binding of a shadowed name wins, so an async block sees the module constant `limit` instead of the parameter `limit`, and a loop variable named like a route variable reads the route's")
					}
				}
			}
		}
		c.Sites["C01-R2#outward-walk-copies"] = n
	}

	// ---- R10 numeric text is read the same way everywhere
	c.rule("C01-R12", "WCS: `break` and `continue` end the innermost enclosing loop, whatever other blocks (if, switch, match arms) lie between: the signal values (breakValue / continueValue) are inspected only by the loop executors - functions that run a statement list inside a Go loop. A block executor that looks at the signal and completes normally (a C-style switch) makes `break` inside a switch inside a loop a no-op for the loop: the loop runs on, to its iteration cap")
	{
		n := 0
		for _, fn := range c.srcFuncs(interpPkg) {
			k := 0
			eachInstr(fn, func(_ *ssa.BasicBlock, _ int, ins ssa.Instruction) {
				ta, ok := ins.(*ssa.TypeAssert)
				if !ok {
					return
				}
				nt := namedOf(derefPtr(ta.AssertedType))
				if nt == nil || (nt.Obj().Name() != "breakValue" && nt.Obj().Name() != "continueValue") {
					return
				}
				k++
				n++
				// a loop executor: some statement-list execution of this function sits inside a natural loop
				isLoopExec := false
				loops := naturalLoops(fn)
				eachInstr(fn, func(b *ssa.BasicBlock, _ int, x ssa.Instruction) {
					cl, ok := x.(*ssa.Call)
					if !ok {
						return
					}
					if _, _, isExec := blockExec(blockForwarder, cl); !isExec {
						return
					}
					for _, lp := range loops {
						if lp.body[b] {
							isLoopExec = true
						}
					}
				})
				c.ob("C01-R12", fnKey(fn)+"#loop-signal-inspected-by-a-loop-"+itoa(k), ta.Pos(), isLoopExec, "a function that is not a loop executor inspects the "+nt.Obj().Name()+" signal: a block construct that swallows it (switch, match) cuts `break` / `continue` off from the loop they are meant for - a scanner that should stop at \"stop\" processes everything, a `while` with its break inside a switch spins to the iteration cap")
			})
		}
		c.Sites["C01-R12#signal-inspections"] = n
		c.floor("C01-R12", 2)
	}

	c.rule("C01-R11", "ALIAS: arrays are values to a program: `append(xs, x)` and `xs + [x]` yield a new array and leave every other array alone. In pkg/interpreter no Go append has as its base a slice obtained from a program value as it is (the result of asserting an evaluated value to []interface{}): such a slice may have spare capacity (a JSON-decoded array, an array built by an earlier append), and two results built from one base then share the slot after its end - `$ a = append(xs, 5); $ b = append(xs, 6)` leaves a == b, and a module-level list appended to by two requests is one slot written by both. The base is a fresh copy (make + copy, or append onto an empty slice)")
	{
		n := 0
		for _, fn := range c.srcFuncs(interpPkg) {
			k := 0
			eachInstr(fn, func(_ *ssa.BasicBlock, _ int, ins ssa.Instruction) {
				call, ok := ins.(*ssa.Call)
				if !ok || callName(call) != "builtin.append" || len(call.Call.Args) < 2 {
					return
				}
				sl, ok := call.Call.Args[0].Type().Underlying().(*types.Slice)
				if !ok || !dynIface(sl.Elem()) {
					return
				}
				n++
				fromProgram := derivesFromOnly(call.Call.Args[0], func(x ssa.Value) (bool, bool) {
					switch y := x.(type) {
					case *ssa.Extract:
						_, isTA := y.Tuple.(*ssa.TypeAssert)
						return true, isTA && y.Index == 0
					case *ssa.TypeAssert:
						return true, true
					case *ssa.MakeSlice, *ssa.Const, *ssa.Slice, *ssa.Call, *ssa.Alloc, *ssa.Parameter, *ssa.FreeVar, *ssa.Lookup, *ssa.Field, *ssa.MakeInterface:
						return true, false
					}
					return false, false
				})
				if !fromProgram {
					return
				}
				// only where the result becomes a program value again (is returned, stored, bound)
				k++
				c.ob("C01-R11", fnKey(fn)+"#append-onto-a-program-array-"+itoa(k), call.Pos(), false, "a Go append is made directly onto the slice of a program array: when that array has spare capacity the new element is written into storage it shares with every other array built from it - two appends to one list give two equal results, and requests appending to a module-level list overwrite each other's element")
			})
		}
		c.Sites["C01-R11#appends-on-value-slices"] = n
		c.ob("C01-R11", interpPkg+"#appends-examined", token.NoPos, n >= 10, "fewer than 10 appends on []interface{} found in pkg/interpreter")
	}

	c.rule("C01-R10", "SIB: every conversion of program or request text to an integer in the engines (strconv.ParseInt / ParseUint in pkg/interpreter and pkg/vm: the parseInt builtin, typed and untyped query parameters) passes the same constant base and width: parseInt(\"010\") and `?n=010` for `? n: int` denote the same number; base 0 would read a zero-padded decimal string as octal (\"02134\" = 1116) and accept 0x.. and 1_000 in one place only")
	{
		type site struct {
			fn  *ssa.Function
			pos token.Pos
			sig string
		}
		var sites []site
		for _, rel := range []string{interpPkg, vmPkg} {
			for _, fn := range c.srcFuncs(rel) {
				eachInstr(fn, func(_ *ssa.BasicBlock, _ int, ins ssa.Instruction) {
					call, ok := ins.(*ssa.Call)
					if !ok {
						return
					}
					if nm := callName(call); nm != "strconv.ParseInt" && nm != "strconv.ParseUint" {
						return
					}
					sig := "non-constant"
					if b, ok := constInt(call.Call.Args[1]); ok {
						if w, ok := constInt(call.Call.Args[2]); ok {
							sig = "base " + itoa(int(b)) + ", " + itoa(int(w)) + " bits"
						}
					}
					sites = append(sites, site{fn, call.Pos(), sig})
				})
			}
		}
		count := map[string]int{}
		for _, st := range sites {
			count[st.sig]++
		}
		major := ""
		for sg, n := range count {
			if n > count[major] || (n == count[major] && sg < major) {
				major = sg
			}
		}
		perFn := map[*ssa.Function]int{}
		for _, st := range sites {
			perFn[st.fn]++
			c.ob("C01-R10", fnKey(st.fn)+"#integer-text-read-like-everywhere-else-"+itoa(perFn[st.fn]), st.pos, st.sig == major && strings.HasPrefix(st.sig, "base 10"), "this site reads integer text with "+st.sig+" while the engines' other sites use "+major+": the same digits denote different numbers depending on where they are converted (a zero-padded id, a value with a 0x prefix or an underscore)")
		}
		c.Sites["C01-R10#integer-parse-sites"] = len(sites)
		c.floor("C01-R10", 2)
	}

	// ---- R9 every way of calling a function binds its parameters alike
	c.rule("C01-R9", "SIB: every site of pkg/interpreter that binds the parameters of a user-defined function (Define of a name taken from Function.Params) passes the argument through the int-parameter coercion (a whole float64 - every number of a JSON body - becomes int64 for a parameter declared int): the direct call, the generic call, the pipe and the callback paths (map/filter/reduce) agree, so half(input.n), input.n |> half and map([input.n], half) compute the same")
	{
		isF2I := func(x ssa.Instruction) bool {
			cv, ok := x.(*ssa.Convert)
			if !ok {
				return false
			}
			src, ok1 := cv.X.Type().Underlying().(*types.Basic)
			dst, ok2 := cv.Type().Underlying().(*types.Basic)
			return ok1 && ok2 && src.Info()&types.IsFloat != 0 && dst.Kind() == types.Int64
		}
		coerced := func(v ssa.Value) bool {
			return derivesFrom(v, func(x ssa.Value) bool {
				switch y := x.(type) {
				case *ssa.Convert:
					return isF2I(y)
				case *ssa.Call:
					// a coercion helper: it is told the parameter (a Field) the value is meant for
					if sf := staticFn(y); sf != nil && sf.Pkg != nil && sf.Pkg.Pkg.Path() == interpPath {
						takesField := false
						for i := 0; i < sf.Signature.Params().Len(); i++ {
							if nt := namedOf(sf.Signature.Params().At(i).Type()); nt != nil && nt.Obj().Name() == "Field" {
								takesField = true
							}
						}
						if takesField {
							return reachesInstr(sf, isF2I, 4, map[*ssa.Function]bool{})
						}
					}
				}
				return false
			})
		}
		n := 0
		for _, fn := range c.srcFuncs(interpPkg) {
			k := 0
			eachInstr(fn, func(_ *ssa.BasicBlock, _ int, ins ssa.Instruction) {
				call, ok := ins.(*ssa.Call)
				if !ok || len(call.Call.Args) < 3 {
					return
				}
				if nm := callName(call); nm != interpPath+".Environment.Define" && nm != interpPath+".Environment.DefineWithSource" {
					return
				}
				// the name is the Name of an element of Function.Params
				fromParams := derivesFrom(call.Call.Args[1], func(v ssa.Value) bool {
					return loadedFromField(v, "Function", "Params") || func() bool {
						if f, ok := v.(*ssa.Field); ok {
							if nt := namedOf(f.X.Type()); nt != nil && nt.Obj().Name() == "Function" {
								return nt.Underlying().(*types.Struct).Field(f.Field).Name() == "Params"
							}
						}
						return false
					}()
				})
				if !fromParams {
					return
				}
				n++
				k++
				c.ob("C01-R9", fnKey(fn)+"#parameter-binding-coerces-like-a-direct-call-"+itoa(k), call.Pos(), coerced(call.Call.Args[2]), "this way of calling a user-defined function binds the argument to the parameter without the int coercion a direct call applies: a whole number from a JSON body stays a float64 for a parameter declared int, so the same function computes 3.5 here and 3 when called directly (or fails its int return type)")
			})
		}
		c.Sites["C01-R9#parameter-binding-sites"] = n
		c.floor("C01-R9", 3)
	}

	// ---- R7 integers are integers
	c.rule("C01-R7", "INTCMP: for the ordering (<, <=, >, >=) and the +, -, * arms of the interpreter's binary-operator dispatch, the handler the arm calls (and its same-package callees, two levels) performs that operation on two integer payloads - values taken out of the dynamic operands by type assertion with no numeric conversion on the way: int x int is never routed through float64 (53-bit mantissa), which would change results for integers above 2^53 while == still compares them exactly")
	c.Sites["C01-R7#operator-arms"] = intOpAudit(c, "C01-R7", interpPkg, "Interpreter.evaluateBinaryOp", modPath+"/pkg/ast", "BinOp",
		map[string]opClass{"Lt": opOrdering, "Le": opOrdering, "Gt": opOrdering, "Ge": opOrdering, "Add": opAdd, "Sub": opSub, "Mul": opMul}, "interpreter")
	c.floor("C01-R7", 6)

	// ---- R4 documented precedence
	c.rule("C01-R4", "TBL: for every binary operator listed with a precedence in docs/LANGUAGE_SPECIFICATION.md the level Parser.currentBinaryOp returns for its token equals the documented level; precedence climbing is left-associative: parseBinaryExpr's loop exit comparison does not exit at precedence == minPrecedence and the recursive call passes precedence+1")
	spell := map[string]string{"+": "PLUS", "-": "MINUS", "*": "STAR", "/": "SLASH", "%": "PERCENT", "==": "EQ_EQ", "!=": "NOT_EQ", "<": "LESS", "<=": "LESS_EQ", ">": "GREATER", ">=": "GREATER_EQ", "&&": "AND", "||": "OR"}
	parserLevels := map[string]int64{} // token name -> level
	if d := c.decl(parserPkg, "Parser.currentBinaryOp"); d != nil {
		p := c.pkg(parserPkg)
		ast.Inspect(d, func(n ast.Node) bool {
			cc, ok := n.(*ast.CaseClause)
			if !ok {
				return true
			}
			var toks []string
			for _, e := range cc.List {
				if id, ok := e.(*ast.Ident); ok {
					if k, ok := p.TypesInfo.Uses[id].(*types.Const); ok && typeIs(k.Type(), parserPath, "TokenType") {
						toks = append(toks, k.Name())
					}
				}
			}
			for _, st := range cc.Body {
				if r, ok := st.(*ast.ReturnStmt); ok && len(r.Results) == 2 {
					if tv, ok := p.TypesInfo.Types[r.Results[1]]; ok && tv.Value != nil {
						if lv, ok := constant.Int64Val(tv.Value); ok {
							for _, t := range toks {
								parserLevels[t] = lv
							}
						}
					}
				}
			}
			return true
		})
	}
	docRows := map[string]int64{}
	if b, err := os.ReadFile(filepath.Join(c.Repo, "docs", "LANGUAGE_SPECIFICATION.md")); err == nil {
		re := regexp.MustCompile("(?m)^\\|\\s*`([^`]+)`\\s*\\|[^|]*\\|\\s*(\\d+)\\s*\\|\\s*$")
		for _, m := range re.FindAllStringSubmatch(string(b), -1) {
			op := strings.ReplaceAll(m[1], "\\|", "|")
			lv, _ := strconv.ParseInt(m[2], 10, 64)
			docRows[op] = lv
		}
	}
	if len(docRows) < 10 || len(parserLevels) < 10 {
		c.undecided("C01-R4: %d documented operator rows / %d parser levels extracted (floor 10 each)", len(docRows), len(parserLevels))
	} else {
		var ops []string
		for o := range docRows {
			ops = append(ops, o)
		}
		sort.Strings(ops)
		for _, o := range ops {
			tok, known := spell[o]
			if !known {
				c.info("C01-R4", "operator:"+o+"#unknown-spelling", token.NoPos, "documented operator has no token mapping in the checker")
				continue
			}
			lv, has := parserLevels[tok]
			c.ob("C01-R4", "operator:"+o+"#parser-level-equals-documented", token.NoPos, has && lv == docRows[o], "operator "+o+" is documented with precedence "+itoa(int(docRows[o]))+" but the parser gives it "+itoa(int(lv)))
		}
	}
	if pb := c.mustFn("C01-R4", parserPkg, "Parser.parseBinaryExpr"); pb != nil {
		var prec ssa.Value
		eachInstr(pb, func(_ *ssa.BasicBlock, _ int, ins ssa.Instruction) {
			if cl, ok := ins.(*ssa.Call); ok && callName(cl) == parserPath+".Parser.currentBinaryOp" {
				for _, e := range extractOf(cl, 1) {
					prec = e
				}
			}
		})
		minP := ssa.Value(pb.Params[1])
		okExit, found := false, false
		for _, b := range pb.Blocks {
			iff := ifOf(b)
			if iff == nil {
				continue
			}
			bo, ok := iff.Cond.(*ssa.BinOp)
			if !ok || prec == nil {
				continue
			}
			var op token.Token
			switch {
			case bo.X == prec && bo.Y == minP:
				op = bo.Op
			case bo.Y == prec && bo.X == minP:
				op = map[token.Token]token.Token{token.LSS: token.GTR, token.GTR: token.LSS, token.LEQ: token.GEQ, token.GEQ: token.LEQ}[bo.Op]
			default:
				continue
			}
			found = true
			// value of `prec op minP` at equality, and which edge leaves the loop
			atEq := op == token.LEQ || op == token.GEQ || op == token.EQL
			var lp *loop
			for _, l := range naturalLoops(pb) {
				if l.body[b] {
					lp = l
				}
			}
			if lp == nil {
				continue
			}
			exitIdx := -1
			for si, s := range b.Succs {
				if !lp.body[s] {
					exitIdx = si
				}
			}
			if exitIdx < 0 {
				continue
			}
			// at equality the taken successor is 0 if atEq else 1; it must not be the exit
			taken := 1
			if atEq {
				taken = 0
			}
			okExit = taken != exitIdx
		}
		c.ob("C01-R4", parserPkg+".Parser.parseBinaryExpr#continues-at-equal-precedence", pb.Pos(), found && okExit, "the precedence-climbing loop stops when the operator's precedence equals the minimum: together with the precedence+1 recursion this mis-groups operators of adjacent levels (a || b && c parses as (a || b) && c)")
		rec := false
		eachCall(pb, func(call ssa.CallInstruction) {
			if staticFn(call) == pb {
				if bo, ok := call.Common().Args[1].(*ssa.BinOp); ok && bo.Op == token.ADD && bo.X == prec {
					if k, ok := constInt(bo.Y); ok && k == 1 {
						rec = true
					}
				}
			}
		})
		c.ob("C01-R4", parserPkg+".Parser.parseBinaryExpr#right-operand-parsed-at-precedence-plus-1", pb.Pos(), rec, "the right operand is not parsed with minimum precedence+1: binary operators are no longer left-associative")
	}
}

// sameSliceVar: a and b are loads/values of the same local slice variable (append target sorted later).
func sameSliceVar(a, b ssa.Value) bool {
	root := func(v ssa.Value) ssa.Value {
		for i := 0; i < 10; i++ {
			switch x := v.(type) {
			case *ssa.Phi:
				for _, e := range x.Edges {
					if _, isC := e.(*ssa.Const); !isC {
						if _, isMS := e.(*ssa.MakeSlice); isMS {
							return e
						}
					}
				}
				v = x.Edges[0]
			case *ssa.Call:
				if callName(x) == "builtin.append" {
					v = x.Call.Args[0]
					continue
				}
				return v
			case *ssa.UnOp:
				return x.X
			default:
				return v
			}
		}
		return v
	}
	return root(a) == root(b)
}

// sliceOnlyFeedsOrderInsensitiveCallee: the slice built by these appends is used only as an argument of
// module functions that merely range over that parameter.
func sliceOnlyFeedsOrderInsensitiveCallee(appends []ssa.Value) bool {
	if len(appends) == 0 {
		return false
	}
	ok := true
	anyCall := false
	seen := map[ssa.Value]bool{}
	var visit func(v ssa.Value)
	visit = func(v ssa.Value) {
		if seen[v] {
			return
		}
		seen[v] = true
		for _, r := range refs(v) {
			switch u := r.(type) {
			case *ssa.Phi:
				visit(u)
			case *ssa.DebugRef:
			case *ssa.Call:
				if callName(u) == "builtin.append" {
					visit(u)
					continue
				}
				if callName(u) == "builtin.len" {
					continue
				}
				sf := u.Call.StaticCallee()
				if sf == nil || len(sf.Blocks) == 0 {
					ok = false
					continue
				}
				for i, a := range u.Call.Args {
					if a != v || i >= len(sf.Params) {
						continue
					}
					anyCall = true
					for _, pr := range refs(sf.Params[i]) {
						switch x := pr.(type) {
						case *ssa.Range, *ssa.DebugRef, *ssa.IndexAddr, *ssa.Index:
						case *ssa.Call:
							if callName(x) != "builtin.len" {
								ok = false
							}
						default:
							ok = false
						}
					}
				}
			default:
				ok = false
			}
		}
	}
	for _, a := range appends {
		visit(a)
	}
	return ok && anyCall
}

// blockForwarders: functions of pkg/interpreter that hand their own statement-list parameter and their own
// environment parameter, both untouched, to executeStatements. Such a function embodies no block construct of its own
// (runFunctionBody-style tails); a call of it is a block execution of the caller and is judged there. The value is the
// pair (index of the statements parameter, index of the environment parameter).
func blockForwarders(c *Ctx) map[*ssa.Function][2]int {
	blockForwarder := map[*ssa.Function][2]int{}
	for _, fn := range c.srcFuncs(interpPkg) {
		if fn.Name() == "executeStatements" {
			continue
		}
		eachCall(fn, func(call ssa.CallInstruction) {
			if callName(call) != interpPath+".Interpreter.executeStatements" {
				return
			}
			si, ei := -1, -1
			for i, p := range fn.Params {
				if call.Common().Args[1] == ssa.Value(p) {
					si = i
				}
				if call.Common().Args[2] == ssa.Value(p) {
					ei = i
				}
			}
			if si >= 0 && ei >= 0 {
				blockForwarder[fn] = [2]int{si, ei}
			}
		})
	}
	return blockForwarder
}

// blockExec: call executes a statement list in an environment - executeStatements itself or a block forwarder.
func blockExec(fwd map[*ssa.Function][2]int, call *ssa.Call) (stmts, env ssa.Value, ok bool) {
	if callName(call) == interpPath+".Interpreter.executeStatements" && len(call.Call.Args) >= 3 {
		if _, isFwd := fwd[call.Parent()]; isFwd {
			return nil, nil, false // judged at the forwarder's call sites
		}
		return call.Call.Args[1], call.Call.Args[2], true
	}
	if sf := staticFn(call); sf != nil {
		if ix, ok := fwd[sf]; ok && ix[0] < len(call.Call.Args) && ix[1] < len(call.Call.Args) {
			return call.Call.Args[ix[0]], call.Call.Args[ix[1]], true
		}
	}
	return nil, nil, false
}
