package main

import (
	"encoding/json"
	"fmt"
	"go/ast"
	"go/token"
	"go/types"
	"os"
	"path/filepath"
	"sort"
	"strings"
	"time"

	"golang.org/x/tools/go/callgraph"
	"golang.org/x/tools/go/callgraph/cha"
	"golang.org/x/tools/go/callgraph/vta"
	"golang.org/x/tools/go/packages"
	"golang.org/x/tools/go/ssa"
	"golang.org/x/tools/go/ssa/ssautil"
)

const modPath = "github.com/glyphlang/glyph"

// Obligation is one rule instance evaluated on one construct.
type Obligation struct {
	Rule      string   `json:"rule"`
	Construct string   `json:"construct"`
	Pos       string   `json:"pos,omitempty"`
	Verdict   string   `json:"verdict"` // discharged | violated | known | info
	Detail    string   `json:"detail,omitempty"`
	Path      []string `json:"path,omitempty"`
}

type undecidedErr struct{ msg string }

// Ctx holds the loaded program and the obligations of the property being decided.
type Ctx struct {
	Repo        string
	Tier        string
	Prop        string
	Fset        *token.FileSet
	Pkgs        map[string]*packages.Package // by import path
	Prog        *ssa.Program
	SSA         map[string]*ssa.Package
	cgCHA       *callgraph.Graph
	cgVTA       *callgraph.Graph
	Obs         []*Obligation
	Sites       map[string]int // per-rule site counts
	Funcs       map[string]bool
	Rules       map[string]string // rule id -> text
	Notes       []string
	Undec       []string
	relPfx      string
	ruleAlias   map[string]string
	renamed     map[string]*ssa.Function // reference name -> function now carrying another name (anchors.go)
	RenameNotes []string
}

func (c *Ctx) pos(p token.Pos) string {
	if !p.IsValid() {
		return ""
	}
	ps := c.Fset.Position(p)
	f := ps.Filename
	if strings.HasPrefix(f, c.relPfx) {
		f = f[len(c.relPfx):]
	}
	return fmt.Sprintf("%s:%d", f, ps.Line)
}

// rule registers the text of a rule (shown in evidence).
func (c *Ctx) rule(id, text string) {
	if a, ok := c.ruleAlias[id]; ok {
		if prev := c.Rules[a]; prev != "" && !strings.Contains(prev, text) {
			text = prev + " || " + text
		}
		id = a
	}
	c.Rules[id] = text
}

// ra maps a rule id through the alias table (a property re-using another property's rule set under its own id).
func (c *Ctx) ra(rule string) string {
	if a, ok := c.ruleAlias[rule]; ok {
		return a
	}
	return rule
}

// ob records an obligation. ok=true → discharged.
func (c *Ctx) ob(rule, construct string, p token.Pos, ok bool, detail string, path ...string) *Obligation {
	rule = c.ra(rule)
	v := "discharged"
	if !ok {
		v = "violated"
	} else if strings.HasPrefix(detail, "ok: ") {
		detail = detail[4:]
	} else {
		detail = ""
	}
	o := &Obligation{Rule: rule, Construct: construct, Pos: c.pos(p), Verdict: v, Detail: detail, Path: path}
	c.Obs = append(c.Obs, o)
	c.Sites[rule]++
	return o
}

// info records an advisory observation (never a violation).
func (c *Ctx) info(rule, construct string, p token.Pos, detail string) {
	rule = c.ra(rule)
	c.Obs = append(c.Obs, &Obligation{Rule: rule, Construct: construct, Pos: c.pos(p), Verdict: "info", Detail: detail})
}

func (c *Ctx) undecided(format string, a ...interface{}) {
	c.Undec = append(c.Undec, fmt.Sprintf(format, a...))
}

// floor fails the check as UNDECIDED when a rule matched fewer sites than confirmed by hand.
func (c *Ctx) floor(rule string, min int) {
	rule = c.ra(rule)
	if c.Sites[rule] < min {
		c.undecided("rule %s matched %d sites, floor is %d (rule no longer matches the code base)", rule, c.Sites[rule], min)
	}
}

func (c *Ctx) touched(fn *ssa.Function) {
	if fn != nil {
		c.Funcs[fn.String()] = true
	}
}

// ---- loading ----

func load(repo string, extraEnv []string) (*Ctx, error) {
	abs, _ := filepath.Abs(repo)
	cfg := &packages.Config{
		Mode: packages.LoadSyntax | packages.NeedModule,
		Dir:  abs,
		Env:  append(os.Environ(), extraEnv...),
	}
	pkgs, err := packages.Load(cfg, "./...")
	if err != nil {
		return nil, err
	}
	if len(pkgs) == 0 {
		return nil, fmt.Errorf("no packages loaded from %s", abs)
	}
	c := &Ctx{Repo: abs, Pkgs: map[string]*packages.Package{}, SSA: map[string]*ssa.Package{},
		Sites: map[string]int{}, Funcs: map[string]bool{}, Rules: map[string]string{}, relPfx: abs + "/"}
	var errs []string
	for _, p := range pkgs {
		for _, e := range p.Errors {
			errs = append(errs, p.PkgPath+": "+e.Error())
		}
		c.Pkgs[p.PkgPath] = p
		c.Fset = p.Fset
	}
	if len(errs) > 0 {
		return nil, fmt.Errorf("load/type errors (%d): %s", len(errs), strings.Join(errs[:min(len(errs), 5)], "; "))
	}
	prog, spkgs := ssautil.Packages(pkgs, ssa.InstantiateGenerics)
	prog.Build()
	c.Prog = prog
	for i, sp := range spkgs {
		if sp == nil {
			return nil, fmt.Errorf("no SSA for %s", pkgs[i].PkgPath)
		}
		c.SSA[sp.Pkg.Path()] = sp
	}
	return c, nil
}

func (c *Ctx) CHA() *callgraph.Graph {
	if c.cgCHA == nil {
		c.cgCHA = cha.CallGraph(c.Prog)
	}
	return c.cgCHA
}

func (c *Ctx) VTA() *callgraph.Graph {
	if c.cgVTA == nil {
		c.cgVTA = vta.CallGraph(ssautil.AllFunctions(c.Prog), c.CHA())
	}
	return c.cgVTA
}

// CG returns the call graph of the tier (CHA quick, VTA thorough).
func (c *Ctx) CG() *callgraph.Graph {
	if c.Tier == "thorough" {
		return c.VTA()
	}
	return c.CHA()
}

// ---- lookup helpers ----

func (c *Ctx) pkg(rel string) *packages.Package {
	p := c.Pkgs[modPath+"/"+rel]
	if p == nil {
		panic(undecidedErr{"package " + rel + " not loaded"})
	}
	return p
}

func (c *Ctx) spkg(rel string) *ssa.Package {
	p := c.SSA[modPath+"/"+rel]
	if p == nil {
		panic(undecidedErr{"package " + rel + " has no SSA"})
	}
	return p
}

// fn finds a package-level function ("name") or method ("Type.name") in the SSA program; nil if absent.
func (c *Ctx) fn(rel, name string) *ssa.Function {
	if f := c.fnByName(rel, name); f != nil {
		return f
	}
	if f := c.renamed[rel+"."+name]; f != nil {
		c.touched(f)
		return f
	}
	return nil
}

func (c *Ctx) fnByName(rel, name string) *ssa.Function {
	sp := c.spkg(rel)
	if i := strings.IndexByte(name, '.'); i >= 0 {
		tn, mn := name[:i], name[i+1:]
		t := sp.Type(tn)
		if t == nil {
			return nil
		}
		for _, typ := range []types.Type{types.NewPointer(t.Type()), t.Type()} {
			ms := c.Prog.MethodSets.MethodSet(typ)
			for j := 0; j < ms.Len(); j++ {
				sel := ms.At(j)
				if sel.Obj().Name() == mn && sel.Obj().Pkg() == sp.Pkg {
					if f := c.Prog.FuncValue(sel.Obj().(*types.Func)); f != nil && len(f.Blocks) > 0 {
						c.touched(f)
						return f
					}
				}
			}
		}
		return nil
	}
	f := sp.Func(name)
	c.touched(f)
	return f
}

// mustFn is fn but a missing anchor is reported as a violation of `rule` (mechanism absent).
func (c *Ctx) mustFn(rule, rel, name string) *ssa.Function {
	f := c.fn(rel, name)
	if f == nil {
		last := name[strings.LastIndexByte(name, '.')+1:]
		if last != "" && last[0] >= 'a' && last[0] <= 'z' {
			// an unexported helper can be renamed or inlined by a behaviour-preserving edit: the rule cannot
			// be evaluated, which is an indecision (exit 2), not evidence that the property is broken
			c.undecided("%s: anchor %s.%s not found (renamed or removed unexported function); rule cannot be evaluated", rule, rel, name)
			return nil
		}
		c.ob(rule, rel+"."+name+"#anchor-missing", token.NoPos, false, "anchor function "+name+" not found in "+rel+": the mechanism this rule checks is absent")
	}
	return f
}

// decl finds the *ast.FuncDecl for "name" or "Type.name".
func (c *Ctx) decl(rel, name string) *ast.FuncDecl {
	if d := c.declByName(rel, name); d != nil {
		return d
	}
	if f := c.renamed[rel+"."+name]; f != nil {
		return c.declByName(rel, anchorName(f))
	}
	return nil
}

func (c *Ctx) declByName(rel, name string) *ast.FuncDecl {
	p := c.pkg(rel)
	tn, mn := "", name
	if i := strings.IndexByte(name, '.'); i >= 0 {
		tn, mn = name[:i], name[i+1:]
	}
	for _, f := range p.Syntax {
		for _, d := range f.Decls {
			fd, ok := d.(*ast.FuncDecl)
			if !ok || fd.Name.Name != mn {
				continue
			}
			if tn == "" && fd.Recv == nil {
				return fd
			}
			if tn != "" && fd.Recv != nil && len(fd.Recv.List) == 1 && recvTypeName(fd.Recv.List[0].Type) == tn {
				return fd
			}
		}
	}
	return nil
}

func recvTypeName(e ast.Expr) string {
	switch t := e.(type) {
	case *ast.StarExpr:
		return recvTypeName(t.X)
	case *ast.Ident:
		return t.Name
	case *ast.IndexExpr:
		return recvTypeName(t.X)
	}
	return ""
}

// srcFuncs returns all source functions (incl. anonymous, transitively) of a package.
func (c *Ctx) srcFuncs(rel string) []*ssa.Function {
	sp := c.spkg(rel)
	var out []*ssa.Function
	seen := map[*ssa.Function]bool{}
	var add func(f *ssa.Function)
	add = func(f *ssa.Function) {
		if f == nil || seen[f] || len(f.Blocks) == 0 || (f.Synthetic != "" && f.Parent() == nil) {
			return
		}
		seen[f] = true
		out = append(out, f)
		for _, a := range f.AnonFuncs {
			add(a)
		}
	}
	for _, m := range sp.Members {
		switch m := m.(type) {
		case *ssa.Function:
			add(m)
		case *ssa.Type:
			for _, typ := range []types.Type{m.Type(), types.NewPointer(m.Type())} {
				ms := c.Prog.MethodSets.MethodSet(typ)
				for i := 0; i < ms.Len(); i++ {
					if fo, ok := ms.At(i).Obj().(*types.Func); ok && fo.Pkg() == sp.Pkg {
						f := c.Prog.FuncValue(fo)
						if f != nil && f.Synthetic == "" {
							add(f)
						}
					}
				}
			}
		}
	}
	sort.Slice(out, func(i, j int) bool { return out[i].Pos() < out[j].Pos() })
	for _, f := range out {
		c.touched(f)
	}
	return out
}

func isTestFile(fset *token.FileSet, p token.Pos) bool {
	return strings.HasSuffix(fset.Position(p).Filename, "_test.go")
}

// ---- known findings ----

type KnownFinding struct {
	Property  string `json:"property"`
	Rule      string `json:"rule"`
	Construct string `json:"construct"`
	What      string `json:"what"`
	Status    string `json:"status"` // known | fixed
	Commit    string `json:"commit,omitempty"`
}

func loadKnown(path string) ([]KnownFinding, error) {
	b, err := os.ReadFile(path)
	if err != nil {
		if os.IsNotExist(err) {
			return nil, nil
		}
		return nil, err
	}
	var kf struct {
		Findings []KnownFinding `json:"findings"`
	}
	if err := json.Unmarshal(b, &kf); err != nil {
		return nil, err
	}
	return kf.Findings, nil
}

// ---- evidence ----

type propSpec struct {
	id    string
	title string
	run   func(c *Ctx)
	// assumptions and trusted base, shown in evidence
	assumptions []string
	notCovered  string
	// variants: other build configurations the property's rules are evaluated on in the thorough tier
	variants []buildVariant
}

type buildVariant struct {
	name string
	env  []string
}

func sanitizeKey(s string) string {
	r := strings.NewReplacer("/", "_", " ", "_", "(", "", ")", "", "*", "", "#", "-", "[", "", "]", "", ":", "_", ",", "_", "\"", "", "<", "", ">", "", "$", "")
	s = r.Replace(s)
	if len(s) > 150 {
		s = s[:150]
	}
	return s
}

func finish(c *Ctx, spec *propSpec, known []KnownFinding, evDir string, t0 time.Time, seed int64, cmd string) int {
	// apply known findings
	usedKnown := map[int]bool{}
	for _, o := range c.Obs {
		if o.Verdict != "violated" {
			continue
		}
		for i, k := range known {
			if k.Status == "known" && k.Property == c.Prop && k.Rule == o.Rule && k.Construct == o.Construct {
				o.Verdict = "known"
				usedKnown[i] = true
			}
		}
	}
	sort.SliceStable(c.Obs, func(i, j int) bool {
		if c.Obs[i].Rule != c.Obs[j].Rule {
			return c.Obs[i].Rule < c.Obs[j].Rule
		}
		return c.Obs[i].Construct < c.Obs[j].Construct
	})
	var nObl, nDis, nKnown, nViol, nInfo int
	distinct := map[string]bool{}
	var viol, knownObs []*Obligation
	for _, o := range c.Obs {
		switch o.Verdict {
		case "info":
			nInfo++
			continue
		case "discharged":
			nDis++
		case "known":
			nKnown++
			knownObs = append(knownObs, o)
		case "violated":
			nViol++
			viol = append(viol, o)
		}
		nObl++
		distinct[o.Rule+"|"+o.Construct] = true
	}
	os.MkdirAll(evDir, 0o755)
	vdir := filepath.Join(evDir, c.Prop+".violations")
	os.RemoveAll(vdir)
	exit := 0
	if len(c.Undec) > 0 {
		exit = 2
		for _, u := range c.Undec {
			fmt.Printf("UNDECIDED property=%s %s\n", c.Prop, u)
		}
	}
	for _, o := range knownObs {
		fmt.Printf("KNOWN-FINDING: property=%s %s %s %s (%s)\n", c.Prop, o.Rule, o.Construct, o.Detail, o.Pos)
	}
	for i, k := range known {
		if k.Status == "known" && k.Property == c.Prop && !usedKnown[i] {
			fmt.Printf("NOTE property=%s known finding %s %s no longer reproduces (stale entry; suppresses nothing)\n", c.Prop, k.Rule, k.Construct)
		}
	}
	if len(viol) > 0 {
		os.MkdirAll(vdir, 0o755)
		// a violation that was found stands, whatever another rule could not decide
		exit = 1
		for _, o := range viol {
			rp := filepath.Join(vdir, sanitizeKey(o.Rule+"-"+o.Construct)+".json")
			b, _ := json.MarshalIndent(map[string]interface{}{
				"property": c.Prop, "rule": o.Rule, "rule_text": c.Rules[o.Rule], "construct": o.Construct,
				"pos": o.Pos, "detail": o.Detail, "path": o.Path,
				"rerun": cmd,
			}, "", " ")
			os.WriteFile(rp, b, 0o644)
			fmt.Printf("VIOLATION property=%s replay=%s\n", c.Prop, rp)
			fmt.Printf("  rule=%s construct=%s at %s: %s\n", o.Rule, o.Construct, o.Pos, o.Detail)
			for _, p := range o.Path {
				fmt.Printf("    %s\n", p)
			}
		}
	}
	// samples: all non-discharged + up to N discharged per rule (all in thorough)
	perRule := map[string]int{}
	var samples []*Obligation
	lim := 6
	if c.Tier == "thorough" {
		lim = 1 << 30
	}
	for _, o := range c.Obs {
		if o.Verdict == "discharged" || o.Verdict == "info" {
			if perRule[o.Rule+o.Verdict] >= lim {
				continue
			}
			perRule[o.Rule+o.Verdict]++
		}
		samples = append(samples, o)
	}
	var ruleIDs []string
	for id := range c.Rules {
		ruleIDs = append(ruleIDs, id)
	}
	sort.Strings(ruleIDs)
	var expl []string
	for _, id := range ruleIDs {
		expl = append(expl, id+": "+c.Rules[id])
	}
	var pk []string
	for p := range c.Pkgs {
		pk = append(pk, strings.TrimPrefix(p, modPath+"/"))
	}
	sort.Strings(pk)
	var fns []string
	for f := range c.Funcs {
		fns = append(fns, f)
	}
	sort.Strings(fns)
	cgName := "cha"
	if c.Tier == "thorough" {
		cgName = "vta"
	}
	ev := map[string]interface{}{
		"property_id": c.Prop,
		"tier":        c.Tier,
		"seed":        seed,
		"level":       "other",
		"coverage": map[string]interface{}{
			"explanation": "Static analysis (no code is run): structural necessary conditions of " + c.Prop + " (" + spec.title + ") decided over every matching site of the current /repo working tree. " +
				"Rules: " + strings.Join(expl, " || ") + ". NOT covered (runtime-value clauses): " + spec.notCovered,
			"obligations":               nObl,
			"discharged":                nDis,
			"known":                     nKnown,
			"violated":                  nViol,
			"info":                      nInfo,
			"evaluations":               nObl,
			"distinct_nontrivial":       len(distinct),
			"rule":                      "one obligation per (rule, construct); distinct = distinct (rule,construct) keys with a non-vacuous verdict; every site of every rule enumerated from go/types+go/ssa on this run",
			"sites_per_rule":            c.Sites,
			"samples":                   samples,
			"exhaustive":                true,
			"packages_loaded":           len(pk),
			"functions_analysed":        len(fns),
			"functions_analysed_sample": fns[:min(len(fns), 40)],
			"callgraph":                 cgName,
			"checker_cmd":               cmd,
			"trusted_base":              []string{"go/types", "golang.org/x/tools/go/ssa v0.50.0", "golang.org/x/tools/go/callgraph/{cha,vta}", "rule slot tables in /verif/checker/c*.go", "go list (go1.26.8) package loading"},
			"undecided":                 c.Undec,
			"notes":                     append(append([]string{}, c.Notes...), c.RenameNotes...),
		},
		"assumptions": append([]string{
			"satisfying the structural rules is necessary, not sufficient, for the behavioural property",
			"analysis is of non-test Go sources of the default build configuration (linux/amd64, no tags)",
		}, spec.assumptions...),
		"wall_s":     time.Since(t0).Seconds(),
		"violations": nViol,
	}
	b, _ := json.MarshalIndent(ev, "", " ")
	if err := os.WriteFile(filepath.Join(evDir, c.Prop+".json"), b, 0o644); err != nil {
		fmt.Println("UNDECIDED cannot write evidence:", err)
		return 2
	}
	fmt.Printf("%s %s: obligations=%d discharged=%d known=%d violated=%d info=%d rules=%d funcs=%d wall=%.1fs\n",
		c.Prop, c.Tier, nObl, nDis, nKnown, nViol, nInfo, len(c.Rules), len(fns), time.Since(t0).Seconds())
	return exit
}

var fileCache = map[string][]byte{}

func readFileCached(name string) ([]byte, error) {
	if b, ok := fileCache[name]; ok {
		return b, nil
	}
	b, err := os.ReadFile(name)
	if err == nil {
		fileCache[name] = b
	}
	return b, err
}

// modulePkgs lists the module-relative paths of every loaded package of the module that has SSA (sorted).
func (c *Ctx) modulePkgs() []string {
	var out []string
	for p := range c.SSA {
		if strings.HasPrefix(p, modPath+"/") {
			out = append(out, strings.TrimPrefix(p, modPath+"/"))
		}
	}
	sort.Strings(out)
	return out
}
