package main

import (
	"go/ast"
	"go/token"
	"os"
	"strings"

	"golang.org/x/tools/go/ssa"
)

func init() {
	register(&propSpec{
		id: "C20", title: "The cache behaves as a bounded LRU map", run: runC20,
		notCovered:  "conformance of get/set/delete histories to the sequential LRU specification, eviction order, exact byte accounting, TTL arithmetic, linearizability under concurrency",
		assumptions: []string{"lockset analysis is receiver-insensitive: holding LRUCache.mu of any instance counts as held", "container/list mutator/reader method tables are fixed in the checker"},
	})
}

const cachePkg = "pkg/cache"

func runC20(c *Ctx) {
	c.rule("C20-R7", "PAIR: every Lock/RLock of the cache's mutexes is released on every path to a return (explicit Unlock on the path, or a deferred one): no operation can return holding the lock, so every operation returns and none blocks forever whatever the value size or configuration; REACQ: no method calls, while it holds its receiver's mutex, a method of the same receiver that acquires that mutex again (sync mutexes are not re-entrant; a second RLock blocks once a writer waits)")
	c.Sites["C20-R7#acquire-sites"] = lockReleaseAudit(c, "C20-R7", []string{"pkg/cache"})
	c.floor("C20-R7", 6)
	if os.Getenv("GV_DEBUG_LOCKS") != "" {
		lockReleaseAudit(c, "DBG", c.modulePkgs())
		for _, o := range c.Obs {
			if o.Rule == "DBG" && o.Verdict == "violated" {
				println("DBG", o.Construct, o.Pos)
			}
		}
		var keep []*Obligation
		for _, o := range c.Obs {
			if o.Rule != "DBG" {
				keep = append(keep, o)
			}
		}
		c.Obs = keep
	}
	// R1: lockset
	c.rule("C20-R1", "LCK: LRUCache.items, .evictList (every container/list call through it; MoveToFront/Remove/PushFront/Init are writes) and .currentSize are accessed only with LRUCache.mu held, writes with the exclusive lock; helpers (evictOldest, removeElement) only reachable with the lock held")
	cls := cachePkg + ".LRUCache.mu"
	e := newLck(c, &lckConfig{
		rule: "C20-R1", pkgs: []string{cachePkg},
		guards: []guard{
			{typ: cachePkg + ".LRUCache", field: "items", class: cls},
			{typ: cachePkg + ".LRUCache", field: "evictList", class: cls, ptrConst: true},
			{typ: cachePkg + ".LRUCache", field: "currentSize", class: cls},
		},
		mutators: listMutators, readers: listReaders,
	})
	e.run()
	c.floor("C20-R1", 20)
	splitRMW(c, e, "C20-R1")

	// R2: loop progress — every loop that calls an evicting helper has an emptiness exit
	c.rule("C20-R2", "loop-progress: every loop in pkg/cache whose body (transitively) calls container/list.Remove through a helper that is a no-op on an empty list must have a loop exit controlled by a test of evictList.Len() against 0, of Back()/Front() against nil, or of a boolean result of the evicting helper; otherwise the loop spins forever under the lock once the list is empty (capacity 0, or one value larger than maxSize)")
	removers := transitiveCallers(c, cachePkg, func(call ssa.CallInstruction) bool { return callName(call) == "container/list.List.Remove" })
	for _, fn := range c.srcFuncs(cachePkg) {
		for _, lp := range naturalLoops(fn) {
			// does the loop body call a remover (not via ranging over a snapshot slice)?
			var evictCall ssa.CallInstruction
			for b := range lp.body {
				for _, ins := range b.Instrs {
					if call, ok := ins.(ssa.CallInstruction); ok {
						if sf := staticFn(call); sf != nil && removers[sf] {
							evictCall = call
						}
					}
				}
			}
			if evictCall == nil {
				continue
			}
			// loops driven by their own finite iteration (range over slice/map: has a Next or an index compare with len) are exempt
			if lp.isBoundedIteration() {
				c.info("C20-R2", fnKey(fn)+"#loop->"+fnKey(staticFn(evictCall)), evictCall.Pos(), "loop iterates over a finite snapshot (range); progress is structural")
				continue
			}
			// an event loop (the janitor: `for { select { case <-ticker.C: ...; case <-done: return } }`) waits for an
			// event before every eviction: it does not spin, whatever the list holds
			waits := false
			for b := range lp.body {
				for _, ins := range b.Instrs {
					blocking := false
					switch x := ins.(type) {
					case *ssa.Select:
						blocking = x.Blocking
					case *ssa.UnOp:
						blocking = x.Op == token.ARROW
					}
					if blocking && b.Dominates(evictCall.Block()) {
						waits = true
					}
				}
			}
			if waits {
				c.info("C20-R2", fnKey(fn)+"#loop->"+fnKey(staticFn(evictCall)), evictCall.Pos(), "event loop: every eviction is preceded by a blocking receive; progress is not at stake")
				continue
			}
			ok := false
			for b := range lp.body {
				iff, isIf := b.Instrs[len(b.Instrs)-1].(*ssa.If)
				if !isIf {
					continue
				}
				exits := !lp.body[b.Succs[0]] || !lp.body[b.Succs[1]]
				if !exits {
					continue
				}
				if condTestsEmptiness(iff.Cond, evictCall) {
					ok = true
				}
			}
			c.ob("C20-R2", fnKey(fn)+"#loop->"+fnKey(staticFn(evictCall)), evictCall.Pos(), ok,
				"evict-until-fits loop has no exit that is taken when the eviction list is empty: with capacity==0 or size>maxSize the loop never terminates while holding LRUCache.mu")
		}
	}
	c.floor("C20-R2", 2)

	// R3: unlink pairing — whoever removes from the list also removes from the map and adjusts the size
	c.rule("C20-R3", "pairing: every function that calls evictList.Remove also deletes from LRUCache.items and subtracts from currentSize on every path to return; every function that calls evictList.PushFront also stores into items and adds to currentSize (the two indexes and the byte count change together)")
	for _, fn := range c.srcFuncs(cachePkg) {
		var rm, push ssa.CallInstruction
		eachCall(fn, func(call ssa.CallInstruction) {
			switch callName(call) {
			case "container/list.List.Remove":
				rm = call
			case "container/list.List.PushFront", "container/list.List.PushBack":
				push = call
			}
		})
		check := func(call ssa.CallInstruction, what string, wantMapWrite func(ssa.Instruction) bool) {
			for _, need := range []struct {
				name string
				pred func(ssa.Instruction) bool
			}{
				{"items", wantMapWrite},
				{"currentSize", func(ins ssa.Instruction) bool { return isStoreToField(ins, "LRUCache", "currentSize") }},
			} {
				q := &pathQuery{fn: fn, stop: need.pred, target: isReturn}
				ret, path := q.after(call.(ssa.Instruction))
				c.ob("C20-R3", fnKey(fn)+"#"+what+"->"+need.name, call.Pos(), ret == nil,
					"a return is reachable after "+what+" without updating LRUCache."+need.name, c.blockPath(path)...)
			}
		}
		if rm != nil {
			check(rm, "list.Remove", func(ins ssa.Instruction) bool {
				call, ok := ins.(ssa.CallInstruction)
				return ok && callName(call) == "builtin.delete" && loadedFromField(call.Common().Args[0], "LRUCache", "items")
			})
		}
		if push != nil {
			check(push, "list.PushFront", func(ins ssa.Instruction) bool {
				mu, ok := ins.(*ssa.MapUpdate)
				return ok && loadedFromField(mu.Map, "LRUCache", "items")
			})
		}
	}
	c.floor("C20-R3", 6)

	// R4: Get returns only unexpired entries
	c.rule("C20-R4", "MPT: in LRUCache.Get every return of a present value (second result true) is reached only through the false edge of Entry.IsExpired() on the looked-up entry")
	if get := c.mustFn("C20-R4", cachePkg, "LRUCache.Get"); get != nil {
		var expCalls []ssa.Value
		eachCall(get, func(call ssa.CallInstruction) {
			if strings.HasSuffix(callName(call), "cache.Entry.IsExpired") {
				expCalls = append(expCalls, call.(ssa.Value))
			}
		})
		q := &pathQuery{fn: get,
			cutEdge: func(b *ssa.BasicBlock, si int) bool {
				for _, ec := range expCalls {
					if known, val := boolOnEdge(b, si, ec); known && !val {
						return true
					}
				}
				return false
			},
			target: func(ins ssa.Instruction) bool {
				r, ok := ins.(*ssa.Return)
				if !ok || len(r.Results) != 2 {
					return false
				}
				return !isConstBool(retVals(r)[1], false)
			}}
		ret, path := q.fromEntry()
		c.ob("C20-R4", cachePkg+".LRUCache.Get#hit-return", get.Pos(), ret == nil && len(expCalls) > 0,
			"LRUCache.Get can return a hit without having taken the not-expired edge of Entry.IsExpired", c.blockPath(path)...)
	}

	// R6: overwrite replaces the whole entry (or at least its expiry)
	c.rule("C20-R6", "MPT: in Set and SetWithTags, on the key-already-present edge every path to return installs the expiry of the new value: it stores the freshly built Entry (whose ExpiresAt was computed from this call's ttl) into the list element, or assigns Entry.ExpiresAt — otherwise a lookup can return a value past its own TTL; and every such path to a success return moves the entry to the front of the recency list (a write is a use)")
	for _, name := range []string{"LRUCache.Set", "LRUCache.SetWithTags"} {
		fn := c.mustFn("C20-R6", cachePkg, name)
		if fn == nil {
			continue
		}
		entry := fn // the function that holds the key-already-present branch: Set itself, or a helper it hands the new entry to
		var site *ssa.Call
		hasLookup := func(f *ssa.Function) bool {
			r := false
			eachInstr(f, func(_ *ssa.BasicBlock, _ int, ins ssa.Instruction) {
				if lk, ok := ins.(*ssa.Lookup); ok && lk.CommaOk && loadedFromField(lk.X, "LRUCache", "items") {
					r = true
				}
			})
			return r
		}
		if !hasLookup(fn) {
			eachInstr(fn, func(_ *ssa.BasicBlock, _ int, ins ssa.Instruction) {
				if cl, ok := ins.(*ssa.Call); ok && site == nil {
					if sf := staticFn(cl); sf != nil && sf.Pkg == fn.Pkg && hasLookup(sf) {
						site = cl
					}
				}
			})
			if site != nil {
				fn = staticFn(site)
			}
		}
		freshEntry := func(v ssa.Value) bool {
			al, ok := v.(*ssa.Alloc)
			if !ok || !typeIs(al.Type(), modPath+"/pkg/cache", "Entry") {
				return false
			}
			for _, r := range refs(al) {
				if fa, ok := r.(*ssa.FieldAddr); ok {
					if _, f2, _ := fieldOf(fa); f2 == "ExpiresAt" {
						return true
					}
				}
			}
			return false
		}
		var oks []ssa.Value
		eachInstr(fn, func(_ *ssa.BasicBlock, _ int, ins ssa.Instruction) {
			if lk, ok := ins.(*ssa.Lookup); ok && lk.CommaOk && loadedFromField(lk.X, "LRUCache", "items") {
				oks = append(oks, extractOf(lk, 1)...)
			}
		})
		// a helper that is handed the list element and the new entry and does the replacing
		helperDoes := func(x ssa.Instruction, what string) bool {
			cl, ok := x.(*ssa.Call)
			if !ok {
				return false
			}
			h := staticFn(cl)
			if h == nil || h.Pkg != fn.Pkg || len(h.Blocks) == 0 {
				return false
			}
			switch what {
			case "installs":
				okInst := false
				eachInstr(h, func(_ *ssa.BasicBlock, _ int, y ssa.Instruction) {
					st, ok := y.(*ssa.Store)
					if !ok {
						return
					}
					if nt, f, ok := fieldOf(st.Addr); ok && nt != nil && nt.Obj().Name() == "Element" && f == "Value" {
						for i, p := range h.Params {
							if derivesFrom(st.Val, func(v ssa.Value) bool { return v == ssa.Value(p) }) && i < len(cl.Call.Args) && derivesFrom(cl.Call.Args[i], freshEntry) {
								okInst = true
							}
						}
					}
				})
				return okInst
			case "bumps":
				q := &pathQuery{fn: h, target: isReturn, stop: func(y ssa.Instruction) bool {
					return isCallTo(y, "container/list.List.MoveToFront", "container/list.List.PushFront")
				}}
				hit, _ := q.fromEntry()
				return hit == nil
			}
			return false
		}
		installs := func(x ssa.Instruction) bool {
			if helperDoes(x, "installs") {
				return true
			}
			st, ok := x.(*ssa.Store)
			if !ok {
				return false
			}
			if isStoreToField(st, "Entry", "ExpiresAt") && !isFreshAlloc(st.Addr) {
				return true
			}
			if nt, f, ok := fieldOf(st.Addr); ok && nt != nil && nt.Obj().Name() == "Element" && f == "Value" {
				// value is a fresh Entry of this call with an ExpiresAt store
				return derivesFrom(st.Val, func(v ssa.Value) bool {
					if freshEntry(v) {
						return true
					}
					// in a helper: the entry it was handed, which the caller built for this call
					if p, ok := v.(*ssa.Parameter); ok && site != nil {
						for i, fp := range fn.Params {
							if fp == p && i < len(site.Call.Args) {
								return derivesFrom(site.Call.Args[i], freshEntry)
							}
						}
					}
					return false
				})
			}
			return false
		}
		n := 0
		for _, b := range fn.Blocks {
			for si, s := range b.Succs {
				for _, o := range oks {
					if known, val := boolOnEdge(b, si, o); known && val {
						n++
						q := &pathQuery{fn: fn, target: isReturn, stop: installs}
						hit, path := q.from(s, 0)
						c.ob("C20-R6", cachePkg+"."+name+"#overwrite-installs-new-expiry", ifOf(b).Cond.Pos(), hit == nil, "overwriting an existing key can return without installing the new value's expiry: the old (longer) TTL keeps a value alive past its own TTL", c.blockPath(path)...)
						// a write is a use: the overwritten key becomes the most recently used on every path to a success
						// return (moved to the front, or removed and pushed to the front again)
						bumps := func(x ssa.Instruction) bool {
							return isCallTo(x, "container/list.List.MoveToFront", "container/list.List.PushFront") || helperDoes(x, "bumps")
						}
						q2 := &pathQuery{fn: fn, stop: bumps, target: func(x ssa.Instruction) bool {
							r, ok := x.(*ssa.Return)
							if ok && fn != entry { // the helper's report that it replaced the entry
								return len(r.Results) == 0 || !isConstBool(retVals(r)[0], false)
							}
							return ok && (len(r.Results) == 0 || isNilConst(stripConv(retVals(r)[len(r.Results)-1])))
						}}
						hit2, path2 := q2.from(s, 0)
						c.ob("C20-R6", cachePkg+"."+name+"#overwrite-makes-the-key-most-recent", ifOf(b).Cond.Pos(), hit2 == nil, "overwriting an existing key can return successfully without moving the entry to the front of the recency list (a shortcut for an unchanged value): a key that is refreshed by writes only is evicted before keys nobody has touched since", c.blockPath(path2)...)
					}
				}
			}
		}
		if n == 0 {
			c.ob("C20-R6", cachePkg+"."+name+"#overwrite-branch", entry.Pos(), false, "no key-already-present branch found")
		}
	}

	// R8: growth of the byte count consults the byte limit
	c.rule("C20-R8", "MPT: the byte size never exceeds the configured limit only if every operation that makes the accounted size grow looks at the limit: in pkg/cache no path leads from the entry of an exported method through an addition to LRUCache.currentSize to a return without evaluating a condition on LRUCache.maxSize (the can-never-fit rejection, the evict-until-fits loop) before or after the addition - in the method itself or in a helper it calls. Replacing the value of a key that is cached already is such a growth")
	{
		consults := func(f *ssa.Function) bool {
			r := false
			eachInstr(f, func(_ *ssa.BasicBlock, _ int, ins ssa.Instruction) {
				if iff, ok := ins.(*ssa.If); ok && derivesFrom(iff.Cond, func(v ssa.Value) bool { return loadedFromField(v, "LRUCache", "maxSize") }) {
					r = true
				}
			})
			return r
		}
		fns := c.srcFuncs(cachePkg)
		isConsult := func(x ssa.Instruction) bool {
			if iff, ok := x.(*ssa.If); ok {
				return derivesFrom(iff.Cond, func(v ssa.Value) bool { return loadedFromField(v, "LRUCache", "maxSize") })
			}
			if cl, ok := x.(*ssa.Call); ok {
				if sf := staticFn(cl); sf != nil && sf.Pkg != nil && sf.Pkg.Pkg.Path() == modPath+"/"+cachePkg {
					return consults(sf)
				}
			}
			return false
		}
		unguarded := map[*ssa.Function]bool{} // helpers whose growth is not judged in themselves: lifted to their callers
		nAdds := 0
		for round := 0; round < 3; round++ {
			for _, fn := range fns {
				if fn.Signature.Recv() == nil || unguarded[fn] {
					continue
				}
				var adds []ssa.Instruction
				eachInstr(fn, func(_ *ssa.BasicBlock, _ int, ins ssa.Instruction) {
					switch x := ins.(type) {
					case *ssa.Store:
						if !isStoreToField(x, "LRUCache", "currentSize") {
							return
						}
						if bo, ok := x.Val.(*ssa.BinOp); ok && bo.Op == token.ADD && (loadedFromField(bo.X, "LRUCache", "currentSize") || loadedFromField(bo.Y, "LRUCache", "currentSize")) {
							adds = append(adds, ins)
						}
					case *ssa.Call:
						if sf := staticFn(x); sf != nil && unguarded[sf] {
							adds = append(adds, ins)
						}
					}
				})
				for k, a := range adds {
					q1 := &pathQuery{fn: fn, stop: isConsult, target: func(x ssa.Instruction) bool { return x == a }}
					h1, p1 := q1.fromEntry()
					bad := false
					var path []*ssa.BasicBlock
					if h1 != nil {
						q2 := &pathQuery{fn: fn, stop: isConsult, target: isReturn}
						h2, p2 := q2.after(a)
						if h2 != nil {
							bad = true
							path = append(p1, p2...)
						}
					}
					callers := 0
					for _, g := range fns {
						eachCall(g, func(cl ssa.CallInstruction) {
							if staticFn(cl) == fn {
								callers++
							}
						})
					}
					if bad && !ast.IsExported(fn.Name()) && callers > 0 {
						unguarded[fn] = true // judged where it is called
						continue
					}
					if round == 2 {
						nAdds++
						c.ob("C20-R8", fnKey(fn)+"#growth-consults-the-byte-limit-"+itoa(k+1), a.Pos(), !bad, "the accounted size grows on a path that never looks at the configured byte limit: replacing the value of a cached key by a larger one takes the cache above its limit (a value that is refused for a new key as too large is accepted for an existing one) and nothing is evicted", c.blockPath(path)...)
					}
				}
			}
		}
		c.Sites["C20-R8#size-additions"] = nAdds
		c.floor("C20-R8", 2)
	}

	// R9: timers of the background sweep take a positive interval
	c.rule("C20-R9", "PAN: every operation returns for every configuration: time.NewTicker / time.Tick panic on a non-positive interval, so in pkg/cache their argument is a positive constant or a value established positive on a dominating edge (a sweep interval derived from a TTL that may be zero, negative or one nanosecond ends the process from the janitor goroutine right after the constructor returned)")
	{
		n := 0
		for _, fn := range c.srcFuncs(cachePkg) {
			k := 0
			eachInstr(fn, func(_ *ssa.BasicBlock, _ int, ins ssa.Instruction) {
				cl, ok := ins.(*ssa.Call)
				if !ok || (callName(cl) != "time.NewTicker" && callName(cl) != "time.Tick") {
					return
				}
				k++
				n++
				arg := cl.Call.Args[0]
				okPos := false
				if v, isK := constInt(arg); isK && v > 0 {
					okPos = true
				}
				if pr, isP := arg.(*ssa.Parameter); isP && !okPos {
					// the interval is handed in: every caller of the package (call, go or defer) hands over a positive constant
					pi := -1
					for i, fp := range fn.Params {
						if fp == pr {
							pi = i
						}
					}
					sites, good := 0, 0
					for _, g := range c.srcFuncs(cachePkg) {
						eachCall(g, func(cs ssa.CallInstruction) {
							if staticFn(cs) != fn || pi < 0 || pi >= len(cs.Common().Args) {
								return
							}
							sites++
							if v, isK := constInt(cs.Common().Args[pi]); isK && v > 0 {
								good++
							}
						})
					}
					if sites > 0 && sites == good {
						okPos = true
					}
				}
				if !okPos {
					q := &pathQuery{fn: fn, target: func(x ssa.Instruction) bool { return x == ins }, cutEdge: func(b *ssa.BasicBlock, si int) bool {
						iff := ifOf(b)
						if iff == nil {
							return false
						}
						bo, ok := iff.Cond.(*ssa.BinOp)
						if !ok || !sameVal(bo.X, arg) {
							return false
						}
						v, isK := constInt(bo.Y)
						if !isK || v < 0 {
							return false
						}
						return (bo.Op == token.GTR && si == 0) || (bo.Op == token.LEQ && si == 1)
					}}
					hit, _ := q.fromEntry()
					okPos = hit == nil
				}
				c.ob("C20-R9", fnKey(fn)+"#ticker-interval-positive-"+itoa(k), cl.Pos(), okPos, "the interval handed to "+short(callName(cl))+" is not a positive constant and not established positive: a configuration that makes it zero or negative (a sweep interval derived from a tiny or absent TTL) panics in the background goroutine and ends the process")
			})
		}
		c.Sites["C20-R9#tickers"] = n
		c.ob("C20-R9", cachePkg+"#tickers-examined", token.NoPos, true, "")
	}

	// R5: advisory — callbacks invoked while holding the lock
	c.rule("C20-R5", "advisory: calls through function-valued fields (onEvict) while LRUCache.mu is held are listed (re-entrancy deadlock if the callback touches the cache); never a violation")
	for _, fn := range c.srcFuncs(cachePkg) {
		eachCall(fn, func(call ssa.CallInstruction) {
			if u, ok := call.Common().Value.(*ssa.UnOp); ok && u.Op == token.MUL {
				if _, f, ok := fieldOf(u.X); ok && f == "onEvict" {
					c.info("C20-R5", fnKey(fn)+"#call-onEvict", call.Pos(), "user callback invoked under LRUCache.mu")
				}
			}
		})
	}
}
