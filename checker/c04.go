package main

import (
	"go/token"
	"go/types"
	"os"
	"strings"

	"golang.org/x/tools/go/ssa"
)

func init() {
	register(&propSpec{
		id: "C04", title: "Faults in user programs are contained", run: runC04,
		variants:    []buildVariant{{name: "GOARCH=386", env: []string{"GOARCH=386"}}},
		notCovered:  "slice/map index panics and nil dereferences in general, stack exhaustion inside Go libraries, wall-clock bounds, the numeric value of the limits; the claim is layered: every loop/recursion driver has its bound in place, the enumerated panic classes are guarded, a panic that still happens is contained, and 5xx bodies are generic",
		assumptions: []string{"dynamic interface values that can hold uncomparable data are interface{} and vm.Value", "a goroutine 'runs user code' when its closure reaches executeStatements / EvaluateExpression / (*VM).executeRaw / Execute"},
	})
}

func isAtomicAddOn(ins ssa.Instruction, typ, field string, sign int) bool {
	call, ok := ins.(ssa.CallInstruction)
	if !ok || callName(call) != "sync/atomic.AddInt64" {
		return false
	}
	nt, f, ok := fieldOf(call.Common().Args[0])
	if !ok || nt == nil || nt.Obj().Name() != typ || f != field {
		return false
	}
	k, ok := constInt(call.Common().Args[1])
	return ok && ((sign > 0 && k > 0) || (sign < 0 && k < 0))
}

// unwindLeak: a call into module code (or a dynamic call) is reachable after inc while no deferred restore is registered:
// a panic unwinding through that call skips every explicit restore, so the counter leaks. Returns the offending call.
func unwindLeak(fn *ssa.Function, inc ssa.Instruction, isRestore func(ssa.Instruction) bool) (ssa.Instruction, []*ssa.BasicBlock) {
	risky := func(x ssa.Instruction) bool {
		call, ok := x.(*ssa.Call)
		if !ok || isRestore(x) {
			return false
		}
		if call.Call.IsInvoke() {
			return true
		}
		if f := calleeOf(call); f != nil {
			return f.Pkg() != nil && strings.HasPrefix(f.Pkg().Path(), modPath)
		}
		_, isBuiltin := call.Call.Value.(*ssa.Builtin)
		return !isBuiltin
	}
	q := &pathQuery{fn: fn, target: risky, stop: func(x ssa.Instruction) bool {
		_, isDefer := x.(*ssa.Defer)
		return isDefer && isRestore(x)
	}}
	return q.after(inc)
}

func boundsRule(c *Ctx, rule string, rels []string, floor int) {
	n := 0
	perFn := map[*ssa.Function]int{}
	for _, st := range sliceBoundsAudit(c, rels) {
		n++
		perFn[st.fn]++
		c.ob(rule, fnKey(st.fn)+"#"+st.what+"-bounds-"+itoa(perFn[st.fn]), st.ins.Pos(), st.ok, st.why+": an integer supplied by the running program reaches this "+st.what+" without the comparisons that keep it in range on every path (the values compared must be the ones used: a test made before a clamp, or against the length of a different value, proves nothing) - the Go runtime panics instead of the builtin returning its documented result or error")
	}
	c.Sites[rule+"#runtime-int-bounds-sites"] = n
	if n < floor {
		c.undecided("%s: %d index/slice/make sites with run-time integer bounds found, floor %d", rule, n, floor)
	}
}

func runC04(c *Ctx) {
	if os.Getenv("GV_DEBUG_BOUNDS") != "" {
		wideRuntimeInt = true
		for _, st := range sliceBoundsAudit(c, c.modulePkgs()) {
			println(fnKey(st.fn), c.pos(st.ins.Pos()), st.what, st.ok, st.why)
		}
		wideRuntimeInt = false
	}
	c.rule("C04-R12", "BND: in pkg/interpreter and pkg/vm every index, slice expression and make whose bound derives from an integer supplied by the running program (a type-asserted number, the payload of a VM value) is proven in range by dominating comparisons on the very SSA values used: 0 <= low <= high <= len(x), 0 <= i < len(x), make length >= 0 (phi-aware: clamps count, tests made before a clamp do not)")
	boundsRule(c, "C04-R12", []string{interpPkg, vmPkg}, 6)
	// ---------- L1 bounded work ----------
	c.rule("C04-R1", "MPT/ORD: in Interpreter.EvaluateExpression the depth counter is incremented and compared with maxEvalDepth before the dispatch type-switch (the over-limit edge returns an error without dispatching), and after the increment every path to a return passes a decrement (explicit, or a deferred one registered on that path): the budget cannot leak")
	if ev := c.mustFn("C04-R1", interpPkg, "Interpreter.EvaluateExpression"); ev != nil {
		var inc ssa.Instruction
		eachInstr(ev, func(_ *ssa.BasicBlock, _ int, ins ssa.Instruction) {
			if isAtomicAddOn(ins, "Interpreter", "evalDepth", +1) && inc == nil {
				inc = ins
			}
		})
		if inc == nil {
			c.ob("C04-R1", interpPkg+".Interpreter.EvaluateExpression#depth-increment", ev.Pos(), false, "no evaluation-depth accounting found: recursion depth is unbounded")
		} else {
			// gate before dispatch: every TypeAssert on the expr parameter (the dispatch) is dominated by a compare of the incremented depth
			var cmp *ssa.If
			for _, b := range ev.Blocks {
				if iff := ifOf(b); iff != nil {
					if bo, ok := iff.Cond.(*ssa.BinOp); ok && (bo.X == inc.(ssa.Value) || bo.Y == inc.(ssa.Value)) {
						cmp = iff
					}
				}
			}
			okGate := cmp != nil
			if cmp != nil {
				eachInstr(ev, func(_ *ssa.BasicBlock, _ int, ins ssa.Instruction) {
					if ta, ok := ins.(*ssa.TypeAssert); ok && ta.X == ssa.Value(ev.Params[1]) && !cmp.Block().Dominates(ta.Block()) {
						okGate = false
					}
					if call, ok := ins.(ssa.CallInstruction); ok && strings.HasPrefix(callName(call), interpPath+".Interpreter.evaluate") && !cmp.Block().Dominates(call.Block()) {
						okGate = false
					}
				})
			}
			c.ob("C04-R1", interpPkg+".Interpreter.EvaluateExpression#depth-test-before-dispatch", inc.Pos(), okGate, "the evaluation-depth test does not dominate the expression dispatch: deep or runaway recursion is evaluated before (or without) being refused and exhausts the Go stack (fatal, unrecoverable)")
			isDec := func(x ssa.Instruction) bool { return isAtomicAddOn(x, "Interpreter", "evalDepth", -1) }
			q := &pathQuery{fn: ev, target: isReturn, stop: isDec}
			hit, path := q.after(inc)
			c.ob("C04-R1", interpPkg+".Interpreter.EvaluateExpression#depth-decrement-on-every-exit", inc.Pos(), hit == nil, "a return is reachable after the depth increment without a decrement (explicit or deferred on that path): each such exit leaks one level of the interpreter-wide budget until every request fails with 'maximum evaluation depth exceeded'", c.blockPath(path)...)
			leak, lpath := unwindLeak(ev, inc, isDec)
			c.ob("C04-R1", interpPkg+".Interpreter.EvaluateExpression#depth-restored-when-a-panic-unwinds", inc.Pos(), leak == nil, "evaluation code runs after the depth increment with no deferred decrement registered: a Go panic unwinding through it (provider method, builtin) and recovered higher up (dispatcher, async block) skips the explicit decrement, the interpreter-wide budget leaks one level per such request, and eventually every route answers 'maximum evaluation depth exceeded' until restart", c.blockPath(lpath)...)
		}
	}

	c.rule("C04-R2", "loop bound: in Interpreter.executeWhile the iteration counter compared against maxWhileIterations advances on every way around the loop (every back-edge value of the counter phi is counter+k, k>0, including the `continue` path) and the over-limit edge leaves the loop with an error before the body runs")
	if ew := c.mustFn("C04-R2", interpPkg, "Interpreter.executeWhile"); ew != nil {
		var body ssa.Instruction
		eachInstr(ew, func(_ *ssa.BasicBlock, _ int, ins ssa.Instruction) {
			if isCallTo(ins, interpPath+".Interpreter.executeStatements") {
				body = ins
			}
		})
		var lp *loop
		for _, l := range naturalLoops(ew) {
			if body != nil && l.body[body.Block()] {
				lp = l
			}
		}
		if lp == nil || body == nil {
			c.ob("C04-R2", interpPkg+".Interpreter.executeWhile#loop", ew.Pos(), false, "while-loop body execution loop not found")
		} else {
			// counter: a phi in the header compared with a constant >= 1000
			var ctr *ssa.Phi
			var cmpIf *ssa.If
			for b := range lp.body {
				iff := ifOf(b)
				if iff == nil {
					continue
				}
				bo, ok := iff.Cond.(*ssa.BinOp)
				if !ok {
					continue
				}
				for _, pr := range [][2]ssa.Value{{bo.X, bo.Y}, {bo.Y, bo.X}} {
					if p, ok := pr[0].(*ssa.Phi); ok {
						if k, ok := constInt(pr[1]); ok && k >= 1000 {
							ctr, cmpIf = p, iff
						}
					}
				}
			}
			if ctr == nil {
				c.ob("C04-R2", interpPkg+".Interpreter.executeWhile#iteration-limit", ew.Pos(), false, "no iteration counter is compared against a limit inside the while loop: `while true {}` never returns")
			} else {
				// every edge of the counter phi coming from inside the loop advances it
				adv := true
				var resolve func(v ssa.Value, seen map[ssa.Value]bool) bool
				resolve = func(v ssa.Value, seen map[ssa.Value]bool) bool {
					if seen[v] {
						return true
					}
					seen[v] = true
					switch x := v.(type) {
					case *ssa.BinOp:
						if x.Op == token.ADD {
							if k, ok := constInt(x.Y); ok && k > 0 {
								return x.X == ssa.Value(ctr) || resolve(x.X, seen)
							}
						}
						return false
					case *ssa.Phi:
						if x == ctr {
							return false // unchanged counter flows around the loop
						}
						for _, e := range x.Edges {
							if !resolve(e, seen) {
								return false
							}
						}
						return true
					}
					return false
				}
				for i, e := range ctr.Edges {
					if lp.body[ctr.Block().Preds[i]] && !resolve(e, map[ssa.Value]bool{}) {
						adv = false
					}
				}
				c.ob("C04-R2", interpPkg+".Interpreter.executeWhile#counter-advances-on-every-iteration", ctr.Pos(), adv, "some way around the while loop (e.g. the `continue` path) does not advance the iteration counter: such a loop is never charged against maxWhileIterations and spins forever")
				// limit test dominates the body and its over-limit edge exits the loop
				exits := !lp.body[cmpIf.Block().Succs[0]] || !lp.body[cmpIf.Block().Succs[1]] || func() bool {
					for _, s := range cmpIf.Block().Succs {
						q := &pathQuery{fn: ew, target: isReturn, stop: func(x ssa.Instruction) bool { return x == body }}
						if h, _ := q.from(s, 0); h != nil {
							return true
						}
					}
					return false
				}()
				c.ob("C04-R2", interpPkg+".Interpreter.executeWhile#limit-test-dominates-body", cmpIf.Cond.Pos(), cmpIf.Block().Dominates(body.Block()) && exits, "the iteration-limit test does not dominate the body execution or has no exit")
			}
		}
	}

	c.rule("C04-R3", "typestate on *vm.VM: every VM is created with a positive step bound (NewVM stores a positive constant into maxSteps) or every NewVM() site calls SetMaxSteps(k>0) before executing; no non-test code passes 0 / a non-positive constant to SetMaxSteps; runLoop compares its step counter with maxSteps inside the loop and the over-limit edge returns an error")
	{
		defOK := false
		if nv := c.mustFn("C04-R3", vmPkg, "NewVM"); nv != nil {
			eachInstr(nv, func(_ *ssa.BasicBlock, _ int, ins ssa.Instruction) {
				if st, ok := ins.(*ssa.Store); ok && isStoreToField(st, "VM", "maxSteps") {
					if k, ok := constInt(st.Val); ok && k > 0 {
						defOK = true
					}
				}
			})
		}
		nSites := 0
		for p := range c.SSA {
			rel := strings.TrimPrefix(p, modPath+"/")
			if strings.HasPrefix(rel, "examples") {
				continue
			}
			for _, fn := range c.srcFuncs(rel) {
				k := 0
				eachInstr(fn, func(_ *ssa.BasicBlock, _ int, ins ssa.Instruction) {
					call, ok := ins.(*ssa.Call)
					if !ok {
						return
					}
					switch callName(call) {
					case vmPath + ".NewVM":
						if rel == vmPkg && fn.Name() != "execAsync" && fn.Parent() == nil {
							return
						}
						k++
						nSites++
						bounded := defOK
						if !bounded {
							// SetMaxSteps(k>0) on this VM before any Execute
							q := &pathQuery{fn: fn, target: func(x ssa.Instruction) bool {
								return isCallTo(x, vmPath+".VM.Execute", vmPath+".VM.executeRaw")
							}, stop: func(x ssa.Instruction) bool {
								c2, ok := x.(*ssa.Call)
								if !ok || callName(c2) != vmPath+".VM.SetMaxSteps" {
									return false
								}
								n, ok := constInt(c2.Call.Args[1])
								return !ok || n > 0
							}}
							h, _ := q.after(call)
							bounded = h == nil
						}
						c.ob("C04-R3", fnKey(fn)+"#NewVM-"+itoa(k)+"-has-step-bound", call.Pos(), bounded, "a VM is executed without a step bound (maxSteps 0 = unlimited): a non-terminating loop in compiled code never returns and, in a WebSocket handler, wedges the hub loop")
					case vmPath + ".VM.SetMaxSteps":
						if n, ok := constInt(call.Call.Args[1]); ok && n <= 0 {
							c.ob("C04-R3", fnKey(fn)+"#SetMaxSteps-nonpositive", call.Pos(), false, "the step bound is switched off (SetMaxSteps with a non-positive constant)")
						} else if !ok && rel != vmPkg {
							// a bound that comes from configuration (a flag, a setting): 0 means "unlimited" to the VM, so the
							// value is established positive before it replaces the default
							arg := call.Call.Args[1]
							q := &pathQuery{fn: fn, target: func(x ssa.Instruction) bool { return x == ins }, cutEdge: func(b *ssa.BasicBlock, si int) bool {
								iff := ifOf(b)
								if iff == nil {
									return false
								}
								bo, ok := iff.Cond.(*ssa.BinOp)
								if !ok || !sameVal(bo.X, arg) {
									return false
								}
								v, isK := constInt(bo.Y)
								if !isK || v < 0 {
									return false
								}
								return (bo.Op == token.GTR && si == 0) || (bo.Op == token.LEQ && si == 1) || (bo.Op == token.NEQ && v == 0 && si == 0) || (bo.Op == token.EQL && v == 0 && si == 1)
							}}
							hit, path := q.fromEntry()
							c.ob("C04-R3", fnKey(fn)+"#SetMaxSteps-value-established-positive", call.Pos(), hit == nil, "SetMaxSteps is handed a run-time value that is not established positive: the VM reads 0 as `no limit`, so a setting whose zero value means `use the default` (a CLI flag that was not given) silently switches the step bound off and a non-terminating program never returns", c.blockPath(path)...)
						}
					}
				})
			}
		}
		if nSites < 2 {
			c.undecided("C04-R3: %d NewVM sites found outside pkg/vm constructors, floor 2", nSites)
		}
		// a VM built as a literal (not through NewVM) starts with maxSteps == 0 = unlimited: it must set a positive
		// bound itself (or copy the creating VM's) before it executes
		nLit := 0
		for p := range c.SSA {
			rel := strings.TrimPrefix(p, modPath+"/")
			if strings.HasPrefix(rel, "examples") {
				continue
			}
			for _, fn := range c.srcFuncs(rel) {
				if fnKey(fn) == vmPkg+".NewVM" {
					continue
				}
				k := 0
				eachInstr(fn, func(_ *ssa.BasicBlock, _ int, ins ssa.Instruction) {
					al, ok := ins.(*ssa.Alloc)
					if !ok || !typeIs(derefPtr(al.Type()), vmPath, "VM") {
						return
					}
					// only literals that are initialised here (some field store), not `var vm VM` copies of a built one
					init, bounded := false, false
					for _, r := range refs(al) {
						fa, ok := r.(*ssa.FieldAddr)
						if !ok {
							continue
						}
						for _, rr := range refs(fa) {
							st, ok := rr.(*ssa.Store)
							if !ok || st.Addr != ssa.Value(fa) {
								continue
							}
							init = true
							if _, f, ok := fieldOf(fa); ok && f == "maxSteps" {
								if kv, isK := constInt(st.Val); !isK || kv > 0 {
									bounded = true
								}
							}
						}
					}
					// a whole-struct copy of an existing VM carries its bound
					for _, r := range refs(al) {
						if st, ok := r.(*ssa.Store); ok && st.Addr == ssa.Value(al) {
							if _, isC := st.Val.(*ssa.Const); !isC {
								bounded = true
							}
						}
					}
					if !init {
						return
					}
					nLit++
					k++
					c.ob("C04-R3", fnKey(fn)+"#VM-literal-"+itoa(k)+"-has-step-bound", al.Pos(), bounded, "a VM is built as a literal without a step bound (maxSteps stays 0 = unlimited; only NewVM installs the default): a non-terminating loop in the code it runs - the body of a compiled async block - is never stopped and its goroutine spins for ever")
				})
			}
		}
		c.Sites["C04-R3#VM-literals"] = nLit
		// a VM created by a running VM (the body of an async block) runs the same program for the same request: it is
		// held to the bound its creator was given, not to the package default
		nChild := 0
		for _, fn := range c.srcFuncs(vmPkg) {
			top := fn
			for top.Parent() != nil {
				top = top.Parent()
			}
			if top.Signature.Recv() == nil || !typeIs(derefPtr(top.Signature.Recv().Type()), vmPath, "VM") {
				continue
			}
			k := 0
			eachInstr(fn, func(_ *ssa.BasicBlock, _ int, ins ssa.Instruction) {
				var made ssa.Value
				switch x := ins.(type) {
				case *ssa.Call:
					if callName(x) == vmPath+".NewVM" {
						made = x
					}
				case *ssa.Alloc:
					if typeIs(derefPtr(x.Type()), vmPath, "VM") && x.Comment == "complit" {
						made = x
					}
				}
				if made == nil {
					return
				}
				k++
				nChild++
				fromCreator := func(v ssa.Value) bool {
					return derivesFrom(v, func(z ssa.Value) bool { return loadedFromField(z, "VM", "maxSteps") })
				}
				inherits := false
				for _, r := range refs(made) {
					switch y := r.(type) {
					case *ssa.FieldAddr:
						if _, f, ok := fieldOf(y); ok && f == "maxSteps" {
							for _, rr := range refs(y) {
								if st, ok := rr.(*ssa.Store); ok && st.Addr == ssa.Value(y) && fromCreator(st.Val) {
									inherits = true
								}
							}
						}
					case *ssa.Call:
						if callName(y) == vmPath+".VM.SetMaxSteps" && len(y.Call.Args) == 2 && y.Call.Args[0] == made && fromCreator(y.Call.Args[1]) {
							inherits = true
						}
					}
				}
				c.ob("C04-R3", fnKey(fn)+"#child-VM-"+itoa(k)+"-inherits-the-step-bound", ins.Pos(), inherits, "a VM created by a running VM (for the body of an async block) does not take over its creator's step bound: a route limited with SetMaxSteps(n) runs every async body under the package default instead - each block a fresh budget of its own, spinning on after Execute has returned")
			})
		}
		c.Sites["C04-R3#child-VMs"] = nChild
		stepLimitInRunLoop(c, "C04-R3")
	}

	// ---------- L3 containment ----------
	c.rule("C04-R5", "GOR/MPT: every HTTP dispatch entry (cmd/glyph.createHandler's closure; pkg/server.RecoveryMiddleware's closure for the library server) has a deferred function that calls recover() itself and, on the recovered edge, writes status 500")
	recoverTo500 := func(fn *ssa.Function) bool {
		ok := false
		eachInstr(fn, func(_ *ssa.BasicBlock, _ int, ins ssa.Instruction) {
			d, isD := ins.(*ssa.Defer)
			if !isD {
				return
			}
			mc, isC := d.Call.Value.(*ssa.MakeClosure)
			if !isC {
				return
			}
			df := mc.Fn.(*ssa.Function)
			var rec ssa.Value
			eachInstr(df, func(_ *ssa.BasicBlock, _ int, x ssa.Instruction) {
				if cl, ok := x.(*ssa.Call); ok && callName(cl) == "builtin.recover" {
					rec = cl
				}
			})
			if rec == nil {
				return
			}
			for _, b := range df.Blocks {
				for si, s := range b.Succs {
					if !nonNilOnEdge(b, si, rec) {
						continue
					}
					q := &pathQuery{fn: df, target: func(x ssa.Instruction) bool {
						cl, ok := x.(ssa.CallInstruction)
						if !ok {
							return false
						}
						k, ok := statusConstWritten(cl, 0)
						return ok && k >= 500
					}}
					if h, _ := q.from(s, 0); h != nil {
						ok = true
					}
				}
			}
		})
		return ok
	}
	if ch := c.mustFn("C04-R5", glyphCmd, "createHandler"); ch != nil {
		found := false
		for _, cl := range innerClosures(ch) {
			if cl.Parent() == ch && len(cl.Params) == 2 {
				found = true
				c.ob("C04-R5", "cmd/glyph.createHandler$dispatch#recovers-to-500", cl.Pos(), recoverTo500(cl), "the HTTP dispatcher has no deferred recover that answers 500: a panic in a route body, provider call or middleware reaches the client as a dropped connection")
			}
		}
		if !found {
			c.ob("C04-R5", "cmd/glyph.createHandler#dispatch-closure", ch.Pos(), false, "dispatch closure not found")
		}
	}
	if rm := c.mustFn("C04-R5", serverPkg, "RecoveryMiddleware"); rm != nil {
		ok := false
		for _, cl := range innerClosures(rm) {
			if recoverTo500(cl) {
				ok = true
			}
		}
		c.ob("C04-R5", serverPkg+".RecoveryMiddleware#recovers-to-500", rm.Pos(), ok, "RecoveryMiddleware no longer recovers and answers 500")
	}

	c.rule("C04-R6", "GOR: every goroutine started in pkg/interpreter or pkg/vm whose body can run user code (reaches executeStatements / EvaluateExpression / VM.executeRaw / VM.Execute / a handler callback) begins with a deferred function that calls recover(); an unrecovered panic in such a goroutine terminates the whole process")
	for _, rel := range []string{interpPkg, vmPkg, serverPkg, glyphCmd} {
		for _, fn := range c.srcFuncs(rel) {
			k := 0
			eachInstr(fn, func(_ *ssa.BasicBlock, _ int, ins ssa.Instruction) {
				g, ok := ins.(*ssa.Go)
				if !ok {
					return
				}
				if rel == serverPkg || rel == glyphCmd {
					// the HTTP layer: a goroutine that invokes a route handler (the rest of the middleware chain and the
					// route body) runs outside every recover of the dispatcher's goroutine
					var body *ssa.Function
					if mc, ok := g.Call.Value.(*ssa.MakeClosure); ok {
						body = mc.Fn.(*ssa.Function)
					} else if sf := g.Call.StaticCallee(); sf != nil {
						body = sf
					}
					if body == nil {
						return
					}
					if !reachesInstr(body, func(x ssa.Instruction) bool { return isHandlerValueCall(x, serverPath, "RouteHandler") }, 0, map[*ssa.Function]bool{}) {
						return
					}
					k++
					c.ob("C04-R6", fnKey(fn)+"#go-"+itoa(k)+"-recovers", g.Pos(), goBodyRecovers(body), "a middleware runs the rest of the chain (and the route body) on a goroutine of its own without a deferred recover: the dispatcher's recover does not cover that goroutine, so a panic in a route body kills the server process instead of being answered with a 500")
					return
				}
				var body *ssa.Function
				if mc, ok := g.Call.Value.(*ssa.MakeClosure); ok {
					body = mc.Fn.(*ssa.Function)
				} else if sf := g.Call.StaticCallee(); sf != nil {
					body = sf
				}
				if body == nil {
					return
				}
				runsUser := reachesInstr(body, func(x ssa.Instruction) bool {
					if isCallTo(x, interpPath+".Interpreter.executeStatements", interpPath+".Interpreter.EvaluateExpression", interpPath+".Interpreter.ExecuteStatement", vmPath+".VM.executeRaw", vmPath+".VM.Execute") {
						return true
					}
					// dynamic call of a function value (handler / callback)
					if cl, ok := x.(*ssa.Call); ok && !cl.Call.IsInvoke() && cl.Call.StaticCallee() == nil {
						if _, isB := cl.Call.Value.(*ssa.Builtin); !isB {
							return true
						}
					}
					return false
				}, 0, map[*ssa.Function]bool{})
				if !runsUser {
					return
				}
				k++
				hasRec := false
				eachInstr(body, func(_ *ssa.BasicBlock, _ int, x ssa.Instruction) {
					if d, ok := x.(*ssa.Defer); ok {
						if mc, ok := d.Call.Value.(*ssa.MakeClosure); ok {
							eachCall(mc.Fn.(*ssa.Function), func(c2 ssa.CallInstruction) {
								if callName(c2) == "builtin.recover" {
									hasRec = true
								}
							})
						}
					}
				})
				c.ob("C04-R6", fnKey(fn)+"#go-"+itoa(k)+"-recovers", g.Pos(), hasRec, "a goroutine that runs user code has no deferred recover: a panic in it (any unchecked operation in the block) kills the server process")
			})
		}
	}
	c.floor("C04-R6", 2)

	// ---------- L4 panic-site audit ----------
	c.rule("C04-R8", "PAN: in pkg/interpreter and pkg/vm no ==/!= compares two dynamic interface values (interface{} / vm.Value) unless one operand is statically comparable (constant, conversion of a comparable concrete type, fmt.Sprint result) or the comparison is behind a reflect.Type.Comparable guard on an operand; exception: the numeric operands produced by CoerceNumeric under its `coerced` flag")
	ifaceEqAudit(c, "C04-R8", []string{interpPkg, vmPkg}, map[string]string{
		interpPkg + ".Interpreter.evaluateEq#iface-eq-1": "coercedLeft == coercedRight under the coerced flag: CoerceNumeric returns int64/float64 pairs there",
	})
	c.floor("C04-R8", 1)

	c.rule("C04-R9", "PAN: every Go integer division / remainder in pkg/interpreter and pkg/vm whose divisor is not a non-zero constant is dominated by a comparison of that divisor with zero whose zero edge does not reach the division")
	for _, rel := range []string{interpPkg, vmPkg} {
		for _, fn := range c.srcFuncs(rel) {
			k := 0
			eachInstr(fn, func(_ *ssa.BasicBlock, _ int, ins ssa.Instruction) {
				bo, ok := ins.(*ssa.BinOp)
				if !ok || (bo.Op != token.QUO && bo.Op != token.REM) {
					return
				}
				bt, ok := bo.X.Type().Underlying().(*types.Basic)
				if !ok || bt.Info()&types.IsInteger == 0 {
					return
				}
				if n, ok := constInt(bo.Y); ok && n != 0 {
					return
				}
				k++
				// cut the edges that establish divisor != 0
				q := &pathQuery{fn: fn, target: func(x ssa.Instruction) bool { return x == ins }, cutEdge: func(b *ssa.BasicBlock, si int) bool {
					iff := ifOf(b)
					if iff == nil {
						return false
					}
					for _, f := range neFacts(iff.Cond, si == 0) {
						for _, pr := range [][2]ssa.Value{{f.x, f.y}, {f.y, f.x}} {
							if sameVal(pr[0], bo.Y) {
								if n, ok := constInt(pr[1]); ok && n == 0 {
									return true
								}
							}
						}
					}
					// divisor > 0 true edge / divisor <= 0 false edge
					if c2, ok := iff.Cond.(*ssa.BinOp); ok && sameVal(c2.X, bo.Y) {
						if n, ok := constInt(c2.Y); ok && n == 0 {
							if (c2.Op == token.GTR && si == 0) || (c2.Op == token.LEQ && si == 1) {
								return true
							}
						}
					}
					return false
				}}
				hit, path := q.fromEntry()
				c.ob("C04-R9", fnKey(fn)+"#int-div-"+itoa(k), bo.Pos(), hit == nil, "integer division/remainder by a value not established non-zero: a zero divisor panics", c.blockPath(path)...)
			})
		}
	}

	// library calls that panic on a non-positive argument: the argument is established positive on the very value passed
	{
		nRand := 0
		for _, rel := range []string{interpPkg, vmPkg} {
			for _, fn := range c.srcFuncs(rel) {
				k := 0
				eachInstr(fn, func(_ *ssa.BasicBlock, _ int, ins ssa.Instruction) {
					call, ok := ins.(*ssa.Call)
					if !ok {
						return
					}
					switch callName(call) {
					case "math/rand.Int63n", "math/rand.Intn", "math/rand.Int31n", "math/rand.Rand.Int63n", "math/rand.Rand.Intn", "math/rand.Rand.Int31n",
						"math/rand/v2.IntN", "math/rand/v2.Int64N", "math/rand/v2.Int32N", "math/rand/v2.N":
					default:
						return
					}
					arg := call.Call.Args[len(call.Call.Args)-1]
					if n, ok := constInt(arg); ok && n > 0 {
						return
					}
					k++
					nRand++
					q := &pathQuery{fn: fn, target: func(x ssa.Instruction) bool { return x == ins }, cutEdge: func(b *ssa.BasicBlock, si int) bool {
						iff := ifOf(b)
						if iff == nil {
							return false
						}
						c2, ok := iff.Cond.(*ssa.BinOp)
						if !ok {
							return false
						}
						if sameVal(c2.X, arg) {
							if n, ok := constInt(c2.Y); ok {
								switch {
								case c2.Op == token.GTR && n >= 0 && si == 0, c2.Op == token.GEQ && n >= 1 && si == 0,
									c2.Op == token.LEQ && n >= 0 && si == 1, c2.Op == token.LSS && n >= 1 && si == 1:
									return true
								}
							}
						}
						if sameVal(c2.Y, arg) {
							if n, ok := constInt(c2.X); ok {
								switch {
								case c2.Op == token.LSS && n >= 0 && si == 0, c2.Op == token.LEQ && n >= 1 && si == 0,
									c2.Op == token.GEQ && n >= 0 && si == 1, c2.Op == token.GTR && n >= 1 && si == 1:
									return true
								}
							}
						}
						return false
					}}
					hit, path := q.fromEntry()
					c.ob("C04-R9", fnKey(fn)+"#rand-bound-positive-"+itoa(k), call.Pos(), hit == nil, "the bound handed to "+short(callName(call))+" is not established positive on the value passed (a test of the operands it was computed from does not survive overflow): randomInt(0, 9223372036854775807) computes max-min+1 = a negative number and the call panics - a Go panic instead of a GlyphLang error", c.blockPath(path)...)
				})
			}
		}
		c.Sites["C04-R9#rand-bounds"] = nRand
	}

	c.rule("C04-R14", "REC: a program can build a value that contains itself (`$ node.parent = node`, `a[0] = a`), and a Go stack overflow is not recoverable: the recursive copier of the async snapshot (the function Environment.Snapshot copies bindings through) enters every container in its memo before it visits the container's elements, and hands a container back uncopied only when it is nil (clauses of C09-R2, evaluated here for the no-crash property)")
	if snap := c.fn(interpPkg, "Environment.Snapshot"); snap != nil {
		n := 0
		seen := map[*ssa.Function]bool{}
		eachInstr(snap, func(_ *ssa.BasicBlock, _ int, ins ssa.Instruction) {
			mu, ok := ins.(*ssa.MapUpdate)
			if !ok {
				return
			}
			derivesFrom(mu.Value, func(v ssa.Value) bool {
				if cl, ok := v.(*ssa.Call); ok && isCopier(staticFn(cl)) && !seen[staticFn(cl)] {
					seen[staticFn(cl)] = true
					n++
					checkCopier(c, "C04-R14", staticFn(cl))
				}
				return false
			})
		})
		c.Sites["C04-R14#copiers"] = n
		c.ob("C04-R14", interpPkg+".Environment.Snapshot#copier-examined", snap.Pos(), n > 0, "the async snapshot does not copy bindings through a recursive copier any more: nothing to hold to the memo clause (see C09-R2)")
	}

	// ---------- L2 generic error bodies ----------
	c.rule("C04-R13", "TNT: an error that can come from evaluating program code (Interpreter.EvaluateExpression, executeStatements, and every function of pkg/interpreter whose returned error can derive from theirs: ApplyTypeDefaults for a default expression, a query-default helper) is a fault of the program, not of the caller: in pkg/interpreter no Response literal with a 4xx StatusCode carries text derived from such an error (4xx with the error text is reserved for what the request got wrong - its query string, its body)")
	{
		sp := c.spkg(interpPkg)
		evalErr := map[*ssa.Function]bool{}
		if sp != nil {
			for _, nm := range []string{"Interpreter.EvaluateExpression", "Interpreter.executeStatements", "Interpreter.ExecuteStatement"} {
				if f := c.fn(interpPkg, nm); f != nil {
					evalErr[f] = true
				}
			}
			fns := c.srcFuncs(interpPkg)
			fromEval := func(v ssa.Value) bool {
				return derivesFrom(v, func(x ssa.Value) bool {
					ex, ok := x.(*ssa.Extract)
					if !ok {
						return false
					}
					cl, ok := ex.Tuple.(*ssa.Call)
					if !ok {
						return false
					}
					sf := staticFn(cl)
					return sf != nil && evalErr[sf] && isErrorType(ex.Type())
				})
			}
			for changed := true; changed; {
				changed = false
				for _, f := range fns {
					if evalErr[f] || f.Signature.Results().Len() == 0 || !isErrorType(f.Signature.Results().At(f.Signature.Results().Len()-1).Type()) {
						continue
					}
					// validators and converters judge the request, whatever they call
					if nm := f.Name(); strings.Contains(nm, "CheckType") || strings.Contains(nm, "Validate") || strings.Contains(nm, "convert") || strings.Contains(nm, "Query") && !strings.Contains(nm, "resolve") {
						continue
					}
					eachInstr(f, func(_ *ssa.BasicBlock, _ int, ins ssa.Instruction) {
						r, ok := ins.(*ssa.Return)
						if !ok || len(r.Results) == 0 {
							return
						}
						rv := retVals(r)
						if fromEval(rv[len(rv)-1]) && !evalErr[f] {
							evalErr[f] = true
							changed = true
						}
					})
				}
			}
			n := 0
			ks := map[*ssa.Function]int{}
			eachResponseMade(fns, responseCtors(c), func(f *ssa.Function, at ssa.Instruction, status int64, body ssa.Value) {
				if status < 400 || status >= 500 || body == nil {
					return
				}
				n++
				ks[f]++
				c.ob("C04-R13", fnKey(f)+"#4xx-body-carries-no-evaluation-error-"+itoa(ks[f]), at.Pos(), !fromEval(body), "a 4xx response is built from an error that can come from evaluating program code (a default expression that faults): the client is told it made a mistake and is shown interpreter error text, where a fault of the program must be a 5xx with a generic body")
			})
			c.Sites["C04-R13#4xx-responses"] = n
			c.Sites["C04-R13#functions-returning-evaluation-errors"] = len(evalErr)
			c.floor("C04-R13", 3)
		}
	}

	c.rule("C04-R10", "TNT: no text derived from a Go error value, recover() or debug.Stack() is written into a response whose status is not a constant 4xx: (a) every interpreter.Response literal with StatusCode >= 500 has a constant body; (b) in cmd/glyph/handlers.go and pkg/server/{handler,middleware}.go every write to the ResponseWriter (Encoder.Encode / Write / http.Error / fmt.Fprint*) of error-derived data is preceded on every path by WriteHeader(const 4xx); (c) passing error-derived text to a helper that writes it is allowed only for helpers whose every WriteHeader is a constant 4xx; (d) writeInternalError calls WriteHeader(500) before writing the body")
	isErrSrc := func(v ssa.Value) bool {
		switch x := v.(type) {
		case *ssa.Call:
			if x.Call.IsInvoke() && x.Call.Method.Name() == "Error" {
				return true
			}
			n := callName(x)
			return n == "builtin.recover" || n == "runtime/debug.Stack"
		case *ssa.MakeInterface:
			// an error value boxed into interface{} (map value, %v argument) — structured HTTPError values
			// passed as HTTPError are rendered by ToResponse, which is checked where it writes
			it, ok := x.Type().Underlying().(*types.Interface)
			return ok && it.NumMethods() == 0 && types.Implements(x.X.Type(), errorIface())
		case *ssa.ChangeInterface:
			it, ok := x.Type().Underlying().(*types.Interface)
			return ok && it.NumMethods() == 0 && types.Implements(x.X.Type(), errorIface())
		}
		return false
	}
	// (a)
	{
		ks := map[*ssa.Function]int{}
		eachResponseMade(c.srcFuncs(interpPkg), responseCtors(c), func(fn *ssa.Function, at ssa.Instruction, status int64, body ssa.Value) {
			if status < 500 || body == nil {
				return
			}
			ks[fn]++
			c.ob("C04-R10", fnKey(fn)+"#response-5xx-"+itoa(ks[fn])+"-generic-body", at.Pos(), !derivesFrom(body, isErrSrc), "a 5xx interpreter.Response carries text derived from a Go error (internal detail leaks to the client)")
		})
	}
	// (b),(c)
	type wsum struct {
		writes  map[int]bool
		only4xx bool
	}
	scopeFns := []*ssa.Function{}
	for _, fn := range c.srcFuncs(glyphCmd) {
		if strings.HasSuffix(c.Fset.Position(fn.Pos()).Filename, "/handlers.go") {
			scopeFns = append(scopeFns, fn)
		}
	}
	for _, fn := range c.srcFuncs(serverPkg) {
		f := c.Fset.Position(fn.Pos()).Filename
		if strings.HasSuffix(f, "/handler.go") || strings.HasSuffix(f, "/middleware.go") || strings.HasSuffix(f, "/errors.go") {
			scopeFns = append(scopeFns, fn)
		}
	}
	isRW := func(v ssa.Value) bool {
		return derivesFrom(v, func(x ssa.Value) bool { return typeIs(x.Type(), "net/http", "ResponseWriter") })
	}
	respWriteArgs := func(ins ssa.Instruction) []ssa.Value {
		call, ok := ins.(ssa.CallInstruction)
		if !ok {
			return nil
		}
		cc := call.Common()
		n := callName(call)
		switch {
		case n == "encoding/json.Encoder.Encode":
			if derivesFrom(cc.Args[0], func(x ssa.Value) bool {
				c2, ok := x.(*ssa.Call)
				return ok && callName(c2) == "encoding/json.NewEncoder" && isRW(c2.Call.Args[0])
			}) {
				return cc.Args[1:2]
			}
		case cc.IsInvoke() && cc.Method.Name() == "Write" && typeIs(cc.Value.Type(), "net/http", "ResponseWriter"):
			return cc.Args[:1]
		case n == "net/http.Error":
			return cc.Args[1:2]
		case n == "fmt.Fprintf" || n == "fmt.Fprint" || n == "fmt.Fprintln" || n == "io.WriteString":
			if isRW(cc.Args[0]) {
				return cc.Args[1:]
			}
		}
		return nil
	}
	status4xx := func(ins ssa.Instruction) (isStatusWrite bool, ok bool) {
		call, isC := ins.(ssa.CallInstruction)
		if !isC {
			return false, false
		}
		cc := call.Common()
		var sv ssa.Value
		switch {
		case cc.IsInvoke() && cc.Method.Name() == "WriteHeader":
			sv = cc.Args[0]
		case callName(call) == "net/http.Error":
			sv = cc.Args[2]
		default:
			return false, false
		}
		k, isK := constInt(sv)
		return true, isK && k >= 400 && k < 500
	}
	sums := map[*ssa.Function]*wsum{}
	for _, fn := range scopeFns {
		s := &wsum{writes: map[int]bool{}, only4xx: true}
		nStatus := 0
		eachInstr(fn, func(_ *ssa.BasicBlock, _ int, ins ssa.Instruction) {
			if isS, ok := status4xx(ins); isS {
				nStatus++
				if !ok {
					s.only4xx = false
				}
			}
			for _, a := range respWriteArgs(ins) {
				for i, p := range fn.Params {
					if derivesFrom(a, func(x ssa.Value) bool { return x == ssa.Value(p) }) {
						s.writes[i] = true
					}
				}
			}
		})
		if nStatus == 0 {
			s.only4xx = false
		}
		sums[fn] = s
	}
	nW := 0
	for _, fn := range scopeFns {
		k := 0
		eachInstr(fn, func(_ *ssa.BasicBlock, _ int, ins ssa.Instruction) {
			// direct writes
			for _, a := range respWriteArgs(ins) {
				nW++
				if !derivesFrom(a, isErrSrc) {
					continue
				}
				k++
				// every status write reaching this instruction is a constant 4xx, and at least one precedes on every path
				q := &pathQuery{fn: fn, target: func(x ssa.Instruction) bool { return x == ins }, stop: func(x ssa.Instruction) bool {
					isS, ok := status4xx(x)
					return isS && ok
				}}
				hit, path := q.fromEntry()
				bad5 := false
				eachInstr(fn, func(_ *ssa.BasicBlock, _ int, x ssa.Instruction) {
					if isS, ok := status4xx(x); isS && !ok {
						q2 := &pathQuery{fn: fn, target: func(y ssa.Instruction) bool { return y == ins }}
						if h, _ := q2.after(x); h != nil {
							bad5 = true
						}
					}
				})
				c.ob("C04-R10", fnKey(fn)+"#error-text-written-"+itoa(k), ins.Pos(), hit == nil && !bad5, "text derived from a Go error / panic value is written to the client on a path whose status is not a constant 4xx (5xx bodies must be generic; an unset status is 200)", c.blockPath(path)...)
			}
			// writes through helpers
			if call, ok := ins.(ssa.CallInstruction); ok {
				if sf := staticFn(call); sf != nil {
					if s, ok := sums[sf]; ok {
						for i := range s.writes {
							if i < len(call.Common().Args) && derivesFrom(call.Common().Args[i], isErrSrc) && !s.only4xx {
								k++
								c.ob("C04-R10", fnKey(fn)+"#error-text-to-writer-"+itoa(k)+":"+sf.Name(), ins.Pos(), false, "error-derived text is passed to "+sf.Name()+", which writes it to the client with a status that is not a constant 4xx")
							}
						}
					}
					if callName(call) == serverPath+".SendError" && derivesFrom(call.Common().Args[2], isErrSrc) {
						code, isK := constInt(call.Common().Args[1])
						k++
						c.ob("C04-R10", fnKey(fn)+"#error-text-to-SendError-"+itoa(k), ins.Pos(), isK && code >= 400 && code < 500, "error-derived text sent with a status that is not a constant 4xx")
					}
				}
			}
		})
	}
	c.Sites["C04-R10#response-writes-examined"] = nW
	if nW < 7 {
		c.undecided("C04-R10: only %d response writes found, floor 7", nW)
	}
	if wie := c.mustFn("C04-R10", glyphCmd, "writeInternalError"); wie != nil {
		var body ssa.Instruction
		eachInstr(wie, func(_ *ssa.BasicBlock, _ int, ins ssa.Instruction) {
			if len(respWriteArgs(ins)) > 0 {
				body = ins
			}
		})
		if body != nil {
			q := &pathQuery{fn: wie, target: func(x ssa.Instruction) bool { return x == body }, stop: func(x ssa.Instruction) bool {
				call, ok := x.(ssa.CallInstruction)
				if !ok || !call.Common().IsInvoke() || call.Common().Method.Name() != "WriteHeader" {
					return false
				}
				k, ok := constInt(call.Common().Args[0])
				return ok && k >= 500
			}}
			hit, _ := q.fromEntry()
			c.ob("C04-R10", "cmd/glyph.writeInternalError#status-before-body", body.Pos(), hit == nil, "the body is written before WriteHeader(5xx): net/http commits an implicit 200, so a failed route reports success")
			c.ob("C04-R10", "cmd/glyph.writeInternalError#generic-body", body.Pos(), !derivesFrom(respWriteArgs(body)[0], func(v ssa.Value) bool { return isErrSrc(v) || v == ssa.Value(wie.Params[1]) }), "writeInternalError's body derives from the error it was given")
		} else {
			c.ob("C04-R10", "cmd/glyph.writeInternalError#writes-body", wie.Pos(), false, "writeInternalError writes no body")
		}
	}
	// every execution-error edge of the two route handlers ends in writeInternalError (or a 4xx response)
	for _, name := range []string{"createRouteHandler", "createCompiledRouteHandler"} {
		f := c.fn(glyphCmd, name)
		if f == nil {
			continue
		}
		for _, cl := range innerClosures(f) {
			eachInstr(cl, func(_ *ssa.BasicBlock, _ int, ins ssa.Instruction) {
				call, ok := ins.(*ssa.Call)
				if !ok || !(callName(call) == vmPath+".VM.Execute" || callName(call) == modPath+"/cmd/glyph.executeRoute") {
					return
				}
				for _, er := range extractOf(call, 1) {
					for _, b := range cl.Blocks {
						for si, s := range b.Succs {
							if !nonNilOnEdge(b, si, er) {
								continue
							}
							q := &pathQuery{fn: cl, target: isReturn, stop: func(x ssa.Instruction) bool {
								if isS, _ := status4xx(x); isS {
									return true
								}
								// a helper of the package that (transitively) writes a status line
								if c2, ok := x.(ssa.CallInstruction); ok {
									if sf := staticFn(c2); sf != nil && sf.Pkg == cl.Pkg {
										return reachesInstr(sf, func(y ssa.Instruction) bool { isS, _ := status4xx(y); return isS }, 0, map[*ssa.Function]bool{})
									}
								}
								return false
							}}
							hit, path := q.from(s, 0)
							c.ob("C04-R10", "cmd/glyph."+name+"#execution-error-reported", call.Pos(), hit == nil, "from the execution-error edge a return is reachable without writing an error status: the failure is reported as 200", c.blockPath(path)...)
						}
					}
				}
			})
		}
	}

	// ---------- R11 serialise before committing the status ----------
	c.rule("C04-R11", "ORD: in cmd/glyph/handlers.go and in the library server (pkg/server) a value that may fail to serialise (anything not built locally from constants and basic-typed values) is never encoded straight onto the ResponseWriter (json.Encoder.Encode): it is marshalled first, and in the function that does so no WriteHeader/Write is reachable before json.Marshal, whose err!=nil edge leads to the generic 500 writer — otherwise an unencodable result (NaN, Inf) is reported as the already-committed 2xx")
	{
		encodable := func(v ssa.Value) bool {
			ok := true
			seen := map[ssa.Value]bool{}
			var walk func(v ssa.Value)
			walk = func(v ssa.Value) {
				if seen[v] || !ok {
					return
				}
				seen[v] = true
				switch x := v.(type) {
				case *ssa.Const:
				case *ssa.MakeInterface:
					if typeAlwaysEncodable(x.X.Type(), 0) {
						return
					}
					// a response record the HTTP layer declares itself (health report, error envelope) is not a route result
					if nt := namedOf(derefPtr(x.X.Type())); nt != nil && nt.Obj().Pkg() != nil && nt.Obj().Pkg().Path() == serverPath {
						if _, isStruct := nt.Underlying().(*types.Struct); isStruct {
							return
						}
					}
					walk(x.X)
				case *ssa.MakeMap:
					for _, r := range refs(x) {
						if mu, isMU := r.(*ssa.MapUpdate); isMU {
							walk(mu.Value)
						}
					}
				case *ssa.ChangeType:
					walk(x.X)
				default:
					if b, isB := v.Type().Underlying().(*types.Basic); isB && b.Info()&(types.IsString|types.IsBoolean|types.IsInteger) != 0 {
						return
					}
					ok = false
				}
			}
			walk(v)
			return ok
		}
		n := 0
		var r11fns []*ssa.Function
		for _, fn := range c.srcFuncs(glyphCmd) {
			if strings.HasSuffix(c.Fset.Position(fn.Pos()).Filename, "/handlers.go") {
				r11fns = append(r11fns, fn)
			}
		}
		// the library server's writers (pkg/server) answer for the same results
		r11fns = append(r11fns, c.srcFuncs(serverPkg)...)
		for _, fn := range r11fns {
			inLib := fn.Pkg != nil && fn.Pkg.Pkg.Path() == serverPath
			k := 0
			eachInstr(fn, func(_ *ssa.BasicBlock, _ int, ins ssa.Instruction) {
				call, ok := ins.(*ssa.Call)
				if !ok || callName(call) != "encoding/json.Encoder.Encode" {
					return
				}
				if !derivesFrom(call.Call.Args[0], func(x ssa.Value) bool {
					c2, ok := x.(*ssa.Call)
					return ok && callName(c2) == "encoding/json.NewEncoder" && isRW(c2.Call.Args[0])
				}) {
					return
				}
				k++
				n++
				c.ob("C04-R11", fnKey(fn)+"#direct-encode-"+itoa(k), call.Pos(), encodable(call.Call.Args[1]), "a route-derived value is encoded directly onto the ResponseWriter: if it cannot be serialised the status line (200/2xx) is already committed and the client gets a success status with an error body")
			})
			// marshal-first helpers
			eachInstr(fn, func(_ *ssa.BasicBlock, _ int, ins ssa.Instruction) {
				call, ok := ins.(*ssa.Call)
				if !ok || callName(call) != "encoding/json.Marshal" {
					return
				}
				usedForResponse := false
				for _, d := range extractOf(call, 0) {
					eachInstr(fn, func(_ *ssa.BasicBlock, _ int, x ssa.Instruction) {
						for _, a := range respWriteArgs(x) {
							if derivesFrom(a, func(y ssa.Value) bool { return y == d }) {
								usedForResponse = true
							}
						}
					})
				}
				if !usedForResponse {
					return
				}
				n++
				// no status/body write S from which the Marshal is still reachable
				var early ssa.Instruction
				eachInstr(fn, func(_ *ssa.BasicBlock, _ int, x ssa.Instruction) {
					isS, _ := status4xx(x)
					if !isS && len(respWriteArgs(x)) == 0 {
						return
					}
					q := &pathQuery{fn: fn, target: func(y ssa.Instruction) bool { return y == ins }}
					if h, _ := q.after(x); h != nil {
						early = x
					}
				})
				c.ob("C04-R11", fnKey(fn)+"#marshal-before-status", call.Pos(), early == nil, "the status line or body is written before the value has been serialised")
				okErr := false
				for _, er := range extractOf(call, 1) {
					for _, b := range fn.Blocks {
						for si, sblk := range b.Succs {
							if nonNilOnEdge(b, si, er) {
								q2 := &pathQuery{fn: fn, target: func(x ssa.Instruction) bool {
									r, isR := x.(*ssa.Return)
									if !isR {
										return false
									}
									// the library's writers hand the failure back: the dispatcher answers a handler error with a 500
									if inLib && len(r.Results) > 0 && !isNilConst(stripConv(retVals(r)[len(r.Results)-1])) {
										return false
									}
									return true
								}, stop: func(x ssa.Instruction) bool {
									if isCallTo(x, modPath+"/cmd/glyph.writeInternalError") {
										return true
									}
									if cl, ok := x.(ssa.CallInstruction); ok {
										if k, ok := statusConstWritten(cl, 0); ok && k >= 500 {
											return true
										}
									}
									return false
								}}
								if h, _ := q2.from(sblk, 0); h == nil {
									okErr = true
								}
							}
						}
					}
				}
				c.ob("C04-R11", fnKey(fn)+"#marshal-error-becomes-500", call.Pos(), okErr, "a serialisation failure does not end in the generic 500 writer")
			})
		}
		if n < 2 {
			c.undecided("C04-R11: %d JSON response writers found in cmd/glyph/handlers.go, floor 2", n)
		}
	}

	// ---------- R7 unchecked assertions ----------
	c.rule("C04-R7", "PAN: in pkg/interpreter, pkg/vm and cmd/glyph every single-result type assertion on a dynamic value (interface{} / vm.Value) is dominated by the ok-edge of a comma-ok assertion or type-switch arm of the same value to the same type, or all sources of the value are conversions of that very type")
	uncheckedAssertAudit(c, "C04-R7", []string{interpPkg, vmPkg, glyphCmd}, func(fn *ssa.Function, ta *ssa.TypeAssert) bool {
		return dynIface(ta.X.Type())
	})
}

var errIface *types.Interface

func errorIface() *types.Interface {
	if errIface == nil {
		errIface = types.Universe.Lookup("error").Type().Underlying().(*types.Interface)
	}
	return errIface
}

func derefPtr(t types.Type) types.Type {
	if p, ok := t.Underlying().(*types.Pointer); ok {
		return p.Elem()
	}
	return t
}

// stepLimitInRunLoop: VM.runLoop compares its step counter with maxSteps inside the dispatch loop and the over-limit edge
// leaves with an error (C04-R3; also C10-R9: hand-made bytecode cannot run for ever either, whatever opcode closes its loop).
func stepLimitInRunLoop(c *Ctx, rule string) {
	if rl := c.mustFn(rule, vmPkg, "VM.runLoop"); rl != nil {
		ok := false
		for _, lp := range naturalLoops(rl) {
			for b := range lp.body {
				iff := ifOf(b)
				if iff == nil {
					continue
				}
				if derivesFrom(iff.Cond, func(v ssa.Value) bool { return loadedFromField(v, "VM", "maxSteps") }) {
					// comparison of a counter with maxSteps: one edge leaves the loop towards an error return
					if bo, isBO := iff.Cond.(*ssa.BinOp); isBO && (bo.Op == token.GTR || bo.Op == token.GEQ || bo.Op == token.LSS || bo.Op == token.LEQ) {
						for _, s := range b.Succs {
							if !lp.body[s] || blockHas(s, isReturn) {
								ok = true
							}
						}
					}
				}
			}
		}
		c.ob(rule, vmPkg+".VM.runLoop#step-limit-enforced-in-loop", rl.Pos(), ok, "runLoop does not compare its step counter with maxSteps inside the execution loop")
	}

}

// goBodyRecovers: the function has a deferred closure that calls recover().
func goBodyRecovers(body *ssa.Function) bool {
	hasRec := false
	eachInstr(body, func(_ *ssa.BasicBlock, _ int, x ssa.Instruction) {
		if d, ok := x.(*ssa.Defer); ok {
			if mc, ok := d.Call.Value.(*ssa.MakeClosure); ok {
				eachCall(mc.Fn.(*ssa.Function), func(c2 ssa.CallInstruction) {
					if callName(c2) == "builtin.recover" {
						hasRec = true
					}
				})
			}
		}
	})
	return hasRec
}

// stepBoundValueAudit: every SetMaxSteps outside pkg/vm that is handed a run-time value is handed one established
// positive (0 = unlimited to the VM). Used by C10-R9; C04-R3 makes the same test inline.
func stepBoundValueAudit(c *Ctx, rule string) int {
	n := 0
	for p := range c.SSA {
		rel := strings.TrimPrefix(p, modPath+"/")
		if strings.HasPrefix(rel, "examples") || rel == vmPkg {
			continue
		}
		for _, fn := range c.srcFuncs(rel) {
			eachInstr(fn, func(_ *ssa.BasicBlock, _ int, ins ssa.Instruction) {
				call, ok := ins.(*ssa.Call)
				if !ok || callName(call) != vmPath+".VM.SetMaxSteps" {
					return
				}
				n++
				if _, isK := constInt(call.Call.Args[1]); isK {
					return
				}
				arg := call.Call.Args[1]
				q := &pathQuery{fn: fn, target: func(x ssa.Instruction) bool { return x == ins }, cutEdge: func(b *ssa.BasicBlock, si int) bool {
					iff := ifOf(b)
					if iff == nil {
						return false
					}
					bo, ok := iff.Cond.(*ssa.BinOp)
					if !ok || !sameVal(bo.X, arg) {
						return false
					}
					v, isK := constInt(bo.Y)
					if !isK || v < 0 {
						return false
					}
					return (bo.Op == token.GTR && si == 0) || (bo.Op == token.LEQ && si == 1) || (bo.Op == token.NEQ && v == 0 && si == 0) || (bo.Op == token.EQL && v == 0 && si == 1)
				}}
				hit, path := q.fromEntry()
				c.ob(rule, fnKey(fn)+"#SetMaxSteps-value-established-positive", call.Pos(), hit == nil, "SetMaxSteps is handed a run-time value that is not established positive: the VM reads 0 as `no limit`, so a setting whose zero value means `use the default` (a CLI flag that was not given) switches the step bound off - a bytecode file that does not terminate runs for ever", c.blockPath(path)...)
			})
		}
	}
	return n
}
