package main

import (
	"go/token"
	"go/types"
	"regexp"
	"regexp/syntax"
	"sort"
	"strings"

	"golang.org/x/tools/go/ssa"
)

func init() {
	register(&propSpec{
		id: "C13", title: "Generated SQL is injection-free", run: runC13,
		notCovered:  "behaviour of the generated statements on a real engine, the value-level claim 'reads or changes nothing else', semantic adequacy of the column-type grammar beyond the forbidden-character set and the parenthesis/comma structure (which words may follow a type is not judged)",
		assumptions: []string{"heap is field-insensitive: every struct field load is tainted (so builders must re-validate what they stored)", "values passed as bound parameters (the variadic args of the sinks) are not SQL text", "sanitisers are the functions of pkg/database named [Ss]anitize* returning (string|[]string, error); each is itself checked by C13-R3"},
	})
}

const dbPkg = "pkg/database"
const dbPath = modPath + "/pkg/database"

var sqlSinkMethods = map[string]bool{"Exec": true, "ExecContext": true, "Query": true, "QueryContext": true, "QueryRow": true, "QueryRowContext": true, "Prepare": true, "PrepareContext": true}

// sqlTextArg returns the SQL-text argument of a call if the callee is a primitive SQL sink
// (database/sql DB/Tx/Conn, or the repository's Database interface).
func sqlTextArg(call ssa.CallInstruction) (ssa.Value, bool) {
	f := calleeOf(call)
	if f == nil || !sqlSinkMethods[f.Name()] {
		return nil, false
	}
	sig := f.Type().(*types.Signature)
	if sig.Recv() == nil {
		return nil, false
	}
	rt := sig.Recv().Type()
	okRecv := false
	if n := namedOf(rt); n != nil && n.Obj().Pkg() != nil {
		p, nm := n.Obj().Pkg().Path(), n.Obj().Name()
		if p == "database/sql" && (nm == "DB" || nm == "Tx" || nm == "Conn") {
			okRecv = true
		}
		if p == dbPath && nm == "Database" {
			okRecv = true
		}
	}
	if !okRecv {
		return nil, false
	}
	// first string parameter
	off := 0
	if !call.Common().IsInvoke() {
		off = 1
	}
	for i := 0; i < sig.Params().Len(); i++ {
		if isStringType(sig.Params().At(i).Type()) {
			return call.Common().Args[i+off], true
		}
	}
	return nil, false
}

type sqlWrapper struct {
	fn    *ssa.Function
	param int // index into fn.Params
}

func runC13(c *Ctx) {
	scope := []string{dbPkg}
	if c.Tier == "thorough" {
		scope = nil
		for p := range c.SSA {
			rel := strings.TrimPrefix(p, modPath+"/")
			scope = append(scope, rel)
		}
		sort.Strings(scope)
	}
	// sanitisers by role
	san := map[string]bool{}
	var sanFns []*ssa.Function
	for _, fn := range c.srcFuncs(dbPkg) {
		if fn.Parent() != nil {
			continue
		}
		if !strings.HasPrefix(strings.ToLower(fn.Name()), "sanitize") {
			continue
		}
		res := fn.Signature.Results()
		if res.Len() != 2 || res.At(1).Type().String() != "error" {
			continue
		}
		fo, _ := fn.Object().(*types.Func)
		san[qname(fo)] = true
		sanFns = append(sanFns, fn)
	}
	t := newTnt(c, san)

	c.rule("C13-R1", "TNT: the SQL-text argument of every sink (Database.{Query,QueryRow,Exec,Prepare}, *sql.DB/Tx/Conn {Exec,Query,QueryRow,Prepare}[Context], and every raw-SQL wrapper found by fixpoint) and result 0 of QueryBuilder.Build is clean: built only from constants, sanitiser results, numeric formatting, fmt.Sprintf/strings.Join/strings.Builder over clean parts, and values a guard proves equal to one of a finite set of constants (col==\"*\", join type, operator set, ASC/DESC). A function whose string parameter reaches a sink unmodified is a raw-SQL wrapper: its call sites become sinks")
	// wrapper fixpoint
	wrappers := map[*ssa.Function]map[int]bool{}
	var allFns []*ssa.Function
	for _, rel := range scope {
		for _, fn := range c.srcFuncs(rel) {
			if !isTestFile(c.Fset, fn.Pos()) {
				allFns = append(allFns, fn)
			}
		}
	}
	sinkArg := func(call ssa.CallInstruction) (ssa.Value, bool) {
		if v, ok := sqlTextArg(call); ok {
			return v, true
		}
		if sf := staticFn(call); sf != nil {
			if ps, ok := wrappers[sf]; ok {
				for pi := range ps {
					if pi < len(call.Common().Args) {
						return call.Common().Args[pi], true // one text parameter per wrapper in this code base
					}
				}
			}
		}
		return nil, false
	}
	paramOf := func(v ssa.Value, fn *ssa.Function) int {
		// v is (a phi of) a parameter of fn, unmodified
		for {
			switch y := v.(type) {
			case *ssa.Parameter:
				for i, p := range fn.Params {
					if p == y {
						return i
					}
				}
				return -1
			case *ssa.ChangeType:
				v = y.X
			default:
				return -1
			}
		}
	}
	for changed := true; changed; {
		changed = false
		for _, fn := range allFns {
			eachCall(fn, func(call ssa.CallInstruction) {
				if v, ok := sinkArg(call); ok {
					if pi := paramOf(v, fn); pi >= 0 {
						if wrappers[fn] == nil {
							wrappers[fn] = map[int]bool{}
						}
						if !wrappers[fn][pi] {
							wrappers[fn][pi] = true
							changed = true
						}
					}
				}
			})
		}
	}
	// sinks
	nSinks := 0
	perFn := map[string]int{}
	for _, fn := range allFns {
		eachCall(fn, func(call ssa.CallInstruction) {
			v, ok := sinkArg(call)
			if !ok {
				return
			}
			k := fnKey(fn)
			perFn[k]++
			key := k + "#sql-sink-" + itoa(perFn[k]) + ":" + short(callName(call))
			if pi := paramOf(v, fn); pi >= 0 {
				c.info("C13-R1", key, call.Pos(), "pass-through of parameter "+fn.Params[pi].Name()+" (raw-SQL wrapper; its call sites are sinks)")
				return
			}
			nSinks++
			ok2, why := t.clean(v, call.Block())
			c.ob("C13-R1", key, call.Pos(), ok2, "SQL text reaching this sink is not clean: "+why)
		})
	}
	if b := c.mustFn("C13-R1", dbPkg, "QueryBuilder.Build"); b != nil {
		ok, why := t.returnsClean(b, 0)
		c.ob("C13-R1", dbPkg+".QueryBuilder.Build#result-0", b.Pos(), ok, "the statement text returned by Build is not clean: "+why)
	}
	c.Sites["C13-R1#constructed-sinks"] = nSinks
	if nSinks < 10 {
		c.undecided("C13-R1: only %d constructed/constant SQL sinks found, floor 10", nSinks)
	}

	// ---- R2 raw-SQL surface not reachable from GlyphLang
	c.rule("C13-R2", "WCS: no exported raw-SQL wrapper method (a method whose string parameter reaches a sink unmodified) of a type in pkg/database has a name on the interpreter's provider allow-list (allowedMethods / providerMethods[*]), under strings.EqualFold; the raw surface is listed in the evidence")
	allow := allowListNames(c)
	var ws []string
	for fn := range wrappers {
		fo, ok := fn.Object().(*types.Func)
		if !ok {
			continue
		}
		ws = append(ws, qname(fo))
		if !fo.Exported() || fn.Signature.Recv() == nil {
			continue
		}
		if !strings.HasPrefix(qname(fo), dbPath+".") {
			continue
		}
		hit := ""
		for a := range allow {
			if strings.EqualFold(a, fo.Name()) {
				hit = a
			}
		}
		c.ob("C13-R2", short(qname(fo))+"#raw-sql-not-allow-listed", fn.Pos(), hit == "", "raw-SQL method "+fo.Name()+" matches allow-list entry "+hit+": GlyphLang code can pass arbitrary SQL text to it")
	}
	sort.Strings(ws)
	c.Notes = append(c.Notes, "raw-SQL wrappers (param reaches a sink unmodified): "+strings.Join(shortAll(ws), ", "))
	if len(allow) < 20 {
		c.undecided("C13-R2: allow-list extraction found %d names", len(allow))
	}

	// ---- R3 sanitiser strength
	c.rule("C13-R3", "RGX/MPT: each sanitiser validates its input with a package-level regexp whose literal is anchored ^…$ and whose language contains none of the characters \" ' ` \\ ; - / * NUL newline (identifier patterns additionally ⊆ [A-Za-z0-9_] with a non-digit first character) and is included (product of the pattern's NFA with a 6-state automaton) in the fragments with balanced parentheses and no comma outside them; a non-empty result is returned only on the pattern's match edge; the returned text is built from the validated value (not from another variable)")
	forbidden := "\"'`\\;-/*\x00\n\r"
	for _, fn := range sanFns {
		key := fnKey(fn)
		res0 := fn.Signature.Results().At(0).Type()
		if _, isSl := res0.Underlying().(*types.Slice); isSl {
			// slice sanitiser: every element stored comes from a scalar sanitiser
			ok, why := t.returnsClean(fn, 0)
			c.ob("C13-R3", key+"#elements-sanitised", fn.Pos(), ok, "slice sanitiser returns elements that did not pass a scalar sanitiser: "+why)
			continue
		}
		// regex guards on the parameter
		param := fn.Params[0]
		type rg struct {
			call *ssa.Call
			re   string
		}
		var guards []rg
		eachInstr(fn, func(_ *ssa.BasicBlock, _ int, ins ssa.Instruction) {
			call, ok := ins.(*ssa.Call)
			if !ok || callName(call) != "regexp.Regexp.MatchString" || call.Call.Args[1] != ssa.Value(param) {
				return
			}
			if u, ok := call.Call.Args[0].(*ssa.UnOp); ok {
				if g, ok := u.X.(*ssa.Global); ok {
					if lit, ok := regexLiteralOf(c, g); ok {
						guards = append(guards, rg{call, lit})
					}
				}
			}
		})
		if len(guards) == 0 {
			c.ob("C13-R3", key+"#regex-guard", fn.Pos(), false, "sanitiser does not validate its parameter with a package-level regexp (MatchString on the parameter)")
			continue
		}
		isIdent := strings.Contains(strings.ToLower(fn.Name()), "identifier")
		for _, g := range guards {
			ok, why := regexSafe(g.re, forbidden, isIdent)
			c.ob("C13-R3", key+"#pattern-language", g.call.Pos(), ok, "pattern "+g.re+" "+why)
			// structure: the validated text is spliced into a parenthesised, comma-separated list
			// (CREATE TABLE t (name TYPE, …); column lists): language inclusion in the fragment automaton
			inc, why2 := regexIncludedIn(g.re, ddlFragmentDFA())
			c.ob("C13-R3", key+"#pattern-structure", g.call.Pos(), inc, "pattern "+g.re+" "+why2)
		}
		// non-empty return only on match edge
		n := 0
		eachInstr(fn, func(_ *ssa.BasicBlock, _ int, ins ssa.Instruction) {
			r, ok := ins.(*ssa.Return)
			if !ok {
				return
			}
			v := retVals(r)[0]
			if s, isC := constString(v); isC && s == "" {
				return
			}
			n++
			q := &pathQuery{fn: fn, target: func(x ssa.Instruction) bool { return x == ins }, cutEdge: func(b *ssa.BasicBlock, si int) bool {
				for _, g := range guards {
					if known, val := boolOnEdge(b, si, g.call); known && val {
						return true
					}
				}
				return false
			}}
			hit, path := q.fromEntry()
			c.ob("C13-R3", key+"#non-empty-only-on-match-"+itoa(n), r.Pos(), hit == nil, "a non-empty result is returned on a path that did not take the pattern's match edge", c.blockPath(path)...)
			// built from the validated value
			okFrom := derivesFrom(v, func(x ssa.Value) bool { return x == ssa.Value(param) })
			onlyParam := true
			derivesFrom(v, func(x ssa.Value) bool {
				switch y := x.(type) {
				case *ssa.Parameter:
					if y != param {
						onlyParam = false
					}
				case *ssa.Global, *ssa.FreeVar:
					onlyParam = false
				case *ssa.UnOp:
					if _, isF := y.X.(*ssa.FieldAddr); isF {
						onlyParam = false
					}
				}
				return false
			})
			c.ob("C13-R3", key+"#returns-validated-value-"+itoa(n), r.Pos(), okFrom && onlyParam, "the returned text is not built solely from the validated parameter and constants")
		})
	}
	c.floor("C13-R3", 12)

	// ---- R4 sibling drivers
	c.rule("C13-R4", "TBL (siblings): in each driver's BulkInsert, CreateTable, DropTable every string / []string / map-key parameter that names an identifier flows into a sanitiser (or ValidateIdentifier) call of the package before any SQL text is produced; the three implementations of Database agree")
	for _, drv := range []string{"PostgresDB", "SQLiteDB", "MySQLDB"} {
		for _, m := range []string{"BulkInsert", "CreateTable", "DropTable", "GetLastInsertID"} {
			fn := c.fn(dbPkg, drv+"."+m)
			if fn == nil {
				c.ob("C13-R4", dbPkg+"."+drv+"."+m+"#exists", token.NoPos, false, "sibling implementation missing")
				continue
			}
			for _, p := range fn.Params[1:] {
				isStr := isStringType(p.Type())
				_, isSl := p.Type().Underlying().(*types.Slice)
				mp, isMap := p.Type().Underlying().(*types.Map)
				if isSl {
					sl := p.Type().Underlying().(*types.Slice)
					if !isStringType(sl.Elem()) {
						continue
					}
				}
				if isMap && !isStringType(mp.Key()) {
					continue
				}
				if !isStr && !isSl && !isMap {
					continue
				}
				// does the parameter (or its keys/elements) reach a sanitiser / validator?
				reaches := false
				eachCall(fn, func(call ssa.CallInstruction) {
					n := callName(call)
					if !san[n] && n != dbPath+".ValidateIdentifier" {
						return
					}
					if derivesFrom(call.Common().Args[0], func(x ssa.Value) bool { return x == ssa.Value(p) }) {
						reaches = true
					}
				})
				c.ob("C13-R4", fnKey(fn)+"#param-"+p.Name()+"-validated", fn.Pos(), reaches, "identifier parameter "+p.Name()+" never reaches a sanitiser/validator in this driver while its siblings validate it")
			}
		}
	}
	c.floor("C13-R4", 15)

	// ---- R5 no word of a tokenised text is dropped unvalidated
	c.rule("C13-R5", "MPT: where a function of pkg/database cuts a text into words (strings.Fields/Split) and reads them by fixed position only, every path from the cut to a success return crosses an edge that bounds the number of words by the number read (len(parts) > k answers an error): no part of a stored column/direction text is accepted without having been validated")
	nTok := tokenDropAudit(c, "C13-R5", []string{dbPkg})
	c.info("C13-R5", "tokenisations-examined", token.NoPos, itoa(nTok)+" positional tokenisations in "+dbPkg)
	c.floor("C13-R5", 1)

	// ---- R7 a cached builder names the table it was asked for
	c.rule("C13-R7", "MEMO: in pkg/database no object built from a name (a table handler with its ORM, a prepared builder) is kept in a long-lived map under a key that is a lossy image of that name (ToLower, TrimSpace, …) while the object itself keeps the name as given: identifiers are double-quoted in the generated SQL and therefore case-sensitive, so `Table(\"audit\")` after `Table(\"Audit\")` would issue its statements against \"Audit\" - a table other than the one named")
	nMemo := memoKeyAudit(c, "C13-R7", []string{dbPkg}, "Here: the cached handler's statements name the first spelling's table.")
	c.Sites["C13-R7#table-stores-examined"] = nMemo
	c.ob("C13-R7", dbPkg+"#table-stores-examined", token.NoPos, nMemo >= 1, "no store into a long-lived string-keyed table found in pkg/database: the rule no longer matches the code base")

	// ---- R6 placeholders and bound values correspond
	c.rule("C13-R6", "ORD/def-use: in every loop of pkg/database that collects bound values ([]interface{} appends), an iteration that can bind a list of unknown length (append(args, vs...)) never hands a number derived from the loop's position counter to a call (fmt.Sprintf(\"$%d\"), a placeholder helper): placeholder numbers come from len(args) there. Loops that bind exactly one value per iteration may number by position")
	nLoops := placeholderNumberingAudit(c, "C13-R6", []string{dbPkg})
	c.Sites["C13-R6#value-collecting-loops"] = nLoops
	c.ob("C13-R6", dbPkg+"#value-collecting-loops-examined", token.NoPos, nLoops >= 4, "fewer than 4 loops that collect bound values found in pkg/database: the rule no longer matches the code base")
}

func shortAll(xs []string) []string {
	out := make([]string, len(xs))
	for i, x := range xs {
		out[i] = short(x)
	}
	return out
}

// regexLiteralOf finds the string literal passed to regexp.MustCompile in the initialiser of global g.
func regexLiteralOf(c *Ctx, g *ssa.Global) (string, bool) {
	init := g.Pkg.Func("init")
	if init == nil {
		return "", false
	}
	lit := ""
	n := 0
	eachInstr(init, func(_ *ssa.BasicBlock, _ int, ins ssa.Instruction) {
		st, ok := ins.(*ssa.Store)
		if !ok || st.Addr != ssa.Value(g) {
			return
		}
		n++
		if call, ok := st.Val.(*ssa.Call); ok && (callName(call) == "regexp.MustCompile") {
			if s, ok := constString(call.Call.Args[0]); ok {
				lit = s
			}
		}
	})
	// no other writer anywhere in the package
	rel := strings.TrimPrefix(g.Pkg.Pkg.Path(), modPath+"/")
	for _, fn := range c.srcFuncs(rel) {
		eachInstr(fn, func(_ *ssa.BasicBlock, _ int, ins ssa.Instruction) {
			if st, ok := ins.(*ssa.Store); ok && st.Addr == ssa.Value(g) {
				n++
			}
		})
	}
	return lit, lit != "" && n == 1
}

// regexSafe: anchored at both ends, and no string of the language contains a forbidden character.
func regexSafe(lit, forbidden string, identifier bool) (bool, string) {
	if _, err := regexp.Compile(lit); err != nil {
		return false, "does not compile"
	}
	re, err := syntax.Parse(lit, syntax.Perl)
	if err != nil {
		return false, "does not parse"
	}
	re = re.Simplify()
	// anchors: every alternative must start with ^ and end with $
	var anchored func(r *syntax.Regexp) bool
	anchored = func(r *syntax.Regexp) bool {
		switch r.Op {
		case syntax.OpCapture:
			return anchored(r.Sub[0])
		case syntax.OpAlternate:
			for _, s := range r.Sub {
				if !anchored(s) {
					return false
				}
			}
			return true
		case syntax.OpConcat:
			return len(r.Sub) >= 2 && r.Sub[0].Op == syntax.OpBeginText && r.Sub[len(r.Sub)-1].Op == syntax.OpEndText
		}
		return false
	}
	if !anchored(re) {
		return false, "is not anchored with ^ and $ in every alternative (a match anywhere in the text would accept trailing SQL)"
	}
	bad := ""
	first := true
	var walk func(r *syntax.Regexp)
	walk = func(r *syntax.Regexp) {
		switch r.Op {
		case syntax.OpLiteral:
			for _, ch := range r.Rune {
				if strings.ContainsRune(forbidden, ch) {
					bad = string(ch)
				}
				if identifier && !(ch == '_' || ch >= 'a' && ch <= 'z' || ch >= 'A' && ch <= 'Z' || ch >= '0' && ch <= '9') {
					bad = string(ch)
				}
			}
		case syntax.OpCharClass:
			for i := 0; i+1 < len(r.Rune); i += 2 {
				lo, hi := r.Rune[i], r.Rune[i+1]
				for _, ch := range forbidden {
					if ch >= lo && ch <= hi {
						bad = string(ch)
					}
				}
				if identifier {
					for ch := lo; ch <= hi && ch < 0x250; ch++ {
						if !(ch == '_' || ch >= 'a' && ch <= 'z' || ch >= 'A' && ch <= 'Z' || ch >= '0' && ch <= '9') {
							bad = string(ch)
						}
					}
					if hi >= 0x250 {
						bad = "non-ASCII"
					}
					if first {
						for ch := lo; ch <= hi && ch < 0x250; ch++ {
							if ch >= '0' && ch <= '9' {
								bad = "leading digit"
							}
						}
					}
				}
			}
			first = false
		case syntax.OpAnyChar, syntax.OpAnyCharNotNL:
			bad = "any-character"
		}
		for _, s := range r.Sub {
			walk(s)
		}
	}
	var body func(r *syntax.Regexp)
	body = func(r *syntax.Regexp) {
		switch r.Op {
		case syntax.OpCapture:
			body(r.Sub[0])
		case syntax.OpAlternate:
			for _, s := range r.Sub {
				body(s)
			}
		case syntax.OpConcat:
			first = true
			for _, s := range r.Sub[1 : len(r.Sub)-1] {
				walk(s)
			}
		}
	}
	body(re)
	if bad != "" {
		return false, "admits " + strconvQuote(bad)
	}
	return true, ""
}

func strconvQuote(s string) string { return "'" + strings.ReplaceAll(s, "\x00", "\\x00") + "'" }

// allowListNames collects the constant string keys of interpreter.allowedMethods and of every inner map of providerMethods.
func allowListNames(c *Ctx) map[string]bool {
	out := map[string]bool{}
	sp := c.spkg("pkg/interpreter")
	init := sp.Func("init")
	if init == nil {
		return out
	}
	eachInstr(init, func(_ *ssa.BasicBlock, _ int, ins ssa.Instruction) {
		mu, ok := ins.(*ssa.MapUpdate)
		if !ok {
			return
		}
		mt, ok := mu.Map.Type().Underlying().(*types.Map)
		if !ok || mt.Elem().String() != "bool" || !isStringType(mt.Key()) {
			return
		}
		// the map flows into allowedMethods or providerMethods
		toAllow := false
		for _, r := range refs(mu.Map) {
			switch x := r.(type) {
			case *ssa.Store:
				if g, ok := x.Addr.(*ssa.Global); ok && (g.Name() == "allowedMethods") {
					toAllow = true
				}
			case *ssa.MapUpdate:
				if x.Value == mu.Map {
					toAllow = true // inner map of providerMethods
				}
			}
		}
		if !toAllow {
			return
		}
		if s, ok := constString(mu.Key); ok {
			out[s] = true
		}
	})
	return out
}

// tokenDropAudit (C13-R5): a function that cuts a text into words (strings.Fields / strings.Split) and reads the
// words by fixed position must reject a text with more words than it reads - otherwise the extra words are
// validated by nobody and silently dropped (the caller's `DESC ; DROP TABLE users` passes as `DESC`). Functions
// that hand the whole text on (the column-type validators return their parameter) are not concerned: there the
// words only feed a test. Returns the number of tokenisations examined.
func tokenDropAudit(c *Ctx, rule string, rels []string) int {
	n := 0
	for _, rel := range rels {
		for _, fn := range c.srcFuncs(rel) {
			eachInstr(fn, func(_ *ssa.BasicBlock, _ int, ins ssa.Instruction) {
				call, ok := ins.(*ssa.Call)
				if !ok {
					return
				}
				switch callName(call) {
				case "strings.Fields", "strings.Split", "strings.FieldsFunc":
				default:
					return
				}
				maxIdx := int64(-1)
				positional := true
				var lens []ssa.Value
				for _, r := range refs(call) {
					switch x := r.(type) {
					case *ssa.IndexAddr:
						if k, ok := constInt(x.Index); ok {
							if k > maxIdx {
								maxIdx = k
							}
						} else {
							positional = false
						}
					case *ssa.Call:
						if callName(x) == "builtin.len" {
							lens = append(lens, x)
						} else {
							positional = false
						}
					case *ssa.DebugRef:
					default:
						positional = false
					}
				}
				if !positional || maxIdx < 0 {
					return
				}
				// the whole text is passed on by a success return: nothing is dropped
				src := call.Call.Args[0]
				root := src
				for {
					if cl, ok := root.(*ssa.Call); ok && strings.HasPrefix(callName(cl), "strings.") && len(cl.Call.Args) > 0 {
						root = cl.Call.Args[0]
						continue
					}
					break
				}
				passesWhole := false
				eachInstr(fn, func(_ *ssa.BasicBlock, _ int, i2 ssa.Instruction) {
					ret, ok := i2.(*ssa.Return)
					if !ok || len(ret.Results) == 0 {
						return
					}
					rv := retVals(ret)
					if len(rv) > 1 && !isNilConst(stripConv(rv[len(rv)-1])) {
						return
					}
					if isStringType(rv[0].Type()) && derivesAvoiding(rv[0], root, call) {
						passesWhole = true
					}
				})
				if passesWhole {
					return
				}
				n++
				bounded := func(b *ssa.BasicBlock, si int) bool {
					iff := ifOf(b)
					if iff == nil {
						return false
					}
					bo, ok := iff.Cond.(*ssa.BinOp)
					if !ok {
						return false
					}
					x, y, op := bo.X, bo.Y, bo.Op
					isLen := func(v ssa.Value) bool {
						for _, l := range lens {
							if v == l {
								return true
							}
						}
						return false
					}
					if isLen(y) {
						x, y = y, x
						switch op {
						case token.LSS:
							op = token.GTR
						case token.LEQ:
							op = token.GEQ
						case token.GTR:
							op = token.LSS
						case token.GEQ:
							op = token.LEQ
						}
					}
					if !isLen(x) {
						return false
					}
					k, ok := constInt(y)
					if !ok {
						return false
					}
					lim := maxIdx + 1 // at most this many words are read
					truth := si == 0
					switch op {
					case token.GTR: // len > k ; false edge => len <= k
						return !truth && k <= lim
					case token.GEQ: // false edge => len <= k-1
						return !truth && k-1 <= lim
					case token.LEQ:
						return truth && k <= lim
					case token.LSS:
						return truth && k-1 <= lim
					case token.EQL:
						return truth && k <= lim
					case token.NEQ:
						return !truth && k <= lim
					}
					return false
				}
				q := &pathQuery{fn: fn, cutEdge: bounded, target: func(x ssa.Instruction) bool {
					ret, ok := x.(*ssa.Return)
					if !ok {
						return false
					}
					rv := retVals(ret)
					if len(rv) == 0 {
						return true
					}
					last := rv[len(rv)-1]
					if isErrorType(last.Type()) {
						return isNilConst(stripConv(last))
					}
					return true
				}}
				hit, path := q.after(call)
				c.ob(rule, fnKey(fn)+"#words-beyond-"+itoa(int(maxIdx+1))+"-rejected", call.Pos(), hit == nil,
					"the text is cut into words and only the first "+itoa(int(maxIdx+1))+" are read and validated; a success return is reachable without a test that there are no more: extra words are accepted and silently dropped", c.blockPath(path)...)
			})
		}
	}
	return n
}

// derivesAvoiding: v's backward slice reaches root without going through `avoid`.
func derivesAvoiding(v, root, avoid ssa.Value) bool {
	return derivesFrom(v, func(x ssa.Value) bool {
		return x == root && x != avoid
	}) && !onlyThrough(v, root, avoid)
}

// onlyThrough: every backward route from v to root passes through `avoid` (checked by removing avoid).
func onlyThrough(v, root, avoid ssa.Value) bool {
	seen := map[ssa.Value]bool{avoid: true}
	var walk func(x ssa.Value, d int) bool
	walk = func(x ssa.Value, d int) bool {
		if x == nil || seen[x] || d > 40 {
			return false
		}
		seen[x] = true
		if x == root {
			return true
		}
		if in, ok := x.(ssa.Instruction); ok {
			for _, op := range in.Operands(nil) {
				if *op != nil && walk(*op, d+1) {
					return true
				}
			}
		}
		return false
	}
	return !walk(v, 0)
}

// placeholderNumberingAudit (C13-R6): a statement's placeholders $1..$n and its bound values correspond one to one.
// Inside a loop that collects bound values, numbering placeholders by the loop's position counter is only right when
// every iteration binds exactly one value. Where an iteration can bind a list of unknown length (append(args, vs...)),
// any number derived from the position counter that is handed on (to fmt.Sprintf or a helper) must come from the
// number of values bound so far (len(args)) instead - otherwise a later placeholder reuses the number of a list
// element, and a value supplied by the request is compared where a value fixed by the server was meant.
func placeholderNumberingAudit(c *Ctx, rule string, rels []string) int {
	n := 0
	for _, rel := range rels {
		for _, fn := range c.srcFuncs(rel) {
			for li, lp := range naturalLoops(fn) {
				// appends to a []interface{} inside the loop
				var spread []*ssa.Call
				single := 0
				for b := range lp.body {
					for _, ins := range b.Instrs {
						call, ok := ins.(*ssa.Call)
						if !ok || callName(call) != "builtin.append" || len(call.Call.Args) < 2 {
							continue
						}
						sl, ok := call.Type().Underlying().(*types.Slice)
						if !ok {
							continue
						}
						if _, isIface := sl.Elem().Underlying().(*types.Interface); !isIface {
							continue
						}
						// one element: the variadic argument is a slice of a fresh one-element array
						one := false
						if s2, ok := call.Call.Args[1].(*ssa.Slice); ok {
							if al, ok := s2.X.(*ssa.Alloc); ok {
								if at, ok := al.Type().Underlying().(*types.Pointer).Elem().Underlying().(*types.Array); ok && at.Len() == 1 {
									one = true
								}
							}
						}
						if one {
							single++
						} else {
							spread = append(spread, call)
						}
					}
				}
				if single+len(spread) == 0 {
					continue
				}
				n++
				if len(spread) == 0 {
					continue
				}
				// numbers derived from the loop's position counter that leave the iteration through a call
				isCounter := func(v ssa.Value) bool {
					return derivesFrom(v, func(x ssa.Value) bool {
						ph, ok := x.(*ssa.Phi)
						return ok && ph.Block() == lp.head && isIntKind(ph.Type())
					})
				}
				fromLen := func(v ssa.Value) bool {
					return derivesFrom(v, func(x ssa.Value) bool {
						cl, ok := x.(*ssa.Call)
						if !ok || callName(cl) != "builtin.len" {
							return false
						}
						sl, ok := cl.Call.Args[0].Type().Underlying().(*types.Slice)
						if !ok {
							return false
						}
						_, isIface := sl.Elem().Underlying().(*types.Interface)
						return isIface
					})
				}
				k := 0
				for b := range lp.body {
					for _, ins := range b.Instrs {
						call, ok := ins.(*ssa.Call)
						if !ok || callName(call) == "builtin.append" || callName(call) == "builtin.len" {
							continue
						}
						for _, a := range call.Call.Args {
							v := a
							if mi, ok := v.(*ssa.MakeInterface); ok {
								v = mi.X
							}
							if !isIntKind(v.Type()) || !isCounter(v) || fromLen(v) {
								continue
							}
							// indexing helpers (x[i]) are not calls; a counter handed to a call is a number put to use
							k++
							c.ob(rule, fnKey(fn)+"#loop-"+itoa(li+1)+"-placeholder-numbered-by-bound-values-"+itoa(k), call.Pos(), false,
								"this loop can bind a list of values in one iteration (append(args, vs...) at "+c.pos(spread[0].Pos())+") but hands "+short(callName(call))+" a number derived from the iteration counter: after a list of k values the following placeholders are numbered k-1 too low, so `role IN ($1, $2) AND tenant = $2` compares the tenant with a list element supplied by the caller")
						}
					}
				}
				if k == 0 {
					c.ob(rule, fnKey(fn)+"#loop-"+itoa(li+1)+"-placeholder-numbered-by-bound-values", spread[0].Pos(), true, "")
				}
			}
		}
	}
	return n
}

// memoKeyAudit (MEMO): a value kept in a long-lived table (a map held in a struct field) under a key that is a lossy
// transformation (case folding, trimming, a base name) of the very parameter the value is built from: two different
// inputs share one entry, and the second caller gets the object built for the first - `Table("audit")` after
// `Table("Audit")` issues statements against "Audit". Returns the number of table stores examined.
func memoKeyAudit(c *Ctx, rule string, rels []string, why string) int {
	lossy := map[string]bool{"strings.ToLower": true, "strings.ToUpper": true, "strings.Title": true, "strings.TrimSpace": true, "strings.Trim": true,
		"strings.TrimLeft": true, "strings.TrimRight": true, "strings.TrimPrefix": true, "strings.TrimSuffix": true, "path/filepath.Base": true, "path.Base": true,
		"strings.ToValidUTF8": true, "strings.Map": true, "strings.ReplaceAll": true, "strings.Replace": true}
	n := 0
	for _, rel := range rels {
		for _, fn := range c.srcFuncs(rel) {
			k := 0
			eachInstr(fn, func(_ *ssa.BasicBlock, _ int, ins ssa.Instruction) {
				mu, ok := ins.(*ssa.MapUpdate)
				if !ok {
					return
				}
				u, ok := mu.Map.(*ssa.UnOp)
				if !ok {
					return
				}
				if _, isField := u.X.(*ssa.FieldAddr); !isField {
					return
				}
				if !isStringType(mu.Key.Type()) {
					return
				}
				n++
				// the key is a lossy image of a string parameter …
				var lossyCall *ssa.Call
				var src *ssa.Parameter
				derivesFrom(mu.Key, func(v ssa.Value) bool {
					if cl, ok := v.(*ssa.Call); ok && lossy[callName(cl)] && lossyCall == nil {
						for _, a := range cl.Call.Args {
							if p, ok := a.(*ssa.Parameter); ok && isStringType(p.Type()) {
								lossyCall, src = cl, p
							}
						}
					}
					return false
				})
				if lossyCall == nil {
					return
				}
				// … and the key reaches the parameter only through that call, while the value is built from the parameter itself
				keyDirect := derivesFromAvoiding(mu.Key, lossyCall, func(v ssa.Value) bool { return v == ssa.Value(src) })
				valDirect := derivesFromAvoiding(mu.Value, lossyCall, func(v ssa.Value) bool { return v == ssa.Value(src) })
				if keyDirect || !valDirect {
					return
				}
				k++
				c.ob(rule, fnKey(fn)+"#table-key-covers-what-the-entry-was-built-from-"+itoa(k), mu.Pos(), false, "an entry built from the parameter "+src.Name()+" is filed under "+short(callName(lossyCall))+"("+src.Name()+"): inputs that differ only in what that call discards share one entry, and the later caller is handed the object built for the earlier one. "+why)
			})
		}
	}
	return n
}
