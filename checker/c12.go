package main

import (
	"go/token"
	"go/types"
	"sort"
	"strings"

	"golang.org/x/tools/go/ssa"
)

func init() {
	register(&propSpec{
		id: "C12", title: "Programs reach providers only through the allow-list", run: runC12,
		notCovered:  "what an allow-listed provider method does with well-typed arguments (its own semantics), providers registered at run time by embedding applications",
		assumptions: []string{"every GlyphLang-to-provider call funnels through interpreter.CallMethod (checked by R1/R6)", "provider packages are pkg/database, pkg/redis, pkg/mongodb, pkg/llm, pkg/httpclient"},
	})
}

var providerPkgs = []string{"pkg/database", "pkg/redis", "pkg/mongodb", "pkg/llm", "pkg/httpclient"}

func runC12(c *Ctx) {
	c.rule("C12-R7", "BND: in the provider packages the interpreter can reach (pkg/redis, pkg/mongodb, pkg/database) every index, slice expression and make whose bound derives from an integer parameter of an exported method (GlyphLang integers arrive there through CallMethod) is proven in range by dominating comparisons on the very values used (0 <= low <= high <= len, make length >= 0): an allow-listed method with well-typed arguments must not crash the runtime (`lrange(k, 5, 10)` on a 3-item list)")
	bndParamSources = true
	// floor 0: on this tree two sites exist (MockHandler.LRange); a refactoring that moves the index arithmetic into a
	// helper whose results are used leaves none, which is "nothing to prove", not "cannot decide"
	boundsRule(c, "C12-R7", []string{"pkg/redis", "pkg/mongodb", "pkg/database"}, 0)
	if c.Sites["C12-R7#runtime-int-bounds-sites"] == 0 {
		c.info("C12-R7", "provider-packages#no-direct-runtime-integer-bounds", token.NoPos, "no integer parameter of an exported provider method reaches an index, slice bound or make size directly")
	}
	bndParamSources = false
	// a constant index into a slice whose length nothing establishes: messages[0] of a list the caller may leave empty
	{
		n := 0
		for _, rel := range providerPkgs {
			for _, fn := range c.srcFuncs(rel) {
				k := 0
				eachInstr(fn, func(b *ssa.BasicBlock, _ int, ins ssa.Instruction) {
					var seq, idx ssa.Value
					switch y := ins.(type) {
					case *ssa.IndexAddr:
						seq, idx = y.X, y.Index
					case *ssa.Index:
						seq, idx = y.X, y.Index
					default:
						return
					}
					if _, isSlice := seq.Type().Underlying().(*types.Slice); !isSlice {
						return
					}
					kv, isK := constInt(idx)
					if !isK {
						return
					}
					// slices of arrays, makes of a known size and the never-empty results of strings.Split are not at stake
					exempt := false
					derivesFrom(seq, func(x ssa.Value) bool {
						switch y := x.(type) {
						case *ssa.Slice:
							if _, isArr := derefPtr(y.X.Type()).Underlying().(*types.Array); isArr {
								exempt = true
							}
						case *ssa.MakeSlice:
							if l, ok := constInt(y.Len); ok && l > kv {
								exempt = true
							}
						case *ssa.Call:
							if nm := callName(y); (nm == "strings.Split" || nm == "strings.SplitN") && kv == 0 {
								exempt = true
							}
						}
						return false
					})
					if exempt {
						return
					}
					n++
					k++
					isFields := derivesFrom(seq, func(x ssa.Value) bool {
						cl, ok := x.(*ssa.Call)
						return ok && callName(cl) == "strings.Fields"
					})
					q := &pathQuery{fn: fn, target: func(x ssa.Instruction) bool { return x == ins }, cutEdge: func(bb *ssa.BasicBlock, si int) bool {
						iff := ifOf(bb)
						if iff == nil {
							return false
						}
						// the first field of a text that matched the sanitiser's pattern (anchored, begins with a word
						// character: C13-R3) exists
						if isFields && kv == 0 {
							cond := iff.Cond
							truth := si == 0
							if u, ok := cond.(*ssa.UnOp); ok && u.Op == token.NOT {
								cond, truth = u.X, !truth
							}
							if cl, ok := cond.(*ssa.Call); ok && truth && callName(cl) == "regexp.Regexp.MatchString" {
								return true
							}
						}
						bo, ok := iff.Cond.(*ssa.BinOp)
						if !ok {
							return false
						}
						var cst int64
						var lenSide ssa.Value
						op := bo.Op
						if cv, ok := constInt(bo.Y); ok {
							cst, lenSide = cv, bo.X
						} else if cv, ok := constInt(bo.X); ok {
							cst, lenSide = cv, bo.Y
							switch op { // mirror: c op len  ->  len op' c
							case token.LSS:
								op = token.GTR
							case token.LEQ:
								op = token.GEQ
							case token.GTR:
								op = token.LSS
							case token.GEQ:
								op = token.LEQ
							}
						} else {
							return false
						}
						la := lenArg(lenSide)
						if la == nil || !sameSeq(la, seq) {
							return false
						}
						t := si == 0
						switch op {
						case token.LSS: // len < c false  ->  len >= c
							return !t && cst > kv
						case token.LEQ: // len <= c false ->  len > c
							return !t && cst >= kv
						case token.GEQ:
							return t && cst > kv
						case token.GTR:
							return t && cst >= kv
						case token.EQL:
							return (t && cst > kv) || (!t && cst == 0 && kv == 0)
						case token.NEQ:
							return (!t && cst > kv) || (t && cst == 0 && kv == 0)
						}
						return false
					}}
					hit, path := q.fromEntry()
					c.ob("C12-R7", fnKey(fn)+"#constant-index-within-length-"+itoa(k), ins.Pos(), hit == nil, "element "+itoa(int(kv))+" of a slice is read on a path with no test of its length: a list the GlyphLang caller left empty, null or wrongly shaped (`messages: input.messages` with the field absent) panics the provider call instead of returning an error", c.blockPath(path)...)
				})
			}
		}
		c.Sites["C12-R7#constant-indexes"] = n
	}
	// a write into a map that a helper of the package may have answered with nil (a copy helper that keeps a null
	// document null): `assignment to entry in nil map` is a panic, here between a Lock and its Unlock
	{
		n := 0
		mayReturnNilMap := func(h *ssa.Function) bool {
			if h == nil || len(h.Blocks) == 0 || h.Signature.Results().Len() != 1 {
				return false
			}
			if _, isMap := h.Signature.Results().At(0).Type().Underlying().(*types.Map); !isMap {
				return false
			}
			r := false
			eachInstr(h, func(_ *ssa.BasicBlock, _ int, ins ssa.Instruction) {
				if ret, ok := ins.(*ssa.Return); ok && len(ret.Results) == 1 && isNilConst(stripConv(ret.Results[0])) {
					r = true
				}
			})
			return r
		}
		for _, rel := range providerPkgs {
			for _, fn := range c.srcFuncs(rel) {
				k := 0
				eachInstr(fn, func(_ *ssa.BasicBlock, _ int, ins ssa.Instruction) {
					mu, ok := ins.(*ssa.MapUpdate)
					if !ok {
						return
					}
					cl, ok := mu.Map.(*ssa.Call)
					if !ok {
						return
					}
					h := staticFn(cl)
					if h == nil || h.Pkg != fn.Pkg || !mayReturnNilMap(h) {
						return
					}
					n++
					k++
					q := &pathQuery{fn: fn, target: func(x ssa.Instruction) bool { return x == ins }, cutEdge: func(bb *ssa.BasicBlock, si int) bool {
						return nonNilOnEdge(bb, si, cl)
					}}
					hit, path := q.after(cl)
					c.ob("C12-R5", fnKey(fn)+"#write-into-a-map-that-may-be-nil-"+itoa(k), mu.Pos(), hit == nil, "the map written here is what "+h.Name()+" returned, and "+h.Name()+" can return nil (for a null argument): the write panics - in a mock that holds its mutex without defer, every later call of the provider then blocks", c.blockPath(path)...)
				})
			}
		}
		c.Sites["C12-R5#writes-into-helper-maps"] = n
	}
	// ---- R1 single reflective gate
	c.rule("C12-R1", "WCS: reflect.Value.MethodByName / Method / Call / CallSlice are used in pkg/interpreter only inside CallMethod and HasMethod, and HasMethod never calls; no other package of the provider path performs reflective calls on GlyphLang-supplied names")
	reflCalls := map[string]bool{"reflect.Value.MethodByName": true, "reflect.Value.Method": true, "reflect.Value.Call": true, "reflect.Value.CallSlice": true}
	n := 0
	for _, fn := range c.srcFuncs(interpPkg) {
		top := fnKey(topParent(fn))
		eachCall(fn, func(call ssa.CallInstruction) {
			nm := callName(call)
			if !reflCalls[nm] {
				return
			}
			n++
			ok := top == interpPkg+".CallMethod" || (top == interpPkg+".HasMethod" && nm == "reflect.Value.MethodByName")
			c.ob("C12-R1", fnKey(fn)+"#"+strings.TrimPrefix(nm, "reflect.Value.")+"-"+itoa(n), call.Pos(), ok, "reflective method lookup/call outside the allow-list gate (CallMethod): a GlyphLang-supplied name can reach Go methods without passing the allow-list")
		})
	}
	if n < 3 {
		c.undecided("C12-R1: %d reflective sites found in pkg/interpreter, floor 3", n)
	}

	cm := c.mustFn("C12-R2", interpPkg, "CallMethod")
	if cm == nil {
		return
	}
	// ---- R2 allow-list before lookup
	c.rule("C12-R2", "MPT: in CallMethod every MethodByName is reachable only through the allowed==true edge of canonicalMethodName(name) and looks up that function's first result (the allow-list's own spelling), never the raw argument; canonicalMethodName returns true only for a key of allowedMethods (exact hit or strings.EqualFold against a ranged key)")
	var canon *ssa.Call
	eachInstr(cm, func(_ *ssa.BasicBlock, _ int, ins ssa.Instruction) {
		if cl, ok := ins.(*ssa.Call); ok && callName(cl) == interpPath+".canonicalMethodName" {
			canon = cl
		}
	})
	if canon == nil {
		c.ob("C12-R2", interpPkg+".CallMethod#canonicalMethodName", cm.Pos(), false, "CallMethod no longer consults canonicalMethodName: the allow-list gate is absent")
	} else {
		allowed := extractOf(canon, 1)
		eachInstr(cm, func(_ *ssa.BasicBlock, _ int, ins ssa.Instruction) {
			cl, ok := ins.(*ssa.Call)
			if !ok || callName(cl) != "reflect.Value.MethodByName" {
				return
			}
			q := &pathQuery{fn: cm, target: func(x ssa.Instruction) bool { return x == ins }, cutEdge: func(b *ssa.BasicBlock, si int) bool {
				for _, a := range allowed {
					if known, val := boolOnEdge(b, si, a); known && val {
						return true
					}
				}
				return false
			}}
			hit, path := q.fromEntry()
			c.ob("C12-R2", interpPkg+".CallMethod#lookup-after-allow-list", cl.Pos(), hit == nil && len(allowed) > 0, "MethodByName is reachable without the allow-list having accepted the name", c.blockPath(path)...)
			nameOK := false
			for _, e := range extractOf(canon, 0) {
				if cl.Call.Args[1] == e {
					nameOK = true
				}
			}
			c.ob("C12-R2", interpPkg+".CallMethod#lookup-uses-canonical-name", cl.Pos(), nameOK, "MethodByName is given something other than the allow-list's canonical spelling")
		})
	}
	if cn := c.mustFn("C12-R2", interpPkg, "canonicalMethodName"); cn != nil {
		// every return with true: first result derives from allowedMethods (key) — exact lookup true edge or ranged key under EqualFold true edge
		k := 0
		eachInstr(cn, func(_ *ssa.BasicBlock, _ int, ins ssa.Instruction) {
			r, ok := ins.(*ssa.Return)
			if !ok || isConstBool(retVals(r)[1], false) {
				return
			}
			k++
			var lookups, folds []ssa.Value
			eachInstr(cn, func(_ *ssa.BasicBlock, _ int, x ssa.Instruction) {
				if lk, ok := x.(*ssa.Lookup); ok && !lk.CommaOk && isGlobalLoad(lk.X, "allowedMethods") {
					lookups = append(lookups, lk)
				}
				if cl, ok := x.(*ssa.Call); ok && callName(cl) == "strings.EqualFold" {
					folds = append(folds, cl)
				}
			})
			q := &pathQuery{fn: cn, target: func(x ssa.Instruction) bool { return x == ins }, cutEdge: func(b *ssa.BasicBlock, si int) bool {
				for _, v := range append(lookups, folds...) {
					if known, val := boolOnEdge(b, si, v); known && val {
						return true
					}
				}
				return false
			}}
			hit, path := q.fromEntry()
			c.ob("C12-R2", interpPkg+".canonicalMethodName#true-only-for-listed-"+itoa(k), r.Pos(), hit == nil, "canonicalMethodName can answer 'allowed' without a hit in allowedMethods", c.blockPath(path)...)
			// the returned name: the argument itself on the exact-hit edge, or the ranged key
			v := retVals(r)[0]
			okName := v == ssa.Value(cn.Params[0]) || derivesFrom(v, func(x ssa.Value) bool {
				nx, ok := x.(*ssa.Next)
				if !ok {
					return false
				}
				rg, ok := nx.Iter.(*ssa.Range)
				return ok && isGlobalLoad(rg.X, "allowedMethods")
			})
			c.ob("C12-R2", interpPkg+".canonicalMethodName#returns-listed-spelling-"+itoa(k), r.Pos(), okName, "the canonical name returned is not a key of allowedMethods")
		})
	}

	// ---- R3 no reflective panic
	c.rule("C12-R3", "MPT: reflect.Value.Call in CallMethod is reached only after an arity comparison of len(args) with the method type's NumIn() on every path (variadic and fixed), and every reflect.ValueOf(arg) stored into the argument vector passed the true edge of Type.AssignableTo/ConvertibleTo for its parameter (null handled by a typed zero), or the function has a deferred recover")
	hasRecover := false
	for _, f := range withAnon(cm) {
		eachCall(f, func(call ssa.CallInstruction) {
			if callName(call) == "builtin.recover" {
				hasRecover = true
			}
		})
	}
	eachInstr(cm, func(_ *ssa.BasicBlock, _ int, ins ssa.Instruction) {
		cl, ok := ins.(*ssa.Call)
		if !ok || callName(cl) != "reflect.Value.Call" {
			return
		}
		isArityCmp := func(x ssa.Instruction) bool {
			bo, ok := x.(*ssa.BinOp)
			if !ok {
				return false
			}
			switch bo.Op {
			case token.LSS, token.GTR, token.LEQ, token.GEQ, token.EQL, token.NEQ:
			default:
				return false
			}
			isLenArgs := func(v ssa.Value) bool {
				c2, ok := v.(*ssa.Call)
				return ok && callName(c2) == "builtin.len" && c2.Call.Args[0] == ssa.Value(cm.Params[len(cm.Params)-1])
			}
			isNumIn := func(v ssa.Value) bool {
				return derivesFrom(v, func(y ssa.Value) bool {
					c2, ok := y.(*ssa.Call)
					return ok && c2.Call.IsInvoke() && c2.Call.Method.Name() == "NumIn"
				})
			}
			return (isLenArgs(bo.X) && isNumIn(bo.Y)) || (isLenArgs(bo.Y) && isNumIn(bo.X))
		}
		q := &pathQuery{fn: cm, target: func(x ssa.Instruction) bool { return x == ins }, stop: isArityCmp}
		hit, path := q.fromEntry()
		c.ob("C12-R3", interpPkg+".CallMethod#arity-checked-before-call", cl.Pos(), hasRecover || hit == nil, "reflect.Call is reachable on a path that never compared len(args) with the method's NumIn(): a wrong argument count panics instead of returning an error", c.blockPath(path)...)
	})
	{
		k := 0
		eachInstr(cm, func(_ *ssa.BasicBlock, _ int, ins ssa.Instruction) {
			st, ok := ins.(*ssa.Store)
			if !ok {
				return
			}
			if _, isIA := st.Addr.(*ssa.IndexAddr); !isIA || !typeIs(st.Val.Type(), "reflect", "Value") {
				return
			}
			k++
			// sources of the stored value
			okSrc := derivesFromOnly(st.Val, func(x ssa.Value) (bool, bool) {
				cl, ok := x.(*ssa.Call)
				if !ok {
					return false, false
				}
				switch callName(cl) {
				case "reflect.Zero", "reflect.New":
					return true, true
				case "reflect.Value.Convert":
					return true, true
				case "reflect.ValueOf":
					// must be behind AssignableTo/ConvertibleTo true edge on its type
					var checks []ssa.Value
					eachInstr(cm, func(_ *ssa.BasicBlock, _ int, y ssa.Instruction) {
						c2, ok := y.(*ssa.Call)
						if !ok {
							return
						}
						nm := ""
						if c2.Call.IsInvoke() {
							nm = c2.Call.Method.Name()
						}
						if (nm == "AssignableTo" || nm == "ConvertibleTo") && derivesFrom(c2.Call.Value, func(z ssa.Value) bool { return z == ssa.Value(cl) }) {
							checks = append(checks, c2)
						}
					})
					q := &pathQuery{fn: cm, target: func(y ssa.Instruction) bool { return y == ins }, cutEdge: func(b *ssa.BasicBlock, si int) bool {
						for _, ch := range checks {
							if known, val := boolOnEdge(b, si, ch); known && val {
								return true
							}
						}
						return false
					}}
					hit, _ := q.fromEntry()
					return true, len(checks) > 0 && hit == nil
				}
				return true, false
			})
			c.ob("C12-R3", interpPkg+".CallMethod#argument-assignable-"+itoa(k), st.Pos(), hasRecover || okSrc, "an argument is handed to reflect.Call without having been checked against its parameter type (null or wrongly typed GlyphLang values panic in reflect.Call)")
		})
		if k == 0 {
			c.ob("C12-R3", interpPkg+".CallMethod#argument-vector", cm.Pos(), hasRecover, "no argument vector construction found in CallMethod")
		}
	}

	// ---- R8 null for an interface parameter; per-provider lists are consulted
	c.rule("C12-R8", "GRD: a GlyphLang null becomes the typed zero of the parameter only where a nil value is a value of that parameter: in CallMethod, from the taken edge of `Kind() == reflect.Interface` the reflect.Zero is reached only through a test of the parameter type's NumMethod() (the empty interface takes nil; a Context, an io.Reader or any interface with methods does not - the callee calls a method on it at once and panics, possibly while holding a lock of a library: `q.get(null)` wedges the connection pool). WCS: the per-provider allow-lists (providerMethods, with RegisterProviderMethods for custom providers) are read on the dispatch path: by a function reachable from CallMethod, HasMethod or the evaluator's method-call paths")
	if cm0 := c.mustFn("C12-R8", interpPkg, "CallMethod"); cm0 != nil {
		// the null handling may sit in CallMethod or in a predicate it asks (acceptsNull(paramType) bool): there the
		// "zero value is made" event is the predicate answering true
		nullFns := []*ssa.Function{cm0}
		eachCall(cm0, func(cl ssa.CallInstruction) {
			if sf := staticFn(cl); sf != nil && sf != cm0 && sf.Pkg == cm0.Pkg && len(sf.Blocks) > 0 {
				nullFns = append(nullFns, sf)
			}
		})
		nTests := 0
		for _, cm := range nullFns {
			isNumMethodIf := func(x ssa.Instruction) bool {
				iff, ok := x.(*ssa.If)
				return ok && derivesFrom(iff.Cond, func(v ssa.Value) bool {
					cl, ok := v.(*ssa.Call)
					return ok && cl.Call.IsInvoke() && cl.Call.Method.Name() == "NumMethod"
				})
			}
			isZero := func(x ssa.Instruction) bool {
				if isCallTo(x, "reflect.Zero") {
					return true
				}
				if cm != cm0 { // in a predicate: answering true (directly, not as the result of the NumMethod comparison)
					if r, ok := x.(*ssa.Return); ok && len(r.Results) == 1 && isConstBool(r.Results[0], true) {
						return true
					}
				}
				return false
			}
			n := 0
			for _, b := range cm.Blocks {
				iff := ifOf(b)
				if iff == nil {
					continue
				}
				bo, ok := iff.Cond.(*ssa.BinOp)
				if !ok || bo.Op != token.EQL {
					continue
				}
				isKind := func(v ssa.Value) bool {
					cl, ok := v.(*ssa.Call)
					return ok && cl.Call.IsInvoke() && cl.Call.Method.Name() == "Kind"
				}
				var k int64
				var okK bool
				switch {
				case isKind(bo.X):
					k, okK = constInt(bo.Y)
				case isKind(bo.Y):
					k, okK = constInt(bo.X)
				}
				if !okK || k != 20 /* reflect.Interface */ {
					continue
				}
				n++
				q := &pathQuery{fn: cm, stop: isNumMethodIf, target: isZero}
				hit, path := q.from(b.Succs[0], 0)
				c.ob("C12-R8", interpPkg+".CallMethod#null-for-an-interface-parameter-only-if-it-has-no-methods", bo.Pos(), hit == nil, "a null argument is turned into the nil value of any interface-typed parameter: a provider method that takes a context.Context (or any interface with methods) is called with nil and panics inside the callee - `db.users.where(...).get(null)` dereferences the nil context while database/sql holds its pool mutex, the panic leaves ExecuteRoute and every later query blocks for ever", c.blockPath(path)...)
			}
			nTests += n
		}
		c.ob("C12-R8", interpPkg+".CallMethod#kind-test-for-null-arguments", cm0.Pos(), nTests > 0, "CallMethod no longer distinguishes interface parameters when it meets a null argument: the rule cannot see where nil values are made")
	}
	{
		// readers of providerMethods
		var readers []*ssa.Function
		for _, fn := range c.srcFuncs(interpPkg) {
			eachInstr(fn, func(_ *ssa.BasicBlock, _ int, ins ssa.Instruction) {
				for _, op := range ins.Operands(nil) {
					if g, ok := (*op).(*ssa.Global); ok && g.Name() == "providerMethods" {
						if _, isStore := ins.(*ssa.Store); isStore {
							continue
						}
						readers = append(readers, fn)
					}
				}
			})
		}
		reach := map[*ssa.Function]bool{}
		var visit func(f *ssa.Function, d int)
		visit = func(f *ssa.Function, d int) {
			if f == nil || reach[f] || d > 8 || f.Pkg == nil || f.Pkg.Pkg.Path() != interpPath {
				return
			}
			reach[f] = true
			for _, a := range f.AnonFuncs {
				visit(a, d)
			}
			eachCall(f, func(cl ssa.CallInstruction) { visit(staticFn(cl), d+1) })
		}
		for _, root := range []string{"CallMethod", "HasMethod", "Interpreter.callReceiverMethod", "Interpreter.evaluateFunctionCall", "Interpreter.evaluateFieldAccess"} {
			visit(c.fn(interpPkg, root), 0)
		}
		consulted := false
		for _, r := range readers {
			if reach[r] && r.Name() != "init" {
				consulted = true
			}
		}
		c.ob("C12-R8", interpPkg+".providerMethods#consulted-on-the-dispatch-path", token.NoPos, consulted, "the per-provider allow-lists are declared (and a custom provider can register its own) but nothing on the method-call path reads them: every name allow-listed for some provider is callable on every provider - a custom provider registered with {Lookup} answers flushAll, delete and keys, while its own lookup is refused")
	}

	// ---- R4 allow-list hygiene
	c.rule("C12-R4", "TBL/WCS: keys of allowedMethods are pairwise distinct under strings.EqualFold (canonicalMethodName ranges over the map, so a case-duplicate makes resolution nondeterministic); every method name in the built-in providerMethods tables is also in allowedMethods; allowedMethods is written only by its package initialiser (nothing can widen the global allow-list at run time)")
	allow := allowListKeys(c, "allowedMethods")
	prov := allowListNames(c)
	var keys []string
	for k := range allow {
		keys = append(keys, k)
	}
	sort.Strings(keys)
	seenFold := map[string]string{}
	for _, k := range keys {
		f := strings.ToLower(k)
		if prev, dup := seenFold[f]; dup {
			c.ob("C12-R4", interpPkg+".allowedMethods#case-duplicate:"+k, token.NoPos, false, "allow-list contains "+prev+" and "+k+", equal under EqualFold")
		}
		seenFold[f] = k
	}
	c.ob("C12-R4", interpPkg+".allowedMethods#distinct-under-fold", token.NoPos, true, "")
	var missing []string
	for k := range prov {
		if !allow[k] {
			missing = append(missing, k)
		}
	}
	sort.Strings(missing)
	c.ob("C12-R4", interpPkg+".providerMethods#subset-of-allowedMethods", token.NoPos, len(missing) == 0, "provider tables list methods CallMethod will refuse: "+strings.Join(missing, ","))
	if len(allow) < 40 {
		c.undecided("C12-R4: allowedMethods extraction found %d keys, floor 40", len(allow))
	}
	w := 0
	for _, fn := range c.srcFuncs(interpPkg) {
		eachInstr(fn, func(_ *ssa.BasicBlock, _ int, ins ssa.Instruction) {
			bad := false
			switch x := ins.(type) {
			case *ssa.MapUpdate:
				bad = isGlobalLoad(x.Map, "allowedMethods")
			case *ssa.Store:
				if g, ok := x.Addr.(*ssa.Global); ok && g.Name() == "allowedMethods" {
					bad = true
				}
			case *ssa.Call:
				if callName(x) == "builtin.delete" && isGlobalLoad(x.Call.Args[0], "allowedMethods") {
					bad = true
				}
			}
			if bad {
				w++
				c.ob("C12-R4", fnKey(fn)+"#writes-allowedMethods-"+itoa(w), ins.Pos(), false, "the global allow-list is modified at run time: a program (e.g. by declaring a provider contract) can make further Go methods reachable on every provider")
			}
		})
	}
	c.ob("C12-R4", interpPkg+".allowedMethods#written-only-by-init", token.NoPos, w == 0, "")

	// ---- R5 reachable surface
	c.rule("C12-R5", "enumeration + PAN: for every provider type (pkg/database, pkg/redis, pkg/mongodb, pkg/llm, pkg/httpclient) the exported methods that match the allow-list under EqualFold are listed as the reachable Go surface; inside the provider packages no ==/!= compares two dynamic interface values without a comparability guard, and no single-result type assertion is applied to a value derived from an interface-typed parameter of an exported method without a dominating comma-ok test")
	nSurf := 0
	for _, rel := range providerPkgs {
		p := c.Pkgs[modPath+"/"+rel]
		if p == nil {
			continue
		}
		sc := p.Types.Scope()
		for _, name := range sc.Names() {
			tn, ok := sc.Lookup(name).(*types.TypeName)
			if !ok || !tn.Exported() {
				continue
			}
			if _, isIface := tn.Type().Underlying().(*types.Interface); isIface {
				continue
			}
			ms := types.NewMethodSet(types.NewPointer(tn.Type()))
			var reach, blocked []string
			for i := 0; i < ms.Len(); i++ {
				m := ms.At(i).Obj()
				if !m.Exported() {
					continue
				}
				hit := false
				for k := range allow {
					if strings.EqualFold(k, m.Name()) {
						hit = true
					}
				}
				if hit {
					reach = append(reach, m.Name())
				} else {
					blocked = append(blocked, m.Name())
				}
			}
			if len(reach) == 0 {
				continue
			}
			nSurf++
			c.info("C12-R5", rel+"."+name+"#surface", tn.Pos(), "reachable: "+strings.Join(reach, ",")+" | not reachable (not allow-listed): "+strings.Join(blocked, ","))
		}
	}
	c.Sites["C12-R5#provider-types"] = nSurf
	if nSurf < 6 {
		c.undecided("C12-R5: %d provider types with reachable methods, floor 6", nSurf)
	}
	ifaceEqAudit(c, "C12-R5", providerPkgs, nil)
	uncheckedAssertAudit(c, "C12-R5", providerPkgs, func(fn *ssa.Function, ta *ssa.TypeAssert) bool {
		// operand derives from an interface-typed (or []interface{}) parameter of an exported method
		top := fn
		fo, ok := top.Object().(*types.Func)
		if !ok || !fo.Exported() || top.Signature.Recv() == nil {
			return false
		}
		return derivesFrom(ta.X, func(v ssa.Value) bool {
			p, ok := v.(*ssa.Parameter)
			if !ok {
				return false
			}
			if _, isI := p.Type().Underlying().(*types.Interface); isI {
				return true
			}
			if sl, isS := p.Type().Underlying().(*types.Slice); isS {
				_, isI := sl.Elem().Underlying().(*types.Interface)
				return isI
			}
			return false
		})
	})

	// ---- R6 other call forms
	c.rule("C12-R6", "WCS: pkg/interpreter calls methods of provider-package types non-reflectively only through interface assertions whose method names are on the allow-list (today: Table(string))")
	for _, fn := range c.srcFuncs(interpPkg) {
		k := 0
		eachCall(fn, func(call ssa.CallInstruction) {
			f := calleeOf(call)
			if f == nil || f.Pkg() == nil {
				return
			}
			sig := f.Type().(*types.Signature)
			if sig.Recv() == nil {
				return
			}
			isProv := false
			for _, rel := range providerPkgs {
				if f.Pkg().Path() == modPath+"/"+rel {
					isProv = true
				}
			}
			// anonymous interface asserted in the interpreter: interface{ Table(string) … }
			if !isProv && call.Common().IsInvoke() {
				if _, anon := call.Common().Value.Type().(*types.Interface); anon && f.Pkg().Path() == interpPath {
					isProv = true
				}
			}
			if !isProv {
				return
			}
			k++
			c.ob("C12-R6", fnKey(fn)+"#direct-provider-call-"+itoa(k)+":"+f.Name(), call.Pos(), allow[f.Name()], "the interpreter calls provider method "+f.Name()+" directly although it is not on the allow-list")
		})
	}
}

func isGlobalLoad(v ssa.Value, name string) bool {
	u, ok := v.(*ssa.UnOp)
	if !ok || u.Op != token.MUL {
		return false
	}
	g, ok := u.X.(*ssa.Global)
	return ok && g.Name() == name
}

// allowListKeys returns the constant keys stored into the package-level map `name` of pkg/interpreter by init.
func allowListKeys(c *Ctx, name string) map[string]bool {
	out := map[string]bool{}
	init := c.spkg(interpPkg).Func("init")
	if init == nil {
		return out
	}
	eachInstr(init, func(_ *ssa.BasicBlock, _ int, ins ssa.Instruction) {
		mu, ok := ins.(*ssa.MapUpdate)
		if !ok {
			return
		}
		for _, r := range refs(mu.Map) {
			if st, ok := r.(*ssa.Store); ok {
				if g, ok := st.Addr.(*ssa.Global); ok && g.Name() == name {
					if s, ok := constString(mu.Key); ok {
						out[s] = true
					}
				}
			}
		}
	})
	return out
}
