package main

import (
	"go/token"
	"go/types"
	"sort"
	"strconv"
	"strings"

	"golang.org/x/tools/go/ssa"
)

func init() {
	register(&propSpec{
		id: "C14", title: "Database transactions are all-or-nothing", run: runC14,
		notCovered:  "what the database does on commit/rollback, cancelled contexts inside the driver, visibility of partial effects as observed on a real engine (histories)",
		assumptions: []string{"a transaction function is any function of the module that obtains a *sql.Tx from a Begin/BeginTx call and does not return it", "deferred closures run at every exit after their defer statement"},
	})
}

func isTxMethod(ins ssa.Instruction, name string) bool {
	call, ok := ins.(ssa.CallInstruction)
	if !ok {
		return false
	}
	return callName(call) == "database/sql.Tx."+name
}

func runC14(c *Ctx) {
	c.rule("C14-R1", "ORD typestate on *sql.Tx: in every function that begins a transaction and does not return it: from the callback's err!=nil edge every path to return passes tx.Rollback and none reaches tx.Commit; from its err==nil edge every path to return passes tx.Commit; a deferred closure calls recover() itself (not through a helper, where it returns nil), rolls back on the recovered!=nil edge and re-panics with the recovered value; Commit is never reachable in a deferred function without its own recover()==nil test; Commit is not reachable after Rollback. A function that opens a SAVEPOINT on a transaction it was given (nested transaction) is held to the same typestate with ROLLBACK TO SAVEPOINT / RELEASE SAVEPOINT in the roles of Rollback / Commit")
	scope := []string{dbPkg}
	if c.Tier == "thorough" {
		scope = nil
		for p := range c.SSA {
			scope = append(scope, strings.TrimPrefix(p, modPath+"/"))
		}
	}
	nTx, nSave := 0, 0
	for _, rel := range scope {
		for _, fn := range c.srcFuncs(rel) {
			if fn.Parent() != nil {
				continue
			}
			// begins a tx?
			var txs []ssa.Value
			eachInstr(fn, func(_ *ssa.BasicBlock, _ int, ins ssa.Instruction) {
				call, ok := ins.(*ssa.Call)
				if !ok {
					return
				}
				f := calleeOf(call)
				if f == nil || (f.Name() != "Begin" && f.Name() != "BeginTx") {
					return
				}
				tup, ok := call.Type().(*types.Tuple)
				if !ok || tup.Len() != 2 || !typeIs(tup.At(0).Type(), "database/sql", "Tx") {
					return
				}
				txs = append(txs, extractOf(call, 0)...)
			})
			// a helper that runs a transaction it is handed to its end (it commits the *sql.Tx parameter): the shared tail
			// of several drivers' Transaction methods. It is held to the typestate itself ...
			ownsCommit := func(h *ssa.Function) *ssa.Parameter {
				for _, p := range h.Params {
					if !typeIs(p.Type(), "database/sql", "Tx") {
						continue
					}
					owns := false
					eachInstr(h, func(_ *ssa.BasicBlock, _ int, ins ssa.Instruction) {
						// (a parameter that a deferred closure captures is spilled to a cell: follow the loads)
						if cl, ok := ins.(*ssa.Call); ok && isTxMethod(ins, "Commit") && len(cl.Call.Args) > 0 && derivesFrom(cl.Call.Args[0], func(v ssa.Value) bool { return v == ssa.Value(p) }) {
							owns = true
						}
					})
					if owns {
						return p
					}
				}
				return nil
			}
			if len(txs) == 0 {
				if p := ownsCommit(fn); p != nil {
					txs = append(txs, p)
				}
			} else {
				// ... and a function that begins a transaction and hands it to such a helper has delegated the typestate:
				// what is left to it is to return the helper's verdict
				var deleg *ssa.Call
				eachInstr(fn, func(_ *ssa.BasicBlock, _ int, ins ssa.Instruction) {
					cl, ok := ins.(*ssa.Call)
					if !ok {
						return
					}
					h := staticFn(cl)
					if h == nil || h.Pkg != fn.Pkg || ownsCommit(h) == nil {
						return
					}
					for _, a := range cl.Call.Args {
						for _, tx := range txs {
							if a == tx {
								deleg = cl
							}
						}
					}
				})
				if deleg != nil {
					nTx++
					returned := false
					eachInstr(fn, func(_ *ssa.BasicBlock, _ int, ins ssa.Instruction) {
						if r, ok := ins.(*ssa.Return); ok && len(r.Results) > 0 && stripConv(retVals(r)[len(r.Results)-1]) == ssa.Value(deleg) {
							returned = true
						}
					})
					c.ob("C14-R1", fnKey(fn)+"#returns-the-verdict-of-"+staticFn(deleg).Name(), deleg.Pos(), returned, "the transaction is run to its end by "+staticFn(deleg).Name()+" but its error is not what this function returns: a rolled-back transaction is reported as done")
					continue
				}
			}
			// … or opens a savepoint on a transaction it was given (a nested transaction): the same typestate,
			// with ROLLBACK TO SAVEPOINT / RELEASE SAVEPOINT in the roles of Rollback / Commit
			savepoint := false
			if len(txs) == 0 {
				eachInstr(fn, func(_ *ssa.BasicBlock, _ int, ins ssa.Instruction) {
					if sqlTextHasPrefix(ins, "SAVEPOINT ") {
						savepoint = true
					}
				})
				if !savepoint {
					continue
				}
			}
			// returns the tx? then it is a Begin wrapper, not a transaction function
			returnsTx := false
			eachInstr(fn, func(_ *ssa.BasicBlock, _ int, ins ssa.Instruction) {
				if r, ok := ins.(*ssa.Return); ok {
					for _, v := range retVals(r) {
						for _, tx := range txs {
							if v == tx {
								returnsTx = true
							}
						}
					}
				}
			})
			if returnsTx {
				continue
			}
			nTx++
			key := fnKey(fn)
			c.touched(fn)
			// the callback call: a dynamic call receiving the tx (or a context derived from it)
			var cbErrs []ssa.Value
			eachInstr(fn, func(_ *ssa.BasicBlock, _ int, ins ssa.Instruction) {
				call, ok := ins.(*ssa.Call)
				if !ok || call.Call.IsInvoke() || call.Call.StaticCallee() != nil {
					return
				}
				if _, isB := call.Call.Value.(*ssa.Builtin); isB {
					return
				}
				if call.Type().String() == "error" {
					cbErrs = append(cbErrs, call)
				}
			})
			if len(cbErrs) == 0 {
				c.info("C14-R1", key+"#no-callback", fn.Pos(), "transaction function without a callback; only the exit rules are checked")
			}
			isRollback := func(x ssa.Instruction) bool { return isTxMethod(x, "Rollback") && !isDeferInstr(x) }
			isCommit := func(x ssa.Instruction) bool { return isTxMethod(x, "Commit") }
			isRollbackAny := func(x ssa.Instruction) bool { return isTxMethod(x, "Rollback") }
			if savepoint {
				isRollback = func(x ssa.Instruction) bool { return sqlTextHasPrefix(x, "ROLLBACK TO") && !isDeferInstr(x) }
				isCommit = func(x ssa.Instruction) bool { return sqlTextHasPrefix(x, "RELEASE") }
				isRollbackAny = func(x ssa.Instruction) bool { return sqlTextHasPrefix(x, "ROLLBACK TO") }
				nSave++
			}
			for i, cb := range cbErrs {
				// err != nil edge
				var errBlocks, okBlocks []*ssa.BasicBlock
				for _, b := range fn.Blocks {
					for si, s := range b.Succs {
						if nonNilOnEdge(b, si, cb) {
							errBlocks = append(errBlocks, s)
						}
						if nilOnEdge(b, si, cb) {
							okBlocks = append(okBlocks, s)
						}
					}
				}
				sfx := ""
				if len(cbErrs) > 1 {
					sfx = "-" + itoa(i+1)
				}
				if len(errBlocks) == 0 {
					// `return fn(tx)`-style: not this repository's idiom
					c.ob("C14-R1", key+"#callback-error-tested"+sfx, cb.Pos(), false, "the callback's error is never tested: rollback on error cannot be established")
					continue
				}
				for _, eb := range errBlocks {
					q := &pathQuery{fn: fn, target: isReturn, stop: isRollback}
					hit, path := q.from(eb, 0)
					c.ob("C14-R1", key+"#rollback-on-callback-error"+sfx, cb.Pos(), hit == nil, "from the callback's error edge a return is reachable without tx.Rollback(): the transaction (and its pooled connection) is left open / partial work is not undone", c.blockPath(path)...)
					q2 := &pathQuery{fn: fn, target: isCommit}
					hit2, path2 := q2.from(eb, 0)
					c.ob("C14-R1", key+"#no-commit-on-callback-error"+sfx, cb.Pos(), hit2 == nil, "tx.Commit() is reachable after the callback returned an error", c.blockPath(path2)...)
				}
				for _, ob := range okBlocks {
					q := &pathQuery{fn: fn, target: isReturn, stop: func(x ssa.Instruction) bool { return isCommit(x) }}
					hit, path := q.from(ob, 0)
					c.ob("C14-R1", key+"#commit-on-success"+sfx, cb.Pos(), hit == nil, "from the callback's success edge a return is reachable without tx.Commit()", c.blockPath(path)...)
				}
			}
			// no commit after rollback
			eachInstr(fn, func(_ *ssa.BasicBlock, _ int, ins ssa.Instruction) {
				if !isRollback(ins) {
					return
				}
				q := &pathQuery{fn: fn, target: isCommit}
				hit, path := q.after(ins)
				c.ob("C14-R1", key+"#no-commit-after-rollback", ins.Pos(), hit == nil, "Commit reachable after Rollback", c.blockPath(path)...)
			})
			// deferred recover
			var deferred []*ssa.Function
			eachInstr(fn, func(_ *ssa.BasicBlock, _ int, ins ssa.Instruction) {
				if d, ok := ins.(*ssa.Defer); ok {
					if mc, ok := d.Call.Value.(*ssa.MakeClosure); ok {
						deferred = append(deferred, mc.Fn.(*ssa.Function))
					} else if sf := d.Call.StaticCallee(); sf != nil {
						deferred = append(deferred, sf)
					}
				}
			})
			okRecover := false
			for _, df := range deferred {
				c.touched(df)
				var recs []ssa.Value
				eachInstr(df, func(_ *ssa.BasicBlock, _ int, ins ssa.Instruction) {
					if cl, ok := ins.(*ssa.Call); ok && callName(cl) == "builtin.recover" {
						recs = append(recs, cl)
					}
				})
				// commit in deferred function only under its own recover()==nil
				eachInstr(df, func(_ *ssa.BasicBlock, _ int, ins ssa.Instruction) {
					if !isCommit(ins) {
						return
					}
					q := &pathQuery{fn: df, target: func(x ssa.Instruction) bool { return x == ins }, cutEdge: func(b *ssa.BasicBlock, si int) bool {
						for _, r := range recs {
							if nilOnEdge(b, si, r) {
								return true
							}
						}
						return false
					}}
					hit, path := q.fromEntry()
					c.ob("C14-R1", key+"#deferred-commit-only-without-panic", ins.Pos(), hit == nil && len(recs) > 0, "a deferred function commits without having established recover()==nil in that same function: when the callback panics the partial work is committed while the panic unwinds", c.blockPath(path)...)
				})
				if len(recs) == 0 {
					continue
				}
				// recovered != nil edge → Rollback → panic(r)
				for _, r := range recs {
					for _, b := range df.Blocks {
						for si, s := range b.Succs {
							if !nonNilOnEdge(b, si, r) {
								continue
							}
							q := &pathQuery{fn: df, target: isExit, stop: isRollbackAny}
							hit, _ := q.from(s, 0)
							q2 := &pathQuery{fn: df, target: isReturn}
							hit2, _ := q2.from(s, 0)
							rePanic := false
							q3 := &pathQuery{fn: df, target: func(x ssa.Instruction) bool {
								p, ok := x.(*ssa.Panic)
								return ok && stripConv(p.X) == r
							}}
							if h3, _ := q3.from(s, 0); h3 != nil {
								rePanic = true
							}
							if hit == nil && hit2 == nil && rePanic {
								okRecover = true
							}
						}
					}
				}
			}
			c.ob("C14-R1", key+"#panic-rolls-back-and-repanics", fn.Pos(), okRecover, "no deferred function of this transaction calls recover() itself, rolls back on the recovered!=nil edge and re-panics with the recovered value: a panicking callback leaves the transaction open or swallows the panic")
			// helpers that call recover() but are not deferred directly (recover returns nil there)
			for _, df := range deferred {
				eachCall(df, func(call ssa.CallInstruction) {
					if sf := staticFn(call); sf != nil && strings.HasPrefix(sf.String(), modPath) {
						eachCall(sf, func(c2 ssa.CallInstruction) {
							if callName(c2) == "builtin.recover" {
								c.ob("C14-R1", key+"#recover-called-directly-by-deferred-function", call.Pos(), false, "recover() is called in "+fnKey(sf)+", one frame below the deferred function: it always returns nil there, so the panic path is not detected")
							}
						})
					}
				})
			}
		}
	}
	c.Sites["C14-R1#transaction-functions"] = nTx
	c.Sites["C14-R1#savepoint-functions"] = nSave
	if nTx < 2 {
		c.undecided("C14-R1: %d transaction functions found, floor 2", nTx)
	}

	// ---- R2 bulk insert is one statement
	c.rule("C14-R2", "ORD: each driver's BulkInsert executes at most one statement per invocation (after one executing call — an SQL sink, a raw-SQL wrapper or a recursive BulkInsert — no other executing call is reachable, so none is inside a loop) unless it runs them inside a transaction it began")
	for _, drv := range []string{"PostgresDB", "SQLiteDB", "MySQLDB"} {
		fn := c.mustFn("C14-R2", dbPkg, drv+".BulkInsert")
		if fn == nil {
			continue
		}
		beginsTx := false
		isExec := func(x ssa.Instruction) bool {
			call, ok := x.(ssa.CallInstruction)
			if !ok {
				return false
			}
			if _, ok := sqlTextArg(call); ok {
				return true
			}
			f := calleeOf(call)
			if f == nil {
				return false
			}
			if sqlSinkMethods[f.Name()] && strings.HasPrefix(qname(f), dbPath+".") {
				return true
			}
			if sf := staticFn(call); sf != nil && (sf == fn || strings.HasSuffix(sf.Name(), "BulkInsert")) {
				return true
			}
			return false
		}
		var execs []ssa.Instruction
		eachInstr(fn, func(_ *ssa.BasicBlock, _ int, ins ssa.Instruction) {
			if isExec(ins) {
				execs = append(execs, ins)
			}
			if call, ok := ins.(ssa.CallInstruction); ok {
				if f := calleeOf(call); f != nil && (f.Name() == "Begin" || f.Name() == "BeginTx" || f.Name() == "Transaction") {
					beginsTx = true
				}
			}
		})
		okOne := len(execs) >= 1
		var where ssa.Instruction
		if !beginsTx {
			for _, e := range execs {
				q := &pathQuery{fn: fn, target: isExec}
				if h, _ := q.after(e); h != nil {
					okOne = false
					where = h
				}
			}
		}
		p := fn.Pos()
		if where != nil {
			p = where.Pos()
		}
		c.ob("C14-R2", dbPkg+"."+drv+".BulkInsert#single-statement-or-transaction", p, okOne, "BulkInsert can execute more than one statement outside a transaction: a failure in a later statement leaves the earlier rows inserted")
	}

	// ---- R3 the tx handed to the callback is the one the work runs on
	c.rule("C14-R4", "ERR/def-use: (a) a transaction is reported committed only when Commit said so: in every function that calls (*sql.Tx).Commit, a success return (nil) is reachable from the call only over its err == nil edge - `sql.ErrTxDone` from Commit also means the context watcher has rolled the whole transaction back, and swallowing it reports a rolled-back transaction as done; (b) nested levels have savepoints of their own: the text after `SAVEPOINT ` is not a constant (ROLLBACK TO leaves the savepoint on the stack, so a fixed name makes an inner level's leftover shadow the enclosing level's savepoint, and the enclosing level's rollback then keeps its earlier work)")
	{
		n := 0
		for _, fn := range c.srcFuncs(dbPkg) {
			k := 0
			eachInstr(fn, func(_ *ssa.BasicBlock, _ int, ins ssa.Instruction) {
				cl, ok := ins.(*ssa.Call)
				if !ok || callName(cl) != "database/sql.Tx.Commit" {
					return
				}
				k++
				n++
				bad := false
				var bpath []*ssa.BasicBlock
				for _, b := range fn.Blocks {
					for si, succ := range b.Succs {
						if !nonNilOnEdge(b, si, cl) {
							continue
						}
						q := &pathQuery{fn: fn, target: func(x ssa.Instruction) bool {
							r, ok := x.(*ssa.Return)
							if !ok || len(r.Results) == 0 {
								return false
							}
							return isNilConst(stripConv(retVals(r)[len(r.Results)-1]))
						}}
						if h, p := q.from(succ, 0); h != nil {
							bad, bpath = true, p
						}
					}
				}
				c.ob("C14-R4", fnKey(fn)+"#success-only-when-commit-succeeded-"+itoa(k), cl.Pos(), !bad, "after Commit returned an error the function can still report success: `ErrTxDone` is also what Commit answers when the context ended and database/sql rolled everything back - the caller is told the work is committed when none of it is", c.blockPath(bpath)...)
			})
		}
		c.Sites["C14-R4#commits"] = n
		ns := 0
		for _, fn := range c.srcFuncs(dbPkg) {
			k := 0
			eachInstr(fn, func(_ *ssa.BasicBlock, _ int, ins ssa.Instruction) {
				bo, ok := ins.(*ssa.BinOp)
				if !ok || bo.Op != token.ADD {
					return
				}
				pre, ok := constString(bo.X)
				if !ok || strings.TrimSpace(pre) != "SAVEPOINT" {
					return
				}
				k++
				ns++
				_, isConst := constString(bo.Y)
				fromCounter := derivesFrom(bo.Y, func(v ssa.Value) bool {
					switch y := v.(type) {
					case *ssa.Call:
						return strings.HasPrefix(callName(y), "sync/atomic.") || strings.HasPrefix(callName(y), "strconv.") || strings.HasPrefix(callName(y), "fmt.Sprint")
					case *ssa.UnOp:
						_, _, isField := fieldOf(y.X)
						return isField
					}
					return false
				})
				c.ob("C14-R4", fnKey(fn)+"#savepoint-name-per-level-"+itoa(k), bo.Pos(), !isConst && fromCounter, "the savepoint of a nested transaction has a fixed name: after an inner level rolled back to it (which leaves it on the stack) the enclosing level's `ROLLBACK TO` finds the inner leftover first, and work the enclosing level did before the inner one survives its rollback")
			})
		}
		// the whole statement as one constant: `SAVEPOINT glyph_sp` (the compiler folds "SAVEPOINT " + a constant name)
		for _, fn := range c.srcFuncs(dbPkg) {
			k := 0
			eachCall(fn, func(cl ssa.CallInstruction) {
				for _, a := range cl.Common().Args {
					sv, ok := constString(a)
					if !ok {
						continue
					}
					t := strings.TrimSpace(sv)
					if strings.HasPrefix(strings.ToUpper(t), "SAVEPOINT ") && len(strings.Fields(t)) >= 2 {
						k++
						ns++
						c.ob("C14-R4", fnKey(fn)+"#savepoint-name-per-level-const-"+itoa(k), cl.Pos(), false, "the savepoint of a nested transaction has a fixed name ("+strconv.Quote(t)+"): after an inner level rolled back to it (which leaves it on the stack) the enclosing level's `ROLLBACK TO` finds the inner leftover first, and work the enclosing level did before the inner one survives its rollback")
					}
				}
			})
		}
		c.Sites["C14-R4#savepoints"] = ns
		c.floor("C14-R4", 2)
	}

	c.rule("C14-R3", "def-use: every context key under which a *sql.Tx is stored with context.WithValue in pkg/database is read back (ctx.Value(key)) somewhere in the package; a key that is written and never read means ORM calls inside ORM.Transaction's callback run on the pool, outside the transaction")
	type keyUse struct {
		pos   token.Pos
		where string
	}
	written := map[string]keyUse{}
	read := map[string]bool{}
	for _, fn := range c.srcFuncs(dbPkg) {
		eachInstr(fn, func(_ *ssa.BasicBlock, _ int, ins ssa.Instruction) {
			call, ok := ins.(*ssa.Call)
			if !ok {
				return
			}
			switch {
			case callName(call) == "context.WithValue":
				if mi, ok := call.Call.Args[2].(*ssa.MakeInterface); ok && typeIs(mi.X.Type(), "database/sql", "Tx") {
					if k, ok := call.Call.Args[1].(*ssa.MakeInterface); ok {
						written[k.X.Type().String()] = keyUse{call.Pos(), fnKey(fn)}
					}
				}
			case call.Call.IsInvoke() && call.Call.Method.Name() == "Value" && typeIs(call.Call.Value.Type(), "context", "Context"):
				if k, ok := call.Call.Args[0].(*ssa.MakeInterface); ok {
					read[k.X.Type().String()] = true
				}
			}
		})
	}
	for k, u := range written {
		c.ob("C14-R3", u.where+"#tx-context-key-read:"+short(k), u.pos, read[k], "the transaction is stored in the context under "+short(k)+" but no code of pkg/database reads that key: ORM operations performed by the callback use the connection pool, are not part of the transaction, and survive its rollback")
	}
	if len(written) == 0 {
		c.info("C14-R3", dbPkg+"#no-tx-in-context", token.NoPos, "no *sql.Tx is stored in a context")
	}
	// the callback of ORM.Transaction always runs inside a transaction of its own: it is invoked only from the closure
	// handed to the driver's Transaction (after Begin), never directly on whatever the context already carries
	if txFn := c.fn(dbPkg, "ORM.Transaction"); txFn != nil && len(txFn.Params) >= 3 {
		cb := txFn.Params[len(txFn.Params)-1]
		direct := 0
		var at token.Pos
		eachInstr(txFn, func(_ *ssa.BasicBlock, _ int, ins ssa.Instruction) {
			call, ok := ins.(ssa.CallInstruction)
			if !ok || call.Common().IsInvoke() {
				return
			}
			isCb := call.Common().Value == ssa.Value(cb)
			if u, ok := call.Common().Value.(*ssa.UnOp); ok && !isCb {
				if al, ok := u.X.(*ssa.Alloc); ok { // the parameter is captured by the closure and therefore lives in a cell
					for _, r := range refs(al) {
						if st, ok := r.(*ssa.Store); ok && st.Addr == ssa.Value(al) && st.Val == ssa.Value(cb) {
							isCb = true
						}
					}
				}
			}
			if isCb {
				// unless a savepoint statement was issued on every path to it
				q := &pathQuery{fn: txFn, target: func(x ssa.Instruction) bool { return x == ins }, stop: func(x ssa.Instruction) bool {
					c2, ok := x.(*ssa.Call)
					if !ok {
						return false
					}
					for _, a := range c2.Call.Args {
						if s, ok := constString(a); ok && strings.Contains(strings.ToUpper(s), "SAVEPOINT") {
							return true
						}
					}
					return false
				}}
				if hit, _ := q.fromEntry(); hit != nil {
					direct++
					at = ins.Pos()
				}
			}
		})
		c.ob("C14-R3", fnKey(txFn)+"#callback-runs-in-its-own-transaction", at, direct == 0, "ORM.Transaction invokes its callback directly (without beginning a transaction or savepoint of its own, e.g. when the context already carries one): work of an inner transaction whose callback fails is not rolled back and is committed with the outer one")
	}
	// every executor the ORM invokes on its Database must, in the driver ORM.Transaction supports, take the
	// transaction from the context: read the key and call a *sql.Tx method
	if txFn := c.fn(dbPkg, "ORM.Transaction"); txFn != nil && len(written) > 0 {
		var drv *types.Named
		eachInstr(txFn, func(_ *ssa.BasicBlock, _ int, ins ssa.Instruction) {
			if ta, ok := ins.(*ssa.TypeAssert); ok {
				if n := namedOf(ta.AssertedType); n != nil {
					drv = n
				}
			}
		})
		used := map[string]token.Pos{}
		for _, fn := range c.srcFuncs(dbPkg) {
			if fn.Signature.Recv() == nil && fn.Parent() == nil {
				continue
			}
			top := topParent(fn)
			if top.Signature.Recv() == nil {
				continue
			}
			rn := namedOf(top.Signature.Recv().Type())
			if rn == nil || (rn.Obj().Name() != "ORM" && rn.Obj().Name() != "QueryBuilder") {
				continue
			}
			eachCall(fn, func(call ssa.CallInstruction) {
				cc := call.Common()
				if cc.IsInvoke() && typeIs(cc.Value.Type(), dbPath, "Database") && len(cc.Args) > 0 && typeIs(cc.Args[0].Type(), "context", "Context") {
					if _, ok := used[cc.Method.Name()]; !ok {
						used[cc.Method.Name()] = call.Pos()
					}
				}
			})
		}
		if drv == nil {
			c.undecided("C14-R3: ORM.Transaction no longer asserts a concrete driver type; executor rule cannot be evaluated")
		}
		// ... and every other statement executor of the Database interface (a method taking a context and a query text):
		// code inside the callback may use the driver directly with the callback's context
		if di, ok := c.pkg(dbPkg).Types.Scope().Lookup("Database").(*types.TypeName); ok {
			if it, ok := di.Type().Underlying().(*types.Interface); ok {
				for i := 0; i < it.NumMethods(); i++ {
					m := it.Method(i)
					sig := m.Type().(*types.Signature)
					if sig.Params().Len() >= 2 && typeIs(sig.Params().At(0).Type(), "context", "Context") {
						if bt, ok := sig.Params().At(1).Type().Underlying().(*types.Basic); ok && bt.Kind() == types.String {
							if _, seen := used[m.Name()]; !seen {
								used[m.Name()] = token.NoPos
							}
						}
					}
				}
			}
		}
		// a nested call never begins an independent transaction: the driver's Transaction/Begin is reachable only on
		// the edge on which the context was found to carry no transaction
		{
			var lookups []ssa.Value
			eachInstr(txFn, func(_ *ssa.BasicBlock, _ int, ins ssa.Instruction) {
				call, ok := ins.(*ssa.Call)
				if !ok {
					return
				}
				// ctx.Value(key) directly, or a package helper that does it and returns *sql.Tx
				if call.Call.IsInvoke() && call.Call.Method.Name() == "Value" && typeIs(call.Call.Value.Type(), "context", "Context") {
					lookups = append(lookups, call)
				}
				if sf := staticFn(call); sf != nil && typeIs(call.Type(), "database/sql", "Tx") {
					lookups = append(lookups, call)
				}
			})
			begins := 0
			bad := false
			eachInstr(txFn, func(_ *ssa.BasicBlock, _ int, ins ssa.Instruction) {
				call, ok := ins.(*ssa.Call)
				if !ok {
					return
				}
				n := callName(call)
				if !(strings.HasSuffix(n, "."+drv.Obj().Name()+".Transaction") || strings.HasSuffix(n, ".Begin") || strings.HasSuffix(n, ".BeginTx")) {
					return
				}
				begins++
				q := &pathQuery{fn: txFn, target: func(x ssa.Instruction) bool { return x == ins }, cutEdge: func(b *ssa.BasicBlock, si int) bool {
					for _, l := range lookups {
						if nilOnEdge(b, si, l) {
							return true
						}
					}
					return false
				}}
				if hit, _ := q.fromEntry(); hit != nil {
					bad = true
				}
			})
			if begins > 0 {
				c.ob("C14-R3", fnKey(txFn)+"#nested-call-joins-the-enclosing-transaction", txFn.Pos(), !bad, "ORM.Transaction begins a new, independent transaction without first finding that the context carries none: called inside another Transaction's callback it commits its work on its own, so that work survives a rollback of the enclosing transaction (and with a single pooled connection the nested Begin blocks forever)")
			}
		}
		names := make([]string, 0, len(used))
		for m := range used {
			names = append(names, m)
		}
		sort.Strings(names)
		for _, m := range names {
			impl := c.fn(dbPkg, drv.Obj().Name()+"."+m)
			if impl == nil {
				c.undecided("C14-R3: %s.%s not found", drv.Obj().Name(), m)
				continue
			}
			readsKey := reachesInstr(impl, func(x ssa.Instruction) bool {
				call, ok := x.(*ssa.Call)
				if !ok || !call.Call.IsInvoke() || call.Call.Method.Name() != "Value" || !typeIs(call.Call.Value.Type(), "context", "Context") {
					return false
				}
				k, ok := call.Call.Args[0].(*ssa.MakeInterface)
				_, w := written[k.X.Type().String()]
				return ok && w
			}, 2, map[*ssa.Function]bool{})
			usesTx := false
			eachCall(impl, func(call ssa.CallInstruction) {
				if f := calleeOf(call); f != nil && f.Type().(*types.Signature).Recv() != nil && typeIs(f.Type().(*types.Signature).Recv().Type(), "database/sql", "Tx") {
					usesTx = true
				}
			})
			c.ob("C14-R3", fnKey(impl)+"#runs-on-context-transaction", impl.Pos(), readsKey && usesTx,
				"the ORM executes statements through "+drv.Obj().Name()+"."+m+", which never takes the transaction out of the context: inside ORM.Transaction's callback these statements run on the pool, are not part of the transaction and survive its rollback")
		}
		c.floor("C14-R3", 3)
	}
}

// sqlTextHasPrefix: ins executes SQL (a method of *sql.Tx/*sql.DB/*sql.Conn or the repository's Database) whose text
// argument is a constant, or a concatenation starting with a constant, that begins with prefix (case-insensitive).
func sqlTextHasPrefix(ins ssa.Instruction, prefix string) bool {
	call, ok := ins.(ssa.CallInstruction)
	if !ok {
		return false
	}
	f := calleeOf(call)
	if f == nil || !sqlSinkMethods[f.Name()] {
		return false
	}
	for _, a := range call.Common().Args {
		if !isStringType(a.Type()) {
			continue
		}
		// the statement text, possibly kept in a local (or a variable a deferred closure captures) first
		var leftmost func(v ssa.Value, d int) ssa.Value
		leftmost = func(v ssa.Value, d int) ssa.Value {
			if d > 8 {
				return v
			}
			switch x := v.(type) {
			case *ssa.BinOp:
				if x.Op == token.ADD {
					return leftmost(x.X, d+1)
				}
			case *ssa.UnOp:
				if x.Op == token.MUL {
					if cell := cellOf(x.X); cell != nil {
						var only ssa.Value
						n := 0
						var scan func(f *ssa.Function)
						scan = func(f *ssa.Function) {
							eachInstr(f, func(_ *ssa.BasicBlock, _ int, in ssa.Instruction) {
								if st, ok := in.(*ssa.Store); ok && cellOf(st.Addr) == cell {
									only = st.Val
									n++
								}
							})
							for _, a := range f.AnonFuncs {
								scan(a)
							}
						}
						if cell.Parent() != nil {
							scan(cell.Parent())
						}
						if n == 1 {
							return leftmost(only, d+1)
						}
					}
				}
			}
			return v
		}
		if s, ok := constString(leftmost(a, 0)); ok && strings.HasPrefix(strings.ToUpper(strings.TrimLeft(s, " ")), strings.ToUpper(prefix)) {
			return true
		}
	}
	return false
}
