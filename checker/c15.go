package main

import (
	"go/token"
	"go/types"
	"strings"

	"golang.org/x/tools/go/ssa"
)

func init() {
	register(&propSpec{
		id: "C15", title: "JIT tiering and caching are invisible", run: runC15,
		notCovered:  "behavioural equivalence of the tiers' bytecode (that is C03's value-level clause), linearizability of cache operations, the recompilation policy's thresholds",
		assumptions: []string{"guard table: CompilationUnit fields and JITCompiler.units under unitsMux; TypeSpecialization.{IsValid,MissCount} and the specialization map under SpecializationCache.mutex (HitCount via sync/atomic); stats under statsMux; thresholds under configMux", "lockset is receiver-insensitive"},
	})
}

const jitPkg = "pkg/jit"
const jitPath = modPath + "/pkg/jit"
const compilerPath = modPath + "/pkg/compiler"

func runC15(c *Ctx) {
	c15Extra(c)
	c15Epoch(c)
	// The JIT's higher tiers are the optimiser: "behaves exactly like a fresh baseline compilation" needs the optimiser's
	// fact discipline. The corresponding C03 rule sets are evaluated here under C15-R9 (same constructs).
	c.ruleAlias = map[string]string{"C03-R1": "C15-R9", "C03-R2": "C15-R9", "C03-R3": "C15-R9", "C03-R4": "C15-R9", "C03-R7": "C15-R9", "C03-R8": "C15-R9", "C03-R9": "C15-R9", "C03-R10": "C15-R9", "C03-R11": "C15-R9", "C03-R12": "C15-R9", "C03-R13": "C15-R9", "C03-R14": "C15-R9"}
	c03Aliasing(c)
	c03Kill(c)
	c03Keys(c)
	c03Rebuild(c)
	c03Identities(c)
	c03Core(c)
	c03Flow(c)
	c.ruleAlias = nil
	c.rule("C15-R12", "PAIR (sibling indexes): where a struct of pkg/jit keeps the same cached objects in two containers (a per-route list and an index by name), every function that inserts into, deletes from or replaces one container does the same for the other: a specialisation trimmed from the list by eviction must not stay reachable - and valid - through an index that InvalidateCache never walks")
	c.Sites["C15-R12#sibling-container-pairs"] = siblingIndexAudit(c, "C15-R12", []string{"pkg/jit"})
	c.ob("C15-R12", "pkg/jit#sibling-containers-examined", token.NoPos, true, "")
	c.rule("C15-R8", "PAIR: every Lock/RLock in pkg/jit is released on every path to a return; REACQ: no method calls, while it holds its receiver's mutex, a method of the same receiver that acquires that mutex again (sync mutexes are not re-entrant; a second RLock blocks once a writer waits)")
	c.Sites["C15-R8#acquire-sites"] = lockReleaseAudit(c, "C15-R8", []string{"pkg/jit"})
	c.floor("C15-R8", 10)
	c.rule("C15-R1", "LCK: CompilationUnit.{Bytecode,Tier,CompiledAt,ExecutionCount,LastExecuted} and JITCompiler.units only under unitsMux (writes exclusive); TypeSpecialization.{IsValid,MissCount,Bytecode} and SpecializationCache.specializations under its mutex; JITCompiler.stats under statsMux; hotPathThreshold/recompileWindow under configMux; deopt records under the tracker mutex")
	g := func(t, f, owner, m string) guard {
		return guard{typ: jitPkg + "." + t, field: f, class: jitPkg + "." + owner + "." + m}
	}
	gs := []guard{
		g("JITCompiler", "units", "JITCompiler", "unitsMux"),
		g("JITCompiler", "stats", "JITCompiler", "statsMux"),
		g("JITCompiler", "hotPathThreshold", "JITCompiler", "configMux"), g("JITCompiler", "recompileWindow", "JITCompiler", "configMux"),
		g("SpecializationCache", "specializations", "SpecializationCache", "mutex"),
		g("TypeSpecialization", "IsValid", "SpecializationCache", "mutex"), g("TypeSpecialization", "MissCount", "SpecializationCache", "mutex"),
		g("DeoptimizationTracker", "records", "DeoptimizationTracker", "mutex"),
	}
	hc := g("TypeSpecialization", "HitCount", "SpecializationCache", "mutex")
	hc.atomicOK = true
	gs = append(gs, hc)
	for _, f := range []string{"Bytecode", "Tier", "CompiledAt", "ExecutionCount", "LastExecuted"} {
		gs = append(gs, g("CompilationUnit", f, "JITCompiler", "unitsMux"))
	}
	e := newLck(c, &lckConfig{rule: "C15-R1", pkgs: []string{jitPkg}, guards: gs,
		exempt: map[string]string{jitPkg + ".NewJITCompilerWithConfig": "constructor: the JITCompiler returned by NewJITCompiler is not yet shared"}})
	e.run()
	c.floor("C15-R1", 25)

	// R2 invalidation reaches every store
	c.rule("C15-R2", "MPT: InvalidateCache and ClearCache reach, on every path to return, both a removal from JITCompiler.units and an invalidation of the specialization store (a write of TypeSpecialization.IsValid=false or a removal from SpecializationCache.specializations); RecordDeoptimization reaches the latter")
	invalidatesSpecs := func(ins ssa.Instruction) bool {
		if st, ok := ins.(*ssa.Store); ok {
			if isStoreToField(st, "TypeSpecialization", "IsValid") && isConstBool(st.Val, false) {
				return true
			}
			if isStoreToField(st, "SpecializationCache", "specializations") {
				return true
			}
		}
		if cl, ok := ins.(*ssa.Call); ok && callName(cl) == "builtin.delete" && loadedFromField(cl.Call.Args[0], "SpecializationCache", "specializations") {
			return true
		}
		return false
	}
	dropsUnits := func(ins ssa.Instruction) bool {
		if st, ok := ins.(*ssa.Store); ok && isStoreToField(st, "JITCompiler", "units") {
			return true
		}
		if cl, ok := ins.(*ssa.Call); ok && callName(cl) == "builtin.delete" && loadedFromField(cl.Call.Args[0], "JITCompiler", "units") {
			return true
		}
		return false
	}
	via := func(pred func(ssa.Instruction) bool) func(ssa.Instruction) bool {
		return func(ins ssa.Instruction) bool {
			if pred(ins) {
				return true
			}
			if call, ok := ins.(ssa.CallInstruction); ok {
				if _, isGo := ins.(*ssa.Go); isGo {
					return false
				}
				if sf := staticFn(call); sf != nil {
					return reachesInstr(sf, pred, 0, map[*ssa.Function]bool{})
				}
			}
			return false
		}
	}
	for _, ep := range []struct {
		name       string
		units, spc bool
	}{{"JITCompiler.InvalidateCache", true, true}, {"JITCompiler.ClearCache", true, true}, {"JITCompiler.RecordDeoptimization", false, true}} {
		fn := c.mustFn("C15-R2", jitPkg, ep.name)
		if fn == nil {
			continue
		}
		if ep.units {
			q := &pathQuery{fn: fn, target: isReturn, stop: via(dropsUnits)}
			hit, path := q.fromEntry()
			c.ob("C15-R2", jitPkg+"."+ep.name+"#drops-units", fn.Pos(), hit == nil, "a return is reachable without removing the route's compilation unit", c.blockPath(path)...)
		}
		if ep.spc {
			q := &pathQuery{fn: fn, target: isReturn, stop: via(invalidatesSpecs)}
			hit, path := q.fromEntry()
			c.ob("C15-R2", jitPkg+"."+ep.name+"#invalidates-specializations", fn.Pos(), hit == nil, "the route's type specialisations stay valid after this invalidation: CompileRouteWithTypes keeps serving bytecode compiled from the previous definition", c.blockPath(path)...)
		}
	}

	// R3 fresh compiler per compilation
	c.rule("C15-R3", "ESC/GOR: every compiler.Compiler used by pkg/jit is created in the function that uses it (receiver of CompileRoute derives from a compiler.New* call in the same function) and no struct field, map or package variable of pkg/jit holds a *compiler.Compiler (with C03-R5 this is what makes output history-independent)")
	for _, fn := range c.srcFuncs(jitPkg) {
		n := 0
		eachCall(fn, func(call ssa.CallInstruction) {
			if !strings.HasPrefix(callName(call), compilerPath+".Compiler.Compile") {
				return
			}
			n++
			recv := call.Common().Args[0]
			fresh, sawNew := true, false
			seen := map[ssa.Value]bool{}
			var walk func(v ssa.Value)
			walk = func(v ssa.Value) {
				if seen[v] {
					return
				}
				seen[v] = true
				switch x := v.(type) {
				case *ssa.Phi:
					for _, e := range x.Edges {
						walk(e)
					}
				case *ssa.Call:
					if strings.HasPrefix(callName(x), compilerPath+".New") {
						sawNew = true
					} else {
						fresh = false
					}
				case *ssa.Const: // nil initial value of `var comp *Compiler`
				case *ssa.UnOp:
					al, ok := x.X.(*ssa.Alloc)
					if !ok || x.Op != token.MUL {
						fresh = false
						return
					}
					for _, r := range refs(al) {
						if st, ok := r.(*ssa.Store); ok && st.Addr == ssa.Value(al) {
							walk(st.Val)
						}
					}
				default:
					fresh = false
				}
			}
			walk(recv)
			c.ob("C15-R3", fnKey(fn)+"#fresh-compiler-"+itoa(n), call.Pos(), fresh && sawNew, "the compiler used here is not created in this call (shared/reused compiler): optimizer facts and symbol state of earlier compilations leak into this route's bytecode")
		})
	}
	{
		holds := func(t types.Type) bool {
			found := false
			var walk func(t types.Type, d int)
			walk = func(t types.Type, d int) {
				if d > 5 || found {
					return
				}
				if typeIs(t, compilerPath, "Compiler") || typeIs(t, compilerPath, "Optimizer") {
					found = true
					return
				}
				switch x := t.(type) {
				case *types.Pointer:
					walk(x.Elem(), d+1)
				case *types.Map:
					walk(x.Elem(), d+1)
					walk(x.Key(), d+1)
				case *types.Slice:
					walk(x.Elem(), d+1)
				case *types.Array:
					walk(x.Elem(), d+1)
				case *types.Chan:
					walk(x.Elem(), d+1)
				}
			}
			walk(t, 0)
			return found
		}
		sc := c.pkg(jitPkg).Types.Scope()
		for _, name := range sc.Names() {
			switch o := sc.Lookup(name).(type) {
			case *types.Var:
				c.ob("C15-R3", jitPkg+"#var:"+name, o.Pos(), !holds(o.Type()), "package variable holds a compiler/optimizer shared across compilations")
			case *types.TypeName:
				if st, ok := o.Type().Underlying().(*types.Struct); ok {
					for i := 0; i < st.NumFields(); i++ {
						f := st.Field(i)
						c.ob("C15-R3", jitPkg+"."+name+"."+f.Name()+"#no-shared-compiler", f.Pos(), !holds(f.Type()), "struct field holds a compiler/optimizer that outlives one compilation")
					}
				}
			}
		}
	}

	// R4 tier switches total
	c.rule("C15-R4", "EXH: every switch over OptimizationTier in pkg/jit that select code or a tier (compileWithTier, getNextTier, shouldRecompile; the statistics switch is not decision-relevant) has a case for every tier constant or a default arm")
	for _, name := range []string{"JITCompiler.compileWithTier", "JITCompiler.getNextTier", "JITCompiler.shouldRecompile"} {
		d := c.decl(jitPkg, name)
		if d == nil {
			continue
		}
		for i, cov := range switchConstCoverage(c, jitPkg, d, jitPath, "OptimizationTier") {
			c.ob("C15-R4", jitPkg+"."+name+"#tier-switch-"+itoa(i+1), cov.pos, len(cov.missing) == 0 || cov.hasDefault, "tier switch has no arm for "+strings.Join(cov.missing, ",")+" and no default")
		}
	}
	// compileWithTier: every tier's arm builds a compiler (no arm leaves comp nil)
	if fn := c.fn(jitPkg, "JITCompiler.compileWithTier"); fn != nil {
		ok := true
		eachCall(fn, func(call ssa.CallInstruction) {
			if strings.HasPrefix(callName(call), compilerPath+".Compiler.Compile") {
				if derivesFrom(call.Common().Args[0], func(v ssa.Value) bool { return isNilConst(v) }) {
					ok = false
				}
			}
		})
		c.ob("C15-R4", jitPkg+".JITCompiler.compileWithTier#every-tier-gets-a-compiler", fn.Pos(), ok, "some tier reaches CompileRoute with a nil compiler")
	}

	// R6 stale specialisations are not served
	c.rule("C15-R6", "MPT: SpecializationCache.GetSpecialization returns a non-nil specialisation only through the true edge of its IsValid test")
	if fn := c.mustFn("C15-R6", jitPkg, "SpecializationCache.GetSpecialization"); fn != nil {
		var valids []ssa.Value
		eachInstr(fn, func(_ *ssa.BasicBlock, _ int, ins ssa.Instruction) {
			if u, ok := ins.(*ssa.UnOp); ok && loadedFromField(u, "TypeSpecialization", "IsValid") {
				valids = append(valids, u)
			}
		})
		q := &pathQuery{fn: fn, cutEdge: func(b *ssa.BasicBlock, si int) bool {
			for _, v := range valids {
				if known, val := boolOnEdge(b, si, v); known && val {
					return true
				}
			}
			return false
		}, target: func(ins ssa.Instruction) bool {
			r, ok := ins.(*ssa.Return)
			return ok && !isNilConst(stripConv(retVals(r)[0]))
		}}
		hit, path := q.fromEntry()
		c.ob("C15-R6", jitPkg+".SpecializationCache.GetSpecialization#valid-only", fn.Pos(), hit == nil && len(valids) > 0, "an invalidated specialisation can be returned (stale code served after deoptimisation/invalidation)", c.blockPath(path)...)
	}

	// R7 recompilation does not resurrect an invalidated unit
	c.rule("C15-R7", "MPT: JITCompiler.recompileRoute writes into JITCompiler.units (or into a cached unit's fields) only on the found-edge of a lookup of the route in units made under the same lock: a route invalidated while its tier-up compile was running is not re-inserted with bytecode of the old definition")
	if fn := c.mustFn("C15-R7", jitPkg, "JITCompiler.recompileRoute"); fn != nil {
		var oks []ssa.Value
		eachInstr(fn, func(_ *ssa.BasicBlock, _ int, ins ssa.Instruction) {
			if lk, ok := ins.(*ssa.Lookup); ok && lk.CommaOk && loadedFromField(lk.X, "JITCompiler", "units") {
				oks = append(oks, extractOf(lk, 1)...)
			}
		})
		n := 0
		eachInstr(fn, func(_ *ssa.BasicBlock, _ int, ins ssa.Instruction) {
			isW := false
			if mu, ok := ins.(*ssa.MapUpdate); ok && loadedFromField(mu.Map, "JITCompiler", "units") {
				isW = true
			}
			if st, ok := ins.(*ssa.Store); ok && !isFreshAlloc(st.Addr) {
				if nt, _, ok := fieldOf(st.Addr); ok && nt != nil && nt.Obj().Name() == "CompilationUnit" {
					isW = true
				}
			}
			if !isW {
				return
			}
			n++
			q := &pathQuery{fn: fn, target: func(x ssa.Instruction) bool { return x == ins }, cutEdge: func(b *ssa.BasicBlock, si int) bool {
				for _, o := range oks {
					if known, val := boolOnEdge(b, si, o); known && val {
						return true
					}
				}
				return false
			}}
			hit, path := q.fromEntry()
			c.ob("C15-R7", jitPkg+".JITCompiler.recompileRoute#publish-only-if-still-cached-"+itoa(n), ins.Pos(), hit == nil && len(oks) > 0, "recompileRoute publishes the recompiled bytecode without checking that the route is still cached: an InvalidateCache that ran during the compile is undone and stale code is served", c.blockPath(path)...)
		})
		if n == 0 {
			c.info("C15-R7", jitPkg+".JITCompiler.recompileRoute#no-publish", fn.Pos(), "recompileRoute does not write the cache")
		}
	}

	// R5 advisory: cached byte slices handed out without copy
	c.rule("C15-R5", "advisory (never a violation): exported functions of pkg/jit that return a []byte loaded from a cache entry without copying are listed")
	for _, fn := range c.srcFuncs(jitPkg) {
		eachInstr(fn, func(_ *ssa.BasicBlock, _ int, ins ssa.Instruction) {
			r, ok := ins.(*ssa.Return)
			if !ok {
				return
			}
			for _, v := range retVals(r) {
				if _, isSlice := v.Type().Underlying().(*types.Slice); isSlice {
					if u, ok := v.(*ssa.UnOp); ok && u.Op == token.MUL {
						if _, f, ok := fieldOf(u.X); ok && f == "Bytecode" {
							c.info("C15-R5", fnKey(fn)+"#returns-cached-bytecode", r.Pos(), "returns the cache entry's byte slice without copying (callers must not modify it)")
						}
					}
				}
			}
		})
	}
}

func c15Extra(c *Ctx) {
	jitPkg := "pkg/jit"
	c.rule("C15-R10", "TYPESTATE/IMMUT: (a) an invalidated specialisation is never made valid again while it still holds the code compiled before the invalidation: IsValid=true is stored only into a specialisation allocated in that function, or together with a new Bytecode for the same object; (b) bytecode that has been stored in a cache entry is immutable: no append onto / copy into / element store through a slice loaded from CompilationUnit.Bytecode or TypeSpecialization.Bytecode - callers and running VMs hold those bytes")
	nValid, nUse := 0, 0
	for _, fn := range c.srcFuncs(jitPkg) {
		k := 0
		eachInstr(fn, func(b *ssa.BasicBlock, _ int, ins ssa.Instruction) {
			st, ok := ins.(*ssa.Store)
			if !ok || !isStoreToField(st, "TypeSpecialization", "IsValid") || !isConstBool(st.Val, true) {
				return
			}
			nValid++
			if isFreshAlloc(st.Addr) {
				return
			}
			base := st.Addr.(*ssa.FieldAddr).X
			withCode := false
			eachInstr(fn, func(b2 *ssa.BasicBlock, _ int, x ssa.Instruction) {
				if s2, ok := x.(*ssa.Store); ok && isStoreToField(s2, "TypeSpecialization", "Bytecode") && b2 == b {
					if fa, ok := s2.Addr.(*ssa.FieldAddr); ok && (fa.X == base || sameVal(fa.X, base)) {
						withCode = true
					}
				}
			})
			k++
			c.ob("C15-R10", fnKey(fn)+"#revalidated-only-with-new-code-"+itoa(k), st.Pos(), withCode, "an existing (possibly invalidated) specialisation is marked valid again without its Bytecode being replaced in the same step: the next cache hit serves the code compiled before the invalidation")
		})
		// (b)
		isCachedCode := func(v ssa.Value) bool {
			return derivesFromOnlySlicing(v, func(x ssa.Value) bool {
				if !(loadedFromField(x, "CompilationUnit", "Bytecode") || loadedFromField(x, "TypeSpecialization", "Bytecode")) {
					return false
				}
				// a unit allocated right here (the copy GetUnit returns) is not a cache entry
				return !isFreshAlloc(x.(*ssa.UnOp).X)
			})
		}
		m := 0
		eachInstr(fn, func(_ *ssa.BasicBlock, _ int, ins ssa.Instruction) {
			switch x := ins.(type) {
			case *ssa.Call:
				if b, ok := x.Call.Value.(*ssa.Builtin); ok && (b.Name() == "append" || b.Name() == "copy") && len(x.Call.Args) > 0 {
					nUse++
					if isCachedCode(x.Call.Args[0]) {
						m++
						c.ob("C15-R10", fnKey(fn)+"#cached-bytecode-not-written-"+itoa(m), x.Pos(), false, b.Name()+" writes into the backing array of bytecode that is stored in a cache entry and has been handed out (CompileRoute returns the cached slice; a VM may be executing it): an in-flight request sees its program rewritten with a differently laid-out one")
					}
				}
			case *ssa.Store:
				if ia, ok := x.Addr.(*ssa.IndexAddr); ok && isCachedCode(ia.X) {
					m++
					c.ob("C15-R10", fnKey(fn)+"#cached-bytecode-not-written-"+itoa(m), x.Pos(), false, "an element of cached bytecode is overwritten in place")
				}
			}
		})
	}
	c.Sites["C15-R10#IsValid-true-stores"] = nValid
	c.Sites["C15-R10#append-copy-sites-examined"] = nUse
	c.ob("C15-R10", jitPkg+"#cached-code-immutable-and-not-revived", token.NoPos, nValid > 0, "no store of IsValid=true found: the specialisation typestate is not where the rule expects it")
}

// c15Epoch: R11 - code compiled before an invalidation is not published after it.
func c15Epoch(c *Ctx) {
	jitPkg := "pkg/jit"
	c.rule("C15-R13", "LCK/ATOM: an invalidation is one step: the functions that drop a route's compilation units also invalidate its type specialisations while they still hold JITCompiler.unitsMux exclusively, in the hold in which they bump the invalidation count - a compilation publishes under unitsMux.RLock if the count is unchanged, so a specialisation cache invalidated outside that hold (before the bump) can receive, between the two halves, code compiled from the old definition that nothing invalidates any more. And every table of the JIT that keeps code per route name (a map whose values hold bytecode, directly or in a struct or channel of results) is written by the invalidators: a table of compilations in flight that InvalidateCache does not touch hands the old definition's code to a request that arrives with the new one")
	{
		e13 := newLck(c, &lckConfig{rule: "C15-R13", pkgs: []string{jitPkg}, guards: nil})
		n := 0
		var invalidators []*ssa.Function
		for _, name := range []string{"JITCompiler.InvalidateCache", "JITCompiler.ClearCache"} {
			fn := c.mustFn("C15-R13", jitPkg, name)
			if fn == nil {
				continue
			}
			invalidators = append(invalidators, fn)
			at, _ := e13.analyse(fn)
			k := 0
			eachInstr(fn, func(_ *ssa.BasicBlock, _ int, ins ssa.Instruction) {
				cl, ok := ins.(*ssa.Call)
				if !ok {
					return
				}
				sf := staticFn(cl)
				if sf == nil || sf.Signature.Recv() == nil || !typeIs(derefPtr(sf.Signature.Recv().Type()), modPath+"/"+jitPkg, "SpecializationCache") {
					return
				}
				k++
				n++
				held := false
				for cls, m := range at[ins] {
					if strings.HasSuffix(cls, ".unitsMux") && m >= modeWrite {
						held = true
					}
				}
				c.ob("C15-R13", fnKey(fn)+"#specialisations-invalidated-in-the-hold-that-bumps-the-count-"+itoa(k), cl.Pos(), held, "the specialisation cache is invalidated outside the exclusive hold of unitsMux in which the units are dropped and the invalidation count is bumped: a type-specialised compilation of the old definition that publishes between the two halves adds an entry that is never invalidated, and every later request with those types is served the old code")
			})
		}
		c.Sites["C15-R13#specialisation-invalidations"] = n
		c.floor("C15-R13", 2)
		// name-keyed tables that keep code
		holdsCode := func(t types.Type) bool {
			seen := map[types.Type]bool{}
			var walk func(t types.Type, d int) bool
			walk = func(t types.Type, d int) bool {
				if d > 5 || seen[t] {
					return false
				}
				seen[t] = true
				switch u := t.Underlying().(type) {
				case *types.Slice:
					if b, ok := u.Elem().Underlying().(*types.Basic); ok && b.Kind() == types.Uint8 {
						return true
					}
					return walk(u.Elem(), d+1)
				case *types.Pointer:
					return walk(u.Elem(), d+1)
				case *types.Chan:
					return walk(u.Elem(), d+1)
				case *types.Map:
					return walk(u.Elem(), d+1)
				case *types.Struct:
					for i := 0; i < u.NumFields(); i++ {
						if walk(u.Field(i).Type(), d+1) {
							return true
						}
					}
				}
				return false
			}
			return walk(t, 0)
		}
		if tn, ok := c.pkg(jitPkg).Types.Scope().Lookup("JITCompiler").(*types.TypeName); ok {
			if st, ok := tn.Type().Underlying().(*types.Struct); ok {
				for i := 0; i < st.NumFields(); i++ {
					f := st.Field(i)
					mt, isMap := f.Type().Underlying().(*types.Map)
					if !isMap {
						continue
					}
					if kb, ok := mt.Key().Underlying().(*types.Basic); !ok || kb.Kind() != types.String || !holdsCode(mt.Elem()) {
						continue
					}
					for _, inv := range invalidators {
						touched := false
						eachInstr(inv, func(_ *ssa.BasicBlock, _ int, ins ssa.Instruction) {
							switch x := ins.(type) {
							case *ssa.Store:
								if isStoreToField(x, "JITCompiler", f.Name()) {
									touched = true
								}
							case *ssa.Call:
								if (callName(x) == "builtin.delete" || callName(x) == "builtin.clear") && loadedFromField(x.Call.Args[0], "JITCompiler", f.Name()) {
									touched = true
								}
							}
						})
						c.ob("C15-R13", fnKey(inv)+"#drops:"+f.Name(), inv.Pos(), touched, "JITCompiler."+f.Name()+" keeps code per route name and "+inv.Name()+" does not write it: what it holds for the old definition (a compilation in flight that later requests join, a second cache) outlives the invalidation")
					}
				}
			}
		}
	}

	c.rule("C15-R11", "GEN: every function of pkg/jit that compiles (calls compileWithTier / CompileWithTypeInfo, outside the cache lock) and then publishes the result (store into JITCompiler.units, into a cached unit's Bytecode, or AddSpecialization) publishes only on the equal edge of a comparison between JITCompiler.epoch and the value it read before compiling; every function that removes units (delete / re-make of JITCompiler.units) increments the epoch. Without it a compilation that was overtaken by InvalidateCache + a compilation of the new definition caches the old definition's code afterwards")
	isCompile := func(x ssa.Instruction) bool {
		call, ok := x.(*ssa.Call)
		if !ok {
			return false
		}
		n := callName(call)
		return strings.HasSuffix(n, ".JITCompiler.compileWithTier") || strings.HasSuffix(n, ".TypeSpecializedCompiler.CompileWithTypeInfo")
	}
	isEpochLoad := func(v ssa.Value) bool { return loadedFromField(stripConv(v), "JITCompiler", "epoch") }
	nPub, nInv := 0, 0
	for _, fn := range c.srcFuncs(jitPkg) {
		var compiles []ssa.Instruction
		eachInstr(fn, func(_ *ssa.BasicBlock, _ int, ins ssa.Instruction) {
			if isCompile(ins) {
				compiles = append(compiles, ins)
			}
		})
		k := 0
		eachInstr(fn, func(_ *ssa.BasicBlock, _ int, ins ssa.Instruction) {
			pub := ""
			switch x := ins.(type) {
			case *ssa.MapUpdate:
				if loadedFromField(x.Map, "JITCompiler", "units") {
					pub = "units[name] = unit"
				}
			case *ssa.Store:
				if isStoreToField(x, "CompilationUnit", "Bytecode") && !isFreshAlloc(x.Addr) {
					pub = "cached.Bytecode = code"
				}
			case *ssa.Call:
				if strings.HasSuffix(callName(x), ".SpecializationCache.AddSpecialization") {
					pub = "AddSpecialization"
				}
			}
			if pub == "" {
				return
			}
			if len(compiles) == 0 {
				// a publication helper: a function that does not compile itself but stores code it is handed, called
				// by a compiling function. It must guard the store with "epoch == the epoch I was handed", and every
				// compiling caller must hand it an epoch it had before compiling.
				var epochParams []*ssa.Parameter
				for _, p := range fn.Params {
					if bt, ok := p.Type().Underlying().(*types.Basic); ok && bt.Kind() == types.Uint64 {
						epochParams = append(epochParams, p)
					}
				}
				var callers []*ssa.Call
				for _, g := range c.srcFuncs(jitPkg) {
					hasCompile := false
					eachInstr(g, func(_ *ssa.BasicBlock, _ int, x ssa.Instruction) {
						if isCompile(x) {
							hasCompile = true
						}
					})
					if !hasCompile {
						continue
					}
					eachInstr(g, func(_ *ssa.BasicBlock, _ int, x ssa.Instruction) {
						if cl, ok := x.(*ssa.Call); ok && staticFn(cl) == fn {
							callers = append(callers, cl)
						}
					})
				}
				if len(callers) == 0 || pub == "AddSpecialization" {
					return
				}
				nPub++
				k++
				isParamEpoch := func(v ssa.Value) bool {
					for _, p := range epochParams {
						if stripConv(v) == ssa.Value(p) {
							return true
						}
					}
					return false
				}
				q := &pathQuery{fn: fn, target: func(x ssa.Instruction) bool { return x == ins }, cutEdge: func(b *ssa.BasicBlock, si int) bool {
					iff := ifOf(b)
					if iff == nil {
						return false
					}
					for _, f := range eqFacts(iff.Cond, si == 0) {
						if (isEpochLoad(f.x) && isParamEpoch(f.y)) || (isEpochLoad(f.y) && isParamEpoch(f.x)) {
							return true
						}
					}
					return false
				}}
				hit, path := q.fromEntry()
				bad := hit != nil || len(epochParams) == 0
				// callers: the epoch handed over was there before the compilation
				for _, cl := range callers {
					g := cl.Parent()
					for i, p := range fn.Params {
						isEp := false
						for _, ep := range epochParams {
							if ep == p {
								isEp = true
							}
						}
						if !isEp || i >= len(cl.Call.Args) {
							continue
						}
						arg := stripConv(cl.Call.Args[i])
						if _, isP := arg.(*ssa.Parameter); isP {
							continue
						}
						ai, ok := arg.(ssa.Instruction)
						if !ok {
							bad = true
							continue
						}
						eachInstr(g, func(_ *ssa.BasicBlock, _ int, x ssa.Instruction) {
							if isCompile(x) && !dominatesInstr(ai, x) {
								bad = true
							}
						})
					}
				}
				c.ob("C15-R11", fnKey(fn)+"#publishes-only-in-the-epoch-it-compiled-in:"+pub+"-"+itoa(k), ins.Pos(), !bad, "the result of a compilation is cached (in a helper) without checking that no invalidation happened since the compilation started: an older, slower compilation of the route's previous definition overwrites the unit compiled from the new one and stale code is served from then on", c.blockPath(path)...)
				return
			}
			nPub++
			k++
			bad := false
			var path []*ssa.BasicBlock
			for _, comp := range compiles {
				q := &pathQuery{fn: fn, target: func(x ssa.Instruction) bool { return x == ins }, cutEdge: func(b *ssa.BasicBlock, si int) bool {
					iff := ifOf(b)
					if iff == nil {
						return false
					}
					for _, f := range eqFacts(iff.Cond, si == 0) {
						if (isEpochLoad(f.x) && !isEpochLoad(f.y)) || (isEpochLoad(f.y) && !isEpochLoad(f.x)) {
							return true
						}
					}
					return false
				}}
				if hit, p := q.after(comp); hit != nil {
					bad, path = true, p
				}
			}
			// the epoch compared must predate the caller's look at the cache: a helper that is handed the route (and the
			// tier read from a unit snapshot) must be handed the epoch as well, not read it itself
			if !bad && unexported(fn.Name()) {
				takesRoute, takesEpoch := false, false
				for _, p := range fn.Params {
					if typeIs(p.Type(), modPath+"/pkg/ast", "Route") {
						takesRoute = true
					}
					if bt, ok := p.Type().Underlying().(*types.Basic); ok && bt.Kind() == types.Uint64 {
						takesEpoch = true
					}
				}
				readsOwn := false
				eachInstr(fn, func(_ *ssa.BasicBlock, _ int, x ssa.Instruction) {
					if isCallTo(x, modPath+"/pkg/jit.JITCompiler.currentEpoch") {
						readsOwn = true
					}
				})
				if takesRoute && (!takesEpoch || readsOwn) {
					bad = true
				}
			}
			c.ob("C15-R11", fnKey(fn)+"#publishes-only-in-the-epoch-it-compiled-in:"+pub+"-"+itoa(k), ins.Pos(), !bad, "the result of a compilation is cached without checking that no invalidation happened since the compilation started: an older, slower compilation of the route's previous definition overwrites the unit compiled from the new one and stale code is served from then on", c.blockPath(path)...)
		})
		// invalidators bump the epoch
		removes := false
		eachInstr(fn, func(_ *ssa.BasicBlock, _ int, ins ssa.Instruction) {
			switch x := ins.(type) {
			case *ssa.Call:
				if callName(x) == "builtin.delete" && loadedFromField(x.Call.Args[0], "JITCompiler", "units") {
					removes = true
				}
			case *ssa.Store:
				if isStoreToField(x, "JITCompiler", "units") && fn.Name() != "NewJITCompiler" && fn.Name() != "NewJITCompilerWithConfig" {
					removes = true
				}
			}
		})
		if removes {
			nInv++
			bumps := false
			eachInstr(fn, func(_ *ssa.BasicBlock, _ int, ins ssa.Instruction) {
				if st, ok := ins.(*ssa.Store); ok && isStoreToField(st, "JITCompiler", "epoch") {
					if bo, ok := st.Val.(*ssa.BinOp); ok && bo.Op == token.ADD {
						bumps = true
					}
				}
			})
			c.ob("C15-R11", fnKey(fn)+"#invalidation-bumps-epoch", fn.Pos(), bumps, "units are removed from the cache without incrementing the epoch: compilations in flight cannot tell that their result is out of date")
		}
	}
	c.Sites["C15-R11#publications-after-compile"] = nPub
	c.Sites["C15-R11#invalidators"] = nInv
	if nPub < 2 || nInv < 2 {
		c.undecided("C15-R11: %d publications / %d invalidators found, expected >= 2 / >= 2", nPub, nInv)
	}
}

// derivesFromOnlySlicing: v is a value satisfying pred, or a slice expression / conversion of one.
func derivesFromOnlySlicing(v ssa.Value, pred func(ssa.Value) bool) bool {
	for d := 0; d < 6 && v != nil; d++ {
		if pred(v) {
			return true
		}
		switch x := v.(type) {
		case *ssa.Slice:
			v = x.X
		case *ssa.ChangeType:
			v = x.X
		default:
			return false
		}
	}
	return false
}
