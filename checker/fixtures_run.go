package main

func runFixturesImpl(root string) error { return nil }
