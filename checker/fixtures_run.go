package main

import (
	"fmt"
	"go/types"
	"path/filepath"
	"strings"

	"golang.org/x/tools/go/ssa"
)

// runFixturesImpl loads the fixture module (same module path, packages under pkg/fixture/…, stdlib only)
// and requires each engine to fire on the `Bad…` functions and stay silent on the `Good…` ones. A dead
// or over-eager engine makes every check UNDECIDED.
func runFixturesImpl(root string) error {
	dir := filepath.Join(root, "fixt")
	fc, err := load(dir, nil)
	if err != nil {
		return fmt.Errorf("cannot load fixture module: %v", err)
	}
	fc.Prop, fc.Tier = "FIXTURE", "quick"
	verdicts := func() map[string]string {
		out := map[string]string{}
		for _, o := range fc.Obs {
			if o.Verdict == "info" {
				continue
			}
			// key: function name inside the construct
			fn := o.Construct
			if i := strings.Index(fn, "#"); i >= 0 {
				fn = fn[:i]
			}
			fn = fn[strings.LastIndex(fn, ".")+1:]
			if prev, ok := out[fn]; !ok || prev == "discharged" {
				out[fn] = o.Verdict
			}
		}
		return out
	}
	expect := func(engine string, v map[string]string, bad, good []string) error {
		for _, b := range bad {
			if v[b] != "violated" {
				return fmt.Errorf("%s engine did not fire on fixture %s (got %q): rule is dead", engine, b, v[b])
			}
		}
		for _, g := range good {
			if v[g] == "violated" {
				return fmt.Errorf("%s engine fired on the correct fixture %s: rule is over-eager", engine, g)
			}
		}
		return nil
	}
	// LCK
	fc.Obs = nil
	cls := "pkg/fixture/lck.Store.mu"
	e := newLck(fc, &lckConfig{rule: "FX-LCK", pkgs: []string{"pkg/fixture/lck"}, guards: []guard{
		{typ: "pkg/fixture/lck.Store", field: "items", class: cls},
		{typ: "pkg/fixture/lck.Store", field: "n", class: cls},
	}})
	e.run()
	v := verdicts()
	if err := expect("LCK", v, []string{"BadSetUnderRLock", "BadReadAfterUnlock"}, []string{"GoodGet", "GoodSet"}); err != nil {
		return err
	}
	// callbacks of synchronous standard-library higher-order functions run under the caller's locks
	hofGood, hofBad := true, false
	for _, o := range fc.Obs {
		if o.Verdict != "violated" {
			continue
		}
		if strings.Contains(o.Construct, "GoodHOFCallback") || strings.Contains(strings.Join(o.Path, " "), "GoodHOFCallback") {
			hofGood = false
		}
		if strings.Contains(o.Construct, "BadHOFCallbackUnlocked") || strings.Contains(strings.Join(o.Path, " "), "BadHOFCallbackUnlocked") {
			hofBad = true
		}
	}
	if !hofGood || !hofBad {
		return fmt.Errorf("LCK engine: callback of a synchronous higher-order function judged wrongly (good silent=%v, bad fires=%v)", hofGood, hofBad)
	}
	// the helper summary: bump is violated only because BadHelperWithoutLock reaches it unlocked
	helperFlagged := false
	for _, o := range fc.Obs {
		if o.Verdict == "violated" && strings.Contains(o.Construct, "Store.bump") && strings.Contains(strings.Join(o.Path, " "), "BadHelperWithoutLock") {
			helperFlagged = true
		}
	}
	if !helperFlagged {
		return fmt.Errorf("LCK engine did not trace the unlocked helper call chain (BadHelperWithoutLock -> bump)")
	}
	// REACQ
	fc.Obs = nil
	reacquireAudit(fc, "FX-REACQ", []string{"pkg/fixture/lck"})
	v = verdicts()
	if err := expect("REACQ", v, []string{"BadReacquire"}, []string{"GoodReleaseFirst", "GoodGet", "Len"}); err != nil {
		return err
	}
	// PAN
	fc.Obs = nil
	ifaceEqAudit(fc, "FX-PAN", []string{"pkg/fixture/pan"}, nil)
	uncheckedAssertAudit(fc, "FX-PAN", []string{"pkg/fixture/pan"}, nil)
	v = verdicts()
	if err := expect("PAN", v, []string{"BadEq", "BadAssert", "BadAtomicLoadMixed"}, []string{"GoodEqConst", "GoodEqGuarded", "GoodAssert", "GoodAtomicLoad"}); err != nil {
		return err
	}
	// BND
	fc.Obs = nil
	boundsRule(fc, "FX-BND", []string{"pkg/fixture/bnd"}, 7)
	v = verdicts()
	if err := expect("BND", v, []string{"BadTestBeforeClamp", "BadIndexOtherLength", "BadIndexNoLowerBound", "BadCapBeforeClamp"}, []string{"GoodClamp", "GoodIndex", "GoodLoopWindow", "GoodCapAfterClamp"}); err != nil {
		return err
	}
	if v["GoodClamp"] != "discharged" || v["GoodIndex"] != "discharged" {
		return fmt.Errorf("BND engine did not see the good fixtures (GoodClamp=%q GoodIndex=%q)", v["GoodClamp"], v["GoodIndex"])
	}
	// TNT
	san := map[string]bool{modPath + "/pkg/fixture/tnt.Sanitize": true}
	t := newTnt(fc, san)
	for _, fn := range fc.srcFuncs("pkg/fixture/tnt") {
		name := fn.Name()
		if !strings.HasPrefix(name, "Good") && !strings.HasPrefix(name, "Bad") {
			continue
		}
		res := true
		eachInstr(fn, func(b *ssa.BasicBlock, _ int, ins ssa.Instruction) {
			if r, ok := ins.(*ssa.Return); ok {
				if _, isStr := r.Results[0].Type().Underlying().(*types.Basic); isStr {
					if ok2, _ := t.clean(retVals(r)[0], b); !ok2 {
						res = false
					}
				}
			}
		})
		if strings.HasPrefix(name, "Good") && !res {
			return fmt.Errorf("TNT engine reports the clean fixture %s as tainted: rule is over-eager", name)
		}
		if strings.HasPrefix(name, "Bad") && res {
			return fmt.Errorf("TNT engine reports the tainted fixture %s as clean: rule is dead", name)
		}
	}
	// RGX inclusion
	for _, tc := range []struct {
		re   string
		want bool
	}{
		{`^[A-Za-z][A-Za-z0-9_ (),.]*$`, false},                           // comma and parentheses anywhere
		{`^[A-Za-z][A-Za-z0-9_ .]*(\([0-9 ,]*\)[A-Za-z0-9_ .]*)*$`, true}, // numeric groups only
		{`^[A-Za-z_][A-Za-z0-9_]*$`, true},                                // identifiers
		{`^[A-Z]+(\([0-9]+\))?`, false},                                   // no end anchor
		{`^[A-Z]+\(\(\(\(\([0-9]\)\)\)\)\)$`, false},                      // deeper than the automaton counts
		{`^[A-Z]+(\([0-9]+(,[0-9]+)?\))?( [A-Z]+)*$`, true},               // one optional group, then words
		{`^[A-Z]+\)$`, false},                                             // closes what it did not open
	} {
		got, why := regexIncludedIn(tc.re, ddlFragmentDFA())
		if got != tc.want {
			return fmt.Errorf("RGX inclusion engine: pattern %s expected included=%v, got %v (%s)", tc.re, tc.want, got, why)
		}
	}
	return nil
}
