package main

import (
	"go/token"
	"sort"
	"strings"

	"golang.org/x/tools/go/ssa"
)

// C11-R10: the parser and the server agree on the vocabulary of window units.
//
// The server turns the declared unit into a rate with a switch over spellings; a
// spelling it does not know falls into an arm that was written for something
// else. So (a) parseRateLimit lets a declaration through only over the accepting
// edge of a test of the window text against a closed set of constants, and (b)
// every member of that set is a spelling the server's dispatch compares against,
// after the same normalisation (case, blanks) the parser applied when testing.
func checkWindowVocabulary(c *Ctx) {
	const rule = "C11-R10"
	c.rule(rule, "EXH/MPT writer-reader agreement: parseRateLimit returns a RateLimit only over the accepting edge of a test of the window text against a closed set of constant spellings (every other spelling is a parse error), every member of that set is compared against by the window dispatch of cmd/glyph.rateLimitMiddleware (directly or in a helper it calls), and the dispatch normalises the text at least as the parser's test did: no declared unit reaches an arm of the server that was written for another unit")
	pf := c.mustFn(rule, "pkg/parser", "Parser.parseRateLimit")
	sf := c.mustFn(rule, "cmd/glyph", "rateLimitMiddleware")
	if pf == nil || sf == nil {
		return
	}
	c.touched(pf)
	c.touched(sf)

	// what is stored into RateLimit.Window
	var stored []ssa.Value
	eachInstr(pf, func(_ *ssa.BasicBlock, _ int, ins ssa.Instruction) {
		if st, ok := ins.(*ssa.Store); ok && isStoreToField(ins, "RateLimit", "Window") {
			stored = append(stored, st.Val)
		}
	})
	if len(stored) == 0 {
		c.ob(rule, fnKey(pf)+"#window-stored", pf.Pos(), false, "parseRateLimit stores nothing into RateLimit.Window")
		return
	}
	isStored := func(v ssa.Value) bool {
		for _, s := range stored {
			if v == s {
				return true
			}
		}
		return false
	}
	// leaves of the stored value (the phi of the quoted and the bare form)
	relatesToWindow := func(v ssa.Value) bool {
		if derivesFrom(v, isStored) {
			return true
		}
		for _, s := range stored {
			if derivesFrom(s, func(x ssa.Value) bool { return x == v }) {
				return true
			}
		}
		return false
	}

	// success returns
	var succ []*ssa.BasicBlock
	for _, b := range pf.Blocks {
		if len(b.Instrs) == 0 {
			continue
		}
		if r, ok := b.Instrs[len(b.Instrs)-1].(*ssa.Return); ok && len(r.Results) == 2 && isNilConst(r.Results[1]) && !isNilConst(r.Results[0]) {
			succ = append(succ, b)
		}
	}
	reach := func(from *ssa.BasicBlock) map[*ssa.BasicBlock]bool {
		seen := map[*ssa.BasicBlock]bool{}
		var w func(b *ssa.BasicBlock)
		w = func(b *ssa.BasicBlock) {
			if seen[b] {
				return
			}
			seen[b] = true
			for _, s := range b.Succs {
				w(s)
			}
		}
		w(from)
		return seen
	}

	type vocab struct {
		set   map[string]bool
		norms map[string]bool
	}
	// collect string constants compared with == (switch cases), keys of package-level
	// map literals looked up, and strings.* normalisers called, in fn and the module
	// functions it calls (depth 2)
	var collect func(fn *ssa.Function, d int, seen map[*ssa.Function]bool, out *vocab)
	collect = func(fn *ssa.Function, d int, seen map[*ssa.Function]bool, out *vocab) {
		if fn == nil || seen[fn] || d > 2 || fn.Blocks == nil {
			return
		}
		seen[fn] = true
		eachInstr(fn, func(_ *ssa.BasicBlock, _ int, ins ssa.Instruction) {
			switch x := ins.(type) {
			case *ssa.BinOp:
				if x.Op == token.EQL || x.Op == token.NEQ {
					if s, ok := constString(x.X); ok {
						out.set[s] = true
					}
					if s, ok := constString(x.Y); ok {
						out.set[s] = true
					}
				}
			case *ssa.Lookup:
				if u, ok := x.X.(*ssa.UnOp); ok && u.Op == token.MUL {
					if g, ok := u.X.(*ssa.Global); ok && g.Pkg != nil {
						if init := g.Pkg.Func("init"); init != nil {
							eachInstr(init, func(_ *ssa.BasicBlock, _ int, in2 ssa.Instruction) {
								mu, ok := in2.(*ssa.MapUpdate)
								if !ok {
									return
								}
								for _, r := range refs(mu.Map) {
									if st, ok := r.(*ssa.Store); ok && st.Addr == ssa.Value(g) && st.Val == mu.Map {
										if s, ok := constString(mu.Key); ok {
											out.set[s] = true
										}
									}
								}
							})
						}
					}
				}
			}
			if call, ok := ins.(ssa.CallInstruction); ok {
				if f := calleeOf(call); f != nil && f.Pkg() != nil {
					if f.Pkg().Path() == "strings" {
						switch f.Name() {
						case "ToLower", "ToUpper", "EqualFold":
							out.norms["case"] = true
						case "TrimSpace", "Trim":
							out.norms["blanks"] = true
						}
					} else if strings.HasPrefix(f.Pkg().Path(), modPath) {
						collect(staticFn(call), d+1, seen, out)
					}
				}
			}
		})
	}

	// (a) the closing test in the parser
	var closing *ssa.If
	pv := &vocab{set: map[string]bool{}, norms: map[string]bool{}}
	for _, b := range pf.Blocks {
		iff := ifOf(b)
		if iff == nil || len(succ) == 0 {
			continue
		}
		dom := true
		for _, s := range succ {
			if !b.Dominates(s) {
				dom = false
			}
		}
		if !dom {
			continue
		}
		rejects := 0
		for _, s := range b.Succs {
			r := reach(s)
			any := false
			for _, sb := range succ {
				if r[sb] {
					any = true
				}
			}
			if !any {
				rejects++
			}
		}
		if rejects != 1 {
			continue
		}
		// the condition speaks about the window text
		v := &vocab{set: map[string]bool{}, norms: map[string]bool{}}
		about := false
		var walk func(x ssa.Value, d int)
		seenV := map[ssa.Value]bool{}
		walk = func(x ssa.Value, d int) {
			if x == nil || seenV[x] || d > 6 {
				return
			}
			seenV[x] = true
			switch y := x.(type) {
			case *ssa.Call:
				for _, a := range y.Call.Args {
					if relatesToWindow(a) {
						about = true
					}
				}
				if f := calleeOf(y); f != nil && f.Pkg() != nil && strings.HasPrefix(f.Pkg().Path(), modPath) {
					collect(staticFn(y), 1, map[*ssa.Function]bool{}, v)
				} else if f != nil && f.Pkg() != nil && f.Pkg().Path() == "strings" {
					for _, a := range y.Call.Args {
						walk(a, d+1)
					}
				}
			case *ssa.BinOp:
				if y.Op == token.EQL || y.Op == token.NEQ {
					if s, ok := constString(y.X); ok && relatesToWindow(y.Y) {
						v.set[s], about = true, true
					}
					if s, ok := constString(y.Y); ok && relatesToWindow(y.X) {
						v.set[s], about = true, true
					}
				}
				walk(y.X, d+1)
				walk(y.Y, d+1)
			case *ssa.UnOp:
				walk(y.X, d+1)
			case *ssa.Phi:
				for _, e := range y.Edges {
					walk(e, d+1)
				}
			}
		}
		walk(iff.Cond, 0)
		if about && len(v.set) > 0 {
			closing = iff
			pv = v
			break
		}
	}
	c.ob(rule, fnKey(pf)+"#window-vocabulary-is-closed", pf.Pos(), closing != nil, "parseRateLimit hands out a RateLimit for any window text: no test of the unit against a closed set of spellings lies on the way to the successful return, so a unit the server does not know (hours, week, a typo) is enforced by whatever arm the server's dispatch falls into - ratelimit(10/hours) admits 10 per minute, sixty times the declared rate")
	if closing == nil {
		return
	}
	delete(pv.set, "")
	// a canonicalising parser: if what is stored went through the tested normalisation, the server need not repeat it
	storedNormalised := map[string]bool{}
	for _, s := range stored {
		if derivesFrom(s, func(x ssa.Value) bool {
			call, ok := x.(*ssa.Call)
			if !ok {
				return false
			}
			f := calleeOf(call)
			return f != nil && f.Pkg() != nil && f.Pkg().Path() == "strings" && (f.Name() == "ToLower" || f.Name() == "ToUpper")
		}) {
			storedNormalised["case"] = true
		}
		if derivesFrom(s, func(x ssa.Value) bool {
			call, ok := x.(*ssa.Call)
			if !ok {
				return false
			}
			f := calleeOf(call)
			return f != nil && f.Pkg() != nil && f.Pkg().Path() == "strings" && (f.Name() == "TrimSpace" || f.Name() == "Trim")
		}) {
			storedNormalised["blanks"] = true
		}
	}

	// (b) the server's dispatch
	sv := &vocab{set: map[string]bool{}, norms: map[string]bool{}}
	collect(sf, 0, map[*ssa.Function]bool{}, sv)
	var sp []string
	for s := range pv.set {
		sp = append(sp, s)
	}
	sort.Strings(sp)
	for _, s := range sp {
		c.ob(rule, fnKey(sf)+"#accepted-window:"+s, sf.Pos(), sv.set[s], "the parser accepts the window unit '"+s+"' but the server's dispatch never compares against it: the declaration is enforced by the arm the dispatch falls into, at another unit's rate")
	}
	for _, n := range []string{"case", "blanks"} {
		if pv.norms[n] && !storedNormalised[n] {
			c.ob(rule, fnKey(sf)+"#dispatch-normalises-"+n, sf.Pos(), sv.norms[n], "the parser tests the window text after folding "+n+" but stores it as written, and the server's dispatch compares it without that folding: a unit the parser accepted (\"Hour\", \" hour\") matches no arm of the server and is enforced at another unit's rate")
		}
	}
	c.Sites[rule+"#accepted-spellings"] = len(sp)
	c.floor(rule, 4)
}
