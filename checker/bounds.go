package main

// BND engine: order facts from dominating branch edges, used to decide that the bounds of a slice
// expression (and the length of a make) computed from run-time integers cannot be out of range.

import (
	"go/constant"
	"go/token"
	"go/types"

	"golang.org/x/tools/go/ssa"
)

// term: an SSA value (modulo integer conversions), or len(lenOf) when lenOf != nil.
type term struct {
	v     ssa.Value
	lenOf ssa.Value
}

func stripIntConv(v ssa.Value) ssa.Value {
	for {
		switch x := v.(type) {
		case *ssa.Convert:
			if bt, ok := x.X.Type().Underlying().(*types.Basic); ok && bt.Info()&types.IsInteger != 0 {
				if rt, ok := x.Type().Underlying().(*types.Basic); ok && rt.Info()&types.IsInteger != 0 {
					v = x.X
					continue
				}
			}
			return v
		case *ssa.ChangeType:
			v = x.X
			continue
		}
		return v
	}
}

func lenArg(v ssa.Value) ssa.Value {
	v = stripIntConv(v)
	if call, ok := v.(*ssa.Call); ok {
		if b, ok := call.Call.Value.(*ssa.Builtin); ok && b.Name() == "len" {
			return call.Call.Args[0]
		}
	}
	return nil
}

func sameSeq(a, b ssa.Value) bool {
	if a == b || sameVal(a, b) {
		return true
	}
	return false
}

func termEq(t term, y ssa.Value) bool {
	y = stripIntConv(y)
	if t.lenOf != nil {
		if la := lenArg(y); la != nil && sameSeq(la, t.lenOf) {
			return true
		}
		return false
	}
	x := stripIntConv(t.v)
	if x == y || sameVal(x, y) {
		return true
	}
	if cx, ok := x.(*ssa.Const); ok {
		if cy, ok := y.(*ssa.Const); ok && cx.Value != nil && cy.Value != nil && cx.Value.Kind() == constant.Int && cy.Value.Kind() == constant.Int {
			return constant.Compare(cx.Value, token.EQL, cy.Value)
		}
	}
	if la, lb := lenArg(x), lenArg(y); la != nil && lb != nil && sameSeq(la, lb) {
		return true
	}
	return false
}

type leFact struct {
	p, q   ssa.Value // p <= q
	strict bool      // p < q
}

// edgeFacts: what the branch at the end of `from` says when control moves to its successor number si.
func edgeFacts(from *ssa.BasicBlock, si int) []leFact {
	iff := ifOf(from)
	if iff == nil {
		return nil
	}
	truth := si == 0
	cond := iff.Cond
	for {
		u, ok := cond.(*ssa.UnOp)
		if !ok || u.Op != token.NOT {
			break
		}
		cond = u.X
		truth = !truth
	}
	bo, ok := cond.(*ssa.BinOp)
	if !ok {
		return nil
	}
	x, y := bo.X, bo.Y
	switch bo.Op {
	case token.LSS:
		if truth {
			return []leFact{{x, y, true}}
		}
		return []leFact{{y, x, false}}
	case token.LEQ:
		if truth {
			return []leFact{{x, y, false}}
		}
		return []leFact{{y, x, true}}
	case token.GTR:
		if truth {
			return []leFact{{y, x, true}}
		}
		return []leFact{{x, y, false}}
	case token.GEQ:
		if truth {
			return []leFact{{y, x, false}}
		}
		return []leFact{{x, y, true}}
	case token.EQL:
		if truth {
			return []leFact{{x, y, false}, {y, x, false}}
		}
	case token.NEQ:
		if !truth {
			return []leFact{{x, y, false}, {y, x, false}}
		}
	}
	return nil
}

// factsAt: facts from every branch edge that dominates entry to blk.
func factsAt(blk *ssa.BasicBlock) []leFact {
	var out []leFact
	for x := blk; x != nil; x = x.Idom() {
		p := x.Idom()
		if p == nil {
			break
		}
		if len(x.Preds) != 1 || x.Preds[0] != p {
			continue
		}
		for si, s := range p.Succs {
			if s == x && !(len(p.Succs) == 2 && p.Succs[0] == p.Succs[1]) {
				out = append(out, edgeFacts(p, si)...)
			}
		}
	}
	return out
}

type bnd struct {
	inProgress map[[4]ssa.Value]int
}

// le: a <= b holds whenever control is at the start of blk (extra: facts of the edge used to get there).
func (e *bnd) le(a, b term, blk *ssa.BasicBlock, extra []leFact, d int) bool {
	if d > 8 {
		return false
	}
	// induction over loop phis: a goal met again while it is being proven is the induction hypothesis
	key := [4]ssa.Value{a.v, a.lenOf, b.v, b.lenOf}
	if e.inProgress == nil {
		e.inProgress = map[[4]ssa.Value]int{}
	}
	if e.inProgress[key] > 0 {
		return true
	}
	// (only goals whose phi is being unfolded are ever marked: see the phi cases below; a cycle through
	// transitive facts alone never meets a marked goal)
	// identical
	if a.lenOf == nil && termEq(b, a.v) {
		return true
	}
	if a.lenOf != nil && b.lenOf != nil && sameSeq(a.lenOf, b.lenOf) {
		return true
	}
	// constants
	if a.lenOf == nil && b.lenOf == nil {
		if ca, ok := stripIntConv(a.v).(*ssa.Const); ok {
			if cb, ok := stripIntConv(b.v).(*ssa.Const); ok && ca.Value != nil && cb.Value != nil {
				return constant.Compare(ca.Value, token.LEQ, cb.Value)
			}
		}
	}
	// 0 <= len(x), and const<=0 <= len
	if b.lenOf != nil && a.lenOf == nil {
		if ca, ok := stripIntConv(a.v).(*ssa.Const); ok && ca.Value != nil && constant.Sign(ca.Value) <= 0 {
			return true
		}
	}
	// 0 <= unsigned / 0 <= len call value
	if a.lenOf == nil && b.lenOf == nil {
		if ca, ok := stripIntConv(a.v).(*ssa.Const); ok && ca.Value != nil && constant.Sign(ca.Value) <= 0 {
			if lenArg(b.v) != nil {
				return true
			}
			if bt, ok := stripIntConv(b.v).Type().Underlying().(*types.Basic); ok && bt.Info()&types.IsUnsigned != 0 {
				return true
			}
		}
	}
	facts := append(factsAt(blk), extra...)
	for _, f := range facts {
		if termEq(a, f.p) && termEq(b, f.q) {
			return true
		}
	}
	// one transitive step through a fact: a <= q and q <= b
	for _, f := range facts {
		if termEq(a, f.p) && d < 3 {
			if e.le(term{v: f.q}, b, blk, extra, d+4) {
				return true
			}
		}
	}
	// phis: every incoming value, with the facts of its edge
	if a.lenOf == nil {
		if phi, ok := stripIntConv(a.v).(*ssa.Phi); ok {
			all := true
			e.inProgress[key]++
			defer func() { e.inProgress[key]-- }()
			for i, ev := range phi.Edges {
				pred := phi.Block().Preds[i]
				var ef []leFact
				for si, s := range pred.Succs {
					if s == phi.Block() && !(len(pred.Succs) == 2 && pred.Succs[0] == pred.Succs[1]) {
						ef = edgeFacts(pred, si)
					}
				}
				if !e.le(term{v: ev}, b, pred, ef, d+1) {
					all = false
					break
				}
			}
			if all {
				return true
			}
		}
		// a = x - k (k >= 0 const) with x <= b ; a = min-like not handled
		if bo, ok := stripIntConv(a.v).(*ssa.BinOp); ok && bo.Op == token.SUB {
			if k, ok := constInt(bo.Y); ok && k >= 0 && e.le(term{v: bo.X}, b, blk, extra, d+1) {
				return true
			}
		}
	}
	if b.lenOf == nil {
		if phi, ok := stripIntConv(b.v).(*ssa.Phi); ok {
			all := true
			e.inProgress[key]++
			defer func() { e.inProgress[key]-- }()
			for i, ev := range phi.Edges {
				pred := phi.Block().Preds[i]
				var ef []leFact
				for si, s := range pred.Succs {
					if s == phi.Block() && !(len(pred.Succs) == 2 && pred.Succs[0] == pred.Succs[1]) {
						ef = edgeFacts(pred, si)
					}
				}
				if !e.le(a, term{v: ev}, pred, ef, d+1) {
					all = false
					break
				}
			}
			if all {
				return true
			}
		}
		// b = x + k (k >= 0 const) with a <= x
		if bo, ok := stripIntConv(b.v).(*ssa.BinOp); ok && bo.Op == token.ADD {
			if k, ok := constInt(bo.Y); ok && k >= 0 && e.le(a, term{v: bo.X}, blk, extra, d+1) {
				return true
			}
		}
	}
	return false
}

// lt: a < b at the start of blk: a strict dominating fact, or every incoming value of a phi.
func (e *bnd) lt(a, b term, blk *ssa.BasicBlock, extra []leFact, d int) bool {
	if d > 6 {
		return false
	}
	for _, f := range append(factsAt(blk), extra...) {
		if f.strict && termEq(a, f.p) && termEq(b, f.q) {
			return true
		}
	}
	// a < q <= b  or  a <= q < b  (loop header `i < end` with end <= len(x))
	if d < 3 {
		for _, f := range append(factsAt(blk), extra...) {
			if !termEq(a, f.p) {
				continue
			}
			if f.strict && e.le(term{v: f.q}, b, blk, extra, d+4) {
				return true
			}
			if !f.strict && e.lt(term{v: f.q}, b, blk, extra, d+4) {
				return true
			}
		}
	}
	if a.lenOf == nil {
		if phi, ok := stripIntConv(a.v).(*ssa.Phi); ok {
			for i, ev := range phi.Edges {
				pred := phi.Block().Preds[i]
				var ef []leFact
				for si, s := range pred.Succs {
					if s == phi.Block() && !(len(pred.Succs) == 2 && pred.Succs[0] == pred.Succs[1]) {
						ef = edgeFacts(pred, si)
					}
				}
				if !e.lt(term{v: ev}, b, pred, ef, d+1) {
					return false
				}
			}
			return true
		}
		// a = x - k (k > 0) with x <= b
		if bo, ok := stripIntConv(a.v).(*ssa.BinOp); ok && bo.Op == token.SUB {
			if k, ok := constInt(bo.Y); ok && k > 0 && e.le(term{v: bo.X}, b, blk, extra, d+1) {
				return true
			}
		}
	}
	return false
}

// runtimeInt: v derives from an integer supplied by the running program: a type assertion on a dynamic
// value, or the payload field of a VM value.
func runtimeInt(v ssa.Value) bool {
	num := func(t types.Type) bool {
		bt, ok := t.Underlying().(*types.Basic)
		return ok && bt.Info()&(types.IsInteger|types.IsFloat) != 0
	}
	seen := map[ssa.Value]bool{}
	var walk func(v ssa.Value, d int) bool
	walk = func(v ssa.Value, d int) bool {
		if v == nil || seen[v] || d > 30 {
			return false
		}
		seen[v] = true
		switch y := v.(type) {
		case *ssa.Parameter:
			// provider mode: the integer parameters of exported methods are supplied by the running program
			// (CallMethod hands GlyphLang integers to them through reflection)
			if bndParamSources && num(y.Type()) && y.Parent() != nil && y.Parent().Object() != nil && y.Parent().Object().Exported() && y.Parent().Signature.Recv() != nil {
				return true
			}
			return false
		case *ssa.TypeAssert:
			return num(y.AssertedType)
		case *ssa.Extract:
			if ta, ok := y.Tuple.(*ssa.TypeAssert); ok && y.Index == 0 {
				return num(ta.AssertedType)
			}
			if cl, ok := y.Tuple.(*ssa.Call); ok && wideRuntimeInt {
				return walk(cl, d+1)
			}
			return false
		case *ssa.Field:
			f := y.X.Type().Underlying().(*types.Struct).Field(y.Field)
			return f.Name() == "Val" && num(f.Type())
		case *ssa.Convert:
			return walk(y.X, d+1)
		case *ssa.ChangeType:
			return walk(y.X, d+1)
		case *ssa.BinOp:
			return walk(y.X, d+1) || walk(y.Y, d+1)
		case *ssa.Phi:
			for _, e := range y.Edges {
				if walk(e, d+1) {
					return true
				}
			}
		case *ssa.UnOp:
			if y.Op == token.SUB {
				return walk(y.X, d+1)
			}
			if y.Op == token.MUL {
				switch a := y.X.(type) {
				case *ssa.FieldAddr:
					f := a.X.Type().Underlying().(*types.Pointer).Elem().Underlying().(*types.Struct).Field(a.Field)
					return f.Name() == "Val" && num(f.Type())
				case *ssa.Alloc:
					for _, r := range refs(a) {
						if st, ok := r.(*ssa.Store); ok && st.Addr == ssa.Value(a) && walk(st.Val, d+1) {
							return true
						}
					}
				}
			}
		case *ssa.Call:
			if f := calleeOf(y); f != nil && f.Pkg() != nil && f.Pkg().Path() == "strconv" && wideRuntimeInt {
				return true
			}
			if f := calleeOf(y); f != nil && f.Pkg() != nil && f.Pkg().Path() == "math" {
				for _, a := range y.Call.Args {
					if walk(a, d+1) {
						return true
					}
				}
			}
		}
		return false
	}
	return walk(v, 0)
}

// wideRuntimeInt also treats strconv results as run-time integers (exploration of other packages).
var wideRuntimeInt = false

// bndParamSources: integer parameters of exported methods count as run-time integers (provider packages).
var bndParamSources = false

type sliceSite struct {
	fn   *ssa.Function
	ins  ssa.Instruction
	what string
	ok   bool
	why  string
}

// sliceBoundsAudit lists every slice expression / make in rels whose bound derives from a run-time integer
// and decides 0 <= low <= high <= len(x) (resp. len >= 0) from dominating comparisons.
func sliceBoundsAudit(c *Ctx, rels []string) []sliceSite {
	var out []sliceSite
	e := &bnd{}
	zero := func(t types.Type) ssa.Value { return ssa.NewConst(constant.MakeInt64(0), types.Typ[types.Int]) }
	for _, rel := range rels {
		for _, fn := range c.srcFuncs(rel) {
			eachInstr(fn, func(b *ssa.BasicBlock, _ int, ins ssa.Instruction) {
				switch x := ins.(type) {
				case *ssa.Slice:
					if (x.Low == nil || !runtimeInt(x.Low)) && (x.High == nil || !runtimeInt(x.High)) {
						return
					}
					if _, isPtr := x.X.Type().Underlying().(*types.Pointer); isPtr {
						return // slicing an array pointer: bounds are compile-time sized arrays
					}
					st := sliceSite{fn: fn, ins: ins, what: "slice", ok: true}
					lenX := term{lenOf: x.X}
					if x.High != nil {
						if !e.le(term{v: x.High}, lenX, b, nil, 0) {
							st.ok, st.why = false, "high bound is not proven <= len of the sliced value"
						}
					}
					if x.Low != nil && st.ok {
						if _, isC := x.Low.(*ssa.Const); !isC {
							if !e.le(term{v: zero(nil)}, term{v: x.Low}, b, nil, 0) {
								st.ok, st.why = false, "low bound is not proven >= 0"
							}
						}
						if st.ok {
							hi := lenX
							if x.High != nil {
								hi = term{v: x.High}
							}
							if !e.le(term{v: x.Low}, hi, b, nil, 0) {
								st.ok, st.why = false, "low bound is not proven <= high bound"
							}
						}
					}
					out = append(out, st)
				case *ssa.IndexAddr, *ssa.Index, *ssa.Lookup:
					var seq, idx ssa.Value
					switch y := x.(type) {
					case *ssa.IndexAddr:
						seq, idx = y.X, y.Index
					case *ssa.Index:
						seq, idx = y.X, y.Index
					case *ssa.Lookup:
						if _, isMap := y.X.Type().Underlying().(*types.Map); isMap {
							return
						}
						seq, idx = y.X, y.Index
					}
					if !runtimeInt(idx) {
						return
					}
					st := sliceSite{fn: fn, ins: ins, what: "index", ok: true}
					if !e.le(term{v: zero(nil)}, term{v: idx}, b, nil, 0) {
						st.ok, st.why = false, "index is not proven >= 0"
					} else if !e.lt(term{v: idx}, term{lenOf: seq}, b, nil, 0) {
						st.ok, st.why = false, "index is not proven < len of the indexed value"
					}
					out = append(out, st)
				case *ssa.MakeSlice:
					for _, sz := range []struct {
						v    ssa.Value
						what string
					}{{x.Len, "length"}, {x.Cap, "capacity"}} {
						if sz.v == nil || !runtimeInt(sz.v) {
							continue
						}
						st := sliceSite{fn: fn, ins: ins, what: "make", ok: true}
						ln := stripIntConv(sz.v)
						// (a - b) + k with a constant k >= 0 is non-negative when b <= a
						for {
							bo, ok := ln.(*ssa.BinOp)
							if !ok || bo.Op != token.ADD {
								break
							}
							if k, isK := constInt(bo.Y); isK && k >= 0 {
								ln = stripIntConv(bo.X)
								continue
							}
							if k, isK := constInt(bo.X); isK && k >= 0 {
								ln = stripIntConv(bo.Y)
								continue
							}
							break
						}
						if bo, ok := ln.(*ssa.BinOp); ok && bo.Op == token.SUB {
							if !e.le(term{v: bo.Y}, term{v: bo.X}, b, nil, 0) {
								st.ok, st.why = false, sz.what+" a-b with b not proven <= a (a negative "+sz.what+" panics)"
							}
						} else if lenArg(ln) == nil {
							if !e.le(term{v: zero(nil)}, term{v: ln}, b, nil, 0) {
								st.ok, st.why = false, sz.what+" is not proven >= 0"
							}
						}
						out = append(out, st)
					}
				}
			})
		}
	}
	return out
}
